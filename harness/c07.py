"""C07 - exactly the selected API operations are tested, in every phase.

spec/Filters.tla enumerates include / exclude filter sets over a small operation universe through each front door (python API,
command-line arguments, lazy fixture schemas) together with the expected selection, statistic and link counts.  Every element is
built with the real schemathesis API and observed at every site that decides selection: get_all_operations(), statistic,
as_state_machine(); stratified samples additionally run under a real pytest process (eager and lazy parametrisation), through the
real engine and through the real CLI against the loopback server, whose request log is the ground truth.  All observations are
judged by TLC (spec/FiltersJudge.tla).
"""
from __future__ import annotations

import json
import os
import random
import re
import subprocess
import sys
import time

from . import common, tlc
from .common import Ctx, Outcome, Violation

_state: dict = {}
_CAT: dict = {}
PY = sys.executable


def text(t) -> str:
    return "".join(t)


# ---------------------------------------------------------------------------------------------------
# spec -> code
# ---------------------------------------------------------------------------------------------------
def labels(cat: dict) -> list[str]:
    return ["%s %s" % (text(o["method"]).upper(), text(o["path"])) for o in cat["ops"]]


def build_raw(cat: dict, dialect: str = "oas30") -> dict:
    """Document of the universe in the given dialect (OpenAPI 3.0 / 3.1 / Swagger 2.0): /u and /u/{id} are shared path items
    (several methods, path-level parameters), /s1 and /s2 reach one path item through the same $ref, `PUT` in upper case is not
    an operation of the document; links are written inline, as a $ref to a reusable link, or inside a $ref'd response; an
    operation's own query parameters (`params`) are written in place or as a $ref to a reusable parameter object."""
    ops = cat["ops"]
    v2 = dialect == "swagger20"
    links_key = "x-links" if v2 else "links"
    body_schema = {"type": "object", "properties": {"n": {"type": "integer"}}, "required": ["n"], "additionalProperties": False}
    shared_links: dict = {}
    shared_responses: dict = {}
    shared_params: dict = {}

    def parameter(par: dict) -> dict:
        name = text(par["name"])
        typ = {"type": "boolean" if name == "force" else "integer"}
        obj = dict({"name": name, "in": "query"}, **(typ if v2 else {"schema": typ}))
        if par["via"] == "ref":
            shared_params[name.capitalize()] = obj
            return {"$ref": ("#/parameters/%s" if v2 else "#/components/parameters/%s") % name.capitalize()}
        return obj

    def definition(i: int) -> dict:
        op = ops[i]
        d: dict = {"responses": {"200": {"description": "ok"}}}
        if op["tags"]:
            d["tags"] = [text(t) for t in op["tags"]]
        if op["opid"]:
            d["operationId"] = text(op["opid"])
        if op["depr"] != "absent":
            d["deprecated"] = op["depr"] == "true"
        if op.get("params"):
            d["parameters"] = [parameter(par) for par in op["params"]]
        if text(op["method"]) in ("post", "patch"):
            if v2:
                d.setdefault("parameters", []).append({"name": "payload", "in": "body", "required": True, "schema": body_schema})
                d["consumes"] = ["application/json"]
            else:
                d["requestBody"] = {"required": True, "content": {"application/json": {"schema": body_schema}}}
        lk = {}
        via_response = False
        for n, link in enumerate(cat["links"], 1):
            if link["src"] != i + 1:
                continue
            tgt = ops[link["tgt"] - 1]
            ref = ({"operationId": text(tgt["opid"])} if link["by"] == "operationId" else
                   {"operationRef": "#/paths/%s/%s" % (text(tgt["path"]).replace("~", "~0").replace("/", "~1"), text(tgt["method"]))})
            expr = "$request.path.id" if "{id}" in text(op["path"]) else (
                "$response.body#/0/id" if text(op["method"]) == "get" else "$response.body#/id")
            obj = dict(ref, parameters={"id": expr})
            via = link.get("via", "inline")
            if via == "ref-link":
                shared_links["Link%d" % n] = obj
                obj = {"$ref": ("#/x-link-defs/Link%d" if v2 else "#/components/links/Link%d") % n}
            elif via == "ref-response":
                via_response = True
            lk["link%d" % n] = obj
        if lk:
            if via_response:
                shared_responses["Linked%d" % i] = {"description": "ok", links_key: lk}
                d["responses"]["200"] = {"$ref": ("#/responses/Linked%d" if v2 else "#/components/responses/Linked%d") % i}
            else:
                d["responses"]["200"][links_key] = lk
        return d

    paths: dict = {}
    shared: dict = {}
    id_param = {"name": "id", "in": "path", "required": True}
    id_param.update({"type": "integer", "minimum": 0, "maximum": 9} if v2 else {"schema": {"type": "integer", "minimum": 0, "maximum": 9}})
    for i, op in enumerate(ops):
        p, m = text(op["path"]), text(op["method"])
        if op["shared"]:
            shared.setdefault(m, definition(i))
            paths[p] = {"$ref": "#/x-path-items/Shared" if v2 else "#/components/x-path-items/Shared"}
        else:
            item = paths.setdefault(p, {})
            if "{id}" in p and "parameters" not in item:
                item["parameters"] = [id_param]
            item[m] = definition(i)
    paths["/u"]["PUT"] = {"responses": {"200": {"description": "upper-case key: not an operation"}}}
    info = {"title": "c07", "version": "1"}
    if v2:
        return {"swagger": "2.0", "info": info, "basePath": "/", "paths": paths, "x-path-items": {"Shared": shared},
                "x-link-defs": shared_links, "responses": shared_responses, "parameters": shared_params}
    return {"openapi": "3.1.0" if dialect == "oas31" else "3.0.2", "info": info, "paths": paths,
            "components": {"x-path-items": {"Shared": shared}, "links": shared_links, "responses": shared_responses,
                           "parameters": shared_params}}


def regex_of(how: str, lit: str) -> str:
    lit = re.escape(lit)
    return {"prefix": "^" + lit, "suffix": lit + "$", "infix": lit, "exact": "^" + lit + "$"}[how]


def expr_of(a: dict) -> str:
    ptr = text(a["vs"][0])
    return {"eq_str": '%s == "%s"' % (ptr, text(a["v"])), "ne_str": '%s != "%s"' % (ptr, text(a["v"])),
            "eq_raw": "%s == %s" % (ptr, text(a["v"])),
            "eq_true": "%s == true" % ptr, "ne_true": "%s != true" % ptr}[a["how"]]


def py_call(fdef: list[dict], rx: str = "text") -> dict:
    """kwargs of one schema.include(...) / exclude(...) call for a catalogue filter (deprecated -> {"deprecated": True});
    rx = "compiled": regular expressions are passed as compiled patterns."""
    kw: dict = {}
    for a in fdef:
        by, how = a["by"], a["how"]
        if by == "deprecated":
            kw["deprecated"] = True
        elif by == "expr":
            kw["__expr__"] = expr_of(a)
        elif how == "value":
            kw[by] = text(a["v"])
        elif how == "list":
            kw[by] = [text(v) for v in a["vs"]]
        else:
            kw[by + "_regex"] = re.compile(regex_of(how, text(a["v"]))) if rx == "compiled" else regex_of(how, text(a["v"]))
    return kw


def cli_arguments(cat: dict, incl: list[int], excl: list[int]) -> tuple[dict, list[str]]:
    """FilterArguments fields and the equivalent command-line for a CLI-expressible filter set."""
    fields: dict = {}
    for mode in ("include", "exclude"):
        for by in ("path", "method", "name", "tag", "operation_id"):
            fields["%s_%s" % (mode, by)] = []
            fields["%s_%s_regex" % (mode, by)] = None
        fields["%s_by" % mode] = None
    fields["exclude_deprecated"] = False
    argv: list[str] = []
    for mode, ids in (("include", incl), ("exclude", excl)):
        for f in ids:
            (a,) = cat["filters"][f - 1]
            by, how = a["by"], a["how"]
            flag = "--%s-%s" % (mode, by.replace("_", "-"))
            if by == "deprecated":
                fields["exclude_deprecated"] = True
                argv.append("--exclude-deprecated")
            elif by == "expr":
                fields["%s_by" % mode] = expr_of(a)
                argv += ["--%s-by" % mode, expr_of(a)]
            elif how == "value":
                fields["%s_%s" % (mode, by)].append(text(a["v"]))
                argv += [flag, text(a["v"])]
            else:
                rx = regex_of(how, text(a["v"]))
                fields["%s_%s_regex" % (mode, by)] = rx
                argv += [flag + "-regex", rx]
    return fields, argv


def _setup(cat: dict) -> dict:
    key = id(cat)
    if _state.get("key") != key:
        import schemathesis
        from schemathesis.cli.commands.run.filters import FilterArguments
        from schemathesis.core.result import Ok
        from schemathesis.filters import expression_to_filter_function
        from schemathesis.generation.stateful.state_machine import _normalize_name
        from schemathesis.pytest import lazy

        from .compat import enable_links

        enable_links()
        raws = {d: build_raw(cat, d) for d in ("oas30", "oas31", "swagger20")}
        lab = labels(cat)
        rule_map: dict = {}
        for n, link in enumerate(cat["links"], 1):
            src, tgt = lab[link["src"] - 1], lab[link["tgt"] - 1]
            rule_map[_normalize_name("%s -> 200 -> link%d -> %s" % (src, n, tgt))] = ("link", link["src"], link["tgt"])
        for o, l in enumerate(lab, 1):
            rule_map[_normalize_name("RANDOM -> " + l)] = ("root", o, o)
        _state.clear()
        _state.update(key=key, raws=raws, labels=lab, schemathesis=schemathesis, FilterArguments=FilterArguments, Ok=Ok,
                      expr=expression_to_filter_function, lazy=lazy, rule_map=rule_map)
    return _state


def _element_seed(case: dict) -> int:
    import zlib

    return zlib.crc32(json.dumps([case["door"], case["base"], case["incl"], case["excl"]]).encode())


def _apply(schema, mode: str, kw: dict, st: dict):
    kw = dict(kw)
    e = kw.pop("__expr__", None)
    if e is not None:
        return getattr(schema, mode)(st["expr"](e), **kw)
    return getattr(schema, mode)(**kw)


def build_schema(case: dict, cat: dict, base_url: str | None = None, generation=None):
    """The schema object the given front door produces for the element."""
    st = _setup(cat)
    sch = st["schemathesis"]
    rng = random.Random(_element_seed(case))
    calls = [("include", f) for f in case["incl"]] + [("exclude", f) for f in case["excl"]]
    rng.shuffle(calls)  # the order of filter calls must not matter
    rx = case.get("rx", "text")
    schema = sch.openapi.from_dict(st["raws"][case.get("dialect", "oas30")])
    if base_url:
        schema = schema.configure(base_url=base_url)
    if generation is not None:
        schema = schema.configure(generation=generation)
    if case["door"] == "py":
        for mode, f in calls:
            schema = _apply(schema, mode, py_call(cat["filters"][f - 1], rx), st)
        return schema
    if case["door"] == "cli":
        fields, _ = cli_arguments(cat, case["incl"], case["excl"])
        schema.filter_set = st["FilterArguments"](**fields).into()  # what cli/commands/run/executor.py does after loading
        return schema
    # lazy fixture: the fixture returns a schema that carries its own filters; the lazy schema adds its own
    b = cat["bases"][case["base"] - 1]
    for f in b["incl"]:
        schema = _apply(schema, "include", py_call(cat["filters"][f - 1]), st)
    for f in b["excl"]:
        schema = _apply(schema, "exclude", py_call(cat["filters"][f - 1]), st)
    lazy_schema = sch.pytest.from_fixture("fixture_schema")
    for mode, f in calls:
        lazy_schema = _apply(lazy_schema, mode, py_call(cat["filters"][f - 1], rx), st)

    class Request:  # the only thing lazy.get_schema needs from pytest's request
        def getfixturevalue(self, name):
            assert name == "fixture_schema"
            return schema

    def test_function(case):
        pass

    return st["lazy"].get_schema(request=Request(), name="fixture_schema", filter_set=lazy_schema.filter_set, test_function=test_function)


def vector(cat_labels: list[str], offered) -> tuple[list[int], int]:
    offered = list(offered)
    known = set(cat_labels)
    return [1 if l in offered else 0 for l in cat_labels], sum(1 for l in offered if l not in known)


def observe(case: dict, cat: dict) -> dict:
    """In-process observation of the three decision sites, in an element-dependent order (statistic is cached, the filter
    context object is shared)."""
    st = _setup(cat)
    lab = st["labels"]
    out: dict = {"door": case["door"], "base": case["base"], "incl": case["incl"], "excl": case["excl"], "vecs": [], "stats": [],
                 "pairs": [], "foreign": 0, "smok": False, "note": ""}
    try:
        schema = build_schema(case, cat)
    except Exception as exc:
        # the real API refused a filter set the specification considers well-formed: nothing is offered for testing
        out["vecs"].append({"site": "iter", "exact": True, "vec": [0] * len(lab)})
        out["note"] = "building the filter set raised %s: %s" % (type(exc).__name__, exc)
        return out
    order = ["iter", "stat", "sm"]
    random.Random(_element_seed(case) + 1).shuffle(order)
    got: dict = {}
    for what in order:
        if what == "iter":
            vec, foreign = vector(lab, [r.ok().label for r in schema.get_all_operations() if isinstance(r, st["Ok"])])
            got["iter"] = {"site": "iter", "exact": True, "vec": vec}
            out["foreign"] = foreign
        elif what == "stat":
            s = schema.statistic
            got["stat"] = {"site": "stat", "sel": s.operations.selected, "total": s.operations.total,
                           "lsel": s.links.selected, "ltotal": s.links.total}
        else:
            try:
                machine = schema.as_state_machine()
            except Exception as exc:
                out["note"] = "as_state_machine raised %s: %s" % (type(exc).__name__, exc)
                continue
            out["smok"] = True
            pairs = []
            for source, tr in machine._transitions.operations.items():
                for link in tr.outgoing:
                    pairs.append([lab.index(link.source.label) + 1, lab.index(link.target.label) + 1])
            members = [0] * len(lab)
            unknown = 0
            nlinkrules = 0
            for name, value in vars(machine).items():
                if getattr(value, "hypothesis_stateful_rule", None) is None:
                    continue
                m = st["rule_map"].get(name)
                if m is None:
                    unknown += 1
                    continue
                members[m[1] - 1] = 1
                members[m[2] - 1] = 1
                if m[0] == "link":
                    nlinkrules += 1
            out["pairs"] = sorted(pairs)
            out["foreign"] += unknown
            if nlinkrules != len(pairs):
                out["note"] = "state machine has %d link rules but %d transitions" % (nlinkrules, len(pairs))
                out["foreign"] += 1
            got["sm"] = {"site": "sm-rules", "exact": False, "vec": members}
    out["vecs"] = [got["iter"]] + ([got["sm"]] if "sm" in got else [])
    out["stats"] = [got["stat"]]
    return out


# ---------------------------------------------------------------------------------------------------
# comparison (mirrors FiltersJudge.tla), signatures
# ---------------------------------------------------------------------------------------------------
def disagreements(case: dict, obs: dict) -> set[tuple[str, int, str]]:
    ex, st = case["expect"], case["stat"]
    out: set = set()
    for v in obs["vecs"]:
        for o, (x, e) in enumerate(zip(v["vec"], ex), 1):
            if e == -1:
                continue
            if x == 1 and e == 0:
                out.add((v["site"], o, "leak"))
            elif v["exact"] and x == 0 and e == 1:
                out.add((v["site"], o, "dropped"))
    for s in obs["stats"]:
        for name, got, want in (("ops-selected", s["sel"], st["sel"]), ("ops-total", s["total"], st["total"]),
                                ("links-selected", s["lsel"], st["lsel"]), ("links-total", s["ltotal"], st["ltotal"])):
            if got != -1 and want != -1 and got != want:
                out.add((s["site"], 0, name))
    for a, b in obs["pairs"]:
        if ex[a - 1] == 0:
            out.add(("sm", a, "leak-source"))
        if ex[b - 1] == 0:
            out.add(("sm", b, "leak-target"))
    if obs["smok"] and obs["stats"][0]["lsel"] != len(obs["pairs"]):
        out.add(("sm", 0, "links-offered-vs-reported"))
    if obs["foreign"] > 0:
        out.add(("iter", 0, "foreign"))
    return out


def _kind(fdef: list[dict]) -> str:
    parts = []
    for a in fdef:
        if a["by"] == "deprecated":
            parts.append("deprecated")
        elif a["by"] == "expr":
            parts.append("expr/" + a["how"][:2])
        else:
            parts.append("%s/%s" % (a["by"], a["how"] if a["how"] in ("value", "list") else "regex"))
    return "&".join(sorted(parts))


def _responsible(case: dict, cat: dict, o: int, direction: str) -> str:
    """Kinds of the filters the verdict for operation o hinges on (from the spec's match table, not re-implemented here)."""
    match = cat["match"]
    b = cat["bases"][case["base"] - 1] if case["door"] == "lazy" else {"incl": [], "excl": []}
    incl = [("", f) for f in case["incl"]] + [("fixture-", f) for f in b["incl"]]
    excl = [("", f) for f in case["excl"]] + [("fixture-", f) for f in b["excl"]]
    hits = lambda fs: [(p, f) for p, f in fs if match[f - 1][o - 1] == "T"]
    if direction == "leak":
        resp = [("excl", p, f) for p, f in hits(excl)] or [("incl", p, f) for p, f in incl]
    else:
        resp = [("incl", p, f) for p, f in hits(incl)] if incl else []
        resp = resp or [("excl", p, f) for p, f in excl]
    # a fixture filter stands for "the fixture's own filters", whatever its kind
    return "+".join(sorted({"fixture-filters" if p else "%s[%s]" % (side, _kind(cat["filters"][f - 1])) for side, p, f in resp})) or "none"


def _through_ref(case: dict, cat: dict) -> bool:
    """Feature of the element (from the spec's ThroughRef table): some filter's verdict is read across a $ref inside an operation."""
    table = cat.get("throughref")
    if not table:
        return False
    b = cat["bases"][case["base"] - 1] if case["door"] == "lazy" else {"incl": [], "excl": []}
    return any(any(table[f - 1]) for f in case["incl"] + case["excl"] + b["incl"] + b["excl"])


def signatures(case: dict, obs: dict, cat: dict) -> dict[str, tuple[str, int, str]]:
    """One signature per independent finding of the element: a selection that is wrong at the operation iterator is attributed to
    the front door / matcher ("selection"); another site is reported on its own only where it diverges from the iterator too."""
    dis = disagreements(case, obs)
    out: dict = {}
    it = next(v["vec"] for v in obs["vecs"] if v["site"] == "iter")
    iter_cells = {(o, k) for s, o, k in dis if s == "iter"}
    for site, o, kind in sorted(dis):
        if site == "iter":
            sig = "C07:%s:selection:%s" % (case["door"], kind if o == 0 else "%s:%s" % (kind, _responsible(case, cat, o, kind)))
        elif o and (o, "leak" if kind.startswith("leak") else kind) in iter_cells:
            continue  # consequence of the wrong selection already reported
        elif site in ("stat", "cli-stat") or (site, kind) == ("sm", "links-offered-vs-reported"):
            s = next((x for x in obs["stats"] if x["site"] == site), obs["stats"][0])
            if iter_cells and kind == "ops-selected" and s["sel"] == sum(it):
                continue  # consistent with the (wrongly) selected set
            if iter_cells and kind == "links-selected" and s["lsel"] == sum(
                    1 for l in cat["links"] if it[l["src"] - 1] and it[l["tgt"] - 1]):
                continue
            sig = "C07:%s:%s:%s" % (case["door"], site, kind)
            if not iter_cells and _through_ref(case, cat):
                # the selection is right, the reported counts are not, and a filter of the element reads a part of the operation
                # that the document writes as a $ref: one class whatever the door and whichever count is off
                sig = "C07:statistic:filter-reads-through-ref"
        elif site in ("engine", "cli-run", "pytest", "lazy-pytest"):
            # the selection itself is right (iterator agrees with the spec) but this site diverges: a defect of the site, whatever
            # the filter kind; what matters is whether a sibling operation of the same path item is selected
            path = cat["ops"][o - 1]["path"]
            sibling = any(q != o - 1 and op["path"] == path and it[q] == 1 for q, op in enumerate(cat["ops"]))
            sig = "C07:%s:%s:%s:%s" % (case["door"], site, kind, "sibling-on-same-path-selected" if sibling else "no-selected-sibling")
        else:
            sig = "C07:%s:%s:%s:%s" % (case["door"], site, kind, _responsible(case, cat, o, "leak" if kind.startswith("leak") else kind))
        out.setdefault(sig, (site, o, kind))
    return out


def describe(case: dict, cat: dict) -> str:
    def f(ids):
        return ", ".join(json.dumps(py_call(cat["filters"][i - 1]), sort_keys=True) for i in ids) or "-"
    s = "door=%s dialect=%s regex=%s include=[%s] exclude=[%s]" % (
        case["door"], case.get("dialect", "oas30"), case.get("rx", "text"), f(case["incl"]), f(case["excl"]))
    if case["door"] == "lazy":
        b = cat["bases"][case["base"] - 1]
        s += " fixture include=[%s] exclude=[%s]" % (f(b["incl"]), f(b["excl"]))
    return s


# ---------------------------------------------------------------------------------------------------
# GraphQL (spec/FiltersGraphQL.tla): the same filters on a schema whose operations are Query / Mutation fields
# ---------------------------------------------------------------------------------------------------
def graphql_sdl(gcat: dict) -> str:
    roots: dict = {}
    for op in gcat["ops"]:
        roots.setdefault(text(op["root"]), []).append(text(op["field"]))
    sdl = "type Item { id: Int! name: String }\n"
    for root, fields in roots.items():
        args = "(name: String!)" if root == "Mutation" else ""
        sdl += "type %s { %s }\n" % (root, " ".join("%s%s: Item!" % (f, args) for f in fields))
    return sdl


def observe_graphql(case: dict, gcat: dict) -> dict:
    import schemathesis
    from schemathesis.cli.commands.run.filters import FilterArguments
    from schemathesis.core.result import Ok

    lab = [text(o["label"]) for o in gcat["ops"]]
    out = {"door": case["door"], "incl": case["incl"], "excl": case["excl"], "err": 0, "exc": "", "vec": [0] * len(lab), "sel": -1, "total": -1}
    try:
        schema = schemathesis.graphql.from_file(graphql_sdl(gcat)).configure(base_url="http://127.0.0.1:1" + text(gcat["ops"][0]["path"]))
        if case["door"] == "py":
            calls = [("include", f) for f in case["incl"]] + [("exclude", f) for f in case["excl"]]
            random.Random(_element_seed(dict(case, base=0))).shuffle(calls)
            for mode, f in calls:
                schema = getattr(schema, mode)(**py_call(gcat["filters"][f - 1]))
        else:
            fields, _ = cli_arguments(gcat, case["incl"], case["excl"])
            schema.filter_set = FilterArguments(**fields).into()
        vec, foreign = vector(lab, [r.ok().label for r in schema.get_all_operations() if isinstance(r, Ok)])
        st = schema.statistic
        out.update(vec=vec, sel=st.operations.selected, total=st.operations.total + foreign)
    except Exception as exc:  # every enumerated filter set is one the API accepts
        out.update(err=1, exc="%s: %s" % (type(exc).__name__, exc))
    return out


def graphql_disagreements(case: dict, obs: dict) -> set[tuple[int, str]]:
    if obs["err"]:
        return {(0, "raised")}
    out: set = set()
    for o, (x, e) in enumerate(zip(obs["vec"], case["expect"]), 1):
        if e != -1 and x != e:
            out.add((o, "leak" if x == 1 else "dropped"))
    if obs["sel"] != case["sel"]:
        out.add((0, "ops-selected"))
    if obs["total"] != case["total"]:
        out.add((0, "ops-total"))
    return out


def graphql_signature(case: dict, gcat: dict, o: int, kind: str) -> str:
    kinds = sorted({_kind(gcat["filters"][f - 1]) for f in case["incl"] + case["excl"]})
    if kind == "raised":
        # attribute kinds present in every raising element are what the failure hinges on; the caller intersects them
        return "C07:graphql:selection:raised:%s" % "+".join(kinds)
    if kind in ("leak", "dropped"):
        return "C07:graphql-%s:selection:%s" % (case["door"], kind)
    return "C07:graphql-%s:stat:%s" % (case["door"], kind)


def _work_graphql(item: str) -> dict:
    case, gcat = json.loads(item)
    return observe_graphql(case, gcat)


# ---------------------------------------------------------------------------------------------------
# derivation histories (spec/FiltersTree.tla): every node is observed after ALL derivations were made
# ---------------------------------------------------------------------------------------------------
def observe_tree(case: dict, cat: dict) -> dict:
    """Perform the derivations of the history through the public API (schema.include / exclude, or the same on a lazy fixture
    schema) and then observe every node, root first: offered operations and statistic."""
    st = _setup(cat)
    sch = st["schemathesis"]
    lab = st["labels"]
    fixture = sch.openapi.from_dict(st["raws"][case.get("dialect", "oas30")])
    root = fixture if case["door"] == "py" else sch.pytest.from_fixture("fixture_schema")
    nodes = [root]
    out = {"door": case["door"], "nodes": case["nodes"], "err": 0, "exc": "", "vecs": [], "stats": []}
    for k, n in enumerate(case["nodes"], 1):
        try:
            nodes.append(_apply(nodes[n["p"]], n["m"], py_call(cat["filters"][n["f"] - 1]), st))
        except Exception as exc:  # the spec only makes derivations the API accepts
            out["err"], out["exc"] = k, "%s: %s" % (type(exc).__name__, exc)
            return out

    class Request:
        def getfixturevalue(self, name):
            return fixture

    def test_function(case):
        pass

    for node in nodes:
        schema = node if case["door"] == "py" else st["lazy"].get_schema(
            request=Request(), name="fixture_schema", filter_set=node.filter_set, test_function=test_function)
        vec, foreign = vector(lab, [r.ok().label for r in schema.get_all_operations() if isinstance(r, st["Ok"])])
        s = schema.statistic
        out["vecs"].append(vec)
        out["stats"].append({"sel": s.operations.selected, "total": s.operations.total + foreign,
                             "lsel": s.links.selected, "ltotal": s.links.total})
    return out


def tree_disagreements(case: dict, obs: dict) -> set[tuple[int, int, str]]:
    """Mirrors FiltersTreeJudge.tla: (node, operation, kind); node 0 is the root."""
    if obs["err"]:
        return {(obs["err"], 0, "raised")}
    out: set = set()
    for n, (ex, st, v, s) in enumerate(zip(case["expect"], case["stat"], obs["vecs"], obs["stats"])):
        for o, (x, e) in enumerate(zip(v, ex), 1):
            if e != -1 and x != e:
                out.add((n, o, "leak" if x == 1 else "dropped"))
        for name, got, want in (("ops-selected", s["sel"], st["sel"]), ("ops-total", s["total"], st["total"]),
                                ("links-selected", s["lsel"], st["lsel"]), ("links-total", s["ltotal"], st["ltotal"])):
            if want != -1 and got != want:
                out.add((n, 0, name))
    return out


def tree_signature(case: dict, n: int, kind: str) -> str:
    """Derivation-history class of the wrong node: was anything derived after it (then a later derivation changed it) or is it
    the node derived last (then its own chain is wrong)."""
    if kind == "raised":
        return "C07:%s:derivation:derive-raised" % case["door"]
    cls = "changed-by-later-derivation" if n < len(case["nodes"]) else "own-chain"
    return "C07:%s:derivation:%s:%s" % (case["door"], cls, "selection" if kind in ("leak", "dropped") else kind)


def tree_findings(case: dict, obs: dict) -> list[tuple[str, int, int, str]]:
    """Signatures of a history: a node whose selection is wrong is reported once; its statistic is reported on its own only when
    it is also inconsistent with the operations the node actually offers."""
    dis = sorted(tree_disagreements(case, obs))
    wrong_sel = {n for n, o, k in dis if k in ("leak", "dropped")}
    out, seen = [], set()
    for n, o, k in dis:
        if k not in ("leak", "dropped", "raised") and n in wrong_sel:
            v, s = obs["vecs"][n], obs["stats"][n]
            links_offered = sum(1 for l in _CAT.get("links", []) if v[l["src"] - 1] and v[l["tgt"] - 1])
            if (k == "ops-selected" and s["sel"] == sum(v)) or (k == "links-selected" and s["lsel"] == links_offered):
                continue
        sig = tree_signature(case, n, k)
        if sig not in seen:
            seen.add(sig)
            out.append((sig, n, o, k))
    return out


def describe_tree(case: dict, cat: dict) -> str:
    parts = []
    for k, n in enumerate(case["nodes"], 1):
        parts.append("n%d = n%d.%s(**%s)" % (k, n["p"], n["m"], json.dumps(py_call(cat["filters"][n["f"] - 1]), sort_keys=True)))
    return "door=%s dialect=%s n0 = %s; %s" % (case["door"], case.get("dialect", "oas30"), "from_dict(RAW)" if case["door"] == "py" else "from_fixture(unfiltered)", "; ".join(parts))


def _work_tree(item: str) -> dict:
    return observe_tree(json.loads(item), _CAT)


# ---------------------------------------------------------------------------------------------------
# expensive sites: real pytest process, real engine, real CLI
# ---------------------------------------------------------------------------------------------------
def _chain_src(cat: dict, calls: list[tuple[str, int]], rx: str = "text") -> str:
    src = ""
    for mode, f in calls:
        kw = py_call(cat["filters"][f - 1], rx)
        e = kw.pop("__expr__", None)  # python API: the condition is a custom function reading the resolved definition
        src += ".%s(%s**%r)" % (mode, "EXPR(%r), " % e if e is not None else "", kw)  # a compiled pattern prints as re.compile('...')
    return src


def run_pytest_sample(ctx: Ctx, cat: dict, sample: list[dict]) -> dict[int, dict]:
    """One real pytest process: eager `schema.parametrize()` for python-door elements, `from_fixture(...).parametrize()` for
    lazy-door elements.  Returns element index -> {"site", "vec", "foreign"}."""
    if not sample:
        return {}
    d = ctx.path("pytest_run")
    os.makedirs(d, exist_ok=True)
    for dialect in ("oas30", "oas31", "swagger20"):
        json.dump(build_raw(cat, dialect), open(os.path.join(d, "raw_%s.json" % dialect), "w"))
    lines = [
        "import json, os, re, pytest, schemathesis",
        "from hypothesis import settings, HealthCheck",
        "from schemathesis.filters import expression_to_filter_function as EXPR",
        "import rec_c07",
        "RAW = {d: json.load(open(os.path.join(os.path.dirname(__file__), 'raw_%s.json' % d))) for d in ('oas30', 'oas31', 'swagger20')}",
        "SET = settings(max_examples=1, deadline=None, database=None, suppress_health_check=list(HealthCheck))",
        "",
    ]
    for k, case in enumerate(sample):
        calls = [("include", f) for f in case["incl"]] + [("exclude", f) for f in case["excl"]]
        if case["door"] == "lazy":
            b = cat["bases"][case["base"] - 1]
            base_calls = [("include", f) for f in b["incl"]] + [("exclude", f) for f in b["excl"]]
            lines += [
                "@pytest.fixture",
                "def fixture_%d():" % k,
                "    return schemathesis.openapi.from_dict(RAW[%r])%s" % (case.get("dialect", "oas30"), _chain_src(cat, base_calls)),
                "lazy_%d = schemathesis.pytest.from_fixture('fixture_%d')%s" % (k, k, _chain_src(cat, calls, case.get("rx", "text"))),
                "@SET",
                "@lazy_%d.parametrize()" % k,
                "def test_element_%d(case):" % k,
                "    rec_c07.seen(%d, case.operation.label)" % k,
                "",
            ]
        else:
            lines += [
                "schema_%d = schemathesis.openapi.from_dict(RAW[%r])%s" % (k, case.get("dialect", "oas30"), _chain_src(cat, calls, case.get("rx", "text"))),
                "@schema_%d.parametrize()" % k,
                "@SET",
                "def test_element_%d(case):" % k,
                "    rec_c07.seen(%d, case.operation.label)" % k,
                "",
            ]
    open(os.path.join(d, "test_c07_generated.py"), "w").write("\n".join(lines))
    open(os.path.join(d, "rec_c07.py"), "w").write(
        "import json, os\nSEEN = {}\n\ndef seen(k, label):\n    SEEN.setdefault(str(k), []).append(label)\n\n"
        "def dump(status):\n    SEEN['__exit__'] = int(status)\n    json.dump(SEEN, open(os.path.join(os.path.dirname(__file__), 'seen.json'), 'w'))\n")
    open(os.path.join(d, "conftest.py"), "w").write(
        "import rec_c07\n\ndef pytest_sessionfinish(session, exitstatus):\n    rec_c07.dump(exitstatus)\n")
    env = dict(os.environ)
    env["PYTHONPATH"] = d + os.pathsep + env.get("PYTHONPATH", "")
    proc = subprocess.run([PY, "-m", "pytest", "-q", "--no-header", "-p", "no:cacheprovider", "--continue-on-collection-errors", "test_c07_generated.py"], cwd=d, env=env, stdout=subprocess.PIPE,
                          stderr=subprocess.STDOUT, text=True, timeout=1500)
    seen_file = os.path.join(d, "seen.json")
    if not os.path.exists(seen_file):
        raise tlc.TLCFailure("pytest sample run produced no record:\n" + proc.stdout[-3000:])
    seen = json.load(open(seen_file))
    if seen.get("__exit__") not in (0, 1):  # 0: all passed, 1: some tests failed (e.g. "no operations matched"); else the run is incomplete
        raise tlc.TLCFailure("pytest sample run did not complete (exit status %s):\n%s" % (seen.get("__exit__"), proc.stdout[-3000:]))
    lab = labels(cat)
    out = {}
    for k, case in enumerate(sample):
        vec, foreign = vector(lab, set(seen.get(str(k), [])))
        out[k] = {"site": "lazy-pytest" if case["door"] == "lazy" else "pytest", "exact": True, "vec": vec, "foreign": foreign}
    return out


def _behaviour(cat: dict, dialect: str = "oas30"):
    from .server import json_response

    raw = build_raw(cat, dialect)

    documented = set(labels(cat))

    def behaviour(r):
        if r.path == "/openapi.json":
            return json_response(200, raw)
        segs = r.path.split("/")
        template = "/u/{id}" if len(segs) == 3 and segs[1] == "u" else r.path
        if "%s %s" % (r.method.upper(), template) not in documented:
            # like a real API: a method the document does not define for the path is not allowed, an unknown path is not found
            allowed = sorted(l.split(" ", 1)[0] for l in documented if l.endswith(" " + template))
            if allowed:
                return json_response(405, {"detail": "method not allowed"}, [("Allow", ", ".join(allowed))])
            return json_response(404, {"detail": "no such path"})
        if r.path == "/u" and r.method == "GET":
            return json_response(200, [{"id": 1}])
        return json_response(200, {"id": 1})

    return behaviour


def log_vector(cat: dict, log) -> tuple[list[int], int]:
    """Requests received by the API under test -> operations of the universe (anything else, e.g. unexpected-method probes, is
    counted as foreign and not judged)."""
    lab = labels(cat)
    vec = [0] * len(lab)
    other = 0
    for r in log:
        if r.path in ("/openapi.json",):
            continue
        segs = r.path.split("/")
        template = r.path
        if len(segs) == 3 and segs[1] == "u":
            template = "/u/{id}"
        label = "%s %s" % (r.method.upper(), template)
        if label in lab:
            vec[lab.index(label)] = 1
        else:
            other += 1
    return vec, other


def run_engine(case: dict, cat: dict) -> dict:
    """The real engine (examples, coverage, fuzzing, stateful; positive AND negative generation, so that the coverage phase also
    probes "unspecified HTTP methods") against the loopback server; the server log is the observation."""
    import hypothesis
    from schemathesis.engine import from_schema
    from schemathesis.engine.config import EngineConfig, ExecutionConfig, NetworkConfig
    from schemathesis.generation import GenerationConfig, GenerationMode

    from .server import LoopbackServer

    _setup(cat)
    with LoopbackServer(_behaviour(cat, case.get("dialect", "oas30"))) as server:
        generation = GenerationConfig(modes=[GenerationMode.POSITIVE, GenerationMode.NEGATIVE])
        schema = build_schema(case, cat, base_url=server.base_url, generation=generation)
        settings = hypothesis.settings(max_examples=4, deadline=None, database=None, derandomize=True, stateful_step_count=5,
                                       suppress_health_check=list(hypothesis.HealthCheck))
        config = EngineConfig(execution=ExecutionConfig(hypothesis_settings=settings, workers_num=1, seed=1, generation=generation),
                              network=NetworkConfig(timeout=10))
        fatal = ""
        via_links = 0
        for ev in from_schema(schema, config=config).execute():
            name = type(ev).__name__
            if name == "FatalError":
                fatal = repr(getattr(ev, "exception", ev))
            elif name == "ScenarioFinished":
                via_links += sum(1 for node in ev.recorder.cases.values() if node.transition is not None)
        vec, other = log_vector(cat, server.snapshot())
    return {"site": "engine", "exact": True, "vec": vec, "other_requests": other, "fatal": fatal, "via_links": via_links}


_CLI_SEL = re.compile(r"Selected:\s*(\d+)/(\d+)")
_CLI_LINKS = re.compile(r"API Links:\s*(?:(\d+) covered / )?(\d+) selected / (\d+) total")


def run_cli(case: dict, cat: dict) -> dict:
    """`st run` in a real process (with the harness link shim installed first) against the loopback server."""
    from .server import LoopbackServer

    _, argv = cli_arguments(cat, case["incl"], case["excl"])
    launcher = ("import sys; sys.path.insert(0, %r); from harness.compat import enable_links; enable_links(); "
                "from schemathesis.cli import schemathesis; schemathesis()" % common.ROOT)
    with LoopbackServer(_behaviour(cat, case.get("dialect", "oas30"))) as server:
        proc = subprocess.run([PY, "-c", launcher, "run", server.base_url + "/openapi.json", "-n", "3", "--seed", "1", "--no-color", "-m", "all",
                               "--experimental-coverage-unexpected-methods", "get,put,post,delete,options,patch,trace",
                               "--workers", "1"] + argv, stdout=subprocess.PIPE, stderr=subprocess.STDOUT, text=True, timeout=600,
                              env=dict(os.environ, COLUMNS="200"))
        vec, other = log_vector(cat, server.snapshot())
    out = proc.stdout
    m, l = _CLI_SEL.search(out), _CLI_LINKS.search(out)
    stat = {"site": "cli-stat", "sel": int(m.group(1)) if m else -1, "total": int(m.group(2)) if m else -1,
            "lsel": int(l.group(2)) if l else -1, "ltotal": int(l.group(3)) if l else -1}
    return {"site": "cli-run", "exact": True, "vec": vec, "other_requests": other, "stat": stat, "rc": proc.returncode,
            "tail": out[-1500:] if (not m and sum(case["expect"]) != 0) else ""}


def _work(item: str) -> dict:
    return observe(json.loads(item), _CAT)


def _work_engine(item: str) -> dict:
    return run_engine(json.loads(item), _CAT)


def _work_cli(item: str) -> dict:
    return run_cli(json.loads(item), _CAT)


def _pool_map(fn, items: list, procs: int = 8) -> list:
    """Fork-pool map for short lists of expensive items (common.pmap runs fewer than 32 items serially)."""
    import multiprocessing as mp

    if len(items) <= 1:
        return [fn(x) for x in items]
    with mp.get_context("fork").Pool(min(procs, len(items))) as pool:
        return pool.map(fn, items, chunksize=1)


def stratified(rng, items: list[tuple[int, dict]], k: int, key) -> list[tuple[int, dict]]:
    groups: dict = {}
    for it in items:
        groups.setdefault(key(it[1]), []).append(it)
    for g in groups.values():
        rng.shuffle(g)
    out = []
    keys = sorted(groups)
    while len(out) < k and any(groups[g] for g in keys):
        for g in keys:
            if groups[g] and len(out) < k:
                out.append(groups[g].pop())
    return out


def _stratum(cat: dict):
    def key(case: dict):
        kinds = tuple(sorted({_kind(cat["filters"][f - 1]).split("/")[0].split("&")[0] for f in case["incl"] + case["excl"]}))
        return (len(case["incl"]), len(case["excl"]), case["expect"][3], case["base"], case.get("dialect"), kinds[:1])
    return key


def run(ctx: Ctx) -> Outcome:
    global _CAT
    out = Outcome()
    rng = random.Random(ctx.seed)
    cfg = "Filters_quick.cfg" if ctx.quick else "Filters_thorough.cfg"
    items: list[str] = []
    cats: list[dict] = []
    res = tlc.require_ok(tlc.run_tlc(
        "Filters", cfg, workers=1, timeout=3000, want_prints=False,
        on_json=lambda tag, d: items.append(json.dumps(d, separators=(",", ":"))) if tag == "CASE" else cats.append(d)), "Filters enumeration")
    for inv in res.violated:
        out.violations.append(Violation("C07:spec:" + inv, "design invariant %s violated in Filters.tla" % inv,
                                        {"kind": "spec", "invariant": inv, "trace": res.counterexample[:60]}))
    if not cats:
        raise tlc.TLCFailure("Filters exported no catalogue")
    cat = _CAT = cats[0]
    _setup(cat)
    t1 = time.time()
    observed = common.pmap(_work, items)
    t_replay = time.time() - t1
    cases = [json.loads(x) for x in items]

    # expensive sites on stratified samples; every element that excludes DELETE /u/{id} while a link points at it is a candidate
    indexed = list(enumerate(cases))
    n_pytest, n_engine, n_cli = (36, 16, 8) if ctx.quick else (240, 96, 32)
    key = _stratum(cat)
    lazy_s = stratified(rng, [x for x in indexed if x[1]["door"] == "lazy"], n_pytest // 2, key)
    eager_s = stratified(rng, [x for x in indexed if x[1]["door"] == "py"], n_pytest - len(lazy_s), key)
    engine_s = stratified(rng, [x for x in indexed if x[1]["door"] in ("py", "cli") and 0 in x[1]["expect"]], n_engine, key)
    cli_s = stratified(rng, [x for x in indexed if x[1]["door"] == "cli" and 0 in x[1]["expect"]], n_cli, key)
    t1 = time.time()
    py_res = run_pytest_sample(ctx, cat, [c for _, c in lazy_s + eager_s])
    t_pytest = time.time() - t1
    for k, (i, _) in enumerate(lazy_s + eager_s):
        r = py_res[k]
        observed[i]["vecs"].append({"site": r["site"], "exact": True, "vec": r["vec"]})
        observed[i]["foreign"] += r["foreign"]
    t1 = time.time()
    via_links = 0
    for (i, _), r in zip(engine_s, _pool_map(_work_engine, [items[i] for i, _ in engine_s], procs=12)):
        if r["fatal"]:
            raise tlc.TLCFailure("engine run failed for %s: %s" % (items[i], r["fatal"]))
        observed[i]["vecs"].append({"site": "engine", "exact": True, "vec": r["vec"]})
        via_links += r["via_links"]
    t_engine = time.time() - t1
    t1 = time.time()
    for (i, _), r in zip(cli_s, _pool_map(_work_cli, [items[i] for i, _ in cli_s], procs=8)):
        if r["tail"]:
            raise tlc.TLCFailure("CLI run gave no summary for %s:\n%s" % (items[i], r["tail"]))
        observed[i]["vecs"].append({"site": "cli-run", "exact": True, "vec": r["vec"]})
        observed[i]["stats"].append(r["stat"])
    t_cli = time.time() - t1

    # verdicts
    bad = [i for i, (c, o) in enumerate(zip(cases, observed)) if disagreements(c, o)]
    bad_set = set(bad)
    good = [i for i in range(len(cases)) if i not in bad_set]
    rich = sorted({i for i, _ in lazy_s + eager_s + engine_s + cli_s} - bad_set)
    rich_set = set(rich)
    judged_idx = bad[:20000] + rich + common.sample(rng, [i for i in good if i not in rich_set], 2500 if ctx.quick else 30000)
    obs_file = ctx.path("obs.json")
    tlc.write_json(obs_file, [{k: v for k, v in observed[i].items() if k != "note"} for i in judged_idx])
    jres = tlc.require_ok(tlc.run_tlc("FiltersJudge", "FiltersJudge.cfg", env={"OBS_FILE": obs_file}, timeout=3000), "judge")
    tlc_dis = {(p[1], p[2], p[3], p[4]) for p in jres.prints if isinstance(p, list) and p and p[0] == "DISAGREE"}
    py_dis = {(n, s, o, k) for n, i in enumerate(judged_idx, 1) for s, o, k in disagreements(cases[i], observed[i])}
    if tlc_dis != py_dis:
        raise tlc.TLCFailure("judge (TLC) and exporter disagree on %d cells: %s" % (len(tlc_dis ^ py_dis), sorted(tlc_dis ^ py_dis)[:5]))
    per_sig: dict[str, int] = {}
    for i in bad:
        for sig, (site, o, kind) in signatures(cases[i], observed[i], cat).items():
            per_sig[sig] = per_sig.get(sig, 0) + 1
            if per_sig[sig] > 25:
                continue
            lab = labels(cat)
            out.violations.append(Violation(
                sig, "%s %s%s: expected selection %s, observed %s, statistic %s vs expected %s; %s" % (
                    site, kind, (" for " + lab[o - 1]) if o else "", cases[i]["expect"],
                    {v["site"]: v["vec"] for v in observed[i]["vecs"]}, observed[i]["stats"], cases[i]["stat"], describe(cases[i], cat)),
                {"kind": "element", "case": cases[i], "cat": cat,
                 "sites": sorted({v["site"] for v in observed[i]["vecs"]} | {s["site"] for s in observed[i]["stats"]})}))
    # ---------------- GraphQL ----------------
    gitems: list[dict] = []
    gcats: list[dict] = []
    gres = tlc.require_ok(tlc.run_tlc("FiltersGraphQL", "FiltersGraphQL.cfg", workers=1, timeout=1200, want_prints=False,
                                      on_json=lambda tag, d: (gitems if tag == "GCASE" else gcats).append(d)), "FiltersGraphQL enumeration")
    for inv in gres.violated:
        out.violations.append(Violation("C07:spec:" + inv, "design invariant %s violated in FiltersGraphQL.tla" % inv,
                                        {"kind": "spec", "invariant": inv, "trace": gres.counterexample[:60]}))
    gcat = gcats[0]
    t1 = time.time()
    gobs = common.pmap(_work_graphql, [json.dumps([c, gcat]) for c in gitems])
    t_gql = time.time() - t1
    gfile = ctx.path("gql_obs.json")
    tlc.write_json(gfile, [{k2: v for k2, v in o.items() if k2 != "exc"} for o in gobs])
    gj = tlc.require_ok(tlc.run_tlc("FiltersGraphQLJudge", "FiltersGraphQLJudge.cfg", env={"OBS_FILE": gfile}, timeout=1200), "graphql judge")
    g_tlc = {(p[1], p[2], p[3]) for p in gj.prints if isinstance(p, list) and p and p[0] == "DISAGREE"}
    g_py = {(m, o, k) for m, (c, ob) in enumerate(zip(gitems, gobs), 1) for o, k in graphql_disagreements(c, ob)}
    if g_tlc != g_py:
        raise tlc.TLCFailure("graphql judge (TLC) and exporter disagree on %d cells: %s" % (len(g_tlc ^ g_py), sorted(g_tlc ^ g_py)[:5]))
    gbad = [(c, ob) for c, ob in zip(gitems, gobs) if graphql_disagreements(c, ob)]
    # a raised call is attributed to the filter kinds common to ALL raising elements of that door (one defect = one signature)
    common_kinds: dict = {}
    for c, ob in gbad:
        if ob["err"]:
            ks = {_kind(gcat["filters"][f - 1]) for f in c["incl"] + c["excl"]}
            common_kinds[c["door"]] = ks if c["door"] not in common_kinds else common_kinds[c["door"]] & ks
    for c, ob in gbad:
        for o, kd in sorted(graphql_disagreements(c, ob)):
            sig = graphql_signature(c, gcat, o, kd)
            if kd == "raised":
                # the failure is in evaluating the filter, whatever door built it: one signature
                allk = set.intersection(*common_kinds.values()) if common_kinds else set()
                sig = "C07:graphql:selection:raised:%s" % ("+".join(sorted(allk)) or "any")
            per_sig[sig] = per_sig.get(sig, 0) + 1
            if per_sig[sig] > 10:
                continue
            out.violations.append(Violation(
                sig, "GraphQL schema, %s%s: expected %s (selected %d/%d), observed %s (%s/%s) %s; door=%s include=%s exclude=%s" % (
                    kd, (" for " + text(gcat["ops"][o - 1]["label"])) if o else "", c["expect"], c["sel"], c["total"], ob["vec"], ob["sel"],
                    ob["total"], ob["exc"], c["door"], [py_call(gcat["filters"][f - 1]) for f in c["incl"]],
                    [py_call(gcat["filters"][f - 1]) for f in c["excl"]]),
                {"kind": "graphql", "case": c, "cat": gcat}))

    # ---------------- derivation histories ----------------
    tree_cfgs = ["FiltersTree_quick.cfg"] if ctx.quick else ["FiltersTree_thorough.cfg", "FiltersTree_wide.cfg"]
    tree_stats = {"states": 0, "transitions": 0, "histories": 0, "judged": 0, "bad": 0, "tlc_s": 0.0, "replay_s": 0.0, "judge_s": 0.0}
    tree_sample = None
    for tcfg in tree_cfgs:
        titems: list[str] = []
        tres = tlc.require_ok(tlc.run_tlc(
            "FiltersTree", tcfg, workers=1, timeout=3000, want_prints=False,
            on_json=lambda tag, d: titems.append(json.dumps(d, separators=(",", ":"))) if tag == "TREE" else None), "FiltersTree enumeration")
        for inv in tres.violated:
            out.violations.append(Violation("C07:spec:" + inv, "design invariant %s violated in FiltersTree.tla" % inv,
                                            {"kind": "spec", "invariant": inv, "trace": tres.counterexample[:60]}))
        t1 = time.time()
        tobs = common.pmap(_work_tree, titems)
        tree_stats["replay_s"] += time.time() - t1
        tcases = [json.loads(x) for x in titems]
        tbad = [k for k, (c, o) in enumerate(zip(tcases, tobs)) if tree_disagreements(c, o)]
        tbad_set = set(tbad)
        tjudged = tbad[:10000] + common.sample(rng, [k for k in range(len(tcases)) if k not in tbad_set], 800 if ctx.quick else 10000)
        tfile = ctx.path("tree_obs.json")
        tlc.write_json(tfile, [{k2: v for k2, v in tobs[k].items() if k2 != "exc"} for k in tjudged])
        tj = tlc.require_ok(tlc.run_tlc("FiltersTreeJudge", "FiltersTreeJudge.cfg", env={"OBS_FILE": tfile}, timeout=3000), "tree judge")
        t_tlc = {(p[1], p[2], p[3], p[4]) for p in tj.prints if isinstance(p, list) and p and p[0] == "DISAGREE"}
        t_py = {(m, n, o, kd) for m, k in enumerate(tjudged, 1) for n, o, kd in tree_disagreements(tcases[k], tobs[k])}
        if t_tlc != t_py:
            raise tlc.TLCFailure("tree judge (TLC) and exporter disagree on %d cells: %s" % (len(t_tlc ^ t_py), sorted(t_tlc ^ t_py)[:5]))
        for k in tbad:
            for sig, n, o, kd in tree_findings(tcases[k], tobs[k]):
                per_sig[sig] = per_sig.get(sig, 0) + 1
                if per_sig[sig] > 25:
                    continue
                out.violations.append(Violation(
                    sig, "after all derivations node n%d %s%s: expected %s observed %s, statistic %s vs expected %s%s; %s" % (
                        n, kd, (" for " + labels(cat)[o - 1]) if o else "",
                        tcases[k]["expect"][n] if not tobs[k]["err"] else "-", tobs[k]["vecs"][n] if not tobs[k]["err"] else "-",
                        tobs[k]["stats"][n] if not tobs[k]["err"] else "-", tcases[k]["stat"][n] if not tobs[k]["err"] else "-",
                        (" (" + tobs[k]["exc"] + ")") if tobs[k]["err"] else "", describe_tree(tcases[k], cat)),
                    {"kind": "tree", "case": tcases[k], "cat": cat}))
        tree_stats["states"] += tres.distinct
        tree_stats["transitions"] += tres.generated
        tree_stats["histories"] += len(tcases)
        tree_stats["judged"] += len(tjudged)
        tree_stats["bad"] += len(tbad)
        tree_stats["tlc_s"] += tres.wall_s
        tree_stats["judge_s"] += tj.wall_s
        if tree_sample is None and tcases:
            k = rng.randrange(len(tcases))
            tree_sample = {"history": describe_tree(tcases[k], cat), "expected_per_node": tcases[k]["expect"], "observed_per_node": tobs[k]["vecs"]}
    nontrivial = sum(1 for c in cases if 0 in c["expect"])
    shown = common.sample(rng, [i for i in rich if len(observed[i]["vecs"]) > 2] or good, 3)
    out.coverage = {
        "states": res.distinct + tree_stats["states"] + gres.distinct,
        "transitions": res.generated + tree_stats["transitions"] + gres.generated,
        "traces_validated_against_impl": len(judged_idx) + tree_stats["judged"] + len(gobs),
        "graphql": {"elements": len(gitems), "disagreeing": len(gbad), "tlc_s": round(gres.wall_s, 1), "replay_s": round(t_gql, 1),
                    "judge_s": round(gj.wall_s, 1)},
        "samples": [{"element": describe(cases[i], cat), "expected": cases[i]["expect"], "expected_stat": cases[i]["stat"],
                     "observed": {v["site"]: v["vec"] for v in observed[i]["vecs"]}, "observed_stat": observed[i]["stats"],
                     "state_machine_links": observed[i]["pairs"]} for i in shown] + ([tree_sample] if tree_sample else []),
        "evaluations": len(cases) + tree_stats["histories"] + len(gitems),
        "distinct_nontrivial": nontrivial + tree_stats["histories"],
        "derivation_histories": {k2: (round(v, 1) if isinstance(v, float) else v) for k2, v in tree_stats.items()},
        "rule": "every filter set reachable in Filters.tla under %s through the python, CLI and lazy-fixture doors (TLC-enumerated), each "
                "built with the real API and observed at get_all_operations / statistic / as_state_machine; stratified samples of them "
                "additionally under real pytest (%d), the real engine (%d) and the real CLI (%d) with the server log as observation; "
                "non-trivial = at least one operation must not be tested; plus every derivation history (tree of include/exclude "
                "derivations on eager and lazy schemas) reachable in FiltersTree.tla under %s, every node observed after all derivations" % (
                    cfg, len(lazy_s + eager_s), len(engine_s), len(cli_s), "+".join(tree_cfgs)),
        "exhaustive": True,
        "by_door": {d: sum(1 for c in cases if c["door"] == d) for d in ("py", "cli", "lazy")},
        "undecided_cells_skipped": sum(c["expect"].count(-1) for c in cases),
        "skipped_outside_fragment": sum(1 for c in cases if -1 in c["expect"]),
        "link_derived_cases_in_engine_sample": via_links,
        "disagreeing_elements": len(bad),
        "disagreeing_elements_by_signature": per_sig,
        "timings": {"tlc_enumeration_s": round(res.wall_s, 1), "replay_s": round(t_replay, 1), "pytest_s": round(t_pytest, 1),
                    "engine_s": round(t_engine, 1), "cli_s": round(t_cli, 1), "tlc_judge_s": round(jres.wall_s, 1)},
        "constants": {"cfg": cfg, "operations": labels(cat), "links": cat["links"], "filters": len(cat["filters"])},
    }
    out.assumptions = [
        "harness.compat.enable_links() is installed (driver process and the CLI child) so that the stateful phase follows links on the "
        "installed Hypothesis; without it no link-derived request exists and the 'excluded link target' clause would be vacuous",
        "the lazy-fixture door is observed in-process through pytest.lazy.get_schema with a stub request object; a stratified sample is "
        "run under a real pytest process and must give the same operations",
        "requests are mapped to operations by method and path template; engine and CLI runs use positive and negative generation in all "
        "phases; a received (method, path) must be a selected operation or a method the document does not define for that path at all "
        "(unspecified-method probes, the schema URL) - the latter are not judged",
        "an upper-case method key in a path item is not an operation of the document (OpenAPI field names are case-sensitive)",
        "lazy fixture with include filters on both the fixture schema and the lazy schema: union and successive selection are both "
        "accepted readings; operations where they differ are not judged",
        "`!=` expressions on a pointer that does not resolve are not judged",
        "the universe is serialised by the harness in three dialects (OpenAPI 3.0.2, 3.1.0, Swagger 2.0 with x-links); the spec assigns "
        "dialect and regex form (text / compiled) to every element",
        "derivation histories: nodes are observed once, after all derivations, at get_all_operations() and statistic",
        "operations carry their own query parameters, written in place or as a $ref to a reusable parameter object; the expression "
        "filters /parameters/<k>/name == \"force\" are given as --include-by/--exclude-by on the command line and as custom functions "
        "(reading ctx.operation.definition.resolved) to include()/exclude() through the python and lazy doors; the expected verdict does "
        "not depend on how the parameter is written",
    ]
    return out


def replay(ctx: Ctx, data: dict) -> Outcome:
    global _CAT
    out = Outcome()
    if data.get("kind") == "spec":
        return out
    case, cat = data["case"], data["cat"]
    _CAT = cat
    if data.get("kind") == "graphql":
        gob = observe_graphql(case, cat)
        for o, kd in sorted(graphql_disagreements(case, gob)):
            out.violations.append(Violation(graphql_signature(case, cat, o, kd), "GraphQL %s operation %d: %s %s" % (kd, o, gob["vec"], gob["exc"]), data))
        return out
    if data.get("kind") == "tree":
        tobs = observe_tree(case, cat)
        for sig, n, o, kd in tree_findings(case, tobs):
            out.violations.append(Violation(sig, "node n%d %s operation %d: %s %s" % (n, kd, o, tobs["exc"], describe_tree(case, cat)), data))
        return out
    obs = observe(case, cat)
    sites = set(data.get("sites", []))
    if "pytest" in sites or "lazy-pytest" in sites:
        r = run_pytest_sample(ctx, cat, [case])[0]
        obs["vecs"].append({"site": r["site"], "exact": True, "vec": r["vec"]})
    if "engine" in sites:
        r = run_engine(case, cat)
        obs["vecs"].append({"site": "engine", "exact": True, "vec": r["vec"]})
    if "cli-run" in sites:
        r = run_cli(case, cat)
        obs["vecs"].append({"site": "cli-run", "exact": True, "vec": r["vec"]})
        obs["stats"].append(r["stat"])
    for sig, (site, o, kind) in signatures(case, obs, cat).items():
        out.violations.append(Violation(sig, "%s %s operation %d: expected %s observed %s %s" % (
            site, kind, o, case["expect"], {v["site"]: v["vec"] for v in obs["vecs"]}, obs["stats"]), data))
    return out


def selftest(ctx: Ctx) -> bool:
    """Binding: corrupted observations must be rejected by the TLA+ judge, the faithful one accepted."""
    base = {"door": "py", "base": 1, "incl": [], "excl": [5], "pairs": [[1, 3], [2, 3], [5, 3]], "foreign": 0, "smok": True}
    good = dict(base, vecs=[{"site": "iter", "exact": True, "vec": [1, 1, 1, 0, 1, 1, 1]}, {"site": "engine", "exact": True, "vec": [1, 1, 1, 0, 1, 1, 1]}],
                stats=[{"site": "stat", "sel": 6, "total": 7, "lsel": 3, "ltotal": 4}])
    leak = dict(base, vecs=[{"site": "iter", "exact": True, "vec": [1, 1, 1, 0, 1, 1, 1]}, {"site": "engine", "exact": True, "vec": [1, 1, 1, 1, 1, 1, 1]}],
                stats=good["stats"])
    stat = dict(good, stats=[{"site": "stat", "sel": 7, "total": 7, "lsel": 3, "ltotal": 4}])
    link = dict(good, pairs=[[1, 3], [2, 3], [2, 4], [5, 3]])
    drop = dict(base, vecs=[{"site": "iter", "exact": True, "vec": [1, 1, 1, 0, 1, 0, 1]}], stats=good["stats"])
    f = ctx.path("obs.json")
    tlc.write_json(f, [good, leak, stat, link, drop])
    r = tlc.require_ok(tlc.run_tlc("FiltersJudge", "FiltersJudge.cfg", env={"OBS_FILE": f}), "selftest")
    dis = sorted(tuple(p[1:]) for p in r.prints if isinstance(p, list) and p and p[0] == "DISAGREE")
    want = sorted([(2, "engine", 4, "leak"), (3, "stat", 0, "ops-selected"), (4, "sm", 4, "leak-target"),
                   (4, "sm", 0, "links-offered-vs-reported"), (5, "iter", 6, "dropped")])
    if dis != want:
        print("selftest: judge printed", dis, "expected", want)
    # derivation histories: n1 = n0.include(tag=users); n2 = n1.exclude(method=Delete): a polluted parent must be rejected
    nodes = [{"p": 0, "m": "include", "f": 11}, {"p": 1, "m": "exclude", "f": 1}]
    full = {"sel": 7, "total": 7, "lsel": 4, "ltotal": 4}
    s1 = {"sel": 3, "total": 7, "lsel": 2, "ltotal": 4}
    s2 = {"sel": 1, "total": 7, "lsel": 0, "ltotal": 4}
    tgood = {"door": "py", "nodes": nodes, "err": 0, "vecs": [[1] * 7, [1, 1, 1, 0, 0, 0, 0], [0, 0, 1, 0, 0, 0, 0]], "stats": [full, s1, s2]}
    tbad = dict(tgood, vecs=[[1] * 7, [0, 0, 1, 0, 0, 0, 0], [0, 0, 1, 0, 0, 0, 0]], stats=[full, s2, s2])  # parent took the child's exclude
    traised = dict(tgood, err=2, vecs=[], stats=[])
    tlc.write_json(f, [tgood, tbad, traised])
    r = tlc.require_ok(tlc.run_tlc("FiltersTreeJudge", "FiltersTreeJudge.cfg", env={"OBS_FILE": f}), "selftest tree")
    tdis = sorted(tuple(p[1:]) for p in r.prints if isinstance(p, list) and p and p[0] == "DISAGREE")
    twant = sorted([(2, 1, 1, "dropped"), (2, 1, 2, "dropped"), (2, 1, 0, "ops-selected"), (2, 1, 0, "links-selected"), (3, 2, 0, "raised")])
    if tdis != twant:
        print("selftest: tree judge printed", tdis, "expected", twant)
    return dis == want and tdis == twant


def main(argv=None) -> int:
    return common.main("C07", run, replay, selftest, argv)
