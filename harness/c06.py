"""C06 - the HTTP request on the wire is exactly the generated test case.

spec/Wire.tla enumerates (parameter definition, value) / (base URL, template, path value) / (media type, body) elements and
exports them with the expected decoding.  Each element is put through the real pipelines of /repo

  G  generation:  get_parameters_strategy (serializer -> filter -> quote_all -> jsonify) fed with the enumerated value
  C  coverage:    generation.hypothesis.builder.Template (serializer, _stringify_value, quote_all)
  X  explicit:    operation.Case(...) with the raw value (strings only)

and the resulting Case is sent through the requests transport (loopback socket server), the WSGI transport (environ captured)
and the ASGI transport (scope captured).  Every recorded request is judged by spec/WireJudge.tla with Wire's decoders
(percent-decoding, UTF-8, JSON, style tables; multipart/form-data bodies are decoded part by part with the RFC 2046 / RFC 7578
reading `MultipartVerdict`: one part per field, an array-valued field = one part per item).  An independent Python reading of the same rules (urllib / json based) is
compared verdict by verdict with TLC's (multipart: the standard library's MIME parser); any difference is a machinery failure, never a verdict.

Signature of a violation (DESIGN Appendix E), computed from the failing descriptor only:
  C06:<aspect>:<pipeline>:<dialect>:<location>:<style>:explode=<e>:<type>:base=<b>:tmpl=<t>:<value feature>:<transports>
A descriptor dimension is printed as `*` when every judged descriptor differing only there fails alike (most general pattern first);
the value feature is the minimal character / type class that already fails alone at the same site (`any-value` when plain values
fail); transports = all | not-requests | the failing ones.
"""
from __future__ import annotations

import copy
import json
import random
import re
import time
from urllib.parse import unquote_to_bytes, urlsplit

from . import common, tlc
from .common import Ctx, Outcome, Violation

NAME = "p"
BASE_PATH = {1: "", 2: "/", 3: "/api", 4: "/api/", 5: "/api/v1", 6: "/srv", 7: "/api/v1/", 8: "/api"}
URL_TMPL = {1: "/x/{p}", 2: "/x/{p}/y", 3: "/{p}"}
MEDIA = {"json": "application/json", "form": "application/x-www-form-urlencoded", "text": "text/plain",
         "multipart": "multipart/form-data", "multipart-file": "multipart/form-data", "multipart-raw": "multipart/form-data",
         "multipart-array": "multipart/form-data",
         "yaml": "application/yaml", "xml": "application/xml", "binary": "application/octet-stream",
         "json-suffix": "application/vnd.api+json", "form-list": "application/x-www-form-urlencoded"}
BODY_PATH = {"multipart-file": "/bodyf", "multipart-raw": "/bodyr", "multipart-array": "/bodya"}
CTYPE_ONLY = ("multipart-raw", "yaml", "xml", "binary")   # payload encoding outside the fragment
MULTIPART_FORMS = ("multipart", "multipart-file", "multipart-array")   # judged part by part (Wire.tla MultipartVerdict)
A_SCHEMA = {"multipart": {"type": "string"}, "multipart-file": {"type": "string", "format": "binary"},
            "multipart-array": {"type": "array", "items": {"type": "string"}}}   # what the media kind declares for the field `a`
CONF_HEADERS = {"X-Conf": "v 1;q=a"}
TRANSPORTS = ("requests", "wsgi", "asgi")
ASPECTS = ("url", "param", "extra", "hdrs", "conf", "id", "host", "method", "ctype", "body", "hist")


# ---------------------------------------------------------------------------------------------------------------------
# descriptor -> concrete objects
# ---------------------------------------------------------------------------------------------------------------------
def text(cps: list[int]) -> str:
    return "".join(map(chr, cps))


def cps(s: str) -> list[int]:
    return [ord(c) for c in s]


def prim_py(p: dict):
    t = p["t"]
    return text(p["s"]) if t == "str" else p["n"] if t == "int" else bool(p["n"]) if t == "bool" else None


def value_py(v: dict):
    items = [prim_py(p) for p in v["items"]]
    if v["k"] == "prim":
        return items[0]
    if v["k"] == "arr":
        return items
    return dict(zip([text(k) for k in v["keys"]], items))


def body_py(el: dict):
    """The payload of a body element.  For "multipart-array" the pairs with the repeated key `a` are the items of the one
    array-valued field a (Wire.tla MultipartArrVals): <<a: x, a: y, b: z>> is the form {a: [x, y], b: z}."""
    v = el["val"]
    if el["media"] != "multipart-array":
        return value_py(v)
    out: dict = {}
    for k, p in zip(v["keys"], v["items"]):
        if text(k) == "a":
            out.setdefault("a", []).append(prim_py(p))
        else:
            out[text(k)] = prim_py(p)
    return out


def shown_py(el: dict):
    return body_py(el) if el["kind"] == "body" else value_py(el["val"])


def def_key(d: dict) -> tuple:
    return (d["dialect"], d["loc"], d["style"], d["explode"], d["type"])


def param_object(d: dict) -> dict:
    t = {"prim": "string", "array": "array", "object": "object"}[d["type"]]
    if d["dialect"] == "swagger2":
        p = {"name": NAME, "in": d["loc"], "required": True, "type": t}
        if t == "array":
            p["items"] = {"type": "string"}
        if d["style"] != "default":
            p["collectionFormat"] = d["style"]
        return p
    schema: dict = {"type": t}
    if t == "array":
        schema["items"] = {}
    p = {"name": NAME, "in": d["loc"], "required": True}
    if d["style"] == "json":
        p["content"] = {"application/json": {"schema": schema}}
        return p
    p["schema"] = schema
    if d["style"] != "default":
        p["style"] = d["style"]
    if d["explode"] != "default":
        p["explode"] = d["explode"] == "true"
    return p


OK_RESP = {"200": {"description": "ok"}}
_DEFS: dict = {}  # def_key -> (index, def)


def register_defs(cases: list[dict]) -> None:
    for c in cases:
        if c["kind"] == "param":
            k = def_key(c["def"])
            if k not in _DEFS:
                _DEFS[k] = (len(_DEFS) + 1, c["def"])


def op_path(d: dict) -> str:
    idx = _DEFS[def_key(d)][0]
    return "/d%d/{p}/y" % idx if d["loc"] == "path" else "/d%d" % idx


def build_doc(dialect: str) -> dict:
    paths: dict = {}
    for k, (idx, d) in _DEFS.items():
        if d["dialect"] == dialect:
            paths[op_path(d)] = {"get": {"parameters": [param_object(d)], "responses": OK_RESP}}
            if dialect == "oas3":  # several body variants: the coverage phase derives one case per media type from one template
                paths[op_path(d)]["get"]["requestBody"] = {"required": False, "content": {
                    MEDIA["json"]: {"schema": {"type": "integer"}}, MEDIA["text"]: {"schema": {"type": "string"}}}}
    if dialect == "swagger2":
        return {"swagger": "2.0", "info": {"title": "t", "version": "1"}, "paths": paths}
    simple = {"name": NAME, "in": "path", "required": True, "schema": {"type": "string"}}
    for t in URL_TMPL.values():
        paths[t] = {"get": {"parameters": [simple], "responses": OK_RESP}}
    paths["/body"] = {"post": {"requestBody": {"required": True, "content": {
        MEDIA["json"]: {"schema": {}}, MEDIA["form"]: {"schema": {"type": "object"}}, MEDIA["text"]: {"schema": {"type": "string"}}}},
        "responses": OK_RESP}}
    for key, schema in (("yaml", {}), ("xml", {"type": "object"}), ("binary", {"type": "string", "format": "binary"}), ("json-suffix", {})):
        paths["/body"]["post"]["requestBody"]["content"][MEDIA[key]] = {"schema": schema}
    paths["/items"] = {"get": {"parameters": [{"name": "q", "in": "query", "schema": {"type": "string"}},
                                               {"name": "c", "in": "cookie", "schema": {"type": "string"}},
                                               {"name": "X-H", "in": "header", "schema": {"type": "string"}}], "responses": OK_RESP}}
    paths["/bodyr"] = {"post": {"requestBody": {"required": True, "content": {MEDIA["multipart"]: {"schema": {"type": "string"}}}}, "responses": OK_RESP}}
    for path, a_schema in (("/body", A_SCHEMA["multipart"]), ("/bodyf", A_SCHEMA["multipart-file"]), ("/bodya", A_SCHEMA["multipart-array"])):
        content = paths.setdefault(path, {"post": {"requestBody": {"required": True, "content": {}}, "responses": OK_RESP}})
        content["post"]["requestBody"]["content"][MEDIA["multipart"]] = {
            "schema": {"type": "object", "properties": {"a": a_schema, "b": {"type": "string"}}}}
    return {"openapi": "3.0.2", "info": {"title": "t", "version": "1"}, "paths": paths}


# per-process state (workers are forked before anything here is built)
_P: dict = {}


def _wsgi_app(environ, start_response):
    _P["wsgi_cap"] = ({k: v for k, v in environ.items() if isinstance(v, str)}, environ["wsgi.input"].read())
    start_response("200 OK", [("Content-Type", "application/json")])
    return [b"{}"]


async def _asgi_app(scope, receive, send):
    if scope["type"] == "lifespan":
        while True:
            m = await receive()
            if m["type"] == "lifespan.startup":
                await send({"type": "lifespan.startup.complete"})
            elif m["type"] == "lifespan.shutdown":
                await send({"type": "lifespan.shutdown.complete"})
                return
    body = b""
    while True:
        m = await receive()
        body += m.get("body", b"")
        if not m.get("more_body"):
            break
    _P["asgi_cap"] = (dict(scope), body)
    await send({"type": "http.response.start", "status": 200, "headers": [(b"content-type", b"application/json")]})
    await send({"type": "http.response.body", "body": b"{}"})


def _server():
    if "srv" not in _P:
        from .server import LoopbackServer

        _P["srv"] = LoopbackServer().start()
    return _P["srv"]


def _root(transport: str) -> str:
    return _server().base_url if transport == "requests" else "http://localhost"


def get_schema(dialect: str, base: int, transport: str):
    key = ("schema", dialect, base, transport)
    if key not in _P:
        import schemathesis

        raw = json.loads(json.dumps(build_doc(dialect)))
        root = _root(transport)
        if base == 6:
            if dialect == "swagger2":
                raw["basePath"] = BASE_PATH[6]
            else:
                raw["servers"] = [{"url": BASE_PATH[6]}]
        s = schemathesis.openapi.from_dict(raw)
        if base == 6:
            s.configure(location=root + "/openapi.json")
        elif base == 8:
            # an in-process application configured with a host-less base URL; over sockets the same base path on the server
            s.configure(base_url=(root if transport == "requests" else "") + BASE_PATH[8])
        elif base == 7:
            # the base URL is given at call time; a call-time base URL is not a notion of the WSGI transport, which gets it configured
            s.configure(base_url=root + (BASE_PATH[7] if transport == "wsgi" else "/other"))
        else:
            s.configure(base_url=root + BASE_PATH[base])
        if transport == "wsgi":
            s.configure(app=_wsgi_app)
        elif transport == "asgi":
            s.configure(app=_asgi_app)
        _P[key] = s
    return _P[key]


def get_operation(el: dict, transport: str):
    d = el["def"]
    if el["kind"] == "param":
        return get_schema(d["dialect"], el["base"], transport)[op_path(d)]["GET"]
    if el["kind"] == "url":
        return get_schema("oas3", el["base"], transport)[URL_TMPL[el["tmpl"]]]["GET"]
    if el["kind"] == "hist":
        return get_schema("oas3", el["base"], transport)["/items"]["GET"]
    return get_schema("oas3", el["base"], transport)[BODY_PATH.get(el["media"], "/body")]["POST"]


def template_of(el: dict) -> str:
    if el["kind"] == "hist":
        return "/items"
    return op_path(el["def"]) if el["kind"] == "param" else URL_TMPL[el["tmpl"]] if el["kind"] == "url" else BODY_PATH.get(el["media"], "/body")


CONTAINER = {"path": "path_parameters", "query": "query", "header": "headers", "cookie": "cookies"}


# ---------------------------------------------------------------------------------------------------------------------
# pipelines: value -> Case kwargs through the real code
# ---------------------------------------------------------------------------------------------------------------------
def _holder_factory(schema, label, location, media_type, generation_config, custom_formats=None):
    from hypothesis import strategies as st

    return st.builds(lambda: copy.deepcopy(_P["held"]))


def pipeline_generate(op, loc: str, value):
    """The enumerated value enters exactly where hypothesis-jsonschema's draw would: get_parameters_strategy maps the real
    serializer, filter, quote_all and jsonify_python_specific_types over it."""
    key = ("gen", id(op), loc)
    if key not in _P:
        from hypothesis import HealthCheck, Phase, given, settings
        from schemathesis.specs.openapi._hypothesis import get_parameters_strategy

        strategy = get_parameters_strategy(op, _holder_factory, loc, op.schema.generation_config)
        out: list = []

        @settings(max_examples=1, database=None, deadline=None, suppress_health_check=list(HealthCheck),
                  phases=[Phase.generate], derandomize=True)
        @given(strategy)
        def run(x):
            out.append(x)

        _P[key] = (run, out)
    run, out = _P[key]
    out.clear()
    _P["held"] = {NAME: value}
    from hypothesis.errors import Unsatisfiable

    try:
        run()
    except Unsatisfiable:
        return None  # rejected by is_valid_path / is_valid_header / is_valid_query: never generated
    return {CONTAINER[loc]: out[0]} if out else None


def pipeline_coverage(op, loc: str, value):
    from schemathesis.generation import coverage
    from schemathesis.generation.hypothesis.builder import Template
    from schemathesis.specs.openapi.serialization import get_serializers_for_operation

    t = Template(get_serializers_for_operation(op))
    t.add_parameter(loc, NAME, coverage.GeneratedValue.with_positive(copy.deepcopy(value), description="verif"))
    return dict(t.unmodified().kwargs)


def pipeline_generate_body(el: dict, value):
    """Real generation of the payload: `operation.as_strategy` on an operation whose only body schema admits exactly the value, so the
    media type choice, `prepare_urlencoded` and the body filters of `openapi_cases` run; returns the generated case's body and media type."""
    import schemathesis
    from hypothesis import HealthCheck, Phase, given, settings
    from hypothesis.errors import Unsatisfiable
    from schemathesis.generation import GenerationMode

    media = el["media"]
    shown = [{k: v} for k, v in value.items()] if media == "form-list" else value
    schema = _pinned_schema(shown)
    if media in MULTIPART_FORMS:
        schema["properties"] = {"a": copy.deepcopy(A_SCHEMA[media]), "b": {"type": "string"}}
    raw = {"openapi": "3.0.2", "info": {"title": "t", "version": "1"},
           "paths": {"/gb": {"post": {"requestBody": {"required": True, "content": {MEDIA[media]: {"schema": schema}}}, "responses": OK_RESP}}}}
    s = schemathesis.openapi.from_dict(raw).configure(base_url="http://127.0.0.1:1/api")
    got: list = []

    @settings(max_examples=1, database=None, deadline=None, suppress_health_check=list(HealthCheck), phases=[Phase.generate], derandomize=True)
    @given(s["/gb"]["POST"].as_strategy(generation_mode=GenerationMode.POSITIVE))
    def run(c):
        got.append(c)

    try:
        run()
    except Unsatisfiable:
        return None
    return {"body": got[0].body, "media_type": got[0].media_type}


SECOND_BODY = {"k": "prim", "items": [{"t": "str", "s": [116], "n": 0}], "keys": []}   # the text/plain variant's payload: "t"


def pipeline_coverage_again(op, loc: str, value):
    """What `_iter_coverage_cases` does for an operation with several body media types: one template, `with_body` per media type.
    Returns the kwargs of the SECOND derived case (the first equals pipeline C plus a body)."""
    from schemathesis.generation import coverage
    from schemathesis.generation.hypothesis.builder import Template
    from schemathesis.specs.openapi.serialization import get_serializers_for_operation

    t = Template(get_serializers_for_operation(op))
    t.add_parameter(loc, NAME, coverage.GeneratedValue.with_positive(copy.deepcopy(value), description="verif"))
    t.with_body(media_type=MEDIA["json"], value=coverage.GeneratedValue.with_positive(1, description="verif"))
    return dict(t.with_body(media_type=MEDIA["text"], value=coverage.GeneratedValue.with_positive("t", description="verif")).kwargs)


# ---------------------------------------------------------------------------------------------------------------------
# sending and recording
# ---------------------------------------------------------------------------------------------------------------------
def _norm_host(h: str) -> str:
    return re.sub(r":\d+$", ":PORT", h)


STEP_EXTRAS = {"plain": {}, "params": {"params": {"limit": 10}}, "headers": {"headers": {"X-E": "e"}}, "cookies": {"cookies": {"d": "2"}}}
HIST_CASE = {"cookies": {"c": "1"}, "headers": {"X-H": "h"}}


def send(el: dict, kwargs: dict, transport: str, pipe: str, case=None, step: str = "") -> dict:
    """Build the Case on the transport's own schema object (or take the one of a history), send it, project what arrived."""
    op = get_operation(el, transport)
    if case is None:
        case = op.Case(**copy.deepcopy(kwargs))
    conf = CONF_HEADERS if el["kind"] in ("url", "body") else None
    call_kw: dict = {}
    if conf:
        call_kw["headers"] = dict(conf)
    if step:
        call_kw.update(copy.deepcopy(STEP_EXTRAS[step]))
        before = (copy.deepcopy(case.query), copy.deepcopy(case.cookies), dict(case.headers or {}), copy.deepcopy(case.path_parameters))
    root = _root(transport)
    if el["base"] == 7 and transport != "wsgi":
        call_kw["base_url"] = root + BASE_PATH[7]
    d = el["def"]
    loc = d["loc"] if el["kind"] in ("param", "url") else "hist-headers" if step == "headers" else "hist" if step else "none"
    has_body = "body" in kwargs
    o: dict = {"kind": el["kind"], "def": d, "val": el["val"], "bval": SECOND_BODY if pipe == "C2" else el["val"],
               "media": "text" if pipe == "C2" else el["media"], "explicit": pipe == "X",
               "wantMethod": op.method.upper(), "basePath": cps(BASE_PATH[el["base"]]), "tmpl": cps(template_of(el)),
               "wantCtype": cps((case.media_type or "") if has_body else ""), "step": step, "envloc": loc}
    try:
        if transport == "requests":
            srv = _server()
            srv.clear()
            case.call(**call_kw)
            rec = srv.snapshot()[-1]
            headers = [(k.lower(), v) for k, v in rec.headers]
            o.update(method=rec.method, path=cps(rec.path), pmode="pct", query=cps(rec.query), body=list(rec.body))
        elif transport == "wsgi":
            _P.pop("wsgi_cap", None)
            case.call(**call_kw)
            env, body = _P["wsgi_cap"]
            headers = [(k[5:].lower().replace("_", "-"), v) for k, v in env.items() if k.startswith("HTTP_")]
            for k in ("CONTENT_TYPE", "CONTENT_LENGTH"):
                if env.get(k):
                    headers.append((k.lower().replace("_", "-"), env[k]))
            o.update(method=env["REQUEST_METHOD"], path=cps(env.get("SCRIPT_NAME", "") + env["PATH_INFO"]), pmode="dec",
                     query=cps(env.get("QUERY_STRING", "")), body=list(body))
        else:
            _P.pop("asgi_cap", None)
            case.call(**call_kw)
            scope, body = _P["asgi_cap"]
            headers = [(k.decode("latin-1").lower(), v.decode("latin-1")) for k, v in scope["headers"]]
            o.update(method=scope["method"], path=list(scope["raw_path"]), pmode="pct", query=list(scope["query_string"]),
                     body=list(body))
    except Exception as exc:  # the case could not be sent at all
        return {"error": "%s: %s" % (type(exc).__name__, str(exc)[:200])}
    hd: dict = {}
    for k, v in headers:
        hd.setdefault(k, v)
    o["hnames"] = sorted({k for k, _ in headers})
    o["hpresent"] = NAME in hd and loc == "header"
    o["hval"] = cps(hd.get(NAME, "")) if loc == "header" else []
    o["cpresent"] = "cookie" in hd
    o["cookie"] = cps(hd.get("cookie", ""))
    o["ctype"] = cps(hd.get("content-type", ""))
    o["conf"] = [{"name": k.lower(), "want": cps(v), "present": k.lower() in hd, "got": cps(hd.get(k.lower(), ""))}
                 for k, v in (conf or {}).items()]
    got_id = hd.get("x-schemathesis-testcaseid", "")
    o["wantId"] = "ID"
    o["gotId"] = "ID" if got_id == case.id else "other:" + got_id
    want_host = urlsplit(call_kw.get("base_url") or root).netloc
    # history sends: the case's own header X-H, the call-level X-E, and which of the case's containers the send changed
    o["hx"] = [{"n": k, "v": cps(hd[k])} for k in ("x-e", "x-h") if k in hd] if step else []
    o["mut"] = ([n for n, b, a in zip(("query", "cookies", "headers", "path_parameters"), before,
                                      (case.query, case.cookies, dict(case.headers or {}), case.path_parameters)) if a != b] if step else [])
    o["wantHost"] = _norm_host(want_host)
    o["gotHost"] = _norm_host(hd.get("host", ""))
    return o


def run_element(el: dict) -> list[dict]:
    """All (pipeline, transport) observations of one element: [{pipe, transport, kwargs, obs | error | filtered}]."""
    out = []
    value = body_py(el) if el["kind"] == "body" else value_py(el["val"])
    d = el["def"]
    pipes: list[tuple[str, dict | None]] = []
    if el["kind"] == "hist":
        # one Case object per transport, sent once per step of the history
        for tr in TRANSPORTS:
            case = get_operation(el, tr).Case(query={"q": value}, **copy.deepcopy(HIST_CASE))
            for k, step in enumerate(el["hist"]):
                o = send(el, {}, tr, "X", case=case, step=step)
                r = {"pipe": "X", "transport": tr, "kwargs": "step %d/%d %s of %s" % (k + 1, len(el["hist"]), step, "+".join(el["hist"])), "step": k}
                r.update({"error": o["error"]} if "error" in o else {"obs": o})
                out.append(r)
        return out
    if el["kind"] == "body":
        try:
            pipes.append(("G", pipeline_generate_body(el, value)))
        except Exception as exc:
            pipes.append(("G", {"__error__": "%s: %s" % (type(exc).__name__, exc)}))
        if el["media"] != "form-list":   # a list of one-pair objects is a shape only generation produces (prepare_urlencoded)
            pipes.append(("X", {"body": value, "media_type": MEDIA[el["media"]]}))
    else:
        loc = d["loc"]
        op = get_operation(el, "requests")
        pipes.append(("G", pipeline_generate(op, loc, copy.deepcopy(value))))
        if el["kind"] == "param":
            try:
                pipes.append(("C", pipeline_coverage(op, loc, value)))
            except Exception as exc:
                pipes.append(("C", {"__error__": "%s: %s" % (type(exc).__name__, exc)}))
            if d["dialect"] == "oas3":
                try:
                    pipes.append(("C2", pipeline_coverage_again(op, loc, value)))
                except Exception as exc:
                    pipes.append(("C2", {"__error__": "%s: %s" % (type(exc).__name__, exc)}))
        # explicit cases carry what the user serialised; only identity styles make the raw string the wire value
        if isinstance(value, str) and d["type"] == "prim" and d["style"] in ("default", "simple", "form"):
            pipes.append(("X", {CONTAINER[loc]: {NAME: value}}))
    for pipe, kwargs in pipes:
        if kwargs is None:
            out.append({"pipe": pipe, "filtered": True})
            continue
        if "__error__" in kwargs:
            out.append({"pipe": pipe, "transport": "-", "kwargs": "", "error": kwargs["__error__"]})
            continue
        # the second case of a coverage template differs from the first before any transport is involved: one transport suffices
        for tr in (TRANSPORTS[:1] if pipe == "C2" else TRANSPORTS):
            o = send(el, kwargs, tr, pipe)
            r = {"pipe": pipe, "transport": tr, "kwargs": repr(kwargs)[:300]}
            if "error" in o:
                r["error"] = o["error"]
            else:
                r["obs"] = o
            out.append(r)
    return out


def _work(el: dict) -> list[dict]:
    return run_element(el)


# ---------------------------------------------------------------------------------------------------------------------
# independent Python reading of the rules (cross-check of the TLA+ judge; urllib / json based)
# ---------------------------------------------------------------------------------------------------------------------
_BADPCT = re.compile(rb"%(?![0-9A-Fa-f]{2})")


def txt(raw: list[int], mode: str):
    """Decoded text or None when malformed."""
    if mode == "raw":
        return text(raw)
    if any(c > 255 for c in raw):
        return None
    b = bytes(raw)
    if mode != "dec":
        if _BADPCT.search(b):
            return None
        if mode == "form":
            b = b.replace(b"+", b" ")
        b = unquote_to_bytes(b)
    try:
        return b.decode("utf-8")
    except UnicodeDecodeError:
        return None


def split(seq: list, d: int) -> list[list]:
    parts, cur = [], []
    for c in seq:
        if c == d:
            parts.append(cur)
            cur = []
        else:
            cur.append(c)
    return parts + [cur]


def split_first(seq: list, d: int):
    if d in seq:
        i = seq.index(d)
        return seq[:i], seq[i + 1:], True
    return list(seq), [], False


def dec_all(parts, mode):
    r = [txt(p, mode) for p in parts]
    return None if any(x is None for x in r) else r


def raw_split(raw, d, mode):
    r = dec_all(split(raw, d), mode)
    return [] if r is None else [r]


def dec_split(raw, d, mode):
    t = txt(raw, mode)
    return [] if t is None else [[text(p) for p in split(cps(t), d)]]


def as_arr(alts):
    return [("arr", tuple(a), ()) for a in alts]


def as_prim(alts):
    return [("prim", (a,), ()) for a in alts]


def as_obj(alts):
    out = []
    for a in alts:
        if len(a) > 0 and len(a) % 2 == 0:
            out.append(("obj", tuple(a[1::2]), tuple(a[0::2])))
    return out


def raw_kv(raw, d, mode):
    ks, vs = [], []
    for part in split(raw, d):
        a, b, f = split_first(part, 61)
        if not f:
            return []
        ks.append(a)
        vs.append(b)
    k, v = dec_all(ks, mode), dec_all(vs, mode)
    return [] if k is None or v is None else [("obj", tuple(v), tuple(k))]


def dec_kv(raw, d, mode):
    t = txt(raw, mode)
    return [] if t is None else raw_kv(cps(t), d, "raw")


def text1(raw, mode):
    t = txt(raw, mode)
    return [] if t is None else [t]


def style_of(d):
    if d["style"] == "default":
        return "form" if d["loc"] in ("query", "cookie") else "simple"
    return d["style"]


def explode_of(d):
    return style_of(d) == "form" if d["explode"] == "default" else d["explode"] == "true"


def delim_of(fmt):
    return {"default": 44, "csv": 44, "ssv": 32, "tsv": 9}.get(fmt, 124)


P_NAME = cps(NAME)


_TRIPLET = re.compile(rb"%([0-9A-Fa-f]{2})")
_UNRESERVED = set(b"ABCDEFGHIJKLMNOPQRSTUVWXYZabcdefghijklmnopqrstuvwxyz0123456789-._~")


def pct_upper(raw: list[int]) -> list[int]:
    out, k = [], 0
    for c in raw:
        if c == 37:
            out.append(c)
            k = 2
        elif k > 0:
            out.append(c - 32 if 97 <= c <= 102 else c)
            k -= 1
        else:
            out.append(c)
    return out


def norm_unreserved(seg: list[int]) -> list[int]:
    if any(c > 255 for c in seg):
        return seg
    return list(_TRIPLET.sub(lambda m: bytes([int(m.group(1), 16)]) if int(m.group(1), 16) in _UNRESERVED else m.group(0), bytes(seg)))


def path_decode(d, seg, mode):
    if mode == "pct":
        seg = norm_unreserved(seg)
    ty = d["type"]
    if d["dialect"] == "swagger2":
        if ty == "prim":
            return as_prim(text1(seg, mode)), []
        dl = delim_of(d["style"])
        if dl == 44:
            return as_arr(raw_split(seg, dl, mode)), as_arr(dec_split(seg, dl, mode))
        return as_arr(raw_split(seg, dl, mode) + dec_split(seg, dl, mode)), []
    st, ex = style_of(d), explode_of(d)
    if st == "simple":
        if ty == "prim":
            return as_prim(text1(seg, mode)), []
        if ty == "array":
            return as_arr(raw_split(seg, 44, mode)), as_arr(dec_split(seg, 44, mode))
        if ex:
            return raw_kv(seg, 44, mode), dec_kv(seg, 44, mode)
        return as_obj(raw_split(seg, 44, mode)), as_obj(dec_split(seg, 44, mode))
    if st == "label":
        if not seg or seg[0] != 46:
            return [], []
        rest = seg[1:]
        if ty == "prim":
            return as_prim(text1(rest, mode)), []
        if ty == "array":
            if ex:
                return as_arr(raw_split(rest, 46, mode)), []
            return as_arr(raw_split(rest, 46, mode) + raw_split(rest, 44, mode)), as_arr(dec_split(rest, 44, mode))
        if ex:
            return raw_kv(rest, 46, mode), dec_kv(rest, 46, mode)
        return as_obj(raw_split(rest, 46, mode) + raw_split(rest, 44, mode)), as_obj(dec_split(rest, 44, mode))
    if st == "matrix":
        if not seg or seg[0] != 59:
            return [], []
        rest = seg[1:]
        a, b, f = split_first(rest, 61)
        if ty == "prim":
            return (as_prim(text1(b, mode)), []) if a == P_NAME else ([], [])
        if ty == "array":
            if ex:
                vals = []
                for part in split(rest, 59):
                    a2, b2, _ = split_first(part, 61)
                    if a2 != P_NAME:
                        return [], []
                    vals.append(b2)
                r = dec_all(vals, mode)
                return (as_arr([r]) if r is not None else []), []
            if a == P_NAME and f:
                return as_arr(raw_split(b, 44, mode)), as_arr(dec_split(b, 44, mode))
            return [], []
        if ex:
            return raw_kv(rest, 59, mode), []
        if a == P_NAME and f:
            return as_obj(raw_split(b, 44, mode)), as_obj(dec_split(b, 44, mode))
        return [], []
    return [], []


def q_parts(q):
    return [split_first(p, 61) for p in split(q, 38) if p]


def query_read(d, q, mode):
    kv = q_parts(q)
    n = len(kv)
    ns = dec_all([a for a, _, _ in kv], mode)
    vs = dec_all([b for _, b, _ in kv], mode)
    if ns is None or vs is None:
        return []
    st = style_of(d)
    sw = d["dialect"] == "swagger2"
    one = n == 1 and ns == [NAME]
    dl = delim_of(d["style"]) if sw else 32 if st == "spaceDelimited" else 124 if st == "pipeDelimited" else 44
    multi = d["style"] == "multi" if sw else (st == "form" and explode_of(d))
    lst = (raw_split(kv[0][1], dl, mode) + dec_split(kv[0][1], dl, mode)) if one else []
    ty = d["type"]
    if ty == "prim":
        return as_prim([vs[0]]) if one else []
    if st == "deepObject" and not sw:
        if n >= 1 and ty == "object" and all(len(x) >= 3 and x[0] == NAME and x[1] == "[" and x[-1] == "]" for x in ns):
            return [("obj", tuple(vs), tuple(x[2:-1] for x in ns))]
        return []
    if ty == "array":
        if multi:
            return as_arr([vs]) if n >= 1 and all(x == NAME for x in ns) else []
        return as_arr(lst)
    if multi:
        return [("obj", tuple(vs), tuple(ns))] if n >= 1 else []
    return as_obj(lst)


def header_decode(d, present, h):
    if not present:
        return [], []
    dl = delim_of(d["style"]) if d["dialect"] == "swagger2" else 44
    ty = d["type"]
    if ty == "prim":
        return as_prim([text(h)]), []
    if ty == "array":
        return as_arr([[text(p) for p in split(h, dl)]]), []
    if explode_of(d):
        return raw_kv(h, 44, "raw"), []
    return as_obj([[text(p) for p in split(h, 44)]]), []


def cookie_value(present, c):
    if not present:
        return None
    parts = []
    for p in split(c, 59):
        while p and p[0] in (32, 9):
            p = p[1:]
        if p:
            parts.append(split_first(p, 61))
    if len(parts) == 1 and parts[0][0] == P_NAME and parts[0][2]:
        return parts[0][1]
    return None


def cookie_decode(d, present, c):
    v = cookie_value(present, c)
    if v is None:
        return [], []
    lists = raw_split(v, 44, "raw") + raw_split(v, 44, "pct") + dec_split(v, 44, "pct")
    if d["type"] == "prim":
        return as_prim(text1(v, "raw") + text1(v, "pct")), []
    if d["type"] == "array":
        return as_arr(lists), []
    return as_obj(lists), []


def same(a, b) -> bool:
    if a[0] != b[0] or len(a[1]) != len(b[1]):
        return False
    if a[0] == "obj":
        return len(a[2]) == len(a[1]) and len(b[2]) == len(b[1]) and set(zip(a[2], a[1])) == set(zip(b[2], b[1]))
    return tuple(a[1]) == tuple(b[1])


def typed(v: dict):
    """Typed projection of a value record for JSON comparison (bool is not int)."""
    def p(x):
        return (x["t"], text(x["s"]), x["n"])
    return v["k"], tuple(p(x) for x in v["items"]), tuple(text(k) for k in v["keys"])


def _reject(token: str):
    raise ValueError("outside the flat-JSON fragment: " + token)


def typed_json(t: str):
    """Flat JSON value (primitive, or array / object of primitives; integers only) as a typed projection, else None."""
    try:
        j = json.loads(t, parse_float=_reject, parse_constant=_reject)
    except (ValueError, RecursionError):
        return None

    def p(x):
        if isinstance(x, bool):
            return ("bool", "", int(x))
        if x is None:
            return ("null", "", 0)
        if isinstance(x, int):
            return ("int", "", x)
        if isinstance(x, str):
            return ("str", x, 0)
        raise ValueError("deep")

    try:
        if isinstance(j, list):
            return "arr", tuple(p(i) for i in j), ()
        if isinstance(j, dict):
            return "obj", tuple(p(i) for i in j.values()), tuple(j.keys())
        return "prim", (p(j),), ()
    except ValueError:
        return None


def py_coerce(p: dict) -> str:
    return text(p["s"]) if p["t"] == "str" else str(p["n"]) if p["t"] == "int" else ("true" if p["n"] else "false") if p["t"] == "bool" else "null"


def want_of(el_want: dict):
    return el_want["k"], tuple(text(t) for t in el_want["items"]), tuple(text(k) for k in el_want["keys"])


def py_param_verdict(o: dict, fragment: str, want: dict, seg) -> tuple[str, str]:
    d = o["def"]
    if fragment != "T":
        return "U", fragment
    w = want_of(want)
    if o["explicit"] and d["loc"] == "path" and w[0] == "prim":
        if o["pmode"] == "pct":
            if pct_upper(seg) == pct_upper(cps(w[1][0])):
                return "T", ""
        else:
            raw = w[1][0].encode("utf-8")
            if not _BADPCT.search(raw) and list(unquote_to_bytes(raw)) == list(seg):
                return "T", ""
        raw = w[1][0].encode("utf-8")
        if not _BADPCT.search(raw):
            try:
                unquote_to_bytes(raw).decode("utf-8")
            except UnicodeDecodeError:
                return "U", "explicit-text-not-utf8"
    if d["style"] == "json":
        if d["loc"] == "path":
            atoms = text1(seg, o["pmode"])
        elif d["loc"] == "query":
            kv = q_parts(o["query"])
            atoms = text1(kv[0][1], "form") if len(kv) == 1 and text1(kv[0][0], "form") == [NAME] else []
        elif d["loc"] == "header":
            atoms = [text(o["hval"])] if o["hpresent"] else []
        else:
            v = cookie_value(o["cpresent"], o["cookie"])
            atoms = (text1(v, "raw") + text1(v, "pct")) if v is not None else []
        tv = typed(o["val"])
        for a in atoms:
            j = typed_json(a)
            if j is not None and same_typed(j, tv):
                return "T", ""
        return "F", "json"
    if d["loc"] == "cookie":
        cv = cookie_value(o["cpresent"], o["cookie"])
        if cv and cv[0] == 34:
            return "U", "quoted-cookie-value"
    if d["loc"] == "path":
        strict, lenient = path_decode(d, seg, o["pmode"])
    elif d["loc"] == "query":
        strict, lenient = query_read(d, o["query"], "form"), query_read(d, o["query"], "pct")
    elif d["loc"] == "header":
        strict, lenient = header_decode(d, o["hpresent"], o["hval"])
    else:
        strict, lenient = cookie_decode(d, o["cpresent"], o["cookie"])
    alts = [w]
    if o["explicit"] and d["loc"] == "path":
        r = [txt(cps(t), "pct") for t in w[1]]
        if all(x is not None for x in r):
            alts.append((w[0], tuple(r), w[2]))
    if any(same(s, a) for s in strict for a in alts):
        return "T", ""
    if any(same(s, a) for s in lenient for a in alts):
        return "U", "only-lenient-reading"
    return "F", "no-parse" if not strict and not lenient else "other-value"


def same_typed(a, b) -> bool:
    if a[0] != b[0] or len(a[1]) != len(b[1]):
        return False
    if a[0] == "obj":
        return len(a[2]) == len(a[1]) and len(b[2]) == len(b[1]) and set(zip(a[2], a[1])) == set(zip(b[2], b[1]))
    return a[1] == b[1]


def media_type_of(ct: list[int]) -> list[int]:
    return cps(text(ct).split(";", 1)[0].strip(" \t").translate({c: c + 32 for c in range(65, 91)}))


def multipart_fields(ct: list[int], body: list[int]):
    """Independent reading of a multipart body with the standard library's MIME parser: [(field name, content text)] in wire
    order, or None when it is not a well-formed multipart message under the Content-Type's boundary."""
    from email.parser import BytesParser
    from email.policy import HTTP

    try:
        head = text(ct).encode("latin-1")
        msg = BytesParser(policy=HTTP).parsebytes(b"Content-Type: " + head + b"\r\n\r\n" + bytes(body))
        if not msg.is_multipart() or msg.defects or not msg.get_boundary():
            return None
        out = []
        for part in msg.iter_parts():
            name = part.get_param("name", header="content-disposition")
            if part.defects or not isinstance(name, str):
                return None
            out.append((name, part.get_payload(decode=True).decode("utf-8")))
        return out
    except (ValueError, LookupError, AttributeError):
        return None


def py_multipart_verdict(o: dict, bval: dict) -> str:
    got = multipart_fields(o["ctype"], o["body"])
    if got is None:
        return "F"
    want = [(text(k), py_coerce(x)) for k, x in zip(bval["keys"], bval["items"])]
    names = {n for n, _ in got} | {n for n, _ in want}
    return "T" if all([t for n, t in got if n == x] == [t for n, t in want if n == x] for x in names) else "F"


STANDARD = {"host", "user-agent", "accept", "accept-encoding", "connection", "content-length", "content-type", "transfer-encoding"}


def py_judge(o: dict, fragment: str, want: dict) -> dict:
    # '/', '{', '}' in a path value: outside the fragment only for explicit cases and for an already decoded path (WSGI)
    if (o["kind"] in ("param", "url") and o["def"]["loc"] == "path" and (o["explicit"] or o["pmode"] == "dec")
            and any(c in (47, 123, 125) for t in list(want["items"]) + list(want["keys"]) for c in t)):
        fragment = "unsendable-path-value"
    want_segs = [s for s in split(o["basePath"], 47) if s] + split(o["tmpl"], 47)[1:]
    got_segs = split(o["path"], 47)[1:]
    var = cps("{p}")
    struct_ok = bool(o["path"]) and o["path"][0] == 47 and len(got_segs) == len(want_segs)
    lit_ok = struct_ok and all(ws == var or txt(gs, o["pmode"]) == text(ws) for ws, gs in zip(want_segs, got_segs))
    in_path = o["kind"] in ("param", "url") and o["def"]["loc"] == "path"
    url = "U" if in_path and fragment != "T" else ("T" if in_path else "F:structure") if not struct_ok else "F:literal" if not lit_ok else "T"
    seg = got_segs[want_segs.index(var)] if struct_ok and var in want_segs else []
    body_kind = o["kind"] in ("body", "hist")
    loc = o["def"]["loc"]
    step = o.get("step", "")
    if body_kind:
        pv, why = "T", ""
    elif loc == "path" and not struct_ok:
        pv, why = ("U", fragment) if fragment != "T" else ("F", "structure")
    else:
        pv, why = py_param_verdict(o, fragment, want, seg)
    extra = "F" if o["kind"] != "hist" and (body_kind or loc != "query") and o["query"] else "T"
    allowed = STANDARD | {"x-schemathesis-testcaseid"} | {c["name"] for c in o["conf"]}
    if not body_kind and loc == "header":
        allowed.add(NAME)
    if not body_kind and loc == "cookie":
        allowed.add("cookie")
    if o["kind"] == "hist":
        allowed |= {"cookie", "x-h"} | ({"x-e"} if step == "headers" else set())
    hdrs = "T" if all(h in allowed for h in o["hnames"]) else "F"
    conf = "T" if all(c["present"] and c["got"] == c["want"] for c in o["conf"]) else "F"
    media = o["media"]
    bval = o.get("bval", o["val"])
    bwant = (bval["k"], tuple(py_coerce(x) for x in bval["items"]), tuple(text(k) for k in bval["keys"]))
    bt = txt(o["body"], "dec")
    multipart = media.startswith("multipart")
    if media in CTYPE_ONLY:
        body = "U"
    elif media == "none":
        body = "T" if not o["body"] else "F"
    elif media in MULTIPART_FORMS:
        body = py_multipart_verdict(o, bval)
    elif media in ("json", "json-suffix"):
        j = typed_json(bt) if bt is not None else None
        body = "T" if j is not None and same_typed(j, typed(bval)) else "F"
    elif media in ("form", "form-list"):
        if any(x["t"] in ("bool", "null") for x in bval["items"]):
            body = "U"
        else:
            kv = q_parts(o["body"])
            ks, vs = dec_all([a for a, _, _ in kv], "form"), dec_all([b for _, b, _ in kv], "form")
            body = "T" if ks is not None and vs is not None and same(("obj", tuple(vs), tuple(ks)), bwant) else "F"
    else:
        body = "T" if bt is not None and bt == bwant[1][0] else "F"
    hist = "T"
    if o["kind"] == "hist":
        kv = q_parts(o["query"])
        ns, vs = dec_all([a for a, _, _ in kv], "form"), dec_all([b for _, b, _ in kv], "form")
        want_q = {("q", py_coerce(o["val"]["items"][0]))} | ({("limit", "10")} if step == "params" else set())
        want_c = {("c", "1")} | ({("d", "2")} if step == "cookies" else set())
        want_h = {("x-h", "h")} | ({("x-e", "e")} if step == "headers" else set())
        ck = []
        if o["cpresent"]:
            for part in split(o["cookie"], 59):
                while part and part[0] in (32, 9):
                    part = part[1:]
                if part:
                    a, b, _ = split_first(part, 61)
                    ck.append((text(a), text(b)))
        own = [(h["n"], text(h["v"])) for h in o["hx"]]
        if ns is None or vs is None or set(zip(ns, vs)) != want_q or len(kv) != len(want_q):
            hist = "F:query"
        elif set(ck) != want_c or len(ck) != len(want_c):
            hist = "F:cookie"
        elif set(own) != want_h or len(own) != len(want_h):
            hist = "F:header"
        elif o["mut"]:
            hist = "F:case-mutated"
    return {"hist": hist, "url": url, "param": pv, "why": why, "extra": extra, "hdrs": hdrs, "conf": conf,
            "id": "T" if o["gotId"] == o["wantId"] and o["wantId"] else "F",
            "host": "T" if o["gotHost"] == o["wantHost"] else "F",
            "method": "T" if o["method"] == o["wantMethod"] else "F",
            "ctype": "T" if (media_type_of(o["ctype"]) if multipart else o["ctype"]) == o["wantCtype"] else "F", "body": body}


# ---------------------------------------------------------------------------------------------------------------------
# features and signatures (computed from the descriptor, DESIGN Appendix E)
# ---------------------------------------------------------------------------------------------------------------------
CHAR_CLASS = {32: "space", 37: "pct", 43: "plus", 47: "slash", 46: "dot", 38: "amp", 61: "eq", 44: "comma", 59: "semi",
              124: "pipe", 91: "bracket", 93: "bracket", 9: "tab"}


def text_features(t: list[int], prefix: str = "") -> set[str]:
    if not t:
        return {prefix + "empty"}
    s = text(t)
    if s in (".", ".."):
        return {prefix + "dot-segment"}
    out = set()
    if re.search(r"%[0-9A-Fa-f]{2}", s):
        out.add(prefix + "pct-triplet")
        s = re.sub(r"%[0-9A-Fa-f]{2}", "", s)
    for c in s:
        o = ord(c)
        if o > 126:
            out.add(prefix + "nonascii")
        elif o in CHAR_CLASS:
            out.add(prefix + CHAR_CLASS[o])
    return out


def value_features(v: dict) -> frozenset:
    out: set[str] = set()
    for p in v["items"]:
        if p["t"] == "bool":
            out.add("bool")
        elif p["t"] == "null":
            out.add("null")
        elif p["t"] == "int":
            out.add("zero" if p["n"] == 0 else "int")
        else:
            out |= text_features(p["s"])
    for k in v["keys"]:
        out |= text_features(k, "key-")
    if v["k"] != "prim" and not v["items"]:
        out.add("empty-composite")
    return frozenset(out)


def site_parts(el: dict, pipe: str, aspect: str, stepidx: int | None = None) -> tuple[str, tuple]:
    """(group, dims): the group never collapses; a dimension collapses to '*' when every judged value of it fails alike."""
    d = el["def"]
    if el["kind"] == "hist":
        # what matters for one send of a history: its own kind of call and which kinds of extras earlier calls carried
        k = stepidx or 0
        parts = aspect.split(":")
        rel = {"query": "params", "cookie": "cookies", "header": "headers"}.get(parts[1]) if len(parts) > 1 else None
        if rel:  # the failing component belongs to this call's own extras, or an earlier call carried extras of that kind (a leak)
            aspect += ":leak" if rel in el["hist"][:k] and el["hist"][k] != rel else ":own"
        return aspect + ":history", (pipe, "step=" + el["hist"][k])
    if el["kind"] == "body":
        return aspect + ":body", (pipe, el["media"], el["val"]["k"])
    tmpl = URL_TMPL[el["tmpl"]] if el["kind"] == "url" else ("/x/{p}/y" if d["loc"] == "path" else "/x")
    return aspect, (pipe, d["dialect"], d["loc"], d["style"], "explode=" + d["explode"], d["type"],
                    "base=" + (BASE_PATH[el["base"]] or "(none)"), "tmpl=" + tmpl)


def site_of(el: dict, pipe: str, aspect: str, stepidx: int | None = None) -> str:
    g, dims = site_parts(el, pipe, aspect, stepidx)
    return g + ":" + ":".join(dims)


def collapse(failing: set, universe: set) -> dict:
    """Label every failing dims tuple by the most general pattern all of whose judged instances fail."""
    import itertools

    n = len(next(iter(failing)))
    every = universe | failing
    labels: dict = {}
    for mask in sorted(itertools.product((True, False), repeat=n), key=lambda m: (-sum(m), m)):
        total: dict = {}
        bad: dict = {}
        for u in every:
            pat = tuple("*" if m else u[i] for i, m in enumerate(mask))
            total[pat] = total.get(pat, 0) + 1
            if u in failing:
                bad[pat] = bad.get(pat, 0) + 1
        for t in failing:
            if t not in labels:
                pat = tuple("*" if m else t[i] for i, m in enumerate(mask))
                if bad.get(pat) == total[pat]:
                    labels[t] = ":".join(pat)
        if len(labels) == len(failing):
            break
    return labels


def attribute(fails: list[dict]) -> None:
    """Minimal necessary value feature per failure: a failing value with several features is attributed to a feature that
    already fails alone at the same site; only if none does, the combination is the input class."""
    by_site: dict[str, list[dict]] = {}
    for f in fails:
        by_site.setdefault(f["site"], []).append(f)
    for site, fs in by_site.items():
        single = {next(iter(f["features"])) for f in fs if len(f["features"]) == 1}
        anyv = any(not f["features"] for f in fs)
        for f in fs:
            ft = f["features"]
            if anyv:
                f["feature"] = "any-value"
            elif ft & single:
                f["feature"] = sorted(ft & single)[0]
            else:
                f["feature"] = "+".join(sorted(ft))


# ---------------------------------------------------------------------------------------------------------------------
# judging
# ---------------------------------------------------------------------------------------------------------------------
CTX_FIELDS = ("kind", "media", "wantMethod", "basePath", "tmpl", "wantCtype", "step")
CORE_FIELDS = {"x": "explicit", "m": "method", "path": "path", "pm": "pmode", "q": "query", "hp": "hpresent", "hv": "hval",
               "cp": "cpresent", "ck": "cookie", "b": "body", "ct": "ctype", "hx": "hx", "mut": "mut"}
ENV_FIELDS = ("hnames", "conf", "gotId", "wantId", "gotHost", "wantHost")


class _Table:
    def __init__(self):
        self.index: dict[str, int] = {}
        self.rows: list = []

    def add(self, row) -> int:
        k = json.dumps(row, sort_keys=True)
        if k not in self.index:
            self.rows.append(row)
            self.index[k] = len(self.rows)  # 1-based for TLA+
        return self.index[k]


def judge(ctx: Ctx, observations: list[dict], name: str = "obs.json"):
    """TLC judges every distinct core observation and every distinct envelope; returns (verdicts aligned with
    `observations`, TLCResult, number of distinct entries judged)."""
    defs, vals, ctxs, cores, envs = _Table(), _Table(), _Table(), _Table(), _Table()
    idx = []
    for o in observations:
        o.setdefault("step", "")
        o.setdefault("hx", [])
        o.setdefault("mut", [])
        core = {"c": ctxs.add({k: o[k] for k in CTX_FIELDS}), "d": defs.add(o["def"]), "v": vals.add(o["val"]),
                "bv": vals.add(o.get("bval", o["val"]))}
        core.update({k: o[src] for k, src in CORE_FIELDS.items()})
        env = {k: o[k] for k in ENV_FIELDS}
        env["loc"] = o.get("envloc") or (o["def"]["loc"] if o["kind"] != "body" else "none")
        idx.append((cores.add(core), envs.add(env)))
    f = ctx.path(name)
    tlc.write_json(f, {"defs": defs.rows, "vals": vals.rows, "ctx": ctxs.rows, "core": cores.rows, "env": envs.rows})
    vc: dict[int, dict] = {}
    ve: dict[int, dict] = {}
    res = tlc.require_ok(tlc.run_tlc("WireJudge", "WireJudge.cfg", env={"OBS_FILE": f}, timeout=3000, want_prints=False,
                                     on_json=lambda tag, d: (vc if tag == "V" else ve).__setitem__(d["i"], d)), "WireJudge")
    if len(vc) != len(cores.rows) or len(ve) != len(envs.rows):
        raise tlc.TLCFailure("WireJudge judged %d/%d core and %d/%d envelope entries" % (len(vc), len(cores.rows), len(ve), len(envs.rows)))
    return [{**vc[c], **ve[e]} for c, e in idx], res, len(cores.rows) + len(envs.rows)


def emit(out: Outcome, cases: list[dict], results: list, fails: list[dict], judged: list[tuple], judged_tr: dict, literal_pipe: str = "") -> None:
    """Violations with collapsed signatures for `fails`; `judged` = [(element, pipeline, verdict record)] is the universe of what was judged."""
    attribute(fails)
    # one violation per (element, pipeline, aspect); the failing transports are part of the signature
    grouped: dict[tuple, list[dict]] = {}
    for f in fails:
        grouped.setdefault((f["ci"], f["pipe"], f["aspect_full"], f["feature"], f.get("stepidx")), []).append(f)
    # transports part of the signature: the transports on which the element fails; a transport on which it is outside the fragment
    # (e.g. '/' in WSGI's decoded PATH_INFO) counts like the other values of the same class at the same site do there
    site_fail: dict[tuple, set] = {}
    for (ci, pipe, aspect, feature, stepidx), fs in grouped.items():
        group, dims = site_parts(cases[ci], pipe, aspect, stepidx)
        site_fail.setdefault((group, dims, feature), set()).update(f["transport"] for f in fs)
    pending = []
    for (ci, pipe, aspect, feature, stepidx), fs in grouped.items():
        group, dims = site_parts(cases[ci], pipe, aspect, stepidx)
        trs = sorted({f["transport"] for f in fs})
        ran = sorted({r["transport"] for r in results[ci] if r.get("pipe") == pipe and "transport" in r})
        unjudged = set(ran) - judged_tr.get((ci, pipe, aspect.split(":")[0]), set(ran))
        eff = sorted(set(trs) | (unjudged & site_fail[(group, dims, feature)]))
        rest = [t for t in ran if t != "requests"]
        tr = "all" if eff == ran or trs == ["-"] else "not-requests" if eff == rest and len(rest) > 1 else "+".join(eff)
        pending.append((group, feature, tr, dims, ci, pipe, aspect, trs, fs[0]))
    # universe of judged descriptor dimensions per (group, feature): where the same feature was judged at all
    judged_dims: dict[str, list[tuple]] = {}
    for el, jpipe, v, jstep in judged:
        ft = value_features(el["val"])
        for a in ASPECTS:
            if v[a] == "T" or v[a].startswith("F"):
                g, dims = site_parts(el, jpipe, a + (v[a][1:] if a in ("url", "hist") and v[a] != "T" else ""), jstep)
                judged_dims.setdefault(el["kind"] if el["kind"] in ("body", "hist") else "req", []).append((dims, ft))
    by_key: dict[tuple, set] = {}
    for group, feature, tr, dims, *_ in pending:
        by_key.setdefault((group, feature, tr), set()).add(dims)
    labels: dict[tuple, dict] = {}
    for (group, feature, tr), failing in by_key.items():
        need = set() if feature == "any-value" else set(feature.split("+"))
        universe = {dims for dims, ft in judged_dims.get("body" if group.endswith(":body") else "hist" if group.endswith(":history") else "req", [])
                    if need <= ft}
        labels[(group, feature, tr)] = collapse(failing, universe)
    for group, feature, tr, dims, ci, pipe, aspect, trs, f0 in sorted(pending, key=lambda x: (x[0], x[1], x[2], x[3], x[4])):
        el = cases[ci]
        wire = ""
        if "obs" in f0:
            ob = f0["obs"]
            wire = "%s %s%s hdr=%r cookie=%r body=%r" % (ob["method"], text(ob["path"]), ("?" + text(ob["query"])) if ob["query"] else "",
                                                        text(ob["hval"]), text(ob["cookie"]), bytes(ob["body"])[:60])
        label = labels[(group, feature, tr)][dims]
        if literal_pipe and label.startswith("*:"):
            label = literal_pipe + label[1:]
        out.violations.append(Violation(
            "C06:%s:%s:%s:%s" % (group, label, feature, tr),
            "%s not as the case says (%s): %s value %r -> case %s -> wire [%s] on %s" % (
                aspect, f0["detail"], ":".join(dims), shown_py(el), f0.get("kwargs", ""), wire, ",".join(trs)),
            {"element": el, "pipe": pipe, "aspect": aspect.split(":")[0], "transports": trs},
        ))


def run(ctx: Ctx) -> Outcome:
    out = Outcome()
    rng = random.Random(ctx.seed)
    cfg = "Wire_quick.cfg" if ctx.quick else "Wire_thorough.cfg"
    cases: list[dict] = []
    res = tlc.require_ok(tlc.run_tlc("Wire", cfg, workers=1, timeout=3000, want_prints=False,
                                     on_json=lambda tag, d: cases.append(d)), "Wire enumeration")
    for inv in res.violated:
        out.violations.append(Violation("C06:spec:" + inv, "design invariant %s violated in Wire.tla" % inv,
                                        {"kind": "spec", "invariant": inv, "trace": res.counterexample[:60]}))
    cases.sort(key=lambda c: json.dumps(c, sort_keys=True))
    register_defs(cases)
    t1 = time.time()
    order = list(range(len(cases)))
    rng.shuffle(order)  # spread the expensive elements over the workers
    results_shuffled = common.pmap(_work, [cases[i] for i in order])
    results: list = [None] * len(cases)
    for i, r in zip(order, results_shuffled):
        results[i] = r
    t_replay = time.time() - t1

    flat: list[tuple[int, dict]] = []  # (case index, run record with obs)
    filtered = errors = 0
    fails: list[dict] = []
    for ci, rs in enumerate(results):
        for r in rs:
            if r.get("filtered"):
                filtered += 1
            elif "error" in r:
                errors += 1
                el = cases[ci]
                if el["fragment"] == "T" and r["pipe"] != "X":
                    fails.append({"ci": ci, "pipe": r["pipe"], "aspect": "send", "aspect_full": "send", "transport": r["transport"],
                                  "detail": r["error"], "site": site_of(el, r["pipe"], "send"), "features": value_features(el["val"])})
            else:
                flat.append((ci, r))
    verdicts, jres, distinct_obs = judge(ctx, [r["obs"] for _, r in flat])
    # machinery cross-check: the independent Python reading must agree with TLC on every aspect of every observation
    mismatch = []
    for (ci, r), v in zip(flat, verdicts):
        pj = py_judge(r["obs"], cases[ci]["fragment"], cases[ci]["want"])
        for a in ASPECTS + ("why",):
            if pj[a] != v[a]:
                mismatch.append((ci, r["pipe"], r["transport"], a, pj[a], v[a]))
    if mismatch:
        raise tlc.TLCFailure("TLC judge and the Python cross-check disagree on %d verdicts, e.g. %s" % (
            len(mismatch), [(m, cases[m[0]]["def"], cases[m[0]]["val"]) for m in mismatch[:3]]))

    skipped: dict[str, int] = {}
    judged_param = nontrivial = 0
    for (ci, r), v in zip(flat, verdicts):
        el = cases[ci]
        if v["param"] == "U":
            skipped[v["why"]] = skipped.get(v["why"], 0) + 1
        elif el["kind"] != "body":
            judged_param += 1
        if v["body"] == "U":
            why = ("multipart-wrapped-non-object" if el["media"].startswith("multipart") else "payload-encoding-outside-fragment"
                   if el["media"] in CTYPE_ONLY else "form-body-bool-null")
            skipped[why] = skipped.get(why, 0) + 1
        if value_features(el["val"]):
            nontrivial += 1
        for a in ASPECTS:
            if v[a].startswith("F"):
                fails.append({"ci": ci, "pipe": r["pipe"], "aspect": a, "aspect_full": a + (v[a][1:] if a in ("url", "hist") else ""), "stepidx": r.get("step"),
                              "transport": r["transport"],
                              "detail": (v["why"] if a == "param" else v[a]), "site": site_of(el, r["pipe"], a + (v[a][1:] if a in ("url", "hist") else ""), r.get("step")),
                              "features": value_features(el["val"]), "obs": r["obs"], "kwargs": r["kwargs"]})
    # every case derived from one coverage template must decode, not only the first: the second derivation (C2) is reported where
    # the first (C) is fine; where both fail alike the finding is the first one's
    c_verdict = {(ci, r["transport"]): v for (ci, r), v in zip(flat, verdicts) if r["pipe"] == "C"}
    main = [f for f in fails if f["pipe"] != "C2"]
    again = [f for f in fails if f["pipe"] == "C2" and c_verdict.get((f["ci"], f["transport"]), {}).get(f["aspect"]) == "T"]
    judged_tr: dict[tuple, set] = {}
    for (ci, r), v in zip(flat, verdicts):
        for a in ASPECTS:
            if v[a] == "T" or v[a].startswith("F"):
                judged_tr.setdefault((ci, r["pipe"], a), set()).add(r["transport"])
    emit(out, cases, results, main, [(cases[ci], r["pipe"], v, r.get("step")) for (ci, r), v in zip(flat, verdicts) if r["pipe"] != "C2"], judged_tr)
    emit(out, cases, results, again, [(cases[ci], "C2", v, None) for (ci, r), v in zip(flat, verdicts)
                                      if r["pipe"] == "C2" and c_verdict.get((ci, r["transport"]), {}).get("param") == "T"], judged_tr, "C2")
    checked = realgen_crosscheck(ctx, rng, cases, results)
    checked_cov = realcov_crosscheck(ctx, rng, cases, out)
    sample_pool = [(ci, r, v) for (ci, r), v in zip(flat, verdicts) if cases[ci]["kind"] == "param" and v["param"] == "T" and value_features(cases[ci]["val"])]
    out.coverage = {
        "states": res.distinct, "transitions": res.generated,
        "traces_validated_against_impl": len(flat),
        "distinct_observations_judged_by_tlc": distinct_obs,
        "samples": [{"def": cases[ci]["def"], "value": value_py(cases[ci]["val"]), "pipeline": r["pipe"], "transport": r["transport"],
                     "case": r["kwargs"], "path": text(r["obs"]["path"]), "query": text(r["obs"]["query"]), "verdict": {a: v[a] for a in ASPECTS}}
                    for ci, r, v in common.sample(rng, sample_pool, 5)],
        "evaluations": len(flat),
        "distinct_nontrivial": len({ci for (ci, r) in flat if value_features(cases[ci]["val"])}),
        "rule": "every element of Wire.tla's family under %s (TLC-enumerated; parameter definitions x values, base URLs x templates x "
                "path values, media types x bodies), each put through the generation / coverage / explicit pipelines of /repo and sent over "
                "the requests, WSGI and ASGI transports; non-trivial = the value has at least one adversarial feature (reserved character, "
                "empty, boolean, null, zero, non-ASCII, dot segment)" % cfg,
        "exhaustive": True,
        "constants": {"cfg": cfg, "definitions": len(_DEFS), "bases": BASE_PATH, "templates": URL_TMPL, "transports": list(TRANSPORTS)},
        "elements": len(cases),
        "elements_by_kind": {k: sum(1 for c in cases if c["kind"] == k) for k in ("param", "url", "body")},
        "param_observations_judged": judged_param,
        "skipped_outside_fragment": skipped,
        "not_generated_filtered_by_repo": filtered,
        "send_errors": errors,
        "real_generation_crosschecked": checked,
        "real_coverage_phase_crosschecked": checked_cov,
        "failing_observations": len(fails),
        "tlc_enumeration_s": round(res.wall_s, 1), "replay_s": round(t_replay, 1), "tlc_judge_s": round(jres.wall_s, 1),
    }
    out.assumptions = [
        "the loopback http.server, werkzeug's test client environ and starlette-testclient's scope report the request as sent",
        "feeding an enumerated value into get_parameters_strategy in place of hypothesis-jsonschema's draw exercises the same serializer / "
        "filter / quoting chain as generation (cross-checked on a sample against operation.as_strategy with enum-pinned schemas)",
        "XML, YAML and binary bodies, a non-object value wrapped as multipart, multipart field names that are not plain tokens, non-ASCII header/cookie values, cookie values outside RFC 6265 cookie-octets, empty arrays/objects, "
        "items containing the style's delimiter and exploded cookie arrays/objects are outside the judged fragment (counted as skipped)",
    ]
    return out


# ---------------------------------------------------------------------------------------------------------------------
# binding of the G pipeline to real generation: enum-pinned schemas through operation.as_strategy
# ---------------------------------------------------------------------------------------------------------------------
def _pinned_schema(v):
    if isinstance(v, bool):
        return {"type": "boolean", "enum": [v]}
    if isinstance(v, int):
        return {"type": "integer", "enum": [v]}
    if v is None:
        return {"type": "null"}  # `nullable` is not honoured for header/cookie parameters; a null type is
    if isinstance(v, str):
        return {"type": "string", "enum": [v]}
    if isinstance(v, list):
        return {"type": "array", "items": {}, "enum": [v]}
    return {"type": "object", "enum": [v]}


def _realgen(item) -> tuple:
    el, expected = item
    import schemathesis
    from hypothesis import HealthCheck, Phase, given, settings
    from hypothesis.errors import Unsatisfiable
    from schemathesis.generation import GenerationMode

    d = el["def"]
    value = value_py(el["val"])
    p = param_object(d)
    if "content" in p:
        p["content"]["application/json"]["schema"] = _pinned_schema(value)
    else:
        p["schema"] = _pinned_schema(value)
    path = "/r/{p}" if d["loc"] == "path" else "/r"
    raw = {"openapi": "3.0.2", "info": {"title": "t", "version": "1"},
           "paths": {path: {"get": {"parameters": [p], "responses": OK_RESP}}}}
    s = schemathesis.openapi.from_dict(raw).configure(base_url="http://127.0.0.1:1/api")
    out: list = []

    @settings(max_examples=1, database=None, deadline=None, suppress_health_check=list(HealthCheck), phases=[Phase.generate], derandomize=True)
    @given(s[path]["GET"].as_strategy(generation_mode=GenerationMode.POSITIVE))
    def run(c):
        out.append(c)

    try:
        run()
    except Unsatisfiable:
        return expected is None, "filtered", expected
    got = getattr(out[0], CONTAINER[d["loc"]])
    got = dict(got) if got is not None else None
    return (expected is not None and got == expected.get(CONTAINER[d["loc"]])), repr(got), repr(expected)


def realgen_crosscheck(ctx: Ctx, rng, cases, results) -> int:
    # (an empty string path value is excluded: the generator's own schema says minLength 1 for path strings, so it is never drawn)
    pool = [ci for ci, c in enumerate(cases) if c["kind"] == "param" and c["def"]["dialect"] == "oas3"
            and not (c["def"]["loc"] == "path" and value_py(c["val"]) == "")]
    picks = common.sample(rng, pool, 160 if ctx.quick else 1600)
    items = []
    for ci in picks:
        el = cases[ci]
        op = get_operation(el, "requests")
        items.append((el, pipeline_generate(op, el["def"]["loc"], value_py(el["val"]))))
    bad = [(it[0]["def"], value_py(it[0]["val"]), r) for it, r in zip(items, common.pmap(_realgen, items)) if not r[0]]
    if bad:
        raise tlc.TLCFailure("the G pipeline of the driver differs from operation.as_strategy on %d of %d sampled elements, e.g. %s" % (
            len(bad), len(items), bad[:3]))
    return len(items)


def _realcov(item) -> tuple:
    """The real coverage phase (`_iter_coverage_cases`, positive mode) on an operation whose parameter schema admits exactly the value and
    whose request body has two media types: every yielded case must carry what the judged pipeline C produced."""
    el, expected, with_body = item
    import schemathesis
    from schemathesis.generation import GenerationMode
    from schemathesis.generation.hypothesis.builder import _iter_coverage_cases

    d = el["def"]
    value = value_py(el["val"])
    p = param_object(d)
    if "content" in p:
        p["content"]["application/json"]["schema"] = _pinned_schema(value)
    else:
        p["schema"] = _pinned_schema(value)
    path = "/r/{p}" if d["loc"] == "path" else "/r"
    raw = {"openapi": "3.0.2", "info": {"title": "t", "version": "1"},
           "paths": {path: {"post": {"parameters": [p], "responses": OK_RESP, "requestBody": {"required": True, "content": {
               MEDIA["json"]: {"schema": {"type": "integer", "enum": [1]}}, MEDIA["text"]: {"schema": {"type": "string", "enum": ["t"]}}}}}}}}
    if not with_body:
        # the other shape of the phase: no payload, further cases derived per value of a second parameter (`unmodified` + `with_parameter`)
        del raw["paths"][path]["post"]["requestBody"]
        other = "header" if d["loc"] == "query" else "query"
        raw["paths"][path]["post"]["parameters"].append({"name": "z", "in": other, "required": True, "schema": {"type": "string", "enum": ["1", "2"]}})
    s = schemathesis.openapi.from_dict(raw).configure(base_url="http://127.0.0.1:1/api")
    try:
        got = [getattr(c, CONTAINER[d["loc"]]) for c in _iter_coverage_cases(s[path]["POST"], [GenerationMode.POSITIVE])]
    except Exception as exc:
        return False, 0, "%s: %s" % (type(exc).__name__, exc), ""
    want = expected.get(CONTAINER[d["loc"]])
    bad = [(k + 1, dict(g) if g is not None else None) for k, g in enumerate(got) if (dict(g) if g is not None else None) != want]
    return not bad and len(got) >= 2, len(got), repr(bad[:2]), repr(want)


def realcov_crosscheck(ctx: Ctx, rng, cases, out: Outcome) -> int:
    pool = [ci for ci, c in enumerate(cases) if c["kind"] == "param" and c["def"]["dialect"] == "oas3"]
    picks = common.sample(rng, pool, 160 if ctx.quick else 1600)
    items = []
    for ci in picks:
        el = cases[ci]
        try:
            items.append((el, pipeline_coverage(get_operation(el, "requests"), el["def"]["loc"], value_py(el["val"])), len(items) % 2 == 0))
        except Exception:
            continue
    for (el, _, _), (ok, n, bad, want) in zip(items, common.pmap(_realcov, items)):
        if not ok:
            d = el["def"]
            out.violations.append(Violation(
                "C06:coverage-phase:%s:%s:%s:explode=%s:%s:case-differs" % (d["dialect"], d["loc"], d["style"], d["explode"], d["type"]),
                "the coverage phase yields %d cases for value %r; case(s) %s differ from the first / judged one %s" % (n, value_py(el["val"]), bad, want),
                {"element": el, "pipe": "C2", "aspect": "param", "transports": ["requests"]}))
    return len(items)


# ---------------------------------------------------------------------------------------------------------------------
def replay(ctx: Ctx, data: dict) -> Outcome:
    out = Outcome()
    if data.get("kind") == "spec":
        return out
    el = data["element"]
    register_defs([el])
    runs = [r for r in run_element(el) if r.get("pipe") == data["pipe"]]
    sent = [r for r in runs if "obs" in r]
    for r in runs:
        if "error" in r and data["aspect"] == "send":
            out.violations.append(Violation("C06:" + site_of(el, data["pipe"], "send"), "send error: " + r["error"], data))
    if sent:
        verdicts, _, _ = judge(ctx, [r["obs"] for r in sent])
        for r, v in zip(sent, verdicts):
            a = data["aspect"]
            if a in v and v[a].startswith("F"):
                ob = r["obs"]
                out.violations.append(Violation(
                    "C06:" + site_of(el, data["pipe"], a), "%s=%s on %s: value %r -> case %s -> %s %s?%s hdr=%r cookie=%r body=%r" % (
                        a, v[a], r["transport"], shown_py(el), r["kwargs"], ob["method"], text(ob["path"]), text(ob["query"]),
                        text(ob["hval"]), text(ob["cookie"]), bytes(ob["body"])[:60]), data))
    return out


def selftest(ctx: Ctx) -> bool:
    """Binding: a faithful recorded request is accepted, and each corrupted field is rejected by the TLA+ judge."""
    d = {"dialect": "oas3", "loc": "query", "style": "form", "explode": "false", "type": "array"}
    val = {"k": "arr", "items": [{"t": "str", "s": cps("a b"), "n": 0}, {"t": "bool", "s": [], "n": 1}], "keys": []}
    good = {"kind": "param", "def": d, "val": val, "media": "none", "explicit": False, "method": "GET", "wantMethod": "GET",
            "basePath": cps("/api"), "tmpl": cps("/d1"), "path": cps("/api/d1"), "pmode": "pct", "query": cps("p=a+b%2Ctrue"),
            "hnames": ["host", "user-agent", "x-schemathesis-testcaseid"], "hpresent": False, "hval": [], "cpresent": False, "cookie": [],
            "ctype": [], "wantCtype": [], "body": [], "conf": [], "gotId": "ID", "wantId": "ID", "gotHost": "h", "wantHost": "h"}
    obs = [good,
           dict(good, query=cps("p=a+b%2CTrue")),         # python-style boolean
           dict(good, query=cps("p=a+b&p=true")),         # exploded although explode=false
           dict(good, path=cps("/d1")),                   # base path lost
           dict(good, hnames=good["hnames"] + ["x-extra"]),
           dict(good, query=cps("p=a%2Bb%2Ctrue")),       # '+' sent instead of the space
           dict(good, method="POST")]
    # multipart: the media type of the Content-Type is judged (boundary parameter ignored) and the body part by part: an array-valued
    # field is one part per item (any order of the fields, `filename` irrelevant); a list collapsed into one part is rejected
    nodef = {"dialect": "oas3", "loc": "none", "style": "default", "explode": "default", "type": "prim"}
    form = {"k": "obj", "items": [{"t": "str", "s": cps("a b"), "n": 0}], "keys": [cps("a")]}
    mp = dict(good, kind="body", media="multipart", val=form, method="POST", wantMethod="POST", tmpl=cps("/body"), path=cps("/api/body"),
              query=[], body=list(b'--x\r\nContent-Disposition: form-data; name="a"\r\n\r\na b\r\n--x--\r\n'),
              wantCtype=cps("multipart/form-data"), ctype=cps("Multipart/Form-Data; boundary=x"))
    mp["def"] = nodef
    arr = {"k": "obj", "items": [{"t": "str", "s": cps(x), "n": 0} for x in ("x", "", "n")], "keys": [cps("a"), cps("a"), cps("b")]}
    part = 'Content-Disposition: form-data; name="%s"%s\r\n\r\n%s\r\n'
    ma = dict(mp, media="multipart-array", val=arr, ctype=cps('multipart/form-data; boundary="x"'),
              body=list(("\r\n--x\r\n" + part % ("b", "", "n") + "--x\r\n" + part % ("a", '; filename="a"', "x")
                         + '--x\r\nContent-Disposition: form-data; name="a"\r\n\r\n--x--\r\n').encode()))
    obs += [mp, dict(mp, ctype=cps("application/x-www-form-urlencoded")), dict(mp, ctype=[]), ma,
            dict(ma, body=list(("--x\r\n" + part % ("a", "", "['x', '']") + "--x\r\n" + part % ("b", "", "n") + "--x--\r\n").encode())),
            dict(ma, body=list(("--x\r\n" + part % ("a", "", "") + "--x\r\n" + part % ("a", "", "x") + "--x\r\n" + part % ("b", "", "n") + "--x--\r\n").encode())),
            dict(ma, body=list(("--x\r\n" + part % ("a", "", "x") + "--x\r\n" + part % ("a", "", "") + "--x\r\n" + part % ("b", "", "n")).encode()))]
    # history: a plain send of a case (q=a, c=1, X-H: h) must not carry an earlier call's `limit`, and must leave the case as it was
    hv = {"k": "prim", "items": [{"t": "str", "s": cps("a"), "n": 0}], "keys": []}
    hs = dict(good, kind="hist", val=hv, tmpl=cps("/items"), path=cps("/api/items"), query=cps("q=a"), step="plain", envloc="hist",
              hnames=good["hnames"] + ["cookie", "x-h"], cpresent=True, cookie=cps("c=1"), hx=[{"n": "x-h", "v": cps("h")}], mut=[])
    hs["def"] = nodef
    obs += [hs, dict(hs, query=cps("q=a&limit=10")), dict(hs, mut=["cookies"]), dict(hs, cookie=cps("c=1; d=2"))]
    verdicts, _, _ = judge(ctx, obs, "selftest.json")
    got = [[a for a in ASPECTS if v[a].startswith("F")] for v in verdicts]
    want = [[], ["param"], ["param"], ["url"], ["hdrs"], ["param"], ["method"], [], ["ctype", "body"], ["ctype", "body"],
            [], ["body"], ["body"], ["body"], [], ["hist"], ["hist"], ["hist"]]   # collapsed list / items swapped / no close delimiter
    if got != want:
        print("selftest: judge verdicts", got, "expected", want)
        return False
    frag = "T"
    wantrec = {"k": "arr", "items": [cps("a b"), cps("true")], "keys": []}
    for o, v in zip(obs, verdicts):
        pj = py_judge(o, frag, wantrec)
        if any(pj[a] != v[a] for a in ASPECTS):
            print("selftest: cross-check differs", pj, v)
            return False
    return True


def main(argv=None) -> int:
    return common.main("C06", run, replay, selftest, argv)
