"""X02 - what the user configures on the command line is what the engine runs with.

spec/CliConfig.tla enumerates command lines of `schemathesis run` (a map option -> value class: absent, representative valid values,
representative invalid values, values the documentation does not decide) as a pairwise-or-better family, together with the verdict
(ACCEPT / REJECT / U) and the expected effective configuration.  The concrete text of every value class lives in the specification's
table; this driver only substitutes scratch paths.  Every element is turned into a real argv and run through the real click command
in-process (click.testing.CliRunner); the configuration is captured where it leaves the translation layer (RunConfig at
executor.execute, the loaded schema and EngineConfig at engine.from_schema) and projected at every site it reaches (EngineConfig,
the schema object, the loader's keyword arguments, the engine's transport kwargs / requests session / execution control / phase
plan).  A sample of configurations is additionally run for real against the loopback server and the Hypothesis settings each engine
phase uses are observed.  All observations are judged by TLC (spec/CliConfigJudge.tla).
"""
from __future__ import annotations

import json
import os
import random
import threading
import time
import zlib

from . import common, tlc
from .common import Ctx, Outcome, Violation

PID = "X02"
_ENV: dict = {}      # placeholder -> concrete text (scratch paths), set by the parent before forking
_CAT: dict = {}      # catalogue exported by the specification
_state: dict = {}    # per-process patches / capture slots

SCHEMA = {
    "openapi": "3.0.2", "info": {"title": "x02", "version": "1"},
    "paths": {
        "/items": {"post": {"operationId": "createItem",
                            "requestBody": {"required": True, "content": {"application/json": {"schema": {
                                "type": "object", "properties": {"n": {"type": "integer"}}, "required": ["n"], "additionalProperties": False}}}},
                            "responses": {"201": {"description": "created", "links": {
                                "get": {"operationId": "getItem", "parameters": {"id": "$response.body#/id"}}}}}}},
        "/items/{id}": {"get": {"operationId": "getItem",
                                "parameters": [{"name": "id", "in": "path", "required": True, "schema": {"type": "integer", "minimum": 0, "maximum": 9}},
                                               {"name": "q", "in": "query", "schema": {"type": "string"}}],
                                "responses": {"200": {"description": "ok"}}}},
        "/old": {"get": {"deprecated": True, "responses": {"200": {"description": "ok"}}}},
    },
}
HTTP_LOCATION = "http://127.0.0.1:1/openapi.json"
GENERIC_CLASSES = {"notbool": "boolean-option"}     # one finding, whatever boolean option carries the value
_SIG_CACHE: dict = {}


# ---------------------------------------------------------------------------------------------------
# scratch files, placeholders
# ---------------------------------------------------------------------------------------------------
def prepare_env(work: str) -> dict:
    d = os.path.join(work, "cli")
    os.makedirs(d, exist_ok=True)
    paths = {"$SCHEMA": "schema.json", "$CERT": "client-cert.pem", "$KEY": "client-key.pem", "$CA": "ca-bundle.pem"}
    env = {}
    for ph, name in paths.items():
        p = os.path.join(d, name)
        with open(p, "w") as fd:
            fd.write(json.dumps(SCHEMA) if ph == "$SCHEMA" else "-----BEGIN X02 %s-----\n" % name)
        env[ph] = p
    env["$DBDIR"] = os.path.join(d, "examples-db")
    env["$MISSING"] = os.path.join(d, "no-such-file.pem")
    env["$BASE"] = "http://127.0.0.1:1/api"
    env["$NL"] = "ю"      # not latin-1 encodable
    cpus = len(os.sched_getaffinity(0)) if hasattr(os, "sched_getaffinity") else (os.cpu_count() or 1)
    env["$CPU"] = str(cpus)
    env["cwd"] = d
    return env


def expand(text: str, env: dict) -> str:
    for ph in sorted((k for k in env if k.startswith("$")), key=len, reverse=True):
        text = text.replace(ph, env[ph])
    return text


def abstract(text: str, env: dict) -> str:
    for ph in ("$SCHEMA", "$CERT", "$KEY", "$CA", "$DBDIR", "$MISSING", "$BASE"):
        if env.get(ph):
            text = text.replace(env[ph], ph)
    return text


# ---------------------------------------------------------------------------------------------------
# catalogue helpers (everything here is read from the specification's export)
# ---------------------------------------------------------------------------------------------------
def class_of(cat: dict, opt: str, name: str) -> dict:
    row = cat["table"][cat["opts"].index(opt)]
    return next(c for c in row if c["n"] == name)


def expected_of(cat: dict, case: dict) -> tuple[dict, dict]:
    """Expected field record and per-phase Hypothesis settings of an exported element (base record + exported difference)."""
    fields = dict(zip(cat["fields"], cat["base"]))
    fields.update({f: v for f, v in case["diff"]})
    hyp = {(p, f): cat["hbase"][i][j] for i, p in enumerate(cat["hphases"]) for j, f in enumerate(cat["hfields"])}
    hyp.update({(p, f): v for p, f, v in case["hdiff"]})
    return fields, hyp


def match(exp: str, got: str) -> bool:
    return exp == "U" or exp == got or (exp == "none|15s" and got in ("none", "15s"))


def key_of(door: str, cmd: list) -> str:
    return door + "|" + ";".join("%s=%s" % (o, n) for o, n in sorted(cmd))


def _element_seed(case: dict, seed: int) -> int:
    return zlib.crc32(json.dumps([seed, case["door"], case["cmd"]]).encode())


def orders_for(case: dict, seed: int, both: bool) -> list[list[str]]:
    """Argv orders in which an element is tried: the command line is a map, so every order is a concretisation of it."""
    opts = [o for o, _ in case["cmd"]]
    if len(opts) <= 1:
        return [opts]
    first = list(opts)
    random.Random(_element_seed(case, seed)).shuffle(first)
    given = set(opts)
    interacting = ({"request_cert", "request_cert_key"} <= given or {"auth", "header"} <= given or {"deterministic", "database"} <= given)
    if both or interacting:
        return [first, first[::-1]]
    return [first]


def concretise(cat: dict, env: dict, case: dict, order: list[str], seed: int = 0) -> tuple[list[str], dict]:
    """argv and environment of one element: the tokens of every given option in the given order, SCHEMA somewhere in between."""
    cmd = dict(case["cmd"])
    groups, environ = [], {}
    for o in order:
        c = class_of(cat, o, cmd[o])
        if c["argv"]:
            groups.append([expand(t, env) for t in c["argv"]])
        for k in range(0, len(c["env"]), 2):
            environ[c["env"][k]] = expand(c["env"][k + 1], env)
    location = env["$SCHEMA"] if case["door"] == "file" else HTTP_LOCATION
    pos = random.Random(_element_seed(case, seed) + 7).randint(0, len(groups))
    groups.insert(pos, [location])
    return [t for g in groups for t in g], environ


# ---------------------------------------------------------------------------------------------------
# spec -> code: capture mode (no engine run)
# ---------------------------------------------------------------------------------------------------
class _DummyEngine:
    def execute(self):
        return iter(())


def _install() -> dict:
    """Per process, once: seams at the end of the translation layer (the project's CLI calls them through module attributes)."""
    st = _state
    if st.get("installed"):
        return st
    import click.testing
    import schemathesis.cli
    import schemathesis.openapi
    from schemathesis.cli.commands.run import executor
    from schemathesis import engine as engine_module

    st["cap"] = {}
    st["mode"] = "capture"
    st["real_from_schema"] = engine_module.from_schema
    st["real_execute"] = executor.execute
    st["real_from_url"] = schemathesis.openapi.from_url
    st["real_from_path"] = schemathesis.openapi.from_path

    def from_schema(schema, *, config=None):
        st["cap"]["schema"], st["cap"]["config"] = schema, config
        if st["mode"] == "engine":
            return st["real_from_schema"](schema, config=config)
        return _DummyEngine()

    def execute(config):
        st["cap"]["run"] = config
        return st["real_execute"](config)

    def from_url(url, **kwargs):
        # the schema "served" at HTTP_LOCATION is the scratch file; what the loader was asked to do is the observation
        st["cap"]["loader"] = dict(kwargs)
        return st["real_from_path"](_ENV["$SCHEMA"])

    executor.from_schema = from_schema
    executor.execute = execute
    schemathesis.openapi.from_url = from_url
    st["runner"] = click.testing.CliRunner()
    st["command"] = schemathesis.cli.run
    os.chdir(_ENV["cwd"])
    for name in [k for k in os.environ if k.startswith("SCHEMATHESIS_") and k != "SCHEMATHESIS_VERIF"]:
        os.environ.pop(name)
    st["installed"] = True
    return st


def _b(x) -> str:
    return "true" if x is True else "false" if x is False else "notbool:%r" % (x,)


def _num(x) -> str:
    if x is None:
        return "none"
    if isinstance(x, bool) or not isinstance(x, (int, float)):
        return "notnum:%r" % (x,)
    return repr(float(x))


def _canon(mapping) -> str:
    if not mapping:
        return ""
    return ";".join("%s=%s" % (k, v) for k, v in sorted((str(k), str(v)) for k, v in dict(mapping).items()))


def _settings_database(settings):
    """settings.database; for a settings object that leaves the database alone Hypothesis re-probes the default directory on every
    access (10 ms) - that case is answered from the (identical) default settings object, probed once per process."""
    try:
        from hypothesis.utils.conventions import not_set

        if getattr(settings, "_database", None) is not_set and getattr(settings, "_fallback", 1) is None:
            if "default_db" not in _state:
                import hypothesis

                _state["default_db"] = hypothesis.settings().database
            return _state["default_db"]
    except Exception:
        pass
    return settings.database


def _database(db, env: dict) -> str:
    from hypothesis.database import DirectoryBasedExampleDatabase, InMemoryExampleDatabase

    if db is None:
        return "none"
    if isinstance(db, InMemoryExampleDatabase):
        return "memory"
    if isinstance(db, DirectoryBasedExampleDatabase):
        path = str(db.path)
        if path == env["$DBDIR"]:
            return "dir:$DBDIR"
        if path.replace(os.sep, "/").endswith(".hypothesis/examples"):
            return "default"
        return "dir:" + path
    return type(db).__name__


def _suppress(checks) -> str:
    import hypothesis

    names = sorted({h.name for h in checks})
    if names and set(names) == {h.name for h in list(hypothesis.HealthCheck)}:
        return "all"
    return "+".join(names)


_PHASE_LETTER = {"EXAMPLES": "e", "COVERAGE": "c", "FUZZING": "f", "STATEFUL_TESTING": "s"}


def _phases(names) -> str:
    letters = {_PHASE_LETTER.get(n, "?" + n) for n in names if n != "PROBING"}
    return "+".join(sorted(letters, key=lambda x: "ecfs".index(x) if x in "ecfs" else 9))


def _verify(v, env: dict) -> str:
    return _b(v) if isinstance(v, bool) else abstract(str(v), env)


def _cert(v, env: dict) -> str:
    if v is None:
        return "none"
    if isinstance(v, (tuple, list)):
        return "+".join(abstract(str(x), env) for x in v)
    return abstract(str(v), env)


def _auth(v) -> str:
    if v is None:
        return "none"
    if isinstance(v, (tuple, list)):
        return ":".join(str(x) for x in v)
    return "other:%r" % (v,)


def project(cap: dict, case: dict, env: dict) -> list[list[str]]:
    """The captured run configuration at every site it reaches -> <<field, site, abstract value>>."""
    import requests
    from hypothesis import Phase
    from schemathesis.core.result import Ok
    from schemathesis.engine.context import EngineContext
    from schemathesis.engine.core import Engine

    run, schema, config = cap["run"], cap["schema"], cap["config"]
    ex, net = config.execution, config.network
    hs = ex.hypothesis_settings
    out: list[list[str]] = []

    def add(f: str, site: str, v: str) -> None:
        out.append([f, site, v])

    ectx = EngineContext(schema=schema, stop_event=threading.Event(), config=config)
    tk = ectx.transport_kwargs
    session = ectx.session
    cmd = dict(case["cmd"])

    add("url", "run", "none" if run.base_url is None else abstract(str(run.base_url), env))
    add("url", "schema", "none" if schema.base_url is None else abstract(str(schema.base_url), env))
    w = str(ex.workers_num)
    if "workers" in cmd and class_of(_CAT, "workers", cmd["workers"])["eff"] == "$CPU" and w == env["$CPU"] and not isinstance(ex.workers_num, bool):
        w = "$CPU"
    add("workers", "engine", w)
    add("phases", "engine", _phases([p.name for p in ex.phases]))
    plan = Engine(schema=schema, config=config)._create_execution_plan()
    add("phases", "plan", _phases([p.name.name for p in plan.phases if p.is_enabled]))
    add("mode", "engine", "+".join(sorted(m.value for m in ex.generation.modes)))
    add("mode", "schema", "+".join(sorted(m.value for m in schema.generation_config.modes)))
    add("max_examples", "engine", str(hs.max_examples))
    add("max_failures", "engine", "none" if ex.max_failures is None else str(ex.max_failures))
    add("max_failures", "control", "none" if ectx.control.max_failures is None else str(ectx.control.max_failures))
    add("continue_on_failure", "engine", _b(ex.continue_on_failure))
    add("seed", "engine", "none" if ex.seed is None else str(ex.seed))
    add("no_shrink", "engine", _b(Phase.shrink not in hs.phases))
    add("deterministic", "engine", _b(hs.derandomize))
    add("database", "engine", _database(_settings_database(hs), env))
    add("suppress", "engine", _suppress(hs.suppress_health_check))
    add("wait_for_schema", "run", _num(run.wait_for_schema))
    add("header", "engine", _canon(net.headers))
    add("header", "transport", _canon(tk.get("headers")))
    defaults = {k.lower() for k in requests.Session().headers}
    add("header", "session", _canon({k: v for k, v in session.headers.items() if k.lower() not in defaults}))
    add("auth", "engine", _auth(net.auth))
    add("auth", "session", _auth(session.auth))
    add("proxy", "engine", "none" if net.proxy is None else str(net.proxy))
    add("proxy", "transport", str((tk.get("proxies") or {}).get("all", "none")))
    add("proxy", "session", str(session.proxies.get("all", "none")))
    add("tls_verify", "engine", _verify(net.tls_verify, env))
    add("tls_verify", "transport", _verify(tk.get("verify"), env))
    add("tls_verify", "session", _verify(session.verify, env))
    limiter = schema.rate_limiter
    if limiter is None:
        add("rate_limit", "schema", "none")
    else:
        try:
            rates = limiter.bucket_factory.bucket.rates
            add("rate_limit", "schema", "+".join("%d/%d" % (r.limit, r.interval) for r in rates))
        except Exception as exc:   # unknown limiter layout: visible, never silently equal
            add("rate_limit", "schema", "unreadable:%s" % type(exc).__name__)
    add("request_timeout", "engine", _num(net.timeout))
    add("request_timeout", "transport", _num(tk.get("timeout")))
    add("cert", "engine", _cert(net.cert, env))
    add("cert", "transport", _cert(tk.get("cert"), env))
    add("cert", "session", _cert(session.cert, env))
    add("output_sanitize", "run", _b(run.output.sanitize))
    add("output_sanitize", "schema", _b(schema.output_config.sanitize))
    add("output_truncate", "run", _b(run.output.truncate))
    add("output_truncate", "schema", _b(schema.output_config.truncate))
    for site, gen in (("engine", ex.generation), ("schema", schema.generation_config)):
        add("allow_x00", site, _b(gen.allow_x00))
        add("security_params", site, _b(gen.with_security_parameters))
        add("graphql_null", site, _b(gen.graphql_allow_null))
        add("codec", site, "none" if gen.codec is None else str(gen.codec))
    add("unique_inputs", "engine", _b(ex.unique_inputs))
    add("maximize", "engine", "+".join(sorted(getattr(t, "__name__", repr(t)) for t in ex.targets)))
    labels = [r.ok().label for r in schema.get_all_operations() if isinstance(r, Ok)]
    if "GET /items/{id}" not in labels or "POST /items" not in labels:
        add("exclude_deprecated", "schema", "other-operations-lost")
    else:
        add("exclude_deprecated", "schema", _b("GET /old" not in labels))
    ov = config.override
    for f, attr in (("set_query", "query"), ("set_header", "headers"), ("set_cookie", "cookies"), ("set_path", "path_parameters")):
        add(f, "engine", _canon(getattr(ov, attr)) if ov is not None else "")
    loader = cap.get("loader")
    if loader is not None:      # URL door: what the schema loader was asked to do
        add("wait_for_schema", "loader", _num(loader.get("wait_for_schema")))
        add("tls_verify", "loader", _verify(loader.get("verify", True), env))
    return out


def observe(case: dict, order: list[str], seed: int = 0) -> dict:
    """Run one element through the real click command, nothing is sent: outcome + projected configuration."""
    st = _install()
    st["mode"] = "capture"
    st["cap"].clear()
    argv, environ = concretise(_CAT, _ENV, case, order, seed)
    obs = {"door": case["door"], "cmd": case["cmd"], "order": order, "argv": argv, "env": environ, "outcome": "ERROR", "fields": [],
           "hyp": [], "note": ""}
    res = st["runner"].invoke(st["command"], argv, env=environ)
    cap = st["cap"]
    if res.exit_code == 2 and not cap:
        obs["outcome"] = "REJECT"
        obs["note"] = (res.output or "").strip().splitlines()[-1][:200] if (res.output or "").strip() else ""
    elif res.exit_code == 0 and "config" in cap and "run" in cap:
        try:
            obs["fields"] = project(cap, case, _ENV)
            obs["outcome"] = "ACCEPT"
        except Exception as exc:
            obs["note"] = "projection failed: %s: %s" % (type(exc).__name__, exc)
    else:
        exc = res.exception
        obs["note"] = "exit code %s, captured %s, %s" % (res.exit_code, sorted(cap), ("%s: %s" % (type(exc).__name__, exc))[:200] if exc else "")
        obs["exc"] = type(exc).__name__ if exc is not None and not isinstance(exc, SystemExit) else "exit-%s" % res.exit_code
    return obs


# ---------------------------------------------------------------------------------------------------
# spec -> code: engine mode (a tiny real run; the settings each phase hands to Hypothesis are the observation)
# ---------------------------------------------------------------------------------------------------
SETTINGS_ATTR = "_hypothesis_internal_use_settings"
SEED_ATTR = "_hypothesis_internal_use_seed"


def _capped(settings):
    """What is observed is the settings object the phase built; the run itself is then shortened (harness-side economy)."""
    import hypothesis

    return hypothesis.settings(settings, max_examples=min(settings.max_examples, 2), database=None,
                               stateful_step_count=min(settings.stateful_step_count, 2))


def _install_engine_hooks() -> None:
    st = _install()
    if st.get("engine_hooks"):
        return
    import schemathesis.generation.hypothesis.builder as builder
    import schemathesis.generation.stateful as stateful

    real_create, real_run = builder.create_test, stateful.run_state_machine_as_test
    st["records"] = []
    lock = threading.Lock()

    def create_test(*, operation, test_func, config):
        test = real_create(operation=operation, test_func=test_func, config=config)
        if st["mode"] == "engine":
            with lock:
                st["records"].append((config.modes[0].value, getattr(test, SETTINGS_ATTR), getattr(test, SEED_ATTR, None)))
            setattr(test, SETTINGS_ATTR, _capped(getattr(test, SETTINGS_ATTR)))
        return test

    def run_state_machine_as_test(state_machine_factory, *, settings=None):
        if st["mode"] == "engine" and settings is not None:
            with lock:
                st["records"].append(("stateful", settings, getattr(state_machine_factory, SEED_ATTR, None)))
            settings = _capped(settings)
        return real_run(state_machine_factory, settings=settings)

    builder.create_test = create_test
    stateful.run_state_machine_as_test = run_state_machine_as_test
    st["engine_hooks"] = True


def _hyp_record(settings, seed, env: dict) -> dict:
    from hypothesis import Phase

    d = settings.deadline
    if d is None:
        deadline = "none"
    else:
        ms = int(round(d.total_seconds() * 1000))
        deadline = "15s" if ms == 15000 else "%dms" % ms
    return {"hmax": str(settings.max_examples), "hderand": _b(settings.derandomize), "hdb": _database(settings.database, env),
            "hshrink": _b(Phase.shrink in settings.phases), "hsuppress": _suppress(settings.suppress_health_check),
            "hdeadline": deadline, "hseed": "none" if seed is None else str(seed)}


def _behaviour(rec):
    from .server import json_response

    if rec.method == "POST":
        return json_response(201, {"id": 1})
    return json_response(200, {"id": 1})


def observe_engine(case: dict, order: list[str], seed: int = 0) -> dict:
    from .server import LoopbackServer

    st = _install()
    _install_engine_hooks()
    with LoopbackServer(_behaviour) as server:
        env = dict(_ENV)
        env["$BASE"] = server.base_url + "/api"
        st["mode"] = "engine"
        st["cap"].clear()
        st["records"].clear()
        argv, environ = concretise(_CAT, env, case, order, seed)
        obs = {"door": case["door"], "cmd": case["cmd"], "order": order, "argv": argv, "env": environ, "outcome": "ERROR", "fields": [],
               "hyp": [], "note": "", "engine": True}
        try:
            res = st["runner"].invoke(st["command"], argv, env=environ)
        finally:
            st["mode"] = "capture"
        records = list(st["records"])
        requests_seen = len(server.snapshot()) if hasattr(server, "snapshot") else len(server.log)
    if res.exit_code not in (0, 1) or "config" not in st["cap"]:
        exc = res.exception
        obs["note"] = "engine run: exit code %s %s" % (res.exit_code, ("%s: %s" % (type(exc).__name__, exc))[:200] if exc else "")
        obs["outcome"] = "REJECT" if res.exit_code == 2 and not st["cap"] else "ERROR"
        return obs
    obs["outcome"] = "ACCEPT"
    obs["requests"] = requests_seen
    per_phase: dict = {}
    for phase, settings, sd in records:
        rec = _hyp_record(settings, sd, env)
        if phase == "stateful" and phase in per_phase:
            continue      # re-runs of the state machine vary the seed on purpose; the first run is the configured one
        if phase in per_phase and per_phase[phase] != rec:
            rec = {k: (v if per_phase[phase][k] == v else "mixed:%s|%s" % (per_phase[phase][k], v)) for k, v in rec.items()}
        per_phase[phase] = rec
    for phase in _CAT["hphases"]:
        for f in _CAT["hfields"]:
            if phase in per_phase:
                obs["hyp"].append([phase, f, per_phase[phase][f]])
    ran = "+".join(x for x in "ecfs" if {"e": "examples", "c": "coverage", "f": "fuzzing", "s": "stateful"}[x] in per_phase)
    obs["fields"].append(["phases", "ran", ran])
    return obs


# ---------------------------------------------------------------------------------------------------
# comparison (mirrors CliConfigJudge.tla), minimisation, signatures
# ---------------------------------------------------------------------------------------------------
def disagreements(case: dict, obs: dict, cat: dict) -> set[tuple[str, str]]:
    if case["verdict"] == "U":
        return set()
    if obs["outcome"] != case["verdict"]:
        return {("verdict", "cli")}
    if case["verdict"] == "REJECT":
        return set()
    fields, hyp = expected_of(cat, case)
    out = {(f, site) for f, site, v in obs["fields"] if not match(fields[f], v)}
    out |= {(f, phase) for phase, f, v in obs["hyp"] if not match(hyp[(phase, f)], v)}
    return out


def _label(opt: str, name: str) -> str:
    return "%s=%s" % (GENERIC_CLASSES.get(name, opt), name)


def _own_options(cat: dict, field: str) -> list[str]:
    hfield = {"hmax": "max_examples", "hderand": "deterministic", "hdb": "database", "hshrink": "no_shrink", "hsuppress": "suppress",
              "hseed": "seed", "hdeadline": None}
    if field in hfield:
        field = hfield[field]
        if field is None:
            return []
    return [o for o, fs in zip(cat["opts"], cat["fieldsof"]) if any(f == field for f, _ in fs)]


def _sub(case: dict, drop: str, family: dict | None) -> dict | None:
    """The element without one option, with the specification's expectation (only elements the specification exported)."""
    cmd = [[o, n] for o, n in case["cmd"] if o != drop]
    if family is None:
        return None
    return family.get(key_of(case["door"], cmd))


def signatures(case: dict, obs: dict, cat: dict, family: dict | None, engine: bool = False) -> dict[str, str]:
    """signature -> one-line summary; the input class is the smallest set of given options the disagreement needs."""
    out: dict[str, str] = {}
    dis = disagreements(case, obs, cat)
    if not dis:
        return out
    cmd = dict(case["cmd"])
    watch = observe_engine if engine else observe
    if ("verdict", "cli") in dis:
        if case["verdict"] == "REJECT":
            for o, why in case["reasons"]:
                cls = _label(o, cmd[o]) if why == "invalid" else why
                out["X02:verdict:accepted:%s:%s" % (why, cls)] = (
                    "must be refused with a usage error (%s %s) but a run configuration reached the engine: argv %s env %s" % (
                        why, "%s=%s" % (o, cmd.get(o, "absent")), obs["argv"], obs["env"]))
            return out
        # expected ACCEPT, observed a refusal or a crash: shrink to the options that are needed for it
        cur, order = case, list(obs["order"])
        cur_obs = obs
        changed = True
        while changed:
            changed = False
            for o in list(order):
                if o == "url":
                    continue
                sub = _sub(cur, o, family)
                if sub is None or sub["verdict"] != "ACCEPT":
                    continue
                sub_order = [x for x in order if x != o]
                sub_obs = watch(sub, sub_order)
                if sub_obs["outcome"] == cur_obs["outcome"]:
                    cur, order, cur_obs, changed = sub, sub_order, sub_obs, True
                    break
        needed = sorted(_label(o, n) for o, n in cur["cmd"] if o != "url" or cur["door"] != "file")
        kind = "refused" if cur_obs["outcome"] == "REJECT" else "crash:%s" % cur_obs.get("exc", "?")
        sig = "X02:verdict:%s:%s" % (kind, "+".join(needed) or "base")
        if len(order) > 1 and watch(cur, order[::-1])["outcome"] == "ACCEPT":
            sig += ":order-dependent"
        out[sig] = "documented as valid but %s (%s): argv %s env %s" % (kind, cur_obs["note"], cur_obs["argv"], cur_obs["env"])
        return out
    fields, hyp = expected_of(cat, case)
    for f, site in sorted(dis):
        own = [o for o in _own_options(cat, f) if o in cmd]
        got = next((v for ff, ss, v in obs["fields"] if (ff, ss) == (f, site)), None)
        want = fields.get(f)
        if got is None:
            got = next((v for p, ff, v in obs["hyp"] if (ff, p) == (f, site)), None)
            want = hyp.get((site, f))
        # other options the disagreement needs: none if the element reduced to the field's own options still shows it; otherwise drop
        # every foreign option that can be dropped without losing it
        cur, order = case, list(obs["order"])
        own_only = family.get(key_of(case["door"], [[o, n] for o, n in case["cmd"] if o in own or o == "url"])) if family else None
        if own_only is not None and own_only["verdict"] == "ACCEPT" and len(own_only["cmd"]) < len(case["cmd"]):
            ck = (key_of(own_only["door"], own_only["cmd"]), engine)
            if ck not in _SIG_CACHE:
                _SIG_CACHE[ck] = disagreements(own_only, watch(own_only, [o for o in order if o in own or o == "url"]), cat)
            if (f, site) in _SIG_CACHE[ck]:
                cur = own_only
        changed = cur is case
        while changed:
            changed = False
            for o in list(order):
                if o == "url" or o in own:
                    continue
                sub = _sub(cur, o, family)
                if sub is None or sub["verdict"] != "ACCEPT":
                    continue
                sub_order = [x for x in order if x != o]
                if (f, site) in disagreements(sub, watch(sub, sub_order), cat):
                    cur, order, changed = sub, sub_order, True
                    break
        foreign = sorted(_label(o, n) for o, n in cur["cmd"] if o not in own and o != "url")
        sig = "X02:%s@%s:%s" % (f, site, "+".join(sorted(_label(o, cmd[o]) for o in own)) or "default")
        if foreign:
            sig += ":with:" + "+".join(foreign)
        out[sig] = "%s at %s: expected %s, observed %s; argv %s env %s" % (f, site, want, got, obs["argv"], obs["env"])
    return out


# ---------------------------------------------------------------------------------------------------
# workers
# ---------------------------------------------------------------------------------------------------
def _work(item: str) -> list:
    case, orders, seed = json.loads(item)
    return [observe(case, order, seed) for order in orders]


def _work_engine(item: str) -> list:
    case, orders, seed = json.loads(item)
    return [observe_engine(case, order, seed) for order in orders]


def _pool_map(fn, items: list, procs: int = 16) -> list:
    import multiprocessing as mp

    if len(items) <= 1:
        return [fn(x) for x in items]
    with mp.get_context("fork").Pool(min(procs, len(items))) as pool:
        return pool.map(fn, items, chunksize=1)


HYP_OPTIONS = {"max_examples", "seed", "no_shrink", "deterministic", "database", "suppress", "phases"}


def enumerate_family(cfg: str, workers: int = 4, **kw) -> tuple[list[dict], dict, tlc.TLCResult]:
    items: list[dict] = []
    cats: list[dict] = []
    res = tlc.require_ok(tlc.run_tlc(
        "CliConfig", cfg, workers=workers, timeout=3000, want_prints=False,
        on_json=lambda tag, d: items.append(d) if tag == "CASE" else cats.append(d), **kw), "CliConfig enumeration (%s)" % cfg)
    if not cats:
        raise tlc.TLCFailure("CliConfig exported no catalogue (%s)" % cfg)
    if "simulate" not in kw and len(items) != res.distinct:
        raise tlc.TLCFailure("CliConfig exported %d elements but TLC reports %d distinct states (%s)" % (len(items), res.distinct, cfg))
    return items, cats[0], res


def judge(ctx: Ctx, observations: list[dict], name: str = "obs.json") -> tuple[set, tlc.TLCResult]:
    path = ctx.path(name)
    tlc.write_json(path, [{"door": o["door"], "cmd": o["cmd"], "outcome": o["outcome"], "fields": o["fields"], "hyp": o["hyp"]}
                          for o in observations])
    res = tlc.require_ok(tlc.run_tlc("CliConfigJudge", "CliConfigJudge.cfg", env={"OBS_FILE": path}, timeout=3000), "judge")
    if res.violated:
        raise tlc.TLCFailure("CliConfigJudge: malformed observation (%s)\n%s" % (res.violated, "\n".join(res.counterexample[:30])))
    return {(p[1], p[2], p[3]) for p in res.prints if isinstance(p, list) and p and p[0] == "DISAGREE"}, res


def run(ctx: Ctx) -> Outcome:
    global _CAT, _ENV
    out = Outcome()
    rng = random.Random(ctx.seed)
    _ENV = prepare_env(ctx.work)
    timings: dict = {}

    # 1. TLC: design invariants + the family
    runs = []
    if ctx.quick:
        items, cat, res = enumerate_family("CliConfig_quick.cfg")
        runs.append(("CliConfig_quick.cfg", res, len(items)))
    else:
        items, cat, res = enumerate_family("CliConfig_thorough.cfg")
        runs.append(("CliConfig_thorough.cfg", res, len(items)))
        more, _, res3 = enumerate_family("CliConfig_triples.cfg", workers=8)
        runs.append(("CliConfig_triples.cfg", res3, len(more)))
        sim, _, res_s = enumerate_family("CliConfig_sim.cfg", workers=1, simulate="num=%d" % 1500, depth=10, seed=ctx.seed + 1)
        runs.append(("CliConfig_sim.cfg (simulation)", res_s, len(sim)))
        items = items + more + sim
    for cfg, r, _ in runs:
        for inv in r.violated:
            out.violations.append(Violation("X02:spec:" + inv, "design invariant %s violated in CliConfig.tla (%s)" % (inv, cfg),
                                            {"kind": "spec", "invariant": inv, "trace": r.counterexample[:60]}))
    timings["tlc_enumeration_s"] = round(sum(r.wall_s for _, r, _ in runs), 1)
    _CAT = cat
    family: dict = {}
    for c in items:
        family.setdefault(key_of(c["door"], c["cmd"]), c)
    cases = list(family.values())

    # 2. spec -> code: every element through the real command (both argv orders where it may matter)
    both = not ctx.quick
    work = [json.dumps([c, orders_for(c, ctx.seed, both and len(c["cmd"]) <= 3), ctx.seed]) for c in cases]
    t1 = time.time()
    observed = common.pmap(_work, work)
    timings["cli_capture_s"] = round(time.time() - t1, 1)

    # 3. a sample of accepted configurations through a real (shortened) engine run
    pool = [i for i, c in enumerate(cases) if c["door"] == "file" and c["verdict"] == "ACCEPT" and dict(c["cmd"]).get("url") == "cli"
            and {o for o, _ in c["cmd"]} - {"url"} <= HYP_OPTIONS]
    singles = [i for i in pool if len(cases[i]["cmd"]) <= 2]
    rest = [i for i in pool if len(cases[i]["cmd"]) > 2]
    n_engine = 40 if ctx.quick else 320
    engine_idx = singles + common.sample(rng, rest, max(0, n_engine - len(singles)))
    t1 = time.time()
    engine_obs = _pool_map(_work_engine, [json.dumps([cases[i], orders_for(cases[i], ctx.seed, False)[:1], ctx.seed]) for i in engine_idx])
    timings["engine_runs_s"] = round(time.time() - t1, 1)

    # 4. code -> spec: TLC judges every observation
    flat: list[tuple[int, dict, bool]] = [(i, o, False) for i, obs in enumerate(observed) for o in obs]
    flat += [(i, o, True) for i, obs in zip(engine_idx, engine_obs) for o in obs]
    py_all = {(n, f, site) for n, (i, o, _) in enumerate(flat, 1) for f, site in disagreements(cases[i], o, cat)}
    bad_n = {n for n, _, _ in py_all}
    limit = 12000 if ctx.quick else 40000
    if len(flat) <= limit:
        judged_n = list(range(1, len(flat) + 1))
    else:   # every disagreement, every engine run, a seeded sample of the agreeing rest
        keep = bad_n | {n for n, (_, _, e) in enumerate(flat, 1) if e}
        judged_n = sorted(keep | set(common.sample(rng, [n for n in range(1, len(flat) + 1) if n not in keep], max(0, limit - len(keep)))))
    tlc_dis, jres = judge(ctx, [flat[n - 1][1] for n in judged_n])
    timings["tlc_judge_s"] = round(jres.wall_s, 1)
    tlc_dis = {(judged_n[k - 1], f, site) for k, f, site in tlc_dis}
    py_dis = {(n, f, site) for n, f, site in py_all if n in set(judged_n)}
    if tlc_dis != py_dis or py_dis != py_all:
        raise tlc.TLCFailure("judge (TLC) and driver disagree on %d cells: %s" % (len(tlc_dis ^ py_all), sorted(tlc_dis ^ py_all)[:5]))

    # 5. verdicts
    _install()
    per_sig: dict[str, int] = {}
    bad = sorted({n for n, _, _ in py_dis})
    cells_of: dict[int, list] = {}
    for n, f, site in py_dis:
        cells_of.setdefault(n, []).append((f, site))
    per_group: dict = {}
    for n in bad:
        i, o, eng = flat[n - 1]
        accepted_invalid = cases[i]["verdict"] == "REJECT"
        # working out the smallest option set re-runs the command: at most 6 observations per (disagreeing cells, class of the element)
        group = (tuple(sorted(cells_of[n])), eng, tuple(sorted(why for _, why in cases[i]["reasons"])),
                 tuple(sorted(_label(a, b) for a, b in cases[i]["cmd"] if a != "url")) if len(cases[i]["cmd"]) <= 2 else len(cases[i]["cmd"]))
        per_group[group] = per_group.get(group, 0) + 1
        if not accepted_invalid and per_group[group] > 6:
            continue
        for sig, summary in signatures(cases[i], o, cat, family, engine=eng).items():
            per_sig[sig] = per_sig.get(sig, 0) + 1
            if per_sig[sig] > 3:
                continue
            out.violations.append(Violation(sig, summary, {"kind": "element", "case": cases[i], "order": o["order"], "engine": eng,
                                                           "cat": cat, "signature": sig}))
    n_u = sum(1 for c in cases if c["verdict"] == "U")
    u_fields = {i: {f for f, v in expected_of(cat, c)[0].items() if v == "U"} for i, c in enumerate(cases) if c["verdict"] == "ACCEPT"}
    u_cells = sum(1 for i, o, _ in flat if i in u_fields and o["outcome"] == "ACCEPT" for f, _, _ in o["fields"] if f in u_fields[i])
    crashes = sorted({"%s -> %s" % (" ".join(o["argv"][:8]), o["note"][:120]) for i, o, _ in flat
                      if o["outcome"] == "ERROR" and cases[i]["verdict"] == "U"})
    if crashes:
        out.notes.append("not judged (documentation undecided) but the command neither ran nor gave a usage error: " + "; ".join(crashes[:4]))
    shown = common.sample(rng, [n for n, (i, o, e) in enumerate(flat) if e] or list(range(len(flat))), 2) + \
        common.sample(rng, [n for n, (i, o, e) in enumerate(flat) if not e and cases[i]["verdict"] == "REJECT"], 1)
    total_states = sum(r.distinct for _, r, _ in runs)
    total_generated = sum(r.generated for _, r, _ in runs)
    out.coverage = {
        "states": total_states,
        "transitions": total_generated,
        "traces_validated_against_impl": len(judged_n),
        "samples": [{"argv": [abstract(t, _ENV) for t in flat[n][1]["argv"]], "env": flat[n][1]["env"], "expected_verdict": cases[flat[n][0]]["verdict"],
                     "observed_outcome": flat[n][1]["outcome"], "expected_difference_to_base": cases[flat[n][0]]["diff"],
                     "observed_fields": flat[n][1]["fields"][:12], "observed_hypothesis_settings": flat[n][1]["hyp"][:14]} for n in shown],
        "evaluations": len(flat),
        "distinct_nontrivial": sum(1 for c in cases if c["verdict"] != "U" and any(o != "url" for o, _ in c["cmd"])),
        "rule": "every command line reachable in CliConfig.tla under %s (TLC-enumerated: base command lines, every single option x every value "
                "class, every pair%s), each run through the real click command with the configuration captured at executor.execute / "
                "engine.from_schema and projected at EngineConfig, schema, loader, transport kwargs, session, control and phase plan; %d of the "
                "accepted ones additionally through a real engine run against the loopback server observing the Hypothesis settings per phase; "
                "non-trivial = at least one option given and the documentation decides the outcome" % (
                    ", ".join(c for c, _, _ in runs), "" if ctx.quick else ", every triple with one invalid representative per option, simulated "
                    "command lines of up to 8 options", len(engine_idx)),
        "exhaustive": {"single_options_x_every_value_class": True,
                       "pairs_x_every_value_class" if not ctx.quick else "pairs_x_valid_undecided_and_one_invalid_class_per_option": True,
                       "triples_of_valid_value_classes": not ctx.quick, "larger_combinations": False, "argv_orders": False},
        "family_by_run": {c: ({"distinct_states": r.distinct, "generated": r.generated, "wall_s": round(r.wall_s, 1)} if r.distinct else
                              {"states_visited_by_simulation": n, "wall_s": round(r.wall_s, 1)}) for c, r, n in runs},
        "family_elements": len(cases),
        "by_verdict": {v: sum(1 for c in cases if c["verdict"] == v) for v in ("ACCEPT", "REJECT", "U")},
        "by_options_given": {str(k): sum(1 for c in cases if len([o for o, _ in c["cmd"] if o != "url"]) == k) for k in range(0, 9)},
        "cli_invocations": sum(len(o) for o in observed),
        "engine_runs": len(engine_idx),
        "engine_phase_settings_observed": sum(len(o["hyp"]) for obs in engine_obs for o in obs),
        "skipped_outside_fragment": n_u,
        "undecided_field_cells_skipped": u_cells,
        "design_invariants": ["TypeOK", "Total", "GivenReaches", "DefaultsKept", "Independent", "InvalidRefused", "RejectMonotone",
                              "UndecidedSticks", "HypConsistent"],
        "disagreeing_observations": len(bad),
        "disagreeing_observations_by_signature": per_sig,
        "timings": timings,
        "constants": {"options": len(cat["opts"]), "value_classes": sum(len(r) for r in cat["table"]), "fields": len(cat["fields"]),
                      "cpu_count": _ENV["$CPU"]},
    }
    out.assumptions = [
        "the configuration is captured at the seams the CLI itself calls through module attributes (executor.execute, executor.from_schema, "
        "openapi.from_url); in capture mode the engine is replaced by one that yields no events, so nothing is sent",
        "the command line is a map: the argv order of the options and the position of SCHEMA are chosen per element (seeded); pairs with a "
        "documented interaction are run in both orders (thorough: every element of up to three options)",
        "engine runs: the Hypothesis settings are observed where the phase hands them over (create_test result / run_state_machine_as_test "
        "argument); the run is then shortened (max_examples <= 2, step count <= 2, no database) - the observed object is the uncapped one",
        "not judged (documentation silent or contradictory): defaults of --workers (help: 1, reference: auto), --mode (help/reference: positive, "
        "guide: all), --seed, --request-timeout, --generation-codec; --rate-limit N/d and 0/s; --auth with a colon in / an empty password; "
        "--generation-deterministic together with --generation-database; the database under --generation-deterministic; the base URL of a URL "
        "schema without --url; shrinking in the stateful / examples / coverage phases when --no-shrink is absent; max_examples in examples / coverage",
        "docs/using/cli.md says --max-examples 'controls the number of API calls in a single sequence' in stateful testing; docs/stateful.rst, "
        "docs/using/configuration.md and docs/reference/configuration.md say it is the number of scenarios (Hypothesis max_examples) - the latter is judged",
        "--workers auto is compared with len(os.sched_getaffinity(0)) of the harness process",
    ]
    return out


def replay(ctx: Ctx, data: dict) -> Outcome:
    global _CAT, _ENV
    out = Outcome()
    if data.get("kind") == "spec":
        return out
    _ENV = prepare_env(ctx.work)
    _CAT = data["cat"]
    case = data["case"]
    obs = (observe_engine if data.get("engine") else observe)(case, data["order"])
    for sig, summary in signatures(case, obs, _CAT, None, engine=bool(data.get("engine"))).items():
        out.violations.append(Violation(sig, summary, data))
    return out


def selftest(ctx: Ctx) -> bool:
    """Binding: a faithful observation is accepted, every corrupted field / outcome is rejected by the TLA+ judge."""
    global _CAT, _ENV
    _ENV = prepare_env(ctx.work)
    items, cat, _ = enumerate_family("CliConfig_quick.cfg")
    _CAT = cat
    family = {key_of(c["door"], c["cmd"]): c for c in items}
    case = family[key_of("file", [["url", "cli"], ["max_examples", "seven"], ["no_shrink", "on"]])]
    case_a = family[key_of("file", [["url", "cli"], ["no_shrink", "on"], ["database", "memory"]])]
    case_b = family[key_of("file", [["url", "cli"], ["max_examples", "seven"], ["database", "none"]])]
    rejected = family[key_of("file", [["url", "cli"], ["rate_limit", "badunit"]])]
    good = observe(case, ["no_shrink", "url", "max_examples"])
    eng_a = observe_engine(case_a, ["url", "database", "no_shrink"])
    eng_b = observe_engine(case_b, ["max_examples", "url", "database"])
    rej = observe(rejected, ["url", "rate_limit"])
    if [good["outcome"], eng_a["outcome"], eng_b["outcome"], rej["outcome"]] != ["ACCEPT", "ACCEPT", "ACCEPT", "REJECT"] or not eng_a["hyp"]:
        print("selftest: unexpected outcomes", [(o["outcome"], o["note"]) for o in (good, eng_a, eng_b, rej)])
        return False

    def corrupt(obs: dict, f: str, site: str, v: str) -> dict:
        o = json.loads(json.dumps(obs))
        hit = False
        for e in o["fields"]:
            if e[0] == f and e[1] == site:
                e[2], hit = v, True
        for e in o["hyp"]:
            if e[1] == f and e[0] == site:
                e[2], hit = v, True
        assert hit, (f, site)
        return o

    batch = [(case, good), (case_a, eng_a), (case_b, eng_b), (rejected, rej),
             (case, corrupt(good, "max_examples", "engine", "100")),          # 5: the given value did not arrive
             (case, corrupt(good, "header", "session", "X-Key=v1")),          # 6: a default was changed by an unrelated option
             (case, corrupt(good, "workers", "engine", "3")),                 # 7: undecided default: must NOT be reported
             (case, dict(good, outcome="REJECT")),                            # 8
             (rejected, dict(rej, outcome="ACCEPT")),                         # 9
             (case_a, corrupt(eng_a, "hshrink", "fuzzing", "true")),          # 10: --no-shrink lost in one phase
             (case_b, corrupt(eng_b, "hmax", "stateful", "100")),             # 11
             (case_b, corrupt(eng_b, "hdeadline", "coverage", "200ms")),      # 12
             (case_b, corrupt(eng_b, "phases", "ran", "e+c+f")),              # 13: a configured phase did not run
             (case_a, corrupt(eng_a, "hdb", "stateful", "default"))]          # 14: the configured database lost in one phase
    dis, _ = judge(ctx, [o for _, o in batch], "selftest.json")
    want = {(5, "max_examples", "engine"), (6, "header", "session"), (8, "verdict", "cli"), (9, "verdict", "cli"),
            (10, "hshrink", "fuzzing"), (11, "hmax", "stateful"), (12, "hdeadline", "coverage"), (13, "phases", "ran"), (14, "hdb", "stateful")}
    if dis != want:
        print("selftest: judge printed", sorted(dis), "expected", sorted(want))
        return False
    mine = {(n, f, s) for n, (c, o) in enumerate(batch, 1) for f, s in disagreements(c, o, cat)}
    if mine != want:
        print("selftest: driver comparison gives", sorted(mine), "expected", sorted(want))
        return False
    return True


def main(argv=None) -> int:
    return common.main(PID, run, replay, selftest, argv)
