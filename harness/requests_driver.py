"""C14 (first sentence): runs the real engine with user-configured credentials / headers / overrides / auth provider and records,
for EVERY request the scripted API receives, the value found at each configured carrier.

Descriptor: carriers (subset of CARRIERS), declared ("none" | "optional" | "required": does the operation declare same-named
parameters?), workers, provider_scope ("schema" | "global"), seed.
Carriers and the user-supplied value each must show on the wire:
  hdr   network header      X-Canary: USERHDR                       every request
  basic --auth user:pass    Authorization: Basic dXNlcjpwYXNz       every request
  ovq   override query      q=777            requests to operations declaring query parameter q
  ovh   override header     X-Over: OVH      requests to operations declaring header X-Over
  ovc   override cookie     c=OVC            requests to operations declaring cookie c
  ovp   override path       id=OVID          requests to operations declaring path parameter id
  prov  auth provider       X-Token: TOK<n>  every request (token value = what the provider returned)
  key   network header that is the API's declared credential (apiKey security scheme in header X-Key), with the `ignored_auth`
        check enabled: every request carries it EXCEPT the probes that check deliberately sends without / with invalid
        credentials (recorded as child cases without a transition); a probe may only lack the credential, nothing else
"""
from __future__ import annotations

import base64
import threading
import time
import urllib.parse

CARRIERS = ["hdr", "basic", "ovq", "ovh", "ovc", "ovp", "prov", "key"]
USER = {"hdr": "USERHDR", "basic": "Basic " + base64.b64encode(b"user:pass").decode(), "ovq": "777", "ovh": "OVH", "ovc": "OVC",
        "ovp": "OVID", "prov": "TOK", "key": "KEYVAL"}
PHASE_IDX = {"API probing": 1, "Examples": 2, "Coverage": 3, "Fuzzing": 4, "Stateful": 5}


def build_schema(desc: dict) -> dict:
    declared = desc["declared"]
    params = [{"name": "id", "in": "path", "required": True, "schema": {"type": "string", "minLength": 1}}]
    if declared != "none":
        req = declared == "required"
        params += [
            {"name": "q", "in": "query", "required": req, "schema": {"type": "integer"}, "example": 5},
            {"name": "X-Over", "in": "header", "required": req, "schema": {"type": "string", "minLength": 1}},
            {"name": "X-Canary", "in": "header", "required": req, "schema": {"type": "string", "minLength": 1}},
            {"name": "c", "in": "cookie", "required": req, "schema": {"type": "string", "minLength": 1}},
        ]
    secured = "key" in desc.get("carriers", [])
    sec = {"security": [{"ApiKey": []}]} if secured else {}
    return {
        "openapi": "3.0.2", "info": {"title": "t", "version": "1"},
        **({"components": {"securitySchemes": {"ApiKey": {"type": "apiKey", "in": "header", "name": "X-Key"}}}} if secured else {}),
        "paths": {
            "/items": {"post": {
                "operationId": "createItem",
                "requestBody": {"required": True, "content": {"application/json": {"schema": {
                    "type": "object", "properties": {"name": {"type": "string"}}, "required": ["name"], "example": {"name": "x"}}}}},
                "responses": {"201": {"description": "created",
                                      "content": {"application/json": {"schema": {"type": "object", "properties": {"id": {"type": "string"}}}}},
                                      "links": {"get": {"operationId": "getItem", "parameters": {"id": "$response.body#/id"}}}}},
            }},
            # DELETE first: it declares only the path parameter, GET on the same path declares all the overridable ones
            "/items/{id}": {"delete": {"operationId": "deleteItem", "parameters": [params[0]], **sec,
                                       "responses": {"200": {"description": "ok"}, "401": {"description": "no"}}},
                            "get": {"operationId": "getItem", "parameters": params, **sec,
                                    "responses": {"200": {"description": "ok"}, "401": {"description": "no"}}}},
            "/plain": {"get": {"operationId": "plain", **sec, "responses": {"200": {"description": "ok"}, "401": {"description": "no"}}}},
        },
    }


def applies(carrier: str, op: int, declared: str) -> bool:
    """op: 1 = POST /items, 2 = GET /items/{id}, 3 = GET /plain"""
    if carrier in ("hdr", "basic", "prov", "key"):
        return True
    if carrier == "ovp":
        return op in (2, 4)
    return op == 2 and declared != "none"


def _checks_with_ignored_auth() -> list:
    from schemathesis.checks import not_a_server_error
    from schemathesis.specs.openapi.checks import ignored_auth

    return [not_a_server_error, ignored_auth]


def run_one(desc: dict) -> dict:
    import hypothesis
    import schemathesis
    from schemathesis.engine import events, from_schema
    from schemathesis.engine.config import EngineConfig, ExecutionConfig, NetworkConfig
    from schemathesis.engine.phases import PhaseName
    from schemathesis.engine.phases import unit as unit_phase
    from schemathesis.generation.overrides import Override

    from .compat import enable_links
    from .server import LoopbackServer, json_response

    enable_links()  # see compat.py: restores link routing on the installed Hypothesis

    unit_phase.WORKER_TIMEOUT = 0.02
    carriers = list(desc["carriers"])
    lock = threading.Lock()
    lines: list[dict] = []
    phase = {"n": 0}
    issued = {"n": 0}
    issued_by_key: dict = {}
    created = {"n": 0}
    kind = desc.get("provider_kind", "class")
    user = dict(USER)
    if kind == "requests":
        user["prov"] = "Basic " + base64.b64encode(b"provuser:provpass").decode()

    def behaviour(r):
        op = 1 if r.path == "/items" else 3 if r.path == "/plain" else (4 if r.method == "DELETE" else 2)
        hdrs = {k.lower(): v for k, v in r.headers}
        query = urllib.parse.parse_qs(r.query, keep_blank_values=True)
        cookies = {}
        for part in (hdrs.get("cookie") or "").split(";"):
            if "=" in part:
                k, _, v = part.strip().partition("=")
                cookies[k] = v
        seg = urllib.parse.unquote(r.path.split("/")[2]) if op in (2, 4) and len(r.path.split("/")) > 2 else ""
        seen = {
            "hdr": hdrs.get("x-canary", ""), "basic": hdrs.get("authorization", ""),
            "ovq": (query.get("q") or [""])[-1] if len(query.get("q") or []) <= 1 else "MULTI:" + ",".join(query["q"]),
            "ovh": hdrs.get("x-over", ""), "ovc": cookies.get("c", ""), "ovp": seg,
            "prov": hdrs.get("authorization", "") if kind == "requests" else hdrs.get("x-token", ""),
            "key": hdrs.get("x-key", ""),
        }
        with lock:
            lines.append({"e": "R", "op": op, "ph": phase["n"], "method": r.method,
                          "vals": [seen[c] for c in CARRIERS], "linked": False, "case": hdrs.get("x-schemathesis-testcaseid", ""),
                          "probe": False, "parent": ""})
        if "key" in carriers and op in (2, 3, 4) and seen["key"] != user["key"]:
            return json_response(401, {})
        if op == 1:
            with lock:
                created["n"] += 1
                n = created["n"]
            return json_response(201, {"id": "srv%d" % n})
        return json_response(200, {})

    t0 = time.time()
    with LoopbackServer(behaviour) as server:
        schema = schemathesis.openapi.from_dict(build_schema(desc)).configure(base_url=server.base_url)
        cleanup = None
        if "prov" in carriers:
            class TokenAuth:
                def get(self, case, context):
                    with lock:
                        issued["n"] += 1
                        k = context.operation.label if kind == "keyed" else "*"
                        issued_by_key[k] = issued_by_key.get(k, 0) + 1
                    return "TOK"

                def set(self, case, data, context):
                    case.headers = case.headers or {}
                    case.headers["X-Token"] = data

            storage = schemathesis.auth if desc.get("provider_scope") == "global" else schema.auth
            if desc.get("provider_scope") == "global":
                cleanup = schemathesis.auth.unregister
            if kind == "requests":
                import requests.auth

                storage.set_from_requests(requests.auth.HTTPBasicAuth("provuser", "provpass"))
            elif kind == "keyed":
                storage(cache_by_key=lambda case, context: context.operation.label)(TokenAuth)
            else:
                storage()(TokenAuth)
        override = None
        ov = {"query": {}, "headers": {}, "cookies": {}, "path_parameters": {}}
        if "ovq" in carriers:
            ov["query"]["q"] = USER["ovq"]
        if "ovh" in carriers:
            ov["headers"]["X-Over"] = USER["ovh"]
        if "ovc" in carriers:
            ov["cookies"]["c"] = USER["ovc"]
        if "ovp" in carriers:
            ov["path_parameters"]["id"] = USER["ovp"]
        if any(ov.values()):
            override = Override(**ov)
        net_headers = {}
        if "hdr" in carriers:
            net_headers["X-Canary"] = USER["hdr"]
        if "key" in carriers:
            net_headers["X-Key"] = USER["key"]
        network = NetworkConfig(
            headers=net_headers,
            auth=("user", "pass") if "basic" in carriers else None,
        )
        settings = hypothesis.settings(max_examples=desc.get("max_examples", 4), deadline=None, database=None,
                                       stateful_step_count=3, suppress_health_check=list(hypothesis.HealthCheck))
        config = EngineConfig(
            execution=ExecutionConfig(phases=[PhaseName.EXAMPLES, PhaseName.COVERAGE, PhaseName.FUZZING, PhaseName.STATEFUL_TESTING],
                                      hypothesis_settings=settings, workers_num=desc.get("workers", 1), seed=desc.get("seed", 1),
                                      **({"checks": _checks_with_ignored_auth()} if "key" in carriers else {})),
            network=network, override=override,
        )
        errors = []
        probes: dict = {}
        try:
            for ev in from_schema(schema, config=config).execute():
                if isinstance(ev, events.PhaseStarted):
                    with lock:
                        phase["n"] = PHASE_IDX[ev.phase.name.value]
                elif isinstance(ev, events.NonFatalError):
                    errors.append(type(ev.value).__name__ + ": " + str(ev.value)[:120])
                elif isinstance(ev, events.ScenarioFinished):
                    # probes = cases a check derived from another case (child without a transition), e.g. by ignored_auth
                    for cid, node in ev.recorder.cases.items():
                        if node.parent_id is not None and node.transition is None:
                            probes[cid] = node.parent_id
        finally:
            if cleanup is not None:
                cleanup()
    for ln in lines:
        if ln["case"] in probes:
            ln["probe"] = True
            ln["parent"] = probes[ln["case"]]
    ids: dict = {}
    for ln in lines:
        ln["case"] = ids.setdefault(ln["case"], len(ids) + 1)
        ln["parent"] = ids.setdefault(ln["parent"], len(ids) + 1) if ln["probe"] else 0
    hdr = {
        "carriers": [c in carriers for c in CARRIERS],
        "user": [user[c] for c in CARRIERS], "issued_by_key": sorted(issued_by_key.values()) or [0],
        "applies": [[applies(c, op, desc["declared"]) for c in CARRIERS] for op in (1, 2, 3, 4)],
        "declared": desc["declared"], "errors": errors[:5], "issued": issued["n"], "wall_ms": int((time.time() - t0) * 1000),
    }
    return {"hdr": hdr, "lines": lines, "desc": desc}
