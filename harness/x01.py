"""X01 - which response checks run, and what they conclude (extension of the specification beyond C04 / C18).

spec/CheckVerdicts.tla enumerates command lines (selection + per-check configuration), test-case descriptors and API answers together with
the expected outcome per check (run: Y/N/U, verdict: F/P/U), written from the documentation.  Every element is concretised:

* the command line is parsed by the real `st run` (click `CliRunner` against `schemathesis.cli.schemathesis`, with `executor.execute`
  replaced by a recorder) -> the `RunConfig` / `EngineConfig` the engine would get: list of checks + `checks_config`;
* the document is written to a file and loaded by the CLI's own `load_schema`; the case is a real `Case` with real `CaseMetadata`
  (coverage cases come from the real coverage generator `_iter_coverage_cases`, selected by their content; fuzzing / example cases are built
  with the metadata classes the generators use);
* the engine's unit-phase `test_func` (send -> record -> `validate_response` -> `run_checks`) runs with a real `EngineContext`; only the
  socket is replaced: `HTTPAdapter.send` answers from the scripted API (status by the credentials actually found on the wire, also for the
  probes `ignored_auth` sends) and `requests.sessions.preferred_clock` is a scripted clock (controls `elapsed`);
* which checks were executed is read from the `checks.run` verification points, their results from the `ScenarioRecorder`.

All disagreements plus a seeded sample of agreeing observations are re-judged by TLC (spec/CheckVerdictsJudge.tla).
"""
from __future__ import annotations

import base64
import io
import json
import os
import random
import tempfile
import time

from . import common, tlc
from .common import Ctx, Outcome, Violation

NASE, MRT, NDR, PDA = "not_a_server_error", "max_response_time", "negative_data_rejection", "positive_data_acceptance"
MRH, UM, IA = "missing_required_header", "unsupported_method", "ignored_auth"
REGISTERED = [NASE, "status_code_conformance", "content_type_conformance", "response_headers_conformance", "response_schema_conformance",
              NDR, PDA, "use_after_free", "ensure_resource_availability", IA]
NAMES = REGISTERED + [MRT, MRH, UM]
JUDGED = [NASE, MRT, NDR, PDA, MRH, UM, IA]
BASE_URL = "http://127.0.0.1:9"
SECRET = "secret"
BASIC = ("user", "pass")

_st: dict = {}
_script: dict = {}        # the API of the element being executed
_clock = {"now": 0.0}
_wire: list = []          # requests seen by the scripted API for the element being executed
_cfg_cache: dict = {}
_schema_cache: dict = {}
_tmp: dict = {}


# ------------------------------------------------------------------------------------------ spec -> code: command line
def pattern_text(p: list[int], lower: bool) -> str:
    return "".join(("x" if lower else "X") if d < 0 else str(d) for d in p)


def credentials_args(kase: dict) -> list[str]:
    sec, src = kase["sec"], kase["src"]
    if not src.startswith("explicit"):
        return []
    if src == "explicit-nogen":
        return ["--generation-with-security-parameters", "false"] + credentials_args(dict(kase, src="explicit"))
    if sec == "header":
        if src == "explicit-override":
            return ["--set-header", "X-API-Key=%s" % SECRET]
        return ["-H", "%s: %s" % ("x-api-key" if src == "explicit-lc" else "X-API-Key", SECRET)]
    if sec == "bearer":
        return ["-H", "%s: Bearer %s" % ("authorization" if src == "explicit-lc" else "Authorization", SECRET)]
    if sec == "basic":
        return ["--auth", "%s:%s" % BASIC]
    if sec == "query":
        return ["--set-query", "api_key=%s" % SECRET]
    if sec == "cookie":
        return ["-H", "Cookie: sid=%s" % SECRET]
    return []


def cli_args(sel: dict, kase: dict | None = None) -> list[str]:
    args: list[str] = []
    for opt, names in (("-c", sel["checks"]), ("--exclude-checks", sel["exclude"])):
        if names:
            if sel["rep"]:
                for n in names:
                    args += [opt, n]
            else:
                args += [opt, ",".join(names)]
    if sel["mrt"]:
        args += ["--max-response-time", repr(sel["mrt"] / 1000.0)]
    if sel["pdaExp"]:
        args += ["--experimental=positive-data-acceptance"]
    for opt, key in (("--experimental-positive-data-acceptance-allowed-statuses", "pdaSt"),
                     ("--experimental-negative-data-rejection-allowed-statuses", "ndrSt"),
                     ("--experimental-missing-required-header-allowed-statuses", "mrhSt")):
        if sel[key]:
            args += [opt, ",".join(pattern_text(p, sel["lowerX"]) for p in sel[key])]
    if kase is not None:
        args += credentials_args(kase)
    return args


# ------------------------------------------------------------------------------------------ spec -> code: document, case
SCHEMES = {
    "header": {"type": "apiKey", "in": "header", "name": "X-API-Key"},
    "bearer": {"type": "http", "scheme": "bearer"},
    "basic": {"type": "http", "scheme": "basic"},
    "query": {"type": "apiKey", "in": "query", "name": "api_key"},
    "cookie": {"type": "apiKey", "in": "cookie", "name": "sid"},
}


def build_document(kase: dict) -> dict:
    """One operation POST /items/{id}.  Without security: required query `q`, required headers `X-Key` and `Authorization`
    (what the coverage phase removes); with security: the declared scheme, operation-level / global / global but cleared for the operation."""
    sec, decl = kase["sec"], kase["decl"]
    params: list[dict] = [{"name": "id", "in": "path", "required": True, "schema": {"type": "integer"}}]
    if sec == "none":
        params += [{"name": "q", "in": "query", "required": True, "schema": {"type": "integer"}},
                   {"name": "X-Key", "in": "header", "required": True, "schema": {"type": "string"}},
                   {"name": "Authorization", "in": "header", "required": True, "schema": {"type": "string"}}]
    else:
        params += [{"name": "q", "in": "query", "required": False, "schema": {"type": "integer"}}]
    op: dict = {
        "parameters": params,
        "requestBody": {"required": True, "content": {"application/json": {"schema": {
            "type": "object", "properties": {"n": {"type": "integer"}}, "required": ["n"], "additionalProperties": False}}}},
        "responses": {"200": {"description": "ok"}},
    }
    doc: dict = {"openapi": "3.0.2", "info": {"title": "x01", "version": "1"}, "paths": {"/items/{id}": {"post": op}}}
    if sec != "none":
        doc["components"] = {"securitySchemes": {"S": SCHEMES[sec]}}
        if decl == "op":
            op["security"] = [{"S": []}]
        else:
            doc["security"] = [{"S": []}]
            if decl == "cleared":
                op["security"] = []
    return doc


def doc_key(kase: dict) -> str:
    return "%s-%s%s" % (kase["sec"], kase["decl"] if kase["sec"] != "none" else "op", "-nogen" if kase.get("src") == "explicit-nogen" else "")


def _setup() -> dict:
    if _st:
        return _st
    import threading

    import requests
    import requests.adapters
    import requests.sessions
    import urllib3
    from click.testing import CliRunner
    from urllib3._collections import HTTPHeaderDict

    import schemathesis.cli as cli
    from schemathesis import _verif, experimental
    from schemathesis.cli.commands.run import executor
    from schemathesis.cli.commands.run.loaders import AutodetectConfig, load_schema
    from schemathesis.core.failures import Failure, FailureGroup
    from schemathesis.engine.context import EngineContext
    from schemathesis.engine.phases.unit._executor import test_func
    from schemathesis.engine.recorder import ScenarioRecorder
    from schemathesis.generation import GenerationMode
    from schemathesis.generation import meta as M
    from schemathesis.generation.hypothesis.builder import _iter_coverage_cases

    captured: list = []
    executor.execute = lambda config: captured.append(config)   # the seam: what `st run` hands to the engine

    def fake_send(self, request, **kwargs):  # the scripted API, in place of the socket
        state = classify(request, _script.get("sec", "none"))
        status = _script["api"][state]
        _wire.append({"method": request.method, "state": state, "status": status})
        _clock["now"] += _script["elapsed_s"] if len(_wire) == 1 else 0.01
        headers = HTTPHeaderDict()
        headers.add("Content-Type", "application/json")
        if _script.get("allow"):
            headers.add("Allow", "GET, POST")
        raw = urllib3.HTTPResponse(body=io.BytesIO(b"" if status in (204, 304) or status < 200 else b"{}"), headers=headers, status=status, version=11, reason="scripted",
                                   preload_content=False)
        return self.build_response(request, raw)

    requests.adapters.HTTPAdapter.send = fake_send
    requests.sessions.preferred_clock = lambda: _clock["now"]

    class Points:
        def __init__(self) -> None:
            self.names: list[str] = []

        def point(self, name: str, data: dict):
            if name == "checks.run":
                self.names.append(data["check"])
            return None

    _st.update(runner=CliRunner(), cli=cli, experimental=experimental, captured=captured, AutodetectConfig=AutodetectConfig,
               load_schema=load_schema, EngineContext=EngineContext, test_func=test_func, ScenarioRecorder=ScenarioRecorder,
               GenerationMode=GenerationMode, M=M, iter_coverage=_iter_coverage_cases, verif=_verif, Points=Points,
               threading=threading, Failure=Failure, FailureGroup=FailureGroup)
    return _st


def classify(request, sec: str) -> str:
    """Credentials actually present on the wire: none / valid / wrong (the API's own view)."""
    from http.cookies import SimpleCookie
    from urllib.parse import parse_qs, urlparse

    if sec == "none":
        return "valid"
    if sec == "header":
        got = request.headers.get("X-API-Key")
        good = SECRET
    elif sec in ("bearer", "basic"):
        got = request.headers.get("Authorization")
        good = "Bearer " + SECRET if sec == "bearer" else "Basic " + base64.b64encode(("%s:%s" % BASIC).encode()).decode()
    elif sec == "query":
        got = (parse_qs(urlparse(request.url).query, keep_blank_values=True).get("api_key") or [None])[0]
        good = SECRET
    else:
        jar: SimpleCookie = SimpleCookie()
        jar.load(request.headers.get("Cookie") or "")
        got = jar["sid"].value if "sid" in jar else None
        good = SECRET
    if isinstance(got, bytes):
        got = got.decode("latin-1")
    return "none" if got is None else "valid" if got == good else "wrong"


def _workdir() -> str:
    if _tmp.get("pid") != os.getpid():
        _tmp["pid"] = os.getpid()
        _tmp["dir"] = tempfile.mkdtemp(prefix="verif-x01-%d-" % os.getpid(), dir=_tmp.get("base"))
    return _tmp["dir"]


def _doc_path(kase: dict) -> str:
    path = os.path.join(_workdir(), doc_key(kase) + ".json")
    if not os.path.exists(path):
        with open(path, "w") as fd:
            json.dump(build_document(kase), fd)
    return path


def capture(args: list[str], kase: dict):
    """Parse the command line with the real `st run`; the RunConfig it would execute (or the usage error text)."""
    st = _setup()
    key = (tuple(args), doc_key(kase))
    hit = _cfg_cache.get(key)
    if hit is not None:
        return hit
    st["experimental"].GLOBAL_EXPERIMENTS.disable_all()   # a fresh process per command line, as in real use
    del st["captured"][:]
    res = st["runner"].invoke(st["cli"].schemathesis, ["run", _doc_path(kase), "--url", BASE_URL] + args)
    st["experimental"].GLOBAL_EXPERIMENTS.disable_all()
    if res.exit_code != 0 or len(st["captured"]) != 1:
        out = ("usage-error", (res.output or repr(res.exception))[-400:])
    else:
        out = ("ok", st["captured"][0])
    if len(_cfg_cache) > 4000:
        _cfg_cache.clear()
    _cfg_cache[key] = out
    return out


def _to_pattern(text: str) -> list[int]:
    return [-1 if ch in "xX" else int(ch) for ch in str(text)]


def project_config(rc) -> dict:
    """What the engine would run: check names in order + the per-check configuration (patterns / limit in ms; [] / 0 = no entry)."""
    names = [c.__name__ for c in rc.engine.execution.checks]
    cfg = {NDR: [], PDA: [], MRH: [], MRT: 0}
    for fn, value in rc.engine.checks_config.items():
        n = fn.__name__
        if n == MRT:
            cfg[MRT] = int(round(value.limit * 1000))
        elif n in cfg:
            cfg[n] = [_to_pattern(s) for s in value.allowed_statuses]
    return {"names": names, "cfg": cfg}


def _schema(rc, kase: dict):
    st = _setup()
    key = doc_key(kase)
    schema = _schema_cache.get(key)
    if schema is None:
        schema = st["load_schema"](st["AutodetectConfig"](
            location=rc.location, network=rc.engine.network, wait_for_schema=rc.wait_for_schema, base_url=rc.base_url,
            rate_limit=rc.rate_limit, output=rc.output, generation=rc.engine.execution.generation))
        _schema_cache[key] = schema
    return schema


def build_case(op, kase: dict):
    """Descriptor -> real Case.  Coverage cases are taken from the real coverage generator and selected by what they contain."""
    st = _setup()
    M, GM = st["M"], st["GenerationMode"]
    sec = kase["sec"]
    if kase["phase"] == "coverage":
        want_pos = kase["mode"] == "positive"
        for case in st["iter_coverage"](op, [GM.POSITIVE, GM.NEGATIVE], {"patch", "options"}):
            d = case.meta.phase.data
            headers = case.headers or {}
            query = case.query or {}
            cov = kase["cov"]
            if cov == "method":
                ok = case.method == kase["method"]
            elif case.method != "POST":
                ok = False
            elif cov == "value":
                ok = d.parameter_location == "body" and case.meta.generation.mode.is_positive == want_pos
            elif cov == "missing-header":
                ok = d.parameter == "X-Key" and d.parameter_location == "header" and "X-Key" not in headers
            elif cov == "missing-auth":
                ok = d.parameter == "Authorization" and d.parameter_location == "header" and "Authorization" not in headers
            elif cov == "missing-query":
                ok = d.parameter == "q" and d.parameter_location == "query" and "q" not in query
            else:
                ok = False
            if ok:
                return case
        raise tlc.TLCFailure("the coverage generator produced no case for %r" % (kase,))
    path, query, headers, cookies, body = {"id": 1}, {"q": 1}, {}, {}, {"n": 1}
    if sec == "none":
        headers = {"X-Key": "k", "Authorization": "t"}
    if kase["meta"] == "none":
        return op.Case(path_parameters=path, query=query, headers=headers, body=body, media_type="application/json")
    pos, neg = GM.POSITIVE, GM.NEGATIVE
    mode = pos if kase["mode"] == "positive" else neg
    comp = {M.ComponentKind.PATH_PARAMETERS: pos, M.ComponentKind.QUERY: pos, M.ComponentKind.BODY: pos}
    if headers:
        comp[M.ComponentKind.HEADERS] = pos
    n = kase["neg"]
    if n in ("body", "query-extra+body"):
        body = 42
        comp[M.ComponentKind.BODY] = neg
    if n == "path":
        path = {"id": "abc"}
        comp[M.ComponentKind.PATH_PARAMETERS] = neg
    if n == "query-value":
        query = {"q": "abc"}
        comp[M.ComponentKind.QUERY] = neg
    if n in ("query-extra", "query-extra+body"):
        query = {"q": 1, "x-unknown": "1"}
        comp[M.ComponentKind.QUERY] = neg
    if n == "header-extra":
        headers = dict(headers, **{"X-Extra": "1"})
        comp[M.ComponentKind.HEADERS] = neg
    src = kase["src"]
    if src in ("generated", "explicit", "explicit-lc"):   # a made-up credential, as the generator produces for the security parameter
        if sec == "header":
            headers["X-API-Key"] = "made-up"
        elif sec in ("bearer", "basic"):
            headers["Authorization"] = "made-up"
        elif sec == "query":
            query["api_key"] = "made-up"
        elif sec == "cookie":
            cookies["sid"] = "made-up"
    if src == "explicit-override":      # the engine writes --set-header values into the case
        headers["X-API-Key"] = SECRET
    if src == "explicit" and sec == "query":   # ... and --set-query values
        query["api_key"] = SECRET
    if headers and M.ComponentKind.HEADERS not in comp:
        comp[M.ComponentKind.HEADERS] = pos
    if cookies:
        comp[M.ComponentKind.COOKIES] = pos
    if kase["phase"] == "explicit":
        phase = M.PhaseInfo(name=M.TestPhase.EXPLICIT, data=M.ExplicitPhaseData())
        comp = {}
    else:
        phase = M.PhaseInfo.generate()
    meta = M.CaseMetadata(generation=M.GenerationInfo(time=0.0, mode=mode),
                          components={k: M.ComponentInfo(mode=v) for k, v in comp.items()}, phase=phase)
    return op.Case(path_parameters=path, query=query, headers=headers or None, cookies=cookies or None, body=body,
                   media_type="application/json", meta=meta)


# ------------------------------------------------------------------------------------------ observation
NO_SECURITY = {"sec": "none", "decl": "op"}


def observe_sel(sel: dict) -> dict:
    kind, rc = capture(cli_args(sel), NO_SECURITY)
    if kind != "ok":
        return {"error": rc, "err": "rejected"}
    return project_config(rc)


def observe(sel: dict, kase: dict, resp: dict) -> dict:
    """Run the element through CLI parsing + the engine's unit test function; outcome per check:
    N not executed / P executed, no failure / F failure / E crashed / X not reached after a crash."""
    st = _setup()
    kind, rc = capture(cli_args(sel, kase), kase)
    if kind != "ok":
        return {"error": rc, "err": "rejected", "o": {}}
    proj = project_config(rc)
    schema = _schema(rc, kase)
    op = schema["/items/{id}"]["POST"]
    case = build_case(op, kase)
    _script.clear()
    _script.update(sec=kase["sec"], api=resp["api"], elapsed_s=resp["elapsed"] / 1000.0, allow=resp["allow"])
    _clock["now"] = 0.0
    del _wire[:]
    ctx = st["EngineContext"](schema=schema, stop_event=st["threading"].Event(), config=rc.engine)
    recorder = st["ScenarioRecorder"](label="x01")
    points = st["Points"]()
    errors: list = []
    st["verif"].install(points)
    crashed = ""
    try:
        st["test_func"](ctx=ctx, case=case, errors=errors, recorder=recorder)
    except (st["Failure"], st["FailureGroup"]):
        pass
    except Exception as exc:   # UnexpectedError: the real exception is in `errors`
        crashed = type(errors[-1]).__name__ if errors else type(exc).__name__
    finally:
        st["verif"].uninstall()
    failed = {node.name for nodes in recorder.checks.values() for node in nodes if node.failure_info is not None}
    o: dict = {}
    for n in NAMES:
        if n in points.names:
            o[n] = "F" if n in failed else "P"
        else:
            o[n] = "N"
    if crashed:
        if points.names:
            o[points.names[-1]] = "E"
            later = proj["names"][proj["names"].index(points.names[-1]) + 1:] if points.names[-1] in proj["names"] else []
            for n in later:
                if n in o and o[n] == "N":
                    o[n] = "X"
        else:
            return {"error": "crash before the checks: " + crashed, "err": "crash-early", "crash": crashed, "o": {}}
    dups = sorted({n for n in points.names if points.names.count(n) > 1})
    return {"o": o, "names": proj["names"], "cfg": proj["cfg"], "dups": dups, "crash": crashed,
            "wire": [w["state"] + ":" + str(w["status"]) for w in _wire]}


def _work(item: dict) -> dict:
    try:
        if item["t"] == "SEL":
            return observe_sel(item["sel"])
        return observe(item["sel"], item["kase"], item["resp"])
    except tlc.TLCFailure as exc:
        return {"machinery": str(exc)}
    except Exception as exc:  # harness bug: never a verdict
        import traceback

        return {"machinery": "%s: %s\n%s" % (type(exc).__name__, exc, traceback.format_exc()[-600:])}


# ------------------------------------------------------------------------------------------ comparison (mirrors CheckVerdicts!Disagreement)
def disagreement(e: dict, o: str) -> str:
    if o == "X":
        return "-"
    if o == "E":
        return "crash"
    if e["run"] == "N":
        return "-" if o == "N" else "ran-unselected"
    if o == "N":
        return "not-run" if e["run"] == "Y" else "-"
    if e["v"] == "U" or o == e["v"]:
        return "-"
    return "miss" if e["v"] == "F" else "false-alarm"


def case_disagreements(c: dict, ob: dict) -> list[tuple[str, str]]:
    if "error" in ob:
        return [("cli", ob["err"])]
    out = []
    for n in NAMES:
        k = disagreement(c["exp"][n], ob["o"][n])
        if k != "-":
            out.append((n, k))
    return out


def sel_disagreements(s: dict, ob: dict) -> list[tuple[str, str]]:
    if "error" in ob:
        return [("cli", "rejected")]
    out = []
    for n in NAMES:
        if s["run"][n] == "Y" and n not in ob["names"]:
            out.append((n, "not-run"))
        elif s["run"][n] == "N" and n in ob["names"]:
            out.append((n, "ran-unselected"))
    for n in (NDR, PDA, MRH, MRT):
        if n in ob["names"] and ob["cfg"][n] != s["cfg"][n]:
            out.append((n, "config"))
    return out


def signature_parts(sel: dict, feat: dict, kase: dict | None, resp: dict | None, name: str, kind: str, ob: dict) -> tuple[str, list[str]]:
    """(base, extras).  base = site + check + direction + the features that identify the failing input class; extras = features that
    are kept in the signature only when every failure with the same base shares their value (DESIGN Appendix E: necessary features)."""
    sc = feat["sel"] if "sel" in feat else feat
    if kind == "rejected":
        return "X01:cli:rejected:checks=%s+exclude=%s" % (sc["checks"], sc["exclude"]), []
    if kind == "crash-early":
        return "X01:crash:before-the-checks:%s" % ob.get("crash", "?"), []
    special = name in (PDA, MRT, MRH, UM)
    if kind == "ran-unselected":
        cause = "excluded-by-name" if name in sel["exclude"] else "exclude=all" if "all" in sel["exclude"] else "not-selected:checks=" + sc["checks"]
        return "X01:selection:ran-unselected:%s%s" % (cause, ":" + name if special and cause != "exclude=all" else ""), []
    if kind == "not-run":
        cause = ("experimental-switch" if name == PDA and sel["pdaExp"] and name not in sel["checks"] and "all" not in sel["checks"]
                 else "option-given" if name in (MRT, MRH) else "checks=" + sc["checks"])
        return "X01:selection:not-run:%s%s" % (cause, ":" + name if special else ""), []
    given = {NDR: sel["ndrSt"], PDA: sel["pdaSt"], MRH: sel["mrhSt"], MRT: sel["mrt"]}
    if kind == "config" or (name in given and "cfg" in ob and ob["cfg"][name] != given[name]):
        # a verdict that differs because the configuration never reached the check is the configuration finding
        cause = "without-experimental-switch" if name == PDA and not sel["pdaExp"] else "given" if given[name] else "not-given"
        return "X01:config:%s:%s" % (name, cause), []
    assert kase is not None and resp is not None
    primary: list[str] = []
    extras: list[str] = []
    if name == NASE:
        primary = ["status=" + feat["status"]]
    elif name == MRT:
        primary = ["elapsed=" + feat["elapsed"]]
    elif name in (NDR, PDA):
        primary = ["mode=" + (kase["mode"] if kase["meta"] == "gen" else "unlabelled")]
        extras = ["status=" + feat["status"], "statuses=" + ("given" if given[name] else "default"),
                  "case=" + kase["phase"] + ("/" + kase["cov"] if kase["phase"] == "coverage" else "") + ("/" + kase["neg"] if kase["neg"] != "-" else "")]
    elif name == MRH:
        primary = ["case=" + (kase["cov"] if kase["phase"] == "coverage" else kase["phase"])]
        extras = ["status=" + feat["status"], "statuses=" + ("given" if given[name] else "default")]
    elif name == UM:
        primary = ["method=" + kase["method"]]
        extras = ["case=" + (kase["cov"] if kase["phase"] == "coverage" else kase["phase"]), "status=" + feat["status"],
                  "allow=" + ("yes" if resp["allow"] else "no")]
    elif name == IA:
        where = {"header": "header", "bearer": "header", "basic": "header", "query": "query", "cookie": "cookie"}.get(kase["sec"], "none")
        src = kase["src"] if kind == "crash" or kase["src"] != "explicit-nogen" else "explicit"
        primary = (["credential-in=" + where] if kind != "crash" else []) + ["credentials=" + src]
        primary += ["requirement-cleared"] if kase["decl"] == "cleared" else []
        extras = ["answer=" + feat["status"], "without=" + feat["none"], "wrong=" + feat["wrong"]] if kind != "crash" else []
    if kind == "crash":
        return "X01:crash:%s:%s:%s" % (name, ob.get("crash", "?"), "+".join(primary)), extras
    return "X01:verdict:%s:%s:%s" % (name, kind, "+".join(primary)), extras


def signature(sel: dict, feat: dict, kase: dict | None, resp: dict | None, name: str, kind: str, ob: dict, seen: dict | None = None) -> str:
    """`seen`: base -> {extra key -> set of values among all failures of this run}; an extra whose value varies is not necessary."""
    base, extras = signature_parts(sel, feat, kase, resp, name, kind, ob)
    if seen is not None:
        extras = [e for e in extras if len(seen.get(base, {}).get(e.split("=")[0], ())) <= 1]
    return base + "".join("+" + e for e in extras)


def _short(sel: dict, kase: dict | None, resp: dict | None) -> str:
    text = "st run " + " ".join(cli_args(sel, kase))
    if kase is not None:
        text += " | case " + "/".join(str(kase[k]) for k in ("meta", "phase", "mode", "cov", "method", "neg") if kase[k] != "-")
        if kase["sec"] != "none":
            text += " security=%s(%s) credentials=%s" % (kase["sec"], kase["decl"], kase["src"])
    if resp is not None:
        text += " | answer %s%s elapsed=%sms" % (resp["status"], " Allow" if resp["allow"] else "", resp["elapsed"])
        if kase is not None and kase["sec"] != "none":
            text += " api=%s" % resp["api"]
    return text


# ------------------------------------------------------------------------------------------ run
def _enumerate(cfg: str) -> tuple[list[dict], list[dict], tlc.TLCResult]:
    sels: list[dict] = []
    cases: list[dict] = []

    def on_json(tag: str, d: dict) -> None:
        (sels if tag == "SEL" else cases).append(d)

    res = tlc.require_ok(tlc.run_tlc("CheckVerdicts", cfg, workers=1, timeout=3000, on_json=on_json, want_prints=False),
                         "CheckVerdicts enumeration")
    return sels, cases, res


def _judge(ctx: Ctx, sel_obs: list[dict], case_obs: list[dict]) -> tuple[set, tlc.TLCResult]:
    obs_file = ctx.path("obs.json")
    tlc.write_json(obs_file, {"sels": sel_obs, "obs": case_obs})
    jres = tlc.require_ok(tlc.run_tlc("CheckVerdictsJudge", "CheckVerdictsJudge.cfg", env={"OBS_FILE": obs_file}, timeout=2400,
                                      workers=1), "judge")
    for inv in jres.violated:
        raise tlc.TLCFailure("judge: design invariant %s violated on recorded input" % inv)
    return {(p[1], p[2], p[3]) for p in jres.prints if isinstance(p, list) and p and p[0] == "DISAGREE"}, jres


def _sel_record(s: dict, ob: dict) -> dict:
    if "error" in ob:
        return {"sel": s["sel"], "names": ["<usage error>"], "cfg": {NDR: [], PDA: [], MRH: [], MRT: 0}, "err": ob["err"]}
    return {"sel": s["sel"], "names": ob["names"], "cfg": ob["cfg"], "err": ""}


def _case_record(c: dict, ob: dict) -> dict:
    if "error" in ob:
        return {"sel": c["sel"], "kase": c["kase"], "resp": c["resp"], "o": {n: "N" for n in NAMES}, "err": ob["err"]}
    return {"sel": c["sel"], "kase": c["kase"], "resp": c["resp"], "o": ob["o"], "err": ""}


def run(ctx: Ctx) -> Outcome:
    out = Outcome()
    rng = random.Random(ctx.seed)
    cfg = "CheckVerdicts_quick.cfg" if ctx.quick else "CheckVerdicts_thorough.cfg"
    sels, cases, res = _enumerate(cfg)
    if res.distinct < len(sels) + len(cases) or not sels or not cases:
        raise tlc.TLCFailure("export incomplete: %d states, %d lines" % (res.distinct, len(sels) + len(cases)))
    for inv in res.violated:
        out.violations.append(Violation("X01:spec:" + inv, "design invariant %s violated in CheckVerdicts.tla" % inv,
                                        {"kind": "spec", "invariant": inv, "trace": res.counterexample[:60]}))
    _tmp["base"] = ctx.work
    _setup()   # import once, before the workers fork
    items = [{"t": "SEL", "sel": s["sel"]} for s in sels] + [{"t": "CASE", "sel": c["sel"], "kase": c["kase"], "resp": c["resp"]} for c in cases]
    # a command line and the elements that use it are neighbours, so that each worker parses it once
    order = sorted(range(len(items)), key=lambda i: (doc_key(items[i].get("kase") or NO_SECURITY),
                                                     json.dumps(cli_args(items[i]["sel"], items[i].get("kase"))), items[i]["t"] != "SEL"))
    t1 = time.time()
    done = common.pmap(_work, [items[i] for i in order], chunk=max(20, len(items) // (common.NPROC * 8)))
    t_replay = time.time() - t1
    obs: list = [None] * len(items)
    for i, ob in zip(order, done):
        if "machinery" in ob:
            raise tlc.TLCFailure("harness failure while concretising an element: " + ob["machinery"])
        obs[i] = ob
    sel_ob, case_ob = obs[:len(sels)], obs[len(sels):]

    # harness cross-check: the credentials the scripted API saw on the original request are the ones the descriptor says
    for c, ob in zip(cases, case_ob):
        if "error" in ob or not ob.get("wire"):
            continue
        k = c["kase"]
        want = "valid" if k["sec"] == "none" else {"absent": "none", "generated": "wrong"}.get(k["src"], "valid")
        if ob["wire"][0].split(":")[0] != want:
            raise tlc.TLCFailure("concretisation is off: original request of %s reached the API as %s" % (_short(c["sel"], k, None), ob["wire"][0]))

    sel_dis = [(i, n, k) for i, (s, ob) in enumerate(zip(sels, sel_ob)) for n, k in sel_disagreements(s, ob)]
    case_dis = [(i, n, k) for i, (c, ob) in enumerate(zip(cases, case_ob)) for n, k in case_disagreements(c, ob)]

    # code -> spec: TLC judges every disagreeing observation (capped) and a seeded sample of the agreeing ones
    bad_s = sorted({i for i, _, _ in sel_dis})
    bad_c = sorted({i for i, _, _ in case_dis})
    js = bad_s[:4000] + common.sample(rng, [i for i in range(len(sels)) if i not in set(bad_s)], 1500 if ctx.quick else 6000)
    jc = bad_c[:8000] + common.sample(rng, [i for i in range(len(cases)) if i not in set(bad_c)], 4000 if ctx.quick else 20000)
    tlc_dis, jres = _judge(ctx, [_sel_record(sels[i], sel_ob[i]) for i in js], [_case_record(cases[i], case_ob[i]) for i in jc])
    py_dis = set()
    for j, i in enumerate(js, 1):
        py_dis |= {(j, n, k) for n, k in sel_disagreements(sels[i], sel_ob[i])}
    for j, i in enumerate(jc, len(js) + 1):
        py_dis |= {(j, n, k) for n, k in case_disagreements(cases[i], case_ob[i])}
    if tlc_dis != py_dis:
        raise tlc.TLCFailure("judge (TLC) and driver disagree on %d verdicts - machinery inconsistency: %s" % (
            len(tlc_dis ^ py_dis), sorted(tlc_dis ^ py_dis)[:5]))

    seen: dict = {}
    for i, n, k in case_dis:
        c = cases[i]
        base, extras = signature_parts(c["sel"], c["feat"], c["kase"], c["resp"], n, k, case_ob[i])
        for e in extras:
            seen.setdefault(base, {}).setdefault(e.split("=")[0], set()).add(e)
    for i, n, k in sel_dis:
        s, ob = sels[i], sel_ob[i]
        out.violations.append(Violation(
            signature(s["sel"], s["feat"], None, None, n, k, ob),
            "%s %s: expected run=%s config=%s; the engine would get checks=%s config=%s for `%s`" % (
                k, n, s["run"].get(n), s["cfg"].get(n), ob.get("names"), (ob.get("cfg") or {}).get(n), _short(s["sel"], None, None)),
            {"kind": "sel", "sel": s["sel"], "run": s["run"], "cfg": s["cfg"], "feat": s["feat"]}))
    for i, n, k in case_dis:
        c, ob = cases[i], case_ob[i]
        out.violations.append(Violation(
            signature(c["sel"], c["feat"], c["kase"], c["resp"], n, k, ob, seen),
            "%s %s: expected %s observed %s (requests seen by the API: %s) for %s" % (
                k, n, c["exp"].get(n), (ob.get("o") or {}).get(n, ob.get("error")), ob.get("wire"), _short(c["sel"], c["kase"], c["resp"])),
            {"kind": "case", "sel": c["sel"], "kase": c["kase"], "resp": c["resp"], "exp": c["exp"], "feat": c["feat"]}))

    # nothing at all is judged for a check outcome when neither the run set nor the verdict is decided; a decided verdict with an
    # undecided run set is judged whenever the check did run
    undecided = {n: sum(1 for c in cases if c["exp"][n]["run"] != "N" and c["exp"][n]["v"] == "U") for n in JUDGED}
    run_undecided = {n: sum(1 for c in cases if c["exp"][n]["run"] == "U") for n in JUDGED}
    nontrivial = sum(1 for c, ob in zip(cases, case_ob)
                     if any(c["letters"][n] == "F" for n in JUDGED) or any(v == "F" for v in (ob.get("o") or {}).values()))
    nontrivial += sum(1 for s in sels if s["sel"]["checks"] or s["sel"]["exclude"])
    dups = sorted({(d, tuple(cli_args(c["sel"]))) for c, ob in zip(cases, case_ob) for d in ob.get("dups", [])})
    picks = common.sample(rng, [i for i in range(len(cases)) if any(v == "F" for v in (case_ob[i].get("o") or {}).values())] or list(range(len(cases))), 4)
    by_slice: dict = {}
    for c in cases:
        by_slice[c["sel"]["slice"]] = by_slice.get(c["sel"]["slice"], 0) + 1
    out.coverage = {
        "states": res.distinct, "transitions": res.generated,
        "traces_validated_against_impl": len(js) + len(jc),
        "samples": [{"element": _short(cases[i]["sel"], cases[i]["kase"], cases[i]["resp"]),
                     "expected": {n: cases[i]["letters"][n] for n in JUDGED}, "observed": {n: case_ob[i]["o"][n] for n in JUDGED},
                     "requests_seen_by_api": case_ob[i].get("wire")} for i in picks]
                   + [{"command_line": _short(sels[i]["sel"], None, None), "engine_checks": sel_ob[i].get("names"),
                       "engine_checks_config": sel_ob[i].get("cfg")} for i in common.sample(rng, list(range(len(sels))), 2)],
        "evaluations": len(sels) + len(cases),
        "distinct_nontrivial": nontrivial,
        "command_lines": len(sels), "executed_elements": len(cases), "elements_by_slice": by_slice,
        "rule": "every command line reachable in CheckVerdicts.tla under %s is parsed by the real `st run` and the resulting engine "
                "configuration compared (checks + per-check config); every (command line, case, answer) element is executed once through "
                "the engine's unit test function with a scripted socket; non-trivial = a command line that names checks / exclusions, or "
                "an element where the spec expects or the implementation reports at least one failure" % cfg,
        "exhaustive": True,
        "skipped_outside_fragment": {"undecided_verdicts_by_check": undecided, "undecided_verdicts": sum(undecided.values()),
                                     "undecided_whether_it_runs_by_check": run_undecided, "of_check_outcomes": len(cases) * len(JUDGED),
                                     "run_set_undecided_names": sum(1 for s in sels for n in NAMES if s["run"][n] == "U")},
        "duplicate_check_entries": [{"check": d, "command_line": " ".join(a)} for d, a in dups[:5]],
        "duplicate_check_entries_count": len(dups),
        "constants": {"cfg": cfg, "judged_checks": JUDGED, "run_set_names": NAMES},
        "disagreements": len(sel_dis) + len(case_dis),
        "tlc_enumeration_s": round(res.wall_s, 1), "replay_s": round(t_replay, 1), "tlc_judge_s": round(jres.wall_s, 1),
        "judge_states": jres.distinct,
    }
    if dups:
        out.notes.append("%d command line(s) hand the engine the same check twice (e.g. %s with `%s`): not judged, the statement does not "
                         "forbid it" % (len(dups), dups[0][0], " ".join(dups[0][1])))
    out.assumptions = [
        "the seam for 'what the engine would run' is the RunConfig passed to cli.commands.run.executor.execute (replaced by a recorder); "
        "the schema is then loaded by the CLI's own load_schema and the element executed by engine.phases.unit._executor.test_func with a real EngineContext",
        "requests.adapters.HTTPAdapter.send and requests.sessions.preferred_clock are replaced in the harness process: the API answers by the "
        "credentials found on the wire, `elapsed` is scripted; everything above the socket is the real code",
        "coverage-phase cases come from _iter_coverage_cases and are selected by content (method, removed parameter), fuzzing / example / "
        "hand-made cases are built with the real CaseMetadata classes the generators use",
        "a check counts as executed when run_checks reaches its `checks.run` verification point; experimental switches are reset between "
        "command lines (one process per command line in real use)",
    ]
    return out


def replay(ctx: Ctx, data: dict) -> Outcome:
    out = Outcome()
    if data.get("kind") == "spec":
        return out
    _tmp["base"] = ctx.work
    if data["kind"] == "sel":
        ob = observe_sel(data["sel"])
        for n, k in sel_disagreements(data, ob):
            out.violations.append(Violation(signature(data["sel"], data["feat"], None, None, n, k, ob),
                                            "%s %s: engine gets %s %s for %s" % (k, n, ob.get("names"), ob.get("cfg"), _short(data["sel"], None, None)), data))
        return out
    ob = observe(data["sel"], data["kase"], data["resp"])
    for n, k in case_disagreements(data, ob):
        out.violations.append(Violation(signature(data["sel"], data["feat"], data["kase"], data["resp"], n, k, ob),
                                        "%s %s: observed %s for %s" % (k, n, ob.get("o", {}).get(n), _short(data["sel"], data["kase"], data["resp"])), data))
    return out


def selftest(ctx: Ctx) -> bool:
    """Binding: the judge accepts faithful observations and rejects corrupted ones (a verdict flipped, a check smuggled into the
    engine's list, a configuration entry changed, an execution dropped)."""
    sels, cases, _ = _enumerate("CheckVerdicts_quick.cfg")
    _tmp["base"] = ctx.work
    c1 = next(c for c in cases if c["sel"]["slice"] == "verdict" and c["letters"][NDR] == "F" and c["letters"][MRT] == "P")
    c2 = next(c for c in cases if c["sel"]["slice"] == "auth" and c["letters"][IA] == "P" and c["kase"]["src"] == "explicit"
              and c["kase"]["sec"] == "query" and c["resp"]["status"] == 200)
    s1 = next(s for s in sels if s["sel"]["checks"] == [NDR] and not s["sel"]["exclude"] and s["sel"]["ndrSt"] and not s["sel"]["pdaExp"])
    o1, o2, p1 = observe(c1["sel"], c1["kase"], c1["resp"]), observe(c2["sel"], c2["kase"], c2["resp"]), observe_sel(s1["sel"])
    if case_disagreements(c1, o1) or case_disagreements(c2, o2) or sel_disagreements(s1, p1):
        print("selftest: the reference elements disagree on this tree", case_disagreements(c1, o1), case_disagreements(c2, o2), sel_disagreements(s1, p1))
        return False
    flipped = dict(o1, o=dict(o1["o"], **{NDR: "P"}))
    dropped = dict(o1, o=dict(o1["o"], **{MRT: "N"}))
    accused = dict(o2, o=dict(o2["o"], **{IA: "F"}))
    smuggled = dict(p1, names=p1["names"] + [IA])
    recfg = dict(p1, cfg=dict(p1["cfg"], **{NDR: [[4, 0, 0]]}))
    got, _ = _judge(ctx, [_sel_record(s1, p1), _sel_record(s1, smuggled), _sel_record(s1, recfg)],
                    [_case_record(c1, o1), _case_record(c1, flipped), _case_record(c1, dropped), _case_record(c2, o2), _case_record(c2, accused)])
    want = {(2, IA, "ran-unselected"), (3, NDR, "config"), (5, NDR, "miss"), (6, MRT, "not-run"), (8, IA, "false-alarm")}
    if got != want:
        print("selftest: judge printed", sorted(got), "wanted", sorted(want))
    return got == want


def main(argv=None) -> int:
    return common.main("X01", run, replay, selftest, argv)
