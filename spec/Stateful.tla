------------------------------ MODULE Stateful ------------------------------
(***************************************************************************)
(* Design model of the stateful phase of the engine (C05, C11, C12):       *)
(* engine/phases/stateful/__init__.py (consumer: queue get with timeout,   *)
(* liveness check, Ctrl-C, join, drain, PhaseFinished) and _executor.py    *)
(* (state-machine thread: suite loop that restarts after a failure with    *)
(* the failure marked as seen, scenario setup / step / teardown, stop      *)
(* checks, failure counting from the thread).  Hypothesis is a             *)
(* nondeterministic source of scenarios: a scenario has between 0 and      *)
(* StepCount steps, a run has between 1 and MaxScen scenarios; after a     *)
(* failed or errored step Hypothesis goes on within the same run (more     *)
(* examples, then the final replay of the failing one - schemathesis runs  *)
(* the generate phase only, there is no shrinking); the API can produce    *)
(* NKinds distinct failures, each recorded / counted / raised only the     *)
(* first time it is seen (in the suite, or in an earlier suite of the      *)
(* run); an errored step is either re-raised or reported as flaky.         *)
(* Not modelled (named deviations): the Unsatisfiable retry and the        *)
(* SkipTest exit of the suite loop; MaxSuites bounds an API that keeps     *)
(* producing flaky errors.                                                 *)
(*                                                                         *)
(* Flags name the defects the checks found in the code, so TLC can refute  *)
(* the old designs (vacuity guard) and confirm the repaired one:           *)
(*   FixDrain     leave the consumer loop only when the thread is dead AND *)
(*                the queue is empty                                       *)
(*   FixCtrlC     after Ctrl-C + join, deliver what the thread queued      *)
(*   FixDrainExec events delivered by that drain count as "executed" (TLC  *)
(*                found this hole in the first version of the FixCtrlC     *)
(*                repair: failure delivered, phase SKIP "nothing to test") *)
(*   FixSetup     check the stop flag before announcing a scenario         *)
(*   FixWorst     fold scenario statuses into the phase status             *)
(*   AliveCheck   (TRUE = the code) the consumer polls the thread's        *)
(*                liveness after a queue timeout (refuted by Termination   *)
(*                when FALSE)                                              *)
(***************************************************************************)
EXTENDS EventProtocol, Sequences, TLC
CONSTANTS StepCount, MaxScen, MaxSuites, MaxFail, FixDrain, FixCtrlC, FixDrainExec, FixSetup, FixWorst, AllowStop, AllowCtrlC, AllowError, AliveCheck, NKinds
PH == 5
Ev(k, su, sc, st) == [k |-> k, ph |-> PH, su |-> su, sc |-> sc, st |-> st]
NoEv == Ev("", 0, 0, "")
CRank(s) == CASE s = "none" -> 0 [] s = "success" -> 1 [] s = "failure" -> 2 [] s = "error" -> 3 [] s = "interrupted" -> 4 [] s = "skip" -> 5

VARIABLES tpc, suite, scen, nscen, stepn, scst, sst, pend, nSeenRun, nSeenSuite,      \* state-machine thread
          q, cpc, cur, status, executed,                              \* queue and consumer
          stop, fails, limit,                                         \* ExecutionControl
          mon, exit,                                                  \* what the stream consumer sees
          problem, reqAfterStop, scsAfterStop, stopped                \* ghosts
vars == <<tpc, suite, scen, nscen, stepn, scst, sst, pend, nSeenRun, nSeenSuite, q, cpc, cur, status, executed, stop, fails, limit, mon, exit,
          problem, reqAfterStop, scsAfterStop, stopped>>
HasToStop == stop \/ limit

Init == /\ tpc = "suite_start" /\ suite = 1 /\ scen = 0 /\ nscen = 0 /\ stepn = 0 /\ scst = "none" /\ sst = "success" /\ pend = "none"
        /\ nSeenRun = 0 /\ nSeenSuite = 0 /\ q = <<>> /\ cpc = "start" /\ cur = NoEv /\ status = "none" /\ executed = FALSE
        /\ stop = FALSE /\ fails = 0 /\ limit = FALSE /\ mon = MonInit /\ exit = 0
        /\ problem = FALSE /\ reqAfterStop = 0 /\ scsAfterStop = 0 /\ stopped = FALSE

Emit(e) == /\ mon' = Observe(mon, e, MaxFail, stop)
           /\ exit' = IF e.k = "NFE" \/ (e.k = "PF" /\ e.st \in {"failure", "error"}) THEN 1 ELSE exit
NoEmit == UNCHANGED <<mon, exit>>
Put(es) == q' = q \o es
TUnch == UNCHANGED <<tpc, suite, scen, nscen, stepn, scst, sst, pend, nSeenRun, nSeenSuite>>
CUnch == UNCHANGED <<cpc, cur, status, executed>>
GUnch == UNCHANGED <<problem, reqAfterStop, scsAfterStop, stopped>>

(* ---------------- plan prelude: EngineStarted, phases 1..4 disabled, PhaseStarted(5) ---------------- *)
P_Start == /\ cpc = "start"
           /\ mon' = Observe(Observe(Observe(Observe(Observe(Observe(Observe(Observe(Observe(Observe(mon,
                        [k |-> "ES", ph |-> 0, su |-> 0, sc |-> 0, st |-> ""], MaxFail, FALSE),
                        [k |-> "PS", ph |-> 1, su |-> 0, sc |-> 0, st |-> ""], MaxFail, FALSE),
                        [k |-> "PF", ph |-> 1, su |-> 0, sc |-> 0, st |-> "skip"], MaxFail, FALSE),
                        [k |-> "PS", ph |-> 2, su |-> 0, sc |-> 0, st |-> ""], MaxFail, FALSE),
                        [k |-> "PF", ph |-> 2, su |-> 0, sc |-> 0, st |-> "skip"], MaxFail, FALSE),
                        [k |-> "PS", ph |-> 3, su |-> 0, sc |-> 0, st |-> ""], MaxFail, FALSE),
                        [k |-> "PF", ph |-> 3, su |-> 0, sc |-> 0, st |-> "skip"], MaxFail, FALSE),
                        [k |-> "PS", ph |-> 4, su |-> 0, sc |-> 0, st |-> ""], MaxFail, FALSE),
                        [k |-> "PF", ph |-> 4, su |-> 0, sc |-> 0, st |-> "skip"], MaxFail, FALSE),
                        [k |-> "PS", ph |-> 5, su |-> 0, sc |-> 0, st |-> ""], MaxFail, FALSE)
           /\ cpc' = "get" /\ UNCHANGED <<exit, cur, status, executed, q, stop, fails, limit>> /\ TUnch /\ GUnch

(* ---------------- state-machine thread (_executor.py) ---------------- *)
(* `while True:` put(SuiteStarted); the stop flag is read AFTER the put (two separate steps of the thread) *)
T_SuiteStart ==
  /\ tpc = "suite_start"
  /\ Put(<<Ev("SS", suite, 0, "")>>) /\ tpc' = "suite_check"
  /\ UNCHANGED <<suite, scen, nscen, stepn, scst, sst, pend, nSeenRun, nSeenSuite, stop, fails, limit>> /\ CUnch /\ NoEmit /\ GUnch
T_SuiteCheck ==                       \* `if engine.is_interrupted` (the stop event only, not the failure limit)
  /\ tpc = "suite_check"
  /\ IF stop THEN tpc' = "suite_intr1" /\ UNCHANGED <<sst, nscen, pend>>
             ELSE tpc' = "setup" /\ sst' = "success" /\ nscen' = 0 /\ pend' = "none"
  /\ UNCHANGED <<suite, scen, stepn, scst, nSeenRun, nSeenSuite, q, stop, fails, limit>> /\ CUnch /\ NoEmit /\ GUnch
T_SuiteIntr1 == /\ tpc = "suite_intr1" /\ Put(<<Ev("INT", 0, 0, "")>>) /\ tpc' = "suite_intr2"
                /\ UNCHANGED <<suite, scen, nscen, stepn, scst, sst, pend, nSeenRun, nSeenSuite, stop, fails, limit>> /\ CUnch /\ NoEmit /\ GUnch
T_SuiteIntr2 == /\ tpc = "suite_intr2" /\ Put(<<Ev("SF", suite, 0, "interrupted")>>) /\ tpc' = "exit"
                /\ UNCHANGED <<suite, scen, nscen, stepn, scst, sst, pend, nSeenRun, nSeenSuite, stop, fails, limit>> /\ CUnch /\ NoEmit /\ GUnch
(* Hypothesis starts the next scenario of this run: a generated one, or (after a failure / error) more generated ones and the
   final replay of the failing one.  setup() raises KeyboardInterrupt when the run has to stop: that ends the whole Hypothesis
   run, whatever was pending. *)
T_Setup ==                            \* `if engine.has_to_stop: raise KeyboardInterrupt` - the read of the flags ...
  /\ tpc = "setup"
  /\ IF FixSetup /\ HasToStop THEN tpc' = "run_end" /\ pend' = "ctrlc" ELSE tpc' = "setup_put" /\ UNCHANGED pend
  /\ UNCHANGED <<suite, scen, nscen, stepn, scst, sst, nSeenRun, nSeenSuite, q, stop, fails, limit>> /\ CUnch /\ NoEmit /\ GUnch
T_SetupPut ==                         \* ... and the announcement are two steps: a stop request may arrive in between
  /\ tpc = "setup_put"
  /\ scen' = scen + 1 /\ Put(<<Ev("ScS", suite, suite * 100 + scen + 1, "")>>) /\ stepn' = 0 /\ scst' = "none" /\ tpc' = "step_check"
  /\ scsAfterStop' = IF stop THEN scsAfterStop + 1 ELSE scsAfterStop
  /\ UNCHANGED <<suite, nscen, sst, pend, nSeenRun, nSeenSuite, stop, fails, limit, problem, reqAfterStop, stopped>> /\ CUnch /\ NoEmit
(* Hypothesis abandons / ends the scenario: before its first step, or after any successful step *)
T_EndScenario ==
  /\ tpc = "step_check" /\ tpc' = "teardown"
  /\ UNCHANGED <<suite, scen, nscen, stepn, scst, sst, pend, nSeenRun, nSeenSuite, q, stop, fails, limit>> /\ CUnch /\ NoEmit /\ GUnch
T_StepCheck ==
  /\ tpc = "step_check" /\ stepn < StepCount
  /\ IF HasToStop THEN pend' = "ctrlc" /\ tpc' = "teardown"      \* raised before the step's own try block: the scenario keeps its status
     ELSE tpc' = "step" /\ UNCHANGED pend
  /\ UNCHANGED <<suite, scen, nscen, stepn, scst, sst, nSeenRun, nSeenSuite, q, stop, fails, limit>> /\ CUnch /\ NoEmit /\ GUnch
(* one request + its checks.  A failed check is NEW when it was seen neither in this suite nor in an earlier one (only new
   ones are recorded, counted and raised); NKinds bounds the distinct failures the API can produce. *)
Fresh == NKinds - nSeenRun - nSeenSuite
T_Step ==
  /\ tpc = "step"
  /\ reqAfterStop' = IF stop THEN reqAfterStop + 1 ELSE reqAfterStop
  /\ \/ /\ scst' = "success" /\ stepn' = stepn + 1 /\ tpc' = "step_check"        \* all checks pass (or every failure is already known)
        /\ UNCHANGED <<pend, fails, limit, problem, nSeenSuite>>
     \/ \E n \in 1..Fresh :
        /\ scst' = "failure" /\ tpc' = "teardown" /\ stepn' = stepn + 1
        /\ pend' = IF pend \in {"error", "flaky"} THEN pend ELSE "failure"
        /\ nSeenSuite' = nSeenSuite + n
        /\ fails' = IF MaxFail # 0 THEN fails + n ELSE fails
        /\ limit' = (limit \/ (MaxFail # 0 /\ fails + n >= MaxFail))
        /\ problem' = TRUE
     \/ /\ AllowError /\ scst' = "error" /\ pend' \in {"error", "flaky"} /\ tpc' = "teardown" /\ stepn' = stepn + 1
        /\ problem' = TRUE /\ UNCHANGED <<fails, limit, nSeenSuite>>
  /\ UNCHANGED <<suite, scen, nscen, sst, nSeenRun, q, stop, scsAfterStop, stopped>> /\ CUnch /\ NoEmit
(* teardown() always announces the end of the scenario; a KeyboardInterrupt then leaves the Hypothesis run at once, otherwise
   Hypothesis goes on (more examples while its budget lasts, the final replay after a failure) or is done *)
T_Teardown ==
  /\ tpc = "teardown"
  /\ Put(<<Ev("ScF", suite, suite * 100 + scen, IF scst = "none" THEN "skip" ELSE scst)>>)
  /\ IF pend = "ctrlc" THEN tpc' = "run_end" /\ UNCHANGED <<nscen, pend>>
     ELSE /\ nscen' = nscen + 1
          /\ \/ nscen + 1 < MaxScen /\ tpc' = "setup" /\ UNCHANGED pend
             \/ tpc' = "run_end" /\ UNCHANGED pend
             \* what teardown() does AFTER the announcement (feedback to Hypothesis' targeted search, user code) raises: the run ends as an error
             \/ AllowError /\ tpc' = "run_end" /\ pend' = "error"
  /\ UNCHANGED <<suite, scen, stepn, scst, sst, nSeenRun, nSeenSuite, stop, fails, limit>> /\ CUnch /\ NoEmit /\ GUnch
(* how `InstrumentedStateMachine.run()` returns: normally, KeyboardInterrupt, FailureGroup, Flaky, any other exception *)
T_RunEnd ==
  /\ tpc = "run_end"
  /\ CASE pend = "none"    -> /\ tpc' = "suite_finish_exit" /\ UNCHANGED <<sst, nSeenRun, stop, q>>
       [] pend = "ctrlc"   -> /\ stop' = TRUE /\ sst' = "interrupted" /\ Put(<<Ev("INT", 0, 0, "")>>) /\ tpc' = "suite_finish_exit" /\ UNCHANGED nSeenRun
       [] pend \in {"failure", "flaky"} ->
                              /\ sst' = "failure" /\ UNCHANGED <<stop, q>>
                              /\ IF limit \/ suite >= MaxSuites THEN tpc' = "suite_finish_exit" /\ UNCHANGED nSeenRun
                                 ELSE tpc' = "suite_finish_loop" /\ nSeenRun' = nSeenRun + nSeenSuite     \* marked as seen in the run
       [] pend = "error"   -> /\ sst' = "error" /\ Put(<<Ev("NFE", 0, 0, "")>>) /\ tpc' = "suite_finish_exit" /\ UNCHANGED <<nSeenRun, stop>>
  /\ UNCHANGED <<suite, scen, nscen, stepn, scst, pend, nSeenSuite, fails, limit>> /\ CUnch /\ NoEmit /\ GUnch
T_SuiteFinish ==                      \* `finally:` put(SuiteFinished); ctx.reset()
  /\ tpc \in {"suite_finish_exit", "suite_finish_loop"}
  /\ Put(<<Ev("SF", suite, 0, sst)>>) /\ nSeenSuite' = 0
  /\ IF tpc = "suite_finish_loop" THEN tpc' = "suite_start" /\ suite' = suite + 1 /\ pend' = "none"
     ELSE tpc' = "exit" /\ UNCHANGED <<suite, pend>>
  /\ UNCHANGED <<scen, nscen, stepn, scst, sst, nSeenRun, stop, fails, limit>> /\ CUnch /\ NoEmit /\ GUnch
T_Exit == /\ tpc = "exit" /\ tpc' = "dead"
          /\ UNCHANGED <<suite, scen, nscen, stepn, scst, sst, pend, nSeenRun, nSeenSuite, q, stop, fails, limit>> /\ CUnch /\ NoEmit /\ GUnch

(* ---------------- consumer (stateful/__init__.py) ---------------- *)
Fold(e) == IF (e.k = "SF" \/ (FixWorst /\ e.k = "ScF")) /\ e.st # "skip" /\ (status = "none" \/ CRank(status) < CRank(e.st))
           THEN e.st ELSE status
C_Get == /\ cpc = "get" /\ q # <<>>
         /\ cur' = Head(q) /\ q' = Tail(q) /\ executed' = TRUE /\ status' = Fold(Head(q)) /\ cpc' = "yield"
         /\ NoEmit /\ TUnch /\ GUnch /\ UNCHANGED <<stop, fails, limit>>
C_Yield == /\ cpc = "yield" /\ Emit(cur) /\ cur' = NoEv /\ cpc' = "get"
           /\ TUnch /\ GUnch /\ UNCHANGED <<q, status, executed, stop, fails, limit>>
C_Timeout == /\ cpc = "get" /\ q = <<>> /\ cpc' = "alive"
             /\ NoEmit /\ TUnch /\ GUnch /\ UNCHANGED <<q, cur, status, executed, stop, fails, limit>>
C_Alive == /\ cpc = "alive"
           /\ cpc' = IF AliveCheck /\ tpc = "dead" /\ (~FixDrain \/ q = <<>>) THEN "join" ELSE "get"
           /\ NoEmit /\ TUnch /\ GUnch /\ UNCHANGED <<q, cur, status, executed, stop, fails, limit>>
(* KeyboardInterrupt arrives while the consumer waits in get(), or while it polls the thread's liveness after a timeout *)
C_CtrlC == /\ AllowCtrlC /\ cpc \in {"get", "alive"} /\ ~stopped
           /\ stop' = TRUE /\ stopped' = TRUE /\ status' = "interrupted" /\ Emit(Ev("INT", 0, 0, "")) /\ cpc' = "join"
           /\ TUnch /\ UNCHANGED <<q, cur, executed, fails, limit, problem, reqAfterStop, scsAfterStop>>
C_Join == /\ cpc = "join" /\ tpc = "dead" /\ cpc' = IF FixCtrlC THEN "drain" ELSE "pf"
          /\ NoEmit /\ TUnch /\ GUnch /\ UNCHANGED <<q, cur, status, executed, stop, fails, limit>>
C_Drain == /\ cpc = "drain"
           /\ IF q = <<>> THEN cpc' = "pf" /\ NoEmit /\ UNCHANGED <<q, executed>>
              ELSE Emit(Head(q)) /\ q' = Tail(q) /\ UNCHANGED cpc /\ executed' = (executed \/ FixDrainExec)
           /\ TUnch /\ GUnch /\ UNCHANGED <<cur, status, stop, fails, limit>>
C_PhaseFinished ==
  /\ cpc = "pf"
  /\ Emit(Ev("PF", 0, 0, IF ~executed \/ status = "none" THEN "skip" ELSE status)) /\ cpc' = "ef"
  /\ TUnch /\ GUnch /\ UNCHANGED <<q, cur, status, executed, stop, fails, limit>>
C_EngineFinished ==
  /\ cpc = "ef" /\ Emit([k |-> "EF", ph |-> 0, su |-> 0, sc |-> 0, st |-> ""]) /\ cpc' = "end"
  /\ TUnch /\ GUnch /\ UNCHANGED <<q, cur, status, executed, stop, fails, limit>>
Env_Stop == /\ AllowStop /\ ~stopped /\ cpc \notin {"start", "end"} /\ stop' = TRUE /\ stopped' = TRUE
            /\ NoEmit /\ TUnch /\ CUnch /\ UNCHANGED <<q, fails, limit, problem, reqAfterStop, scsAfterStop>>

Next == \/ P_Start \/ T_SuiteStart \/ T_SuiteCheck \/ T_SuiteIntr1 \/ T_SuiteIntr2 \/ T_Setup \/ T_SetupPut \/ T_EndScenario \/ T_StepCheck \/ T_Step \/ T_Teardown \/ T_RunEnd \/ T_SuiteFinish \/ T_Exit
        \/ C_Get \/ C_Yield \/ C_Timeout \/ C_Alive \/ C_CtrlC \/ C_Join \/ C_Drain \/ C_PhaseFinished \/ C_EngineFinished \/ Env_Stop
Spec == Init /\ [][Next]_vars
MainNext == P_Start \/ C_Get \/ C_Yield \/ C_Timeout \/ C_Alive \/ C_Join \/ C_Drain \/ C_PhaseFinished \/ C_EngineFinished
ThreadNext == T_SuiteStart \/ T_SuiteCheck \/ T_SuiteIntr1 \/ T_SuiteIntr2 \/ T_Setup \/ T_SetupPut \/ T_EndScenario \/ T_StepCheck \/ T_Step \/ T_Teardown \/ T_RunEnd \/ T_SuiteFinish \/ T_Exit
FairSpec == Spec /\ WF_vars(MainNext) /\ WF_vars(ThreadNext)

Done == cpc = "end"
RunCut == stopped \/ limit \/ mon.intr
(* C11 *)
ProtocolOK == ~Bad(mon)
ClosedAtEnd == Done => EndOK(mon, 5, MaxFail, stop)
(* C05 *)
NoProblemLost == (Done /\ ~RunCut /\ problem) => exit = 1 /\ mon.nbad >= 1
(* C12 *)
AtMostOneRequestAfterStop == reqAfterStop <= 1
AtMostOneScenarioAfterStop == scsAfterStop <= 1
StepsBounded == stepn <= StepCount
FailureLimit == MaxFail # 0 => mon.nbad <= MaxFail
Termination == <>Done
=============================================================================
