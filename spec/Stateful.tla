------------------------------ MODULE Stateful ------------------------------
(***************************************************************************)
(* Design model of the stateful phase of the engine (C05, C11, C12):       *)
(* engine/phases/stateful/__init__.py (consumer: queue get with timeout,   *)
(* liveness check, Ctrl-C, join, drain, PhaseFinished) and _executor.py    *)
(* (state-machine thread: suite loop that restarts after a failure with    *)
(* the failure marked as seen, scenario setup / step / teardown, stop      *)
(* checks, failure counting from the thread).  Hypothesis is a             *)
(* nondeterministic source of scenarios: a scenario has between 0 and      *)
(* StepCount steps, a run has up to MaxScen scenarios, an errored step is  *)
(* either re-raised or reported as flaky.                                  *)
(*                                                                         *)
(* Flags name the defects the checks found in the code, so TLC can refute  *)
(* the old designs (vacuity guard) and confirm the repaired one:           *)
(*   FixDrain     leave the consumer loop only when the thread is dead AND *)
(*                the queue is empty                                       *)
(*   FixCtrlC     after Ctrl-C + join, deliver what the thread queued      *)
(*   FixDrainExec events delivered by that drain count as "executed" (TLC  *)
(*                found this hole in the first version of the FixCtrlC     *)
(*                repair: failure delivered, phase SKIP "nothing to test") *)
(*   FixSetup     check the stop flag before announcing a scenario         *)
(*   FixWorst     fold scenario statuses into the phase status             *)
(*   AliveCheck   (TRUE = the code) the consumer polls the thread's        *)
(*                liveness after a queue timeout (refuted by Termination   *)
(*                when FALSE)                                              *)
(***************************************************************************)
EXTENDS EventProtocol, Sequences, TLC
CONSTANTS StepCount, MaxScen, MaxSuites, MaxFail, FixDrain, FixCtrlC, FixDrainExec, FixSetup, FixWorst, AllowStop, AllowCtrlC, AllowError, AliveCheck
PH == 5
Ev(k, su, sc, st) == [k |-> k, ph |-> PH, su |-> su, sc |-> sc, st |-> st]
NoEv == Ev("", 0, 0, "")
CRank(s) == CASE s = "none" -> 0 [] s = "success" -> 1 [] s = "failure" -> 2 [] s = "error" -> 3 [] s = "interrupted" -> 4 [] s = "skip" -> 5

VARIABLES tpc, suite, scen, nscen, stepn, scst, sst, pend, seen,      \* state-machine thread
          q, cpc, cur, status, executed,                              \* queue and consumer
          stop, fails, limit,                                         \* ExecutionControl
          mon, exit,                                                  \* what the stream consumer sees
          problem, reqAfterStop, scsAfterStop, stopped                \* ghosts
vars == <<tpc, suite, scen, nscen, stepn, scst, sst, pend, seen, q, cpc, cur, status, executed, stop, fails, limit, mon, exit,
          problem, reqAfterStop, scsAfterStop, stopped>>
HasToStop == stop \/ limit

Init == /\ tpc = "suite_start" /\ suite = 1 /\ scen = 0 /\ nscen = 0 /\ stepn = 0 /\ scst = "none" /\ sst = "success" /\ pend = "none"
        /\ seen = FALSE /\ q = <<>> /\ cpc = "start" /\ cur = NoEv /\ status = "none" /\ executed = FALSE
        /\ stop = FALSE /\ fails = 0 /\ limit = FALSE /\ mon = MonInit /\ exit = 0
        /\ problem = FALSE /\ reqAfterStop = 0 /\ scsAfterStop = 0 /\ stopped = FALSE

Emit(e) == /\ mon' = Observe(mon, e, MaxFail, stop)
           /\ exit' = IF e.k = "NFE" \/ (e.k = "PF" /\ e.st \in {"failure", "error"}) THEN 1 ELSE exit
NoEmit == UNCHANGED <<mon, exit>>
Put(es) == q' = q \o es
TUnch == UNCHANGED <<tpc, suite, scen, nscen, stepn, scst, sst, pend, seen>>
CUnch == UNCHANGED <<cpc, cur, status, executed>>
GUnch == UNCHANGED <<problem, reqAfterStop, scsAfterStop, stopped>>

(* ---------------- plan prelude: EngineStarted, phases 1..4 disabled, PhaseStarted(5) ---------------- *)
P_Start == /\ cpc = "start"
           /\ mon' = Observe(Observe(Observe(Observe(Observe(Observe(Observe(Observe(Observe(Observe(mon,
                        [k |-> "ES", ph |-> 0, su |-> 0, sc |-> 0, st |-> ""], MaxFail, FALSE),
                        [k |-> "PS", ph |-> 1, su |-> 0, sc |-> 0, st |-> ""], MaxFail, FALSE),
                        [k |-> "PF", ph |-> 1, su |-> 0, sc |-> 0, st |-> "skip"], MaxFail, FALSE),
                        [k |-> "PS", ph |-> 2, su |-> 0, sc |-> 0, st |-> ""], MaxFail, FALSE),
                        [k |-> "PF", ph |-> 2, su |-> 0, sc |-> 0, st |-> "skip"], MaxFail, FALSE),
                        [k |-> "PS", ph |-> 3, su |-> 0, sc |-> 0, st |-> ""], MaxFail, FALSE),
                        [k |-> "PF", ph |-> 3, su |-> 0, sc |-> 0, st |-> "skip"], MaxFail, FALSE),
                        [k |-> "PS", ph |-> 4, su |-> 0, sc |-> 0, st |-> ""], MaxFail, FALSE),
                        [k |-> "PF", ph |-> 4, su |-> 0, sc |-> 0, st |-> "skip"], MaxFail, FALSE),
                        [k |-> "PS", ph |-> 5, su |-> 0, sc |-> 0, st |-> ""], MaxFail, FALSE)
           /\ cpc' = "get" /\ UNCHANGED <<exit, cur, status, executed, q, stop, fails, limit>> /\ TUnch /\ GUnch

(* ---------------- state-machine thread (_executor.py) ---------------- *)
T_SuiteStart ==
  /\ tpc = "suite_start"
  /\ IF stop THEN /\ Put(<<Ev("SS", suite, 0, ""), Ev("INT", 0, 0, ""), Ev("SF", suite, 0, "interrupted")>>) /\ tpc' = "exit"
                  /\ UNCHANGED <<sst, nscen>>
     ELSE /\ Put(<<Ev("SS", suite, 0, "")>>) /\ tpc' = "setup" /\ sst' = "success" /\ nscen' = 0
  /\ UNCHANGED <<suite, scen, stepn, scst, pend, seen, stop, fails, limit>> /\ CUnch /\ NoEmit /\ GUnch
T_Setup ==
  /\ tpc = "setup"
  /\ IF FixSetup /\ HasToStop
     THEN /\ tpc' = "run_end" /\ pend' = "ctrlc" /\ UNCHANGED <<q, scen, stepn, scst, scsAfterStop>>
     ELSE /\ scen' = scen + 1 /\ Put(<<Ev("ScS", suite, suite * 100 + scen + 1, "")>>) /\ stepn' = 0 /\ scst' = "none"
          /\ tpc' = "step_check" /\ UNCHANGED pend
          /\ scsAfterStop' = IF stop THEN scsAfterStop + 1 ELSE scsAfterStop
  /\ UNCHANGED <<suite, nscen, sst, seen, stop, fails, limit, problem, reqAfterStop, stopped>> /\ CUnch /\ NoEmit
(* Hypothesis abandons / ends the scenario: before its first step, or after any successful step *)
T_EndScenario ==
  /\ tpc = "step_check" /\ tpc' = "teardown"
  /\ UNCHANGED <<suite, scen, nscen, stepn, scst, sst, pend, seen, q, stop, fails, limit>> /\ CUnch /\ NoEmit /\ GUnch
T_StepCheck ==
  /\ tpc = "step_check" /\ stepn < StepCount
  /\ IF HasToStop THEN scst' = "interrupted" /\ pend' = "ctrlc" /\ tpc' = "teardown"
     ELSE tpc' = "step" /\ UNCHANGED <<scst, pend>>
  /\ UNCHANGED <<suite, scen, nscen, stepn, sst, seen, q, stop, fails, limit>> /\ CUnch /\ NoEmit /\ GUnch
T_Step ==
  /\ tpc = "step"
  /\ reqAfterStop' = IF stop THEN reqAfterStop + 1 ELSE reqAfterStop
  /\ \/ /\ scst' = "success" /\ stepn' = stepn + 1 /\ tpc' = "step_check"        \* all checks pass (or the failure is already known)
        /\ UNCHANGED <<pend, fails, limit, problem>>
     \/ /\ ~seen /\ scst' = "failure" /\ pend' = "failure" /\ tpc' = "teardown" /\ stepn' = stepn + 1
        /\ fails' = IF MaxFail # 0 THEN fails + 1 ELSE fails
        /\ limit' = (limit \/ (MaxFail # 0 /\ fails + 1 >= MaxFail))
        /\ problem' = TRUE
     \/ /\ AllowError /\ scst' = "error" /\ pend' \in {"error", "flaky"} /\ tpc' = "teardown" /\ stepn' = stepn + 1
        /\ problem' = TRUE /\ UNCHANGED <<fails, limit>>
  /\ UNCHANGED <<suite, scen, nscen, sst, seen, q, stop, scsAfterStop, stopped>> /\ CUnch /\ NoEmit
T_Teardown ==
  /\ tpc = "teardown"
  /\ Put(<<Ev("ScF", suite, suite * 100 + scen, IF scst = "none" THEN "skip" ELSE scst)>>)
  /\ IF pend # "none" THEN tpc' = "run_end" /\ UNCHANGED nscen
     ELSE IF nscen + 1 >= MaxScen THEN tpc' = "run_end" /\ nscen' = nscen + 1
     ELSE tpc' = "setup" /\ nscen' = nscen + 1
  /\ UNCHANGED <<suite, scen, stepn, scst, sst, pend, seen, stop, fails, limit>> /\ CUnch /\ NoEmit /\ GUnch
T_RunEnd ==
  /\ tpc = "run_end"
  /\ CASE pend = "none"    -> /\ tpc' = "suite_finish_exit" /\ UNCHANGED <<sst, seen, stop, q>>
       [] pend = "ctrlc"   -> /\ stop' = TRUE /\ sst' = "interrupted" /\ Put(<<Ev("INT", 0, 0, "")>>) /\ tpc' = "suite_finish_exit" /\ UNCHANGED seen
       [] pend = "failure" -> /\ sst' = "failure" /\ UNCHANGED <<stop, q>>
                              /\ IF limit \/ suite >= MaxSuites THEN tpc' = "suite_finish_exit" /\ UNCHANGED seen
                                 ELSE tpc' = "suite_finish_loop" /\ seen' = TRUE
       [] pend = "flaky"   -> /\ sst' = "failure" /\ UNCHANGED <<stop, q>>
                              /\ IF limit \/ suite >= MaxSuites THEN tpc' = "suite_finish_exit" /\ UNCHANGED seen
                                 ELSE tpc' = "suite_finish_loop" /\ seen' = TRUE
       [] pend = "error"   -> /\ sst' = "error" /\ Put(<<Ev("NFE", 0, 0, "")>>) /\ tpc' = "suite_finish_exit" /\ UNCHANGED <<seen, stop>>
  /\ UNCHANGED <<suite, scen, nscen, stepn, scst, pend, fails, limit>> /\ CUnch /\ NoEmit /\ GUnch
T_SuiteFinish ==
  /\ tpc \in {"suite_finish_exit", "suite_finish_loop"}
  /\ Put(<<Ev("SF", suite, 0, sst)>>)
  /\ IF tpc = "suite_finish_loop" THEN tpc' = "suite_start" /\ suite' = suite + 1 /\ pend' = "none"
     ELSE tpc' = "exit" /\ UNCHANGED <<suite, pend>>
  /\ UNCHANGED <<scen, nscen, stepn, scst, sst, seen, stop, fails, limit>> /\ CUnch /\ NoEmit /\ GUnch
T_Exit == /\ tpc = "exit" /\ tpc' = "dead"
          /\ UNCHANGED <<suite, scen, nscen, stepn, scst, sst, pend, seen, q, stop, fails, limit>> /\ CUnch /\ NoEmit /\ GUnch

(* ---------------- consumer (stateful/__init__.py) ---------------- *)
Fold(e) == IF (e.k = "SF" \/ (FixWorst /\ e.k = "ScF")) /\ e.st # "skip" /\ (status = "none" \/ CRank(status) < CRank(e.st))
           THEN e.st ELSE status
C_Get == /\ cpc = "get" /\ q # <<>>
         /\ cur' = Head(q) /\ q' = Tail(q) /\ executed' = TRUE /\ status' = Fold(Head(q)) /\ cpc' = "yield"
         /\ NoEmit /\ TUnch /\ GUnch /\ UNCHANGED <<stop, fails, limit>>
C_Yield == /\ cpc = "yield" /\ Emit(cur) /\ cur' = NoEv /\ cpc' = "get"
           /\ TUnch /\ GUnch /\ UNCHANGED <<q, status, executed, stop, fails, limit>>
C_Timeout == /\ cpc = "get" /\ q = <<>> /\ cpc' = "alive"
             /\ NoEmit /\ TUnch /\ GUnch /\ UNCHANGED <<q, cur, status, executed, stop, fails, limit>>
C_Alive == /\ cpc = "alive"
           /\ cpc' = IF AliveCheck /\ tpc = "dead" /\ (~FixDrain \/ q = <<>>) THEN "join" ELSE "get"
           /\ NoEmit /\ TUnch /\ GUnch /\ UNCHANGED <<q, cur, status, executed, stop, fails, limit>>
(* KeyboardInterrupt arrives while the consumer waits in get() *)
C_CtrlC == /\ AllowCtrlC /\ cpc = "get" /\ ~stopped
           /\ stop' = TRUE /\ stopped' = TRUE /\ status' = "interrupted" /\ Emit(Ev("INT", 0, 0, "")) /\ cpc' = "join"
           /\ TUnch /\ UNCHANGED <<q, cur, executed, fails, limit, problem, reqAfterStop, scsAfterStop>>
C_Join == /\ cpc = "join" /\ tpc = "dead" /\ cpc' = IF FixCtrlC THEN "drain" ELSE "pf"
          /\ NoEmit /\ TUnch /\ GUnch /\ UNCHANGED <<q, cur, status, executed, stop, fails, limit>>
C_Drain == /\ cpc = "drain"
           /\ IF q = <<>> THEN cpc' = "pf" /\ NoEmit /\ UNCHANGED <<q, executed>>
              ELSE Emit(Head(q)) /\ q' = Tail(q) /\ UNCHANGED cpc /\ executed' = (executed \/ FixDrainExec)
           /\ TUnch /\ GUnch /\ UNCHANGED <<cur, status, stop, fails, limit>>
C_PhaseFinished ==
  /\ cpc = "pf"
  /\ Emit(Ev("PF", 0, 0, IF ~executed \/ status = "none" THEN "skip" ELSE status)) /\ cpc' = "ef"
  /\ TUnch /\ GUnch /\ UNCHANGED <<q, cur, status, executed, stop, fails, limit>>
C_EngineFinished ==
  /\ cpc = "ef" /\ Emit([k |-> "EF", ph |-> 0, su |-> 0, sc |-> 0, st |-> ""]) /\ cpc' = "end"
  /\ TUnch /\ GUnch /\ UNCHANGED <<q, cur, status, executed, stop, fails, limit>>
Env_Stop == /\ AllowStop /\ ~stopped /\ cpc \notin {"start", "end"} /\ stop' = TRUE /\ stopped' = TRUE
            /\ NoEmit /\ TUnch /\ CUnch /\ UNCHANGED <<q, fails, limit, problem, reqAfterStop, scsAfterStop>>

Next == \/ P_Start \/ T_SuiteStart \/ T_Setup \/ T_EndScenario \/ T_StepCheck \/ T_Step \/ T_Teardown \/ T_RunEnd \/ T_SuiteFinish \/ T_Exit
        \/ C_Get \/ C_Yield \/ C_Timeout \/ C_Alive \/ C_CtrlC \/ C_Join \/ C_Drain \/ C_PhaseFinished \/ C_EngineFinished \/ Env_Stop
Spec == Init /\ [][Next]_vars
MainNext == P_Start \/ C_Get \/ C_Yield \/ C_Timeout \/ C_Alive \/ C_Join \/ C_Drain \/ C_PhaseFinished \/ C_EngineFinished
ThreadNext == T_SuiteStart \/ T_Setup \/ T_EndScenario \/ T_StepCheck \/ T_Step \/ T_Teardown \/ T_RunEnd \/ T_SuiteFinish \/ T_Exit
FairSpec == Spec /\ WF_vars(MainNext) /\ WF_vars(ThreadNext)

Done == cpc = "end"
RunCut == stopped \/ limit \/ mon.intr
(* C11 *)
ProtocolOK == ~Bad(mon)
ClosedAtEnd == Done => EndOK(mon, 5, MaxFail, stop)
(* C05 *)
NoProblemLost == (Done /\ ~RunCut /\ problem) => exit = 1 /\ mon.nbad >= 1
(* C12 *)
AtMostOneRequestAfterStop == reqAfterStop <= 1
AtMostOneScenarioAfterStop == scsAfterStop <= 1
StepsBounded == stepn <= StepCount
FailureLimit == MaxFail # 0 => mon.nbad <= MaxFail
Termination == <>Done
=============================================================================
