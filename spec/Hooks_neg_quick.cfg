SPECIFICATION Spec
CONSTANT MaxReg = 1
CONSTANT MaxUnreg = 1
CONSTANT MaxLen = 2
CONSTANT MaxGen = 1
CONSTANT Negative = TRUE
CONSTANT Narrow = TRUE
CONSTANT Rich = FALSE
INVARIANT TypeOK
INVARIANT ScopePartition
INVARIANT OracleAgrees
INVARIANT UnfilteredEverywhere
INVARIANT Independent
INVARIANT GenerationsAreInert
INVARIANT Export
CHECK_DEADLOCK FALSE
