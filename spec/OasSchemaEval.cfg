SPECIFICATION ESpec
INVARIANT Report
CHECK_DEADLOCK FALSE
