SPECIFICATION JSpec
CONSTANT MaxN = 5
CONSTANT Rich = TRUE
INVARIANT Report
CHECK_DEADLOCK FALSE
