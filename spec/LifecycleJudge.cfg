SPECIFICATION JSpec
CONSTANT MaxN = 5
CONSTANT Small = FALSE
CONSTANT Rich = TRUE
INVARIANT Report
CHECK_DEADLOCK FALSE
