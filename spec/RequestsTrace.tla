---------------------------- MODULE RequestsTrace ----------------------------
(* Code -> spec for C14: every request the scripted API received during real engine runs is one trace line; each line is judged
   against the user-supplied value of every configured carrier that applies to the requested operation. *)
EXTENDS Naturals, Sequences, FiniteSets, TLC, Json, IOUtils
Runs == JsonDeserialize(IOEnv.OBS_FILE)   \* [hdr |-> [carriers, user, applies], lines |-> <<[op, ph, vals]>>]
NC == 7
VARIABLES t, l
Init == t \in 1..Len(Runs) /\ l = 1
Hdr == Runs[t].hdr
Lines == Runs[t].lines
Next == l <= Len(Lines) /\ l' = l + 1 /\ t' = t
Spec == Init /\ [][Next]_<<t, l>>
LineOK(x) == \A c \in 1..NC : (Hdr.carriers[c] /\ Hdr.applies[x.op][c]) => x.vals[c] = Hdr.user[c]
FirstBad(x) == CHOOSE c \in 1..NC : Hdr.carriers[c] /\ Hdr.applies[x.op][c] /\ x.vals[c] # Hdr.user[c]
Report == /\ IF l <= Len(Lines) /\ ~LineOK(Lines[l]) THEN PrintT(<<"REJECT", t, l, FirstBad(Lines[l]), Lines[l].ph, Lines[l].op>>) ELSE TRUE
          /\ IF l = Len(Lines) + 1 THEN PrintT(<<"END", t, Len(Lines)>>) ELSE TRUE
=============================================================================
