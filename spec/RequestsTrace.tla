---------------------------- MODULE RequestsTrace ----------------------------
(* Code -> spec for C14: every request the scripted API received during real engine runs is one trace line; each line is judged
   against the user-supplied value of every configured carrier that applies to the requested operation. *)
EXTENDS Naturals, Sequences, FiniteSets, TLC, Json, IOUtils
Runs == JsonDeserialize(IOEnv.OBS_FILE)   \* [hdr |-> [carriers, user, applies, issued], lines |-> <<[op, ph, vals]>>]
NC == 8
KeyCarrier == 8        \* the API's declared credential (apiKey header): the only thing an ignored_auth probe may lack
VARIABLES t, l
Init == t \in 1..Len(Runs) /\ l = 1
Hdr == Runs[t].hdr
Lines == Runs[t].lines
Next == l <= Len(Lines) /\ l' = l + 1 /\ t' = t
Spec == Init /\ [][Next]_<<t, l>>
Exempt(x, c) == x.probe /\ c = KeyCarrier                 \* sanctioned exception of the property: probes strip the credential
LineOK(x) == \A c \in 1..NC : (Hdr.carriers[c] /\ Hdr.applies[x.op][c] /\ ~Exempt(x, c)) => x.vals[c] = Hdr.user[c]
FirstBad(x) == CHOOSE c \in 1..NC : Hdr.carriers[c] /\ Hdr.applies[x.op][c] /\ ~Exempt(x, c) /\ x.vals[c] # Hdr.user[c]
(* at most one credential-less and one invalid-credential probe per probed request and declared security parameter (one here) *)
ProbesOf(p) == Cardinality({i \in 1..Len(Lines) : Lines[i].probe /\ Lines[i].parent = p})
ProbeBudgetOK == \A i \in 1..Len(Lines) : Lines[i].probe => ProbesOf(Lines[i].parent) <= 2
(* the provider's token is fetched at most once per cache key within the refresh interval (default 300 s; a run lasts seconds),
   whatever the number of workers: Hdr.issued[k] = number of provider.get calls for key k *)
FetchBudgetOK == \A k \in 1..Len(Hdr.issued) : Hdr.issued[k] <= 1
Report == /\ IF l <= Len(Lines) /\ ~LineOK(Lines[l]) THEN PrintT(<<"REJECT", t, l, FirstBad(Lines[l]), Lines[l].ph, Lines[l].op>>) ELSE TRUE
          /\ IF l = Len(Lines) + 1 /\ ~ProbeBudgetOK THEN PrintT(<<"REJECT", t, l, 0, 0, 0>>) ELSE TRUE
          /\ IF l = Len(Lines) + 1 /\ ~FetchBudgetOK THEN PrintT(<<"REJECT", t, l, 0, 1, 0>>) ELSE TRUE
          /\ IF l = Len(Lines) + 1 THEN PrintT(<<"END", t, Len(Lines)>>) ELSE TRUE
=============================================================================
