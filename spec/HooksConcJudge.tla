--------------------------- MODULE HooksConcJudge ---------------------------
(* Code -> spec: per forced schedule and thread, the operation of the generated case, whether the observed hook's effect is in *)
(* it, and the operations `context.operation` pointed to when the hook ran during that thread's draw.                           *)
EXTENDS HooksConc, IOUtils
Obs == JsonDeserialize(IOEnv.OBS_FILE)   \* [chain, threads : <<[op, applied, ctxs : sequence of operations]>>]
VARIABLE i
JInit == /\ i \in 1..Len(Obs) /\ pc = [t \in Threads |-> 0] /\ seen = [t \in Threads |-> << >>]
         /\ ctx = IF Shared THEN 0 ELSE [t \in Threads |-> 0]
         /\ desc = [hc |-> 1, kind |-> "map", chain |-> Obs[i].chain, ops |-> <<Obs[i].threads[1].op, Obs[i].threads[2].op>>]
JNext == UNCHANGED <<i, cvars>>
JSpec == JInit /\ [][JNext]_<<i, cvars>>
Report == \A t \in Threads :
   LET th == Obs[i].threads[t] IN
   /\ IF th.applied = Expected(t).applied THEN TRUE
      ELSE PrintT(<<"DISAGREE", i, t, IF th.applied = 1 THEN "spurious" ELSE "missing">>)
   /\ IF \A k \in 1..Len(th.ctxs) : th.ctxs[k] = th.op THEN TRUE ELSE PrintT(<<"DISAGREE", i, t, "foreign-context">>)
=============================================================================
