SPECIFICATION Spec
CONSTANT Design = "fill-then-publish"
CONSTANT Threads = {1, 2}
INVARIANT VerdictsRight
CHECK_DEADLOCK FALSE
