-------------------------------- MODULE Curl --------------------------------
(***************************************************************************)
(* C09 - the printed curl reproduction command re-sends the same request.  *)
(*                                                                         *)
(* Two environment models, written from POSIX (Shell Command Language      *)
(* 2.2 Quoting, 2.3 Token Recognition) and from curl's manual / observed   *)
(* behaviour of curl 7.88.1 - never from schemathesis' curl.py:            *)
(*   Tokens(cmd)  - sh tokenisation of a command line as a fold automaton  *)
(*                  over its code points (unquoted, '...', "...", \)       *)
(*   Interp(words) - curl's reading of the words (-X, -H, -d, --data-raw,  *)
(*                  --insecure/-k, URL) and the request curl then sends    *)
(* Property: Same(Interp(Tokens(cmd)), original request).                  *)
(*                                                                         *)
(* State: one family element `el` = (slot, string): an adversarial string  *)
(* placed in a header value, a query value, a path value or the body.      *)
(* TLC checks on every element that correct quoting round-trips through    *)
(* the shell model, that a faithful command exists under the curl model    *)
(* (RefCmd) and that the naive "-H 'Name: value' / -d data" form fails     *)
(* exactly for empty header values and bodies starting with '@'.           *)
(* CurlJudge.tla judges real commands and real curl executions.            *)
(***************************************************************************)
EXTENDS Integers, Sequences, FiniteSets, TLC, Json, SequencesExt

CONSTANTS MaxLen,     \* strings up to this length in every slot
          LongLen     \* strings up to this length in the header-value and body slots

cTAB == 9   cNL == 10  cCR == 13  cSP == 32  cDQ == 34  cHASH == 35  cDOLLAR == 36  cPCT == 37  cAMP == 38  cSQ == 39
cMINUS == 45  cDOT == 46  cSLASH == 47  cCOLON == 58  cSEMI == 59  cEQ == 61  cQM == 63  cAT == 64  cBS == 92  cBT == 96  cTILDE == 126
wCurl == <<99, 117, 114, 108>>                                         \* curl
wX == <<45, 88>>                                                       \* -X
wH == <<45, 72>>                                                       \* -H
wD == <<45, 100>>                                                      \* -d
wDataRaw == <<45, 45, 100, 97, 116, 97, 45, 114, 97, 119>>             \* --data-raw
wInsecure == <<45, 45, 105, 110, 115, 101, 99, 117, 114, 101>>         \* --insecure
wK == <<45, 107>>                                                      \* -k
sPOST == <<80, 79, 83, 84>>
sGET == <<71, 69, 84>>
hContentType == <<99, 111, 110, 116, 101, 110, 116, 45, 116, 121, 112, 101>>
hContentLength == <<99, 111, 110, 116, 101, 110, 116, 45, 108, 101, 110, 103, 116, 104>>
hHost == <<104, 111, 115, 116>>
hUserAgent == <<117, 115, 101, 114, 45, 97, 103, 101, 110, 116>>
hAccept == <<97, 99, 99, 101, 112, 116>>
hAcceptEncoding == <<97, 99, 99, 101, 112, 116, 45, 101, 110, 99, 111, 100, 105, 110, 103>>
hConnection == <<99, 111, 110, 110, 101, 99, 116, 105, 111, 110>>
hTransferEncoding == <<116, 114, 97, 110, 115, 102, 101, 114, 45, 101, 110, 99, 111, 100, 105, 110, 103>>
hTestCaseId == <<120, 45, 115, 99, 104, 101, 109, 97, 116, 104, 101, 115, 105, 115, 45, 116, 101, 115, 116, 99, 97, 115, 101, 105, 100>>
sCurlUA == <<99, 117, 114, 108, 47, 55, 46, 56, 56, 46, 49>>           \* curl/7.88.1
sAcceptAll == <<42, 47, 42>>                                           \* */*
sFormCT == <<97, 112, 112, 108, 105, 99, 97, 116, 105, 111, 110, 47, 120, 45, 119, 119, 119, 45, 102, 111, 114, 109, 45, 117, 114, 108,
             101, 110, 99, 111, 100, 101, 100>>                        \* application/x-www-form-urlencoded
hXH == <<120, 45, 104>>                                                \* x-h
sXH == <<88, 45, 72>>                                                  \* X-H
sCT == <<67, 111, 110, 116, 101, 110, 116, 45, 84, 121, 112, 101>>     \* Content-Type
sTextPlain == <<116, 101, 120, 116, 47, 112, 108, 97, 105, 110>>       \* text/plain
sSqEsc == <<39, 34, 39, 34, 39>>                                       \* '"'"'
sBase == <<104, 116, 116, 112, 58, 47, 47, 49, 50, 55, 46, 48, 46, 48, 46, 49, 58, 56, 48, 56, 48>>   \* http://127.0.0.1:8080
sAuth == <<49, 50, 55, 46, 48, 46, 48, 46, 49, 58, 56, 48, 56, 48>>                                    \* 127.0.0.1:8080

-----------------------------------------------------------------------------
(* generic folds *)
SplitFirst(seq, d) == FoldLeft(LAMBDA s, c : IF ~s.f /\ c = d THEN [s EXCEPT !.f = TRUE]
                                             ELSE IF s.f THEN [s EXCEPT !.b = Append(@, c)]
                                             ELSE [s EXCEPT !.a = Append(@, c)],
                               [a |-> <<>>, b |-> <<>>, f |-> FALSE], seq)
Split(seq, d) == LET r == FoldLeft(LAMBDA s, c : IF c = d THEN [parts |-> Append(s.parts, s.cur), cur |-> <<>>]
                                                  ELSE [s EXCEPT !.cur = Append(@, c)],
                                   [parts |-> <<>>, cur |-> <<>>], seq)
                 IN  Append(r.parts, r.cur)
IsSpace(c) == c \in {cSP, cTAB, cNL, cCR, 11, 12}
StripLeft(seq) == LET r == FoldLeft(LAMBDA s, c : IF ~s.on /\ IsSpace(c) THEN s ELSE [on |-> TRUE, out |-> Append(s.out, c)],
                                    [on |-> FALSE, out |-> <<>>], seq)
                  IN  r.out
Trim(seq) == Reverse(StripLeft(Reverse(StripLeft(seq))))
Lower(seq) == [i \in 1..Len(seq) |-> IF seq[i] \in 65..90 THEN seq[i] + 32 ELSE seq[i]]
Join(parts, sep) == FoldLeft(LAMBDA a, i : IF i = 1 THEN parts[i] ELSE a \o sep \o parts[i], <<>>, [i \in 1..Len(parts) |-> i])
Utf8Enc1(cp) == IF cp < 128 THEN <<cp>>
                ELSE IF cp < 2048 THEN <<192 + (cp \div 64), 128 + (cp % 64)>>
                ELSE IF cp < 65536 THEN <<224 + (cp \div 4096), 128 + ((cp \div 64) % 64), 128 + (cp % 64)>>
                ELSE <<240 + (cp \div 262144), 128 + ((cp \div 4096) % 64), 128 + ((cp \div 64) % 64), 128 + (cp % 64)>>
Utf8Encode(t) == FoldLeft(LAMBDA a, cp : a \o Utf8Enc1(cp), <<>>, t)
RECURSIVE Digits(_)
Digits(n) == IF n < 10 THEN <<48 + n>> ELSE Append(Digits(n \div 10), 48 + (n % 10))
Count(seq, x) == Cardinality({i \in 1..Len(seq) : seq[i] = x})
BagEq(a, b) == Len(a) = Len(b) /\ \A i \in 1..Len(a) : Count(a, a[i]) = Count(b, a[i])

-----------------------------------------------------------------------------
(* POSIX sh token recognition for one simple command.  m: U unquoted, S inside '...', D inside "...", UE / DE after a    *)
(* backslash.  inw: a word is in progress (so that '' yields an empty word).  op: an unquoted control operator, newline,  *)
(* '$', '`' or comment start was met - the line is not the simple command it looks like.  glob: an unquoted character     *)
(* whose expansion depends on the environment (pathname / tilde expansion).                                                *)
Sh0 == [m |-> "U", cur |-> <<>>, inw |-> FALSE, words |-> <<>>, op |-> FALSE, glob |-> FALSE]
Operators == {cNL, cSEMI, cAMP, 124, 60, 62, 40, 41, cDOLLAR, cBT}
Globs == {42, cQM, 91}
ShStep(s, c) ==
    CASE s.m = "U" ->
           IF c = cSQ THEN [s EXCEPT !.m = "S", !.inw = TRUE]
           ELSE IF c = cDQ THEN [s EXCEPT !.m = "D", !.inw = TRUE]
           ELSE IF c = cBS THEN [s EXCEPT !.m = "UE"]
           ELSE IF c \in {cSP, cTAB} THEN (IF s.inw THEN [s EXCEPT !.words = Append(@, s.cur), !.cur = <<>>, !.inw = FALSE] ELSE s)
           ELSE IF c \in Operators \/ (c = cHASH /\ ~s.inw) THEN [s EXCEPT !.op = TRUE]
           ELSE IF c \in Globs \/ (c = cTILDE /\ ~s.inw) THEN [s EXCEPT !.glob = TRUE, !.cur = Append(@, c), !.inw = TRUE]
           ELSE [s EXCEPT !.cur = Append(@, c), !.inw = TRUE]
      [] s.m = "UE" -> IF c = cNL THEN [s EXCEPT !.m = "U"]                      \* line continuation
                       ELSE [s EXCEPT !.m = "U", !.cur = Append(@, c), !.inw = TRUE]
      [] s.m = "S"  -> IF c = cSQ THEN [s EXCEPT !.m = "U"] ELSE [s EXCEPT !.cur = Append(@, c)]
      [] s.m = "D"  -> IF c = cDQ THEN [s EXCEPT !.m = "U"]
                       ELSE IF c = cBS THEN [s EXCEPT !.m = "DE"]
                       ELSE IF c \in {cDOLLAR, cBT} THEN [s EXCEPT !.op = TRUE]
                       ELSE [s EXCEPT !.cur = Append(@, c)]
      [] OTHER      -> IF c \in {cDOLLAR, cBT, cDQ, cBS} THEN [s EXCEPT !.m = "D", !.cur = Append(@, c)]
                       ELSE IF c = cNL THEN [s EXCEPT !.m = "D"]
                       ELSE [s EXCEPT !.m = "D", !.cur = @ \o <<cBS, c>>]
Tokens(cmd) == LET s == FoldLeft(ShStep, Sh0, cmd)
               IN  [ok |-> s.m = "U", words |-> IF s.inw THEN Append(s.words, s.cur) ELSE s.words, op |-> s.op, glob |-> s.glob]
(* POSIX 2.2.2: the only way to write any string as one word: '...' with every ' written as '"'"' *)
ShQuote(t) == <<cSQ>> \o FoldLeft(LAMBDA a, c : IF c = cSQ THEN a \o sSqEsc ELSE Append(a, c), <<>>, t) \o <<cSQ>>

-----------------------------------------------------------------------------
(* curl: option parsing as an automaton over the words after "curl" (exp = option whose argument is expected) *)
I0 == [exp |-> "", method |-> <<>>, hasX |-> FALSE, hdrs |-> <<>>, datas |-> <<>>, urls |-> <<>>, insecure |-> FALSE, unknown |-> FALSE]
IStep(s, w) ==
    CASE s.exp = "X" -> [s EXCEPT !.method = w, !.hasX = TRUE, !.exp = ""]
      [] s.exp = "H" -> [s EXCEPT !.hdrs = Append(@, w), !.exp = ""]
      [] s.exp = "d" -> [s EXCEPT !.datas = Append(@, [raw |-> FALSE, w |-> w]), !.exp = ""]
      [] s.exp = "r" -> [s EXCEPT !.datas = Append(@, [raw |-> TRUE, w |-> w]), !.exp = ""]
      [] w = wX -> [s EXCEPT !.exp = "X"]
      [] w = wH -> [s EXCEPT !.exp = "H"]
      [] w = wD -> [s EXCEPT !.exp = "d"]
      [] w = wDataRaw -> [s EXCEPT !.exp = "r"]
      [] w = wInsecure \/ w = wK -> [s EXCEPT !.insecure = TRUE]
      [] Len(w) > 1 /\ Head(w) = cMINUS -> [s EXCEPT !.unknown = TRUE]
      [] OTHER -> [s EXCEPT !.urls = Append(@, w)]
(* -H: "Name: value" is sent unless the value is empty after skipping blanks (then the header is not sent and an internal   *)
(* header of that name is suppressed); "Name;" sends the header with an empty value; a line without ':' and without a       *)
(* trailing ';' is ignored.                                                                                                 *)
HLine(h) == LET c == SplitFirst(h, cCOLON) IN
            IF c.f THEN LET v == StripLeft(c.b) IN [name |-> Lower(c.a), value |-> v, send |-> v # <<>>, named |-> TRUE]
            ELSE LET sc == SplitFirst(h, cSEMI) IN
                 IF sc.f /\ StripLeft(sc.b) = <<>> THEN [name |-> Lower(sc.a), value |-> <<>>, send |-> TRUE, named |-> TRUE]
                 ELSE [name |-> <<>>, value |-> <<>>, send |-> FALSE, named |-> FALSE]
(* -d: a leading '@' names a file to read (in an empty working directory: nothing to read, an empty piece); several -d     *)
(* are joined by '&'; --data-raw never reads files                                                                          *)
DataBytes(d) == IF ~d.raw /\ d.w # <<>> /\ Head(d.w) = cAT THEN <<>> ELSE Utf8Encode(d.w)
ReadsFile(d) == ~d.raw /\ d.w # <<>> /\ Head(d.w) = cAT
(* URL word -> authority and request-target; curl drops the fragment and removes dot segments *)
UrlParts(u) ==
    LET sc == SplitFirst(u, cCOLON)
        rest0 == IF sc.f /\ Len(sc.b) >= 2 /\ sc.b[1] = cSLASH /\ sc.b[2] = cSLASH THEN SubSeq(sc.b, 3, Len(sc.b)) ELSE u
        r == FoldLeft(LAMBDA s, c : IF ~s.in /\ c \in {cSLASH, cQM, cHASH} THEN [s EXCEPT !.in = TRUE, !.rest = <<c>>]
                                    ELSE IF s.in THEN [s EXCEPT !.rest = Append(@, c)] ELSE [s EXCEPT !.auth = Append(@, c)],
                      [auth |-> <<>>, rest |-> <<>>, in |-> FALSE], rest0)
        nofrag == SplitFirst(r.rest, cHASH).a
        target == IF nofrag = <<>> \/ Head(nofrag) # cSLASH THEN <<cSLASH>> \o nofrag ELSE nofrag
        segs == Split(SplitFirst(target, cQM).a, cSLASH)
    IN  [auth |-> r.auth, target |-> target,
         dots |-> \E i \in 1..Len(segs) : segs[i] \in {<<cDOT>>, <<cDOT, cDOT>>},
         globby |-> \E i \in 1..Len(u) : u[i] \in {91, 93, 123, 125}]      \* curl's URL globbing: outside the model
(* the request curl sends for the parsed words *)
Interp(words) ==
    LET s == FoldLeft(IStep, I0, IF words # <<>> THEN Tail(words) ELSE <<>>)
        lines == [i \in 1..Len(s.hdrs) |-> HLine(s.hdrs[i])]
        sent == SelectSeq(lines, LAMBDA l : l.send)
        mentioned == {lines[i].name : i \in {j \in 1..Len(lines) : lines[j].named}}
        hasBody == s.datas # <<>>
        body == Join([i \in 1..Len(s.datas) |-> DataBytes(s.datas[i])], <<cAMP>>)
        up == IF Len(s.urls) = 1 THEN UrlParts(s.urls[1]) ELSE [auth |-> <<>>, target |-> <<>>, dots |-> FALSE, globby |-> FALSE]
        custom == [i \in 1..Len(sent) |-> [n |-> sent[i].name, v |-> Trim(sent[i].value)]]
    IN  [ok |-> words # <<>> /\ words[1] = wCurl /\ s.exp = "" /\ Len(s.urls) = 1,
         unknown |-> s.unknown \/ up.dots \/ up.globby,
         method |-> IF s.hasX THEN s.method ELSE IF hasBody THEN sPOST ELSE sGET,
         target |-> up.target, auth |-> up.auth, body |-> body, hasBody |-> hasBody,
         readsFile |-> \E i \in 1..Len(s.datas) : ReadsFile(s.datas[i]),
         custom |-> custom, mentioned |-> mentioned, insecure |-> s.insecure,
         \* every header the server receives
         wire |-> <<[n |-> hHost, v |-> up.auth]>>
                  \o (IF hUserAgent \in mentioned THEN <<>> ELSE <<[n |-> hUserAgent, v |-> sCurlUA]>>)
                  \o (IF hAccept \in mentioned THEN <<>> ELSE <<[n |-> hAccept, v |-> sAcceptAll]>>)
                  \o SelectSeq(custom, LAMBDA h : h.n # hHost)
                  \o (IF hasBody THEN <<[n |-> hContentLength, v |-> Digits(Len(body))]>> ELSE <<>>)
                  \o (IF hasBody /\ hContentType \notin mentioned THEN <<[n |-> hContentType, v |-> sFormCT]>> ELSE <<>>)]

-----------------------------------------------------------------------------
(* "the same request": method, request-target, body and the headers other than those the HTTP clients add on their own.   *)
(* A request is [method, target, headers (sequence of [n, v], any case / blanks), body].                                  *)
Auto == {hHost, hUserAgent, hAccept, hAcceptEncoding, hConnection, hContentLength, hTransferEncoding, hTestCaseId}
Norm(headers) == [i \in 1..Len(headers) |-> [n |-> Lower(headers[i].n), v |-> Trim(headers[i].v)]]
Own(headers) == SelectSeq(Norm(headers), LAMBDA h : h.n \notin Auto)
HasCT(headers) == \E i \in 1..Len(headers) : Lower(headers[i].n) = hContentType
(* curl's default Content-Type is a header curl adds on its own: ignored when the original request has none.  With output  *)
(* sanitisation on (`redact`), a header printed with the value [Filtered] stands for any value of that header.              *)
sFiltered == <<91, 70, 105, 108, 116, 101, 114, 101, 100, 93>>          \* [Filtered]
SameHeaders(a, b, redact) ==
    LET oa == Own(a)
        ob == Own(b)
        red == IF redact THEN {oa[i].n : i \in {j \in 1..Len(oa) : oa[j].v = sFiltered}} ELSE {}
        keep(hs) == SelectSeq(hs, LAMBDA h : h.n \notin red)
        namesOf(hs) == LET r == SelectSeq(hs, LAMBDA h : h.n \in red) IN [i \in 1..Len(r) |-> r[i].n]
        dropCT(hs) == SelectSeq(hs, LAMBDA h : h.n # hContentType)
    IN  /\ BagEq(namesOf(oa), namesOf(ob))
        /\ IF HasCT(a) = HasCT(b) THEN BagEq(keep(oa), keep(ob)) ELSE BagEq(dropCT(keep(oa)), dropCT(keep(ob))) /\ ~HasCT(b)
(* RFC 3986 2.1 percent-decoding (a '%' not followed by two hex digits stays literal) - used only where the original request was   *)
(* delivered by another client than requests / curl (an in-process WSGI application: werkzeug leaves ':' '@' '$' ';' unencoded in a      *)
(* query where requests writes %3A ...): there the request-targets are compared as decoded octets                                      *)
IsHex(c) == c \in 48..57 \/ c \in 65..70 \/ c \in 97..102
HexVal(c) == IF c <= 57 THEN c - 48 ELSE IF c <= 70 THEN c - 55 ELSE c - 87
PctDecode(raw) ==
    LET st == FoldLeft(LAMBDA s, c :
                  CASE s.k = 0 -> IF c = cPCT THEN [s EXCEPT !.k = 1] ELSE [s EXCEPT !.out = Append(@, c)]
                    [] s.k = 1 -> IF IsHex(c) THEN [s EXCEPT !.k = 2, !.h = c] ELSE [s EXCEPT !.k = IF c = cPCT THEN 1 ELSE 0, !.out = IF c = cPCT THEN Append(@, cPCT) ELSE @ \o <<cPCT, c>>]
                    [] OTHER   -> IF IsHex(c) THEN [s EXCEPT !.k = 0, !.out = Append(@, 16 * HexVal(s.h) + HexVal(c))]
                                  ELSE [s EXCEPT !.k = IF c = cPCT THEN 1 ELSE 0, !.out = IF c = cPCT THEN @ \o <<cPCT, s.h>> ELSE @ \o <<cPCT, s.h, c>>],
                  [out |-> <<>>, k |-> 0, h |-> 0], raw)
    IN  IF st.k = 0 THEN st.out ELSE IF st.k = 1 THEN Append(st.out, cPCT) ELSE st.out \o <<cPCT, st.h>>
SameTarget(a, b, lax) == IF lax THEN SplitFirst(a, cQM).a = SplitFirst(b, cQM).a /\ PctDecode(a) = PctDecode(b) ELSE a = b
Diff(a, b, mode) == <<a.method = b.method, SameTarget(a.target, b.target, mode = "lax"), a.body = b.body, SameHeaders(a.headers, b.headers, mode = "redact")>>
SameReq(a, b) == Diff(a, b, "exact") = <<TRUE, TRUE, TRUE, TRUE>>
(* verdict for a command line against the original request *)
AsRequest(rq) == [method |-> rq.method, target |-> rq.target, headers |-> rq.wire, body |-> rq.body]
CmdVerdict(cmd, orig, mode) ==
    LET tk == Tokens(cmd)
        rq == Interp(tk.words)
    IN  IF ~tk.ok THEN [v |-> "F", why |-> "shell-unterminated-quote"]
        ELSE IF tk.op THEN [v |-> "F", why |-> "shell-operator-unquoted"]
        ELSE IF tk.glob THEN [v |-> "U", why |-> "shell-expansion-unquoted"]
        ELSE IF ~rq.ok THEN [v |-> "F", why |-> "curl-usage"]
        ELSE IF rq.unknown THEN [v |-> "U", why |-> "curl-outside-model"]
        ELSE LET d == Diff(AsRequest(rq), orig, mode)
             IN  IF d = <<TRUE, TRUE, TRUE, TRUE>> THEN [v |-> "T", why |-> ""]
                 ELSE [v |-> "F", why |-> IF ~d[1] THEN "method" ELSE IF ~d[2] THEN "url"
                                           ELSE IF ~d[3] THEN (IF rq.readsFile THEN "body-read-from-file" ELSE "body")
                                           ELSE "headers"]

-----------------------------------------------------------------------------
(* family: adversarial strings in the four slots *)
Alphabet == {97, cSQ, cDQ, cBS, cDOLLAR, cBT, cSP, cNL, cAT, cSEMI, cCOLON, cAMP, cPCT}
Strs(n) == UNION {[1..k -> Alphabet] : k \in 0..n}
(* histories that put cookies on the wire which are not the case's own: the string is the case's own cookie value, and the request   *)
(* also carries a cookie an earlier response set on the shared session / a call-level cookies= / a configured Cookie header.  The      *)
(* command (direct, or from the Python API's failure message) must reproduce the Cookie header of the request that was sent.            *)
CookieHistorySlots == {"cookie-session", "cookie-call", "cookie-header", "api-cookie-session"}
(* the same strings reaching the command through other front doors: the "Reproduce with" text of the Python API's failure message     *)
(* (Case.validate_response), a base URL with a base path and a trailing slash, a GraphQL case, a case of an in-process WSGI app        *)
FrontSlots == {"api-header", "api-body", "base-slash", "graphql", "wsgi"} \cup CookieHistorySlots
BaseSlots == {"header", "query", "path", "body"}                \* adversarial string in one place
Slots == BaseSlots \cup {"cookie", "json", "form", "auth", "multipart"} \cup FrontSlots      \* cookie value, JSON string body, urlencoded form field, Authorization value, text field of a multipart/form-data body
(* payloads that are empty or minimal for their media type, for every method that carries a body: the Content-Type header   *)
(* of the original request must be reproduced although there may be nothing to pass to -d                                    *)
EmptySlots == {"form-empty", "form-min", "text-empty", "json-object", "json-array", "json-null"}   \* {} / {k: a} as form, "" as text, {} [] null as JSON
BodyMethods == {"POST", "PUT", "PATCH"}
(* the command the ENGINE attaches to a failure (code sample built from the recorder), for a failure on the case's own request   *)
(* and for failures on requests a check derived from it (ignored_auth probes: credential header removed / overridden); the      *)
(* string is the value of a configured non-credential header that every one of these requests carries                            *)
(* ... and scenarios with a HISTORY of failures inside one test case: two checks fail and they concern different requests (first a  *)
(* check fails on the case's own request, then ignored_auth fails on the probe it derived - "engine-after-removed" /             *)
(* "engine-after-overridden" - or the other way round - "engine-removed-then-own").  Every recorded failure carries its own      *)
(* command: the one judged is the command of the LATER failure against the request recorded for ITS case id.                     *)
EngineHistorySlots == {"engine-after-removed", "engine-after-overridden", "engine-removed-then-own"}
EngineSlots == {"engine-own", "engine-removed", "engine-overridden", "engine-cookie"} \cup EngineHistorySlots   \* engine-cookie: configured Cookie header + generated cookie parameter
(* history on ONE case object (render, change in place, render): the case is first sent and printed with Prior(e) in the slot,   *)
(* then the slot is changed in place to the string, the case is sent again and printed again with the headers of the request     *)
(* that was sent now (for query / path these are equal to the first request's; the body keeps its length so that Content-Length  *)
(* stays equal too).  The command printed last must re-send the request sent last: the property speaks about the request, not     *)
(* about the object it was made from.                                                                                             *)
HistorySlots == {"again-query", "again-path", "again-cookie", "again-body"}
HistoryBase(sl) == CASE sl = "again-query" -> "query" [] sl = "again-path" -> "path" [] sl = "again-cookie" -> "cookie" [] sl = "again-body" -> "body" [] OTHER -> sl
Fill(n) == [i \in 1..n |-> 98]                                   \* "b" * n: never a string of the family unless n = 0
Prior(e) == IF e.slot \notin HistorySlots THEN <<>> ELSE IF e.slot = "again-body" THEN Fill(Len(e.s)) ELSE Fill(Len(e.s) + 1)
Elements(n, lm) == {[slot |-> sl, s |-> s, m |-> "-"] : sl \in Slots, s \in Strs(n)}
                     \cup {[slot |-> sl, s |-> s, m |-> "-"] : sl \in {"header", "body"}, s \in [1..lm -> Alphabet]}
                     \cup {[slot |-> sl, s |-> <<>>, m |-> mm] : sl \in EmptySlots, mm \in BodyMethods}
                     \cup {[slot |-> sl, s |-> s, m |-> "-"] : sl \in EngineSlots \cup HistorySlots, s \in Strs(1)}
(* field values: no CR / LF, no leading or trailing blanks (RFC 7230 3.2); path values are non-empty *)
InFragment(e) == CASE e.slot \in {"header", "cookie", "auth", "api-header", "again-cookie"} \cup EngineSlots \cup CookieHistorySlots -> /\ \A i \in 1..Len(e.s) : e.s[i] # cNL
                                                               /\ (e.s = <<>> \/ (~IsSpace(e.s[1]) /\ ~IsSpace(e.s[Len(e.s)])))
                   [] e.slot \in {"path", "base-slash", "again-path"} -> e.s # <<>>
                   [] OTHER -> TRUE
(* the abstract request of an element (what the driver builds for real); URL data is percent-encoded except the           *)
(* sub-delimiters requests leaves alone, which is what puts quotes, '$', ';' and '&' into the URL word                      *)
HexDigit(n) == IF n < 10 THEN 48 + n ELSE 55 + n
UrlSafe(b) == b \in 48..57 \/ b \in 65..90 \/ b \in 97..122 \/ b \in {45, 46, 95, 126, 33, cDOLLAR, cSQ, 40, 41, 42, 44, cSEMI, cCOLON, cAT}
UrlEnc(t) == FoldLeft(LAMBDA a, b : IF UrlSafe(b) THEN Append(a, b) ELSE a \o <<cPCT, HexDigit(b \div 16), HexDigit(b % 16)>>, <<>>, Utf8Encode(t))
sJsonCT == <<97, 112, 112, 108, 105, 99, 97, 116, 105, 111, 110, 47, 106, 115, 111, 110>>          \* application/json
MethodText(e) == CASE e.m = "PUT" -> <<80, 85, 84>> [] e.m = "PATCH" -> <<80, 65, 84, 67, 72>> [] OTHER -> sPOST
(* payload text and media type of the elements that carry a body *)
BodyOf(e) == CASE e.slot = "body" -> e.s
               [] e.slot = "form-min" -> <<107, cEQ, 97>>
               [] e.slot = "json-object" -> <<123, 125>> [] e.slot = "json-array" -> <<91, 93>> [] e.slot = "json-null" -> <<110, 117, 108, 108>>
               [] OTHER -> <<>>
MediaOf(e) == CASE e.slot \in {"body", "text-empty"} -> sTextPlain [] e.slot \in {"form-empty", "form-min"} -> sFormCT [] OTHER -> sJsonCT
HasPayload(e) == e.slot = "body" \/ e.slot \in EmptySlots
ReqOf(e) == [method |-> MethodText(e),
             target |-> CASE e.slot = "path" -> <<cSLASH, 120, cSLASH>> \o UrlEnc(e.s)
                          [] e.slot = "query" -> <<cSLASH, 120, cSLASH, 97, cQM, 113, cEQ>> \o UrlEnc(e.s)
                          [] OTHER -> <<cSLASH, 120, cSLASH, 97>>,
             \* a request with a payload carries its media type even when the payload is empty
             headers |-> (IF e.slot = "header" THEN <<[n |-> hXH, v |-> e.s]>> ELSE <<>>)
                           \o (IF HasPayload(e) THEN <<[n |-> hContentType, v |-> MediaOf(e)]>> ELSE <<>>),
             body |-> Utf8Encode(BodyOf(e))]
Opt(flag, arg) == <<cSP>> \o flag \o <<cSP>> \o ShQuote(arg)
(* a faithful command under the model: 'Name;' for empty values, --data-raw for the payload *)
RefCmd(e) == LET r == ReqOf(e) IN
    wCurl \o <<cSP>> \o wX \o <<cSP>> \o r.method
      \o FoldLeft(LAMBDA a, h : a \o Opt(wH, IF h.v = <<>> THEN h.n \o <<cSEMI>> ELSE h.n \o <<cCOLON, cSP>> \o h.v), <<>>, r.headers)
      \o (IF r.body # <<>> THEN <<cSP>> \o wDataRaw \o <<cSP>> \o ShQuote(BodyOf(e)) ELSE <<>>)
      \o <<cSP>> \o ShQuote(sBase \o r.target)
(* the naive form: -H 'Name: value' and -d data *)
NaiveCmd(e) == LET r == ReqOf(e) IN
    wCurl \o <<cSP>> \o wX \o <<cSP>> \o r.method
      \o FoldLeft(LAMBDA a, h : a \o Opt(wH, h.n \o <<cCOLON, cSP>> \o h.v), <<>>, r.headers)
      \o (IF r.body # <<>> THEN Opt(wD, BodyOf(e)) ELSE <<>>)
      \o <<cSP>> \o ShQuote(sBase \o r.target)

VARIABLE el
Init == el \in Elements(MaxLen, LongLen)
Next == UNCHANGED el
Spec == Init /\ [][Next]_el

(* design invariants *)
TypeOK == el.slot \in Slots \cup EmptySlots \cup EngineSlots \cup HistorySlots
ModelledSlots == BaseSlots \cup EmptySlots
(* the history dimension discriminates: for the modelled slots the faithful command of the FIRST rendering (the case with Prior in   *)
(* the slot) is refuted by the oracle for the request sent after the change, and the faithful command of the changed case is accepted *)
Now(e) == [e EXCEPT !.slot = HistoryBase(e.slot)]
Before(e) == [e EXCEPT !.slot = HistoryBase(e.slot), !.s = Prior(e)]
StaleRefuted == (el.slot \in HistorySlots /\ HistoryBase(el.slot) \in ModelledSlots /\ InFragment(el)) =>
                   /\ CmdVerdict(RefCmd(Now(el)), ReqOf(Now(el)), "exact").v = "T"
                   /\ (Prior(el) # el.s) => CmdVerdict(RefCmd(Before(el)), ReqOf(Now(el)), "exact").v = "F"
                   /\ ReqOf(Before(el)).headers = ReqOf(Now(el)).headers /\ Len(ReqOf(Before(el)).body) = Len(ReqOf(Now(el)).body)
(* "curl -d sends the form Content-Type by itself": leaving that header out of the command is faithful exactly when there is   *)
(* data to pass to -d - with an empty payload nothing re-creates it                                                          *)
CmdWithoutCT(e) == LET r == ReqOf(e) IN
    wCurl \o <<cSP>> \o wX \o <<cSP>> \o r.method \o (IF r.body # <<>> THEN Opt(wD, BodyOf(e)) ELSE <<>>) \o <<cSP>> \o ShQuote(sBase \o r.target)
DefaultCTOnlyWithData == (el.slot \in EmptySlots \/ (el.slot = "body" /\ (el.s = <<>> \/ Head(el.s) # cAT))) =>
                            ((CmdVerdict(CmdWithoutCT(el), ReqOf(el), "exact").v = "T") <=> (MediaOf(el) = sFormCT /\ BodyOf(el) # <<>>))
QuoteRoundTrip == LET t == Tokens(<<97, cSP>> \o ShQuote(el.s)) IN t.ok /\ ~t.op /\ ~t.glob /\ t.words = <<<<97>>, el.s>>
RefFaithful == (el.slot \in ModelledSlots /\ InFragment(el)) => CmdVerdict(RefCmd(el), ReqOf(el), "exact").v = "T"
NaivePitfalls == (el.slot \in ModelledSlots /\ InFragment(el)) =>
                    ((CmdVerdict(NaiveCmd(el), ReqOf(el), "exact").v = "T")
                       <=> ~((el.slot = "header" /\ el.s = <<>>) \/ (el.slot = "body" /\ el.s # <<>> /\ Head(el.s) = cAT)))
Export == PrintT(<<"CASE", ToJson([slot |-> el.slot, s |-> el.s, m |-> el.m, fragment |-> InFragment(el), prior |-> Prior(el),
                                   ref |-> IF el.slot \in ModelledSlots THEN RefCmd(el) ELSE <<>>])>>)
=============================================================================
