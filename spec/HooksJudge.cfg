SPECIFICATION JSpec
CONSTANT MaxReg = 3
CONSTANT MaxUnreg = 1
CONSTANT MaxLen = 6
CONSTANT MaxGen = 0
CONSTANT Negative = FALSE
CONSTANT Narrow = FALSE
CONSTANT Rich = TRUE
INVARIANT Report
CHECK_DEADLOCK FALSE
