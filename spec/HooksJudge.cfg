SPECIFICATION JSpec
CONSTANT MaxReg = 3
CONSTANT MaxUnreg = 1
CONSTANT MaxLen = 4
CONSTANT Rich = TRUE
INVARIANT Report
CHECK_DEADLOCK FALSE
