SPECIFICATION Spec
CONSTANT Thorough = TRUE
INVARIANT Sanity
INVARIANT Export
CHECK_DEADLOCK FALSE
