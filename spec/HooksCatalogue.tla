--------------------------- MODULE HooksCatalogue ---------------------------
(* C19 - the operation universe and the catalogue of apply_to / skip_for chains shared by Hooks and HooksAuth. *)
EXTENDS FiltersMatch
CONSTANT Rich         \* TRUE: thorough catalogue

(* operation universe: two API schemas loaded in the same process.  Schema B defines operations with the SAME labels        *)
(* (METHOD /path) as schema A but with different tags / operationIds, so that a filter that looks at those attributes must     *)
(* tell them apart.  Schema- and test-scope extensions belong to schema A; only global ones concern schema B.                  *)
Op(s, m, p, tags, id) == [schema |-> s, method |-> m, path |-> p, tags |-> tags, opid |-> id, depr |-> "absent"]
PA == <<"/", "a">>
PB == <<"/", "b">>
Ops == << Op("A", <<"g","e","t">>, PA, << <<"x">> >>, <<"g","a">>),
          Op("A", <<"p","o","s","t">>, PA, << <<"x">>, <<"y">> >>, <<"p","a">>),
          Op("A", <<"g","e","t">>, PB, << >>, <<"g","b">>),
          Op("A", <<"d","e","l","e","t","e">>, PB, << <<"y">> >>, << >>),
          Op("B", <<"g","e","t">>, PA, << <<"y">> >>, <<"g","b">>),
          Op("B", <<"d","e","l","e","t","e">>, PB, << <<"x">> >>, <<"p","a">>) >>
NOps == Len(Ops)

(* filter terms; one apply_to / skip_for call = one filter = conjunction of its keyword conditions *)
V(by, v)      == [by |-> by, how |-> "value", v |-> v, vs |-> << >>]
L(by, vs)     == [by |-> by, how |-> "list", v |-> << >>, vs |-> vs]
R(by, how, v) == [by |-> by, how |-> how, v |-> v, vs |-> << >>]
Call(m, atoms) == [m |-> m, a |-> atoms]
ChainDef ==
  [c \in {"C1", "C2", "C3", "C4"} |->
     CASE c = "C1" -> << Call("apply_to", {V("method", <<"G","E","T">>)}), Call("apply_to", {V("operation_id", <<"p","a">>)}) >>
       [] c = "C2" -> << Call("skip_for", {[by |-> "tag", how |-> "func", v |-> <<"y">>, vs |-> << >>]}) >>   \* custom function: has tag y
       [] c = "C3" -> << Call("apply_to", {R("path", "prefix", PB)}),
                         Call("skip_for", {L("method", << <<"g","e","t">>, <<"P","U","T">> >>)}),
                         Call("skip_for", {V("tag", <<"x">>)}) >>
       [] OTHER    -> << Call("skip_for", {V("name", <<"P","O","S","T"," ","/","a">>)}),
                         Call("apply_to", {L("method", << <<"p","o","s","t">>, <<"D","E","L","E","T","E">> >>), R("path", "prefix", PA)}),
                         Call("apply_to", {V("tag", <<"y">>), R("operation_id", "exact", <<"g","b">>)}),
                         Call("apply_to", {V("operation_id", <<"g","b">>)}) >> ]
ChainIds == IF Rich THEN {"C1", "C2", "C3", "C4"} ELSE {"C1", "C2", "C3"}
FilterSetOf(c) ==
  IF c = "-" THEN EmptyFilterSet
  ELSE [incl |-> {ChainDef[c][i].a : i \in {j \in 1..Len(ChainDef[c]) : ChainDef[c][j].m = "apply_to"}},
        excl |-> {ChainDef[c][i].a : i \in {j \in 1..Len(ChainDef[c]) : ChainDef[c][j].m = "skip_for"}}]
=============================================================================
