SPECIFICATION JSpec
CONSTANT MaxGiven = 8
CONSTANT Combo = "all"
INVARIANT TypeOK
INVARIANT Report
CHECK_DEADLOCK FALSE
