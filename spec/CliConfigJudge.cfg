SPECIFICATION JSpec
CONSTANT MaxGiven = 8
CONSTANT AllInvalid = TRUE
INVARIANT TypeOK
INVARIANT Report
CHECK_DEADLOCK FALSE
