------------------------------ MODULE GenData ------------------------------
(***************************************************************************)
(* C01 / C02 / C03 - generated test data and its labels.                   *)
(*                                                                         *)
(* Machine B of DESIGN section 1: an input descriptor is chosen (initial   *)
(* state), then the generator acts on it.  The abstract state is           *)
(*   desc    - the descriptor: a schema (C03 value level) or an operation  *)
(*             (parameters per location, body alternatives, dialect)       *)
(*   outcome - what the generator did with it                              *)
(* Actions (one per thing the real generator can do with a descriptor):    *)
(*   CoverValue / CoverCase     deterministic boundary values / cases      *)
(*   DrawPositive / DrawNegative   a random case in that mode              *)
(*   Skip / Unsat               reported as "nothing to negate" / "cannot  *)
(*                              generate"                                  *)
(* The drawn values themselves are not enumerable; they are OBSERVED from  *)
(* the implementation and judged by GenDataJudge.tla with the operators    *)
(* below (written from properties.jsonl C01-C03 and DESIGN F.4/App. D,     *)
(* never from coverage.py / _hypothesis.py / negative/).  What TLC does    *)
(* enumerate exhaustively is the descriptor family of Appendix G; every    *)
(* initial state is exported once (Export) and replayed by the drivers.    *)
(***************************************************************************)
EXTENDS OasSchema, Json

CONSTANTS Family,      \* which descriptor family: "c03s" (schemas), "c03o" (operations, coverage), "c01", "c02"
          Rich         \* FALSE: quick pools, TRUE: thorough pools

Absent == -99
E == [zz \in {} |-> 0]
Opt(n, v) == IF v = Absent THEN E ELSE n :> v
OptB(n, b) == IF b THEN n :> TRUE ELSE E
S0 == [sk |-> "schema"]
Ty(t) == [sk |-> "schema", type |-> <<t>>]
I(n) == [t |-> "int", v |-> n]
Sv(txt) == [t |-> "str", v |-> txt]
Nul == [t |-> "null"]
Bv(b) == [t |-> "bool", v |-> b]

(* ------------------------------------------------------------------------- *)
(* Leaf schema groups (Appendix G).  Records are generic schema records of   *)
(* OasSchema; harness/encode.py:decode_schema spells them in each dialect.   *)
(* ------------------------------------------------------------------------- *)
MinSet == IF Rich THEN {Absent, -1, 0, 1, 3} ELSE {Absent, 0, 1, 3}
MaxSet == IF Rich THEN {Absent, 0, 3, 4} ELSE {Absent, 0, 3}
MulSet == IF Rich THEN {Absent, 2, 3} ELSE {Absent, 2}
NumIdx == {q \in {"integer", "number"} \X MinSet \X BOOLEAN \X MaxSet \X BOOLEAN \X MulSet :
             (q[3] => q[2] # Absent) /\ (q[5] => q[4] # Absent)}
NumLeaf(q) == Ty(q[1]) @@ Opt("minimum", q[2]) @@ OptB("exclMin", q[3]) @@ Opt("maximum", q[4]) @@ OptB("exclMax", q[5])
                 @@ Opt("multipleOf", q[6])

(* the draft-4 default written out: exclusiveMinimum / exclusiveMaximum: false next to the bound *)
ExclFalseIdx == {q \in {"integer", "number"} \X (MinSet \ {Absent}) \X (MaxSet \cup {Absent}) : TRUE}
ExclFalseLeaf(q) == Ty(q[1]) @@ [minimum |-> q[2], exclMin |-> FALSE] @@ (IF q[3] = Absent THEN E ELSE [maximum |-> q[3], exclMax |-> FALSE])
Cls(lo, hi) == <<<<lo, hi>>>>
At(cls, mn, mx) == [cls |-> cls, neg |-> FALSE, min |-> mn, max |-> mx]
NAt(cls, mn, mx) == [cls |-> cls, neg |-> TRUE, min |-> mn, max |-> mx]
Pat(as, ae, atoms) == [k |-> "cat", as |-> as, ae |-> ae, atoms |-> atoms]
az == Cls(97, 122)
dg == Cls(48, 57)
Lit(c) == At(Cls(c, c), 1, 1)
Patterns == <<
  Pat(TRUE,  TRUE,  <<At(az, 1, -1)>>),                                   \*  1  ^[a-z]+$
  Pat(FALSE, FALSE, <<At(az, 1, -1)>>),                                   \*  2  [a-z]+
  Pat(TRUE,  FALSE, <<At(dg, 2, 3)>>),                                    \*  3  ^[0-9]{2,3}
  Pat(FALSE, TRUE,  <<At(dg, 2, 2)>>),                                    \*  4  [0-9]{2}$
  Pat(TRUE,  TRUE,  <<At(Cls(97, 99), 2, 2)>>),                           \*  5  ^[a-c]{2}$
  Pat(TRUE,  FALSE, <<Lit(97)>>),                                         \*  6  ^a
  Pat(FALSE, TRUE,  <<Lit(97), At(Cls(98, 98), 0, 1), At(Cls(99, 99), 0, -1)>>),   \*  7  ab?c*$
  Pat(TRUE,  TRUE,  <<NAt(dg, 1, -1)>>),                                  \*  8  ^[^0-9]+$
  Pat(FALSE, FALSE, <<At(Cls(98, 98), 2, -1)>>),                          \*  9  b{2,}
  Pat(TRUE,  TRUE,  <<At(Cls(97, 97), 0, 1), At(Cls(98, 98), 1, -1), At(Cls(99, 99), 1, 2)>>),  \* 10  ^a?b+c{1,2}$
  Pat(TRUE,  TRUE,  <<At(Cls(65, 90), 1, 1), At(az, 1, 3)>>),             \* 11  ^[A-Z][a-z]{1,3}$
  Pat(FALSE, FALSE, <<At(dg, 1, -1)>>),                                   \* 12  [0-9]+
  Pat(TRUE,  TRUE,  <<Lit(97), Lit(98), At(dg, 1, -1)>>),                 \* 13  ^ab[0-9]+$       literals + one repetition
  Pat(TRUE,  TRUE,  <<At(Cls(97, 97), 1, 2), At(Cls(98, 98), 0, 2)>>),    \* 14  ^a{1,2}b{0,2}$   several bounded repetitions
  Pat(TRUE,  TRUE,  <<Lit(97), Lit(98), At(dg, 0, -1)>>) >>               \* 15  ^ab[0-9]*$       literals use up the whole maxLength
(* patterns outside the oracle's catalogue (word boundaries, \A..\Z): the match itself is "U", the length keywords next to them are still judged *)
OPat(src) == [k |-> "opaque", src |-> src]
PatWordBoth == OPat(<<92, 98, 91, 97, 45, 122, 93, 43, 92, 98>>)        \* \b[a-z]+\b
PatWordEnd  == OPat(<<94, 91, 48, 45, 57, 93, 43, 92, 98>>)             \* ^[0-9]+\b
PatAZ       == OPat(<<92, 65, 91, 97, 45, 122, 93, 43, 92, 90>>)        \* \A[a-z]+\Z
PatIdx == IF Rich THEN 0..12 ELSE {0, 1, 2, 3, 4, 5, 9}          \* 0 = no pattern
MinLenSet == {Absent, 0, 1, 2}
MaxLenSet == {Absent, 0, 2, 3}
(* every format the oracle can decide at least partly, incl. those whose grammar has the EMPTY text as a member (uri-reference, regex, ..)
   and those where it is the only decided non-member (hostname, email, ..) *)
CoreFormats == {"uuid", "date", "byte", "date-time", "ipv4"}       \* combined with length keywords; the others stand alone (no minLength / pattern)
Formats == IF Rich THEN <<"uuid", "date", "byte", "date-time", "ipv4", "uri-reference", "iri-reference", "uri-template", "regex", "json-pointer",
                          "hostname", "email", "uri", "ipv6", "time", "duration">>
           ELSE <<"uuid", "date", "byte", "uri-reference", "regex", "hostname", "uri-template">>
FmtLens == IF Rich THEN {<<Absent, Absent>>, <<1, Absent>>, <<Absent, 3>>, <<0, 40>>, <<10, 10>>} ELSE {<<Absent, Absent>>, <<Absent, 3>>}
StrLeaf(mnl, mxl, p, f) == Ty("string") @@ Opt("minLength", mnl) @@ Opt("maxLength", mxl)
                             @@ (IF p = 0 THEN E ELSE "pattern" :> Patterns[p]) @@ (IF f = 0 THEN E ELSE "format" :> Formats[f])
(* NOTE (TLC): values of different JSON types share the field name v, and TLC cannot compare an integer with a boolean or a
   tuple; pools that mix such values are therefore SEQUENCES indexed by position, never sets. *)
EnumLeaves == << S0 @@ [enum |-> <<I(0), I(1)>>], S0 @@ [enum |-> <<I(0), Bv(FALSE)>>], S0 @@ [enum |-> <<Sv(<<>>), Nul>>],
                 S0 @@ [enum |-> <<Sv(<<97>>), Sv(<<98>>)>>], S0 @@ [enum |-> <<I(1), Sv(<<49>>)>>], S0 @@ [enum |-> <<Bv(TRUE)>>],
                 Ty("integer") @@ [enum |-> <<I(1), I(2), I(3)>>], Ty("string") @@ [enum |-> <<Sv(<<97>>), Sv(<<>>)>>],
                 Ty("integer") @@ [enum |-> <<I(0)>>], Ty("boolean"), S0 >>
ConstLeaves == << S0 @@ [const |-> I(0)], S0 @@ [const |-> Sv(<<>>)], S0 @@ [const |-> Bv(FALSE)], Ty("integer") @@ [const |-> I(3)] >>  \* 3.1 only

(* small pools used inside composites *)
CoreLeaves == << Ty("integer"), Ty("integer") @@ [minimum |-> 0, maximum |-> 3], Ty("integer") @@ [minimum |-> 0, maximum |-> 0],
                 Ty("number") @@ [minimum |-> 1, exclMin |-> TRUE], Ty("string"), Ty("string") @@ [minLength |-> 1, maxLength |-> 2],
                 Ty("string") @@ [pattern |-> Patterns[1]], Ty("string") @@ [pattern |-> Patterns[2], maxLength |-> 3],
                 Ty("string") @@ [format |-> "date"], Ty("boolean"), S0 @@ [enum |-> <<I(0), Sv(<<97>>)>>],
                 Ty("integer") @@ [multipleOf |-> 2, minimum |-> 1] >>
PropLeaves == << Ty("integer") @@ [minimum |-> 0, maximum |-> 3], Ty("string") @@ [minLength |-> 1], Ty("boolean"), S0 @@ [enum |-> <<I(0), Sv(<<97>>)>>],
                 Ty("string") @@ [pattern |-> Patterns[1]], Ty("integer") @@ [minimum |-> 0, maximum |-> 0] >>
PropIdxs == IF Rich THEN 1..6 ELSE 1..4
CombLeaves == << Ty("integer"), Ty("integer") @@ [minimum |-> 0, maximum |-> 3], Ty("integer") @@ [minimum |-> 2, maximum |-> 5],
                 Ty("integer") @@ [maximum |-> 0], Ty("number") @@ [minimum |-> 1], Ty("string"), Ty("string") @@ [maxLength |-> 2],
                 Ty("string") @@ [pattern |-> Patterns[1]], S0 @@ [enum |-> <<I(0), I(1)>>], Ty("boolean") >>
Nullable(s) == s @@ [nullable |-> TRUE]
NullExtra == << Ty("integer") @@ [enum |-> <<I(1), I(2)>>], Ty("object") @@ [required |-> <<<<97>>>>] >>

ka == <<97>>
kb == <<98>>
ArrOf(it, a, b, u) == Ty("array") @@ [items |-> it] @@ Opt("minItems", a) @@ Opt("maxItems", b) @@ OptB("uniqueItems", u)
Reqs == << <<>>, <<ka>>, <<kb>>, <<ka, kb>> >>
AddSet == << S0 @@ [zzabsent |-> TRUE], [sk |-> "false"], [sk |-> "true"], Ty("integer") >>
ObjOf(ps, req, ad) == Ty("object") @@ [props |-> ps] @@ (IF req = <<>> THEN E ELSE "required" :> req)
                        @@ (IF Has(ad, "zzabsent") THEN E ELSE "addProps" :> ad)
Obj1(p, r, ad) == ObjOf([k |-> <<ka>>, v |-> <<PropLeaves[p]>>], Reqs[r], AddSet[ad])
Obj2(p, q, r, ad) == ObjOf([k |-> <<ka, kb>>, v |-> <<PropLeaves[p], PropLeaves[q]>>], Reqs[r], AddSet[ad])
ObjExtra == << Ty("object") @@ [required |-> <<ka>>], Ty("object") @@ [addProps |-> Ty("integer")],
               Ty("object") @@ [props |-> [k |-> <<ka>>, v |-> <<Ty("integer")>>], minProperties |-> 1],
               Ty("object") @@ [props |-> [k |-> <<ka, kb>>, v |-> <<Ty("integer"), Ty("string")>>], maxProperties |-> 1],
               Ty("object") @@ [props |-> [k |-> <<ka>>, v |-> <<Ty("object") @@ [props |-> [k |-> <<kb>>, v |-> <<Ty("integer") @@ [minimum |-> 1]>>], required |-> <<kb>>]>>], required |-> <<ka>>],
               Ty("object") @@ [props |-> [k |-> <<ka>>, v |-> <<Ty("array") @@ [items |-> Ty("integer") @@ [minimum |-> 0], minItems |-> 1]>>]] >>
kc == <<99>>
kd == <<100>>
(* shapes that steer the boundary generator through otherwise unvisited dispatch branches: boolean sub-schemas (3.1), a property fixed by
   const, arrays of objects, objects with three optional properties (subset selection) *)
ShapeSchemas31 == << Ty("object") @@ [props |-> [k |-> <<ka, kb>>, v |-> <<[sk |-> "true"], Ty("integer")>>], required |-> <<ka>>],
                     Ty("array") @@ [items |-> [sk |-> "true"], minItems |-> 1],
                     Ty("object") @@ [props |-> [k |-> <<ka, kb>>, v |-> <<Ty("string") @@ [const |-> Sv(<<120>>)], Ty("integer") @@ [minimum |-> 0]>>], required |-> <<ka, kb>>] >>
ShapeSchemas == << Ty("object") @@ [props |-> [k |-> <<ka>>, v |-> <<StrLeaf(3, Absent, 4, 0)>>], required |-> <<ka>>],
                   Ty("array") @@ [items |-> StrLeaf(3, Absent, 4, 0), minItems |-> 1],
                   Ty("object") @@ [props |-> [k |-> <<ka, kb>>, v |-> <<Ty("string") @@ [format |-> "uri-reference"], Ty("string") @@ [format |-> "regex"]>>], required |-> <<ka>>],
                   Ty("array") @@ [items |-> Ty("object") @@ [props |-> [k |-> <<ka>>, v |-> <<Ty("integer") @@ [minimum |-> 0, maximum |-> 3]>>], required |-> <<ka>>], minItems |-> 1],
                   Ty("object") @@ [props |-> [k |-> <<ka, kb, kc, kd>>, v |-> <<Ty("integer"), Ty("string"), Ty("boolean"), Ty("integer") @@ [minimum |-> 1]>>], required |-> <<ka>>],
                   Ty("object") @@ [props |-> [k |-> <<ka, kb, kc>>, v |-> <<Ty("integer"), Ty("string") @@ [minLength |-> 1], Ty("boolean")>>]] >>
(* author-provided values on a PROPERTY (example / default / examples: only these values themselves are exempt) combined with an
   object-level constraint that the object generated around them has to satisfy as well *)
WithEx(s) == s @@ [example |-> Sv(<<66, 111, 98>>), default |-> Sv(<<97, 110, 111, 110>>)]            \* example "Bob", default "anon"
ExProps == [k |-> <<ka, kb>>, v |-> <<WithEx(Ty("string")), Ty("integer") @@ [minimum |-> 0]>>]
ExampleSchemas == << Ty("object") @@ [props |-> ExProps, required |-> <<ka, kb, kc>>],                  \* required names an undeclared property
                     Ty("object") @@ [props |-> ExProps, required |-> <<ka>>, maxProperties |-> 1],     \* fewer properties allowed than declared
                     Ty("object") @@ [props |-> ExProps, required |-> <<ka>>],                          \* control: satisfiable
                     Ty("object") @@ [props |-> [k |-> <<ka>>, v |-> <<Ty("integer") @@ [example |-> I(1), default |-> I(2), minimum |-> 0]>>], minProperties |-> 2] >>
ExampleSchemas3 == << Ty("object") @@ [props |-> ExProps, required |-> <<ka, kb>>, maxProperties |-> 1],      \* contradictory object-level constraints
                      Ty("object") @@ [props |-> [k |-> <<ka, kb>>, v |-> <<Ty("string") @@ [examples |-> <<Sv(<<120>>), Sv(<<122>>)>>], Ty("integer")>>], required |-> <<ka, kc>>] >>
RO(s) == s @@ [readOnly |-> TRUE]
WO(s) == s @@ [writeOnly |-> TRUE]
ReadOnlySchemas ==
  << Ty("object") @@ [props |-> [k |-> <<ka, kb>>, v |-> <<RO(Ty("integer")), Ty("string")>>]],
     Ty("object") @@ [props |-> [k |-> <<ka, kb>>, v |-> <<RO(Ty("integer")), RO(Ty("string"))>>]],
     Ty("object") @@ [props |-> [k |-> <<ka, kb>>, v |-> <<RO(Ty("integer")), Ty("string")>>], required |-> <<ka, kb>>],
     Ty("object") @@ [props |-> [k |-> <<ka, kb>>, v |-> <<RO(Ty("integer")), RO(Ty("string"))>>], required |-> <<ka>>],
     Ty("object") @@ [props |-> [k |-> <<ka>>, v |-> <<Ty("object") @@ [props |-> [k |-> <<kb>>, v |-> <<RO(Ty("integer"))>>]]>>], required |-> <<ka>>],
     S0 @@ [allOf |-> <<Ty("object") @@ [props |-> [k |-> <<ka>>, v |-> <<RO(Ty("integer"))>>]], Ty("object") @@ [props |-> [k |-> <<kb>>, v |-> <<Ty("string")>>], required |-> <<kb>>]>>] >>
WriteOnlySchemas == << Ty("object") @@ [props |-> [k |-> <<ka, kb>>, v |-> <<WO(Ty("integer")), Ty("string")>>], required |-> <<ka>>] >>
Comb(kw, a, b) == S0 @@ (kw :> <<CombLeaves[a], CombLeaves[b]>>)
NotSchemas == [a \in DOMAIN CombLeaves |-> S0 @@ [not |-> CombLeaves[a]]] \o << Ty("integer") @@ [not |-> S0 @@ [enum |-> <<I(0)>>]] >>
(* references: name -> schema tables; "A" is used at depth 1, "B" -> "A" at depth 2, "N" refers to itself below an optional property *)
RefDefs == [A |-> Ty("integer") @@ [minimum |-> 1], B |-> Ty("object") @@ [props |-> [k |-> <<ka>>, v |-> <<S0 @@ [ref |-> "A"]>>], required |-> <<ka>>],
            N |-> Ty("object") @@ [props |-> [k |-> <<ka, kb>>, v |-> <<Ty("integer"), S0 @@ [ref |-> "N"]>>], required |-> <<ka>>]]
RefSchemas == << S0 @@ [ref |-> "A"], S0 @@ [ref |-> "B"], S0 @@ [ref |-> "N"], Ty("array") @@ [items |-> S0 @@ [ref |-> "A"]],
                 Ty("object") @@ [props |-> [k |-> <<kb>>, v |-> <<S0 @@ [ref |-> "B"]>>], required |-> <<kb>>] >>
Link(next) == Ty("object") @@ [props |-> [k |-> <<ka, kb>>, v |-> <<RO(Ty("integer")), S0 @@ [ref |-> next]>>], required |-> <<kb>>, addProps |-> [sk |-> "false"]]
DeepLeaf == Ty("object") @@ [props |-> [k |-> <<ka, kb, kc>>, v |-> <<RO(Ty("integer")), Ty("string") @@ [enum |-> <<Sv(<<120>>)>>], Nullable(Ty("integer") @@ [minimum |-> 0])>>],
                             required |-> <<kb, kc>>, addProps |-> [sk |-> "false"]]
DeepDefs == [R1 |-> Link("R2"), R2 |-> Link("R3"), R3 |-> Link("R4"), R4 |-> Link("R5"), R5 |-> Link("R6"), R6 |-> Link("R7"), R7 |-> Link("R8"),
             R8 |-> Link("R9"), R9 |-> Link("R10"), R10 |-> Link("R11"), R11 |-> Link("R12"), R12 |-> DeepLeaf,
             T |-> Ty("object") @@ [props |-> [k |-> <<ka, kb>>, v |-> <<RO(Ty("integer")), Ty("array") @@ [items |-> S0 @@ [ref |-> "T"], maxItems |-> 1]>>], required |-> <<kb>>,
                                    addProps |-> [sk |-> "false"]],
             (* a chain of 8 links that ends in recursive tree nodes: the recursive property is a REQUIRED array of references (T2) resp. an optional
                single-member allOf of a reference (T3); these nodes allow additional properties *)
             Q1 |-> Link("Q2"), Q2 |-> Link("Q3"), Q3 |-> Link("Q4"), Q4 |-> Link("Q5"), Q5 |-> Link("Q6"), Q6 |-> Link("Q7"), Q7 |-> Link("Q8"), Q8 |-> Link("T2"),
             P1 |-> Link("P2"), P2 |-> Link("P3"), P3 |-> Link("P4"), P4 |-> Link("P5"), P5 |-> Link("P6"), P6 |-> Link("P7"), P7 |-> Link("P8"), P8 |-> Link("T3"),
             T2 |-> Ty("object") @@ [props |-> [k |-> <<ka, kb>>, v |-> <<Ty("integer"), Ty("array") @@ [items |-> S0 @@ [ref |-> "T2"], maxItems |-> 1]>>], required |-> <<kb>>],
             T3 |-> Ty("object") @@ [props |-> [k |-> <<ka, kb>>, v |-> <<Ty("integer"), S0 @@ [allOf |-> <<S0 @@ [ref |-> "T3"]>>]>>], required |-> <<ka>>]]
NoRefDefs == [none |-> S0]

(* ------------------------------------------------------------------------- *)
(* C03 value-level family: (group, dialect, schema, defs)                    *)
(* ------------------------------------------------------------------------- *)
D(g, d, s) == [kind |-> "schema", group |-> g, dialect |-> d, schema |-> s, defs |-> NoRefDefs]
DR(g, d, s) == [kind |-> "schema", group |-> g, dialect |-> d, schema |-> s, defs |-> RefDefs]
AllD == {"2.0", "3.0", "3.1"}
D3 == {"3.0", "3.1"}
RichD(set) == IF Rich THEN set ELSE {"3.0"}
IsSchemaDesc(x) ==      \* x is a member of the schema family  (disjunction of homogeneous index sets)
  \/ \E d \in AllD, q \in NumIdx : x = D("numeric", d, NumLeaf(q))
  \/ \E d \in {"2.0", "3.0"}, q \in ExclFalseIdx : x = D("numeric", d, ExclFalseLeaf(q))
  \/ \E d \in RichD(AllD), a \in MinLenSet, b \in MaxLenSet, p \in PatIdx : x = D("string", d, StrLeaf(a, b, p, 0))
  (* patterns that are NOT anchored at the start, with a minLength longer than their shortest match: a conforming string may match
     only at its end / in the middle (pattern is an unanchored search) *)
  \/ \E d \in RichD(AllD), a \in {3, 4}, b \in {Absent, 5}, p \in {2, 4, 9, 12} : x = D("string", d, StrLeaf(a, b, p, 0))
  \/ \E d \in RichD(AllD), l \in FmtLens, f \in DOMAIN Formats :
        /\ (Formats[f] \in CoreFormats \/ l = <<Absent, Absent>>)
        /\ x = D("string", d, StrLeaf(l[1], l[2], 0, f))
  \/ \E d \in RichD(AllD), j \in DOMAIN EnumLeaves : x = D("enum", d, EnumLeaves[j])
  \/ \E j \in DOMAIN ConstLeaves : x = D("const", "3.1", ConstLeaves[j])
  \/ \E d \in AllD, j \in DOMAIN CoreLeaves : x = D("nullable", d, Nullable(CoreLeaves[j]))
  \/ \E d \in {"2.0", "3.0"}, j \in DOMAIN NullExtra : x = D("nullable", d, Nullable(NullExtra[j]))
  \/ \E d \in RichD(AllD), j \in DOMAIN CoreLeaves, a \in {Absent, 0, 2}, b \in {Absent, 0, 2}, u \in BOOLEAN : x = D("array", d, ArrOf(CoreLeaves[j], a, b, u))
  \/ \E d \in RichD(AllD), p \in PropIdxs, r \in {1, 2}, ad \in DOMAIN AddSet : x = D("object", d, Obj1(p, r, ad))
  \/ \E d \in RichD(AllD), p \in PropIdxs, q \in PropIdxs, r \in DOMAIN Reqs, ad \in DOMAIN AddSet : x = D("object", d, Obj2(p, q, r, ad))
  \/ \E d \in RichD(AllD), j \in DOMAIN ObjExtra : x = D("object", d, ObjExtra[j])
  \/ \E d \in AllD, j \in DOMAIN ReadOnlySchemas : x = D("readOnly", d, ReadOnlySchemas[j])
  \/ \E d \in D3, j \in DOMAIN WriteOnlySchemas : x = D("readOnly", d, WriteOnlySchemas[j])
  \/ \E d \in RichD(D3), kw \in {"allOf", "anyOf", "oneOf"}, a \in DOMAIN CombLeaves, b \in DOMAIN CombLeaves : x = D("combinator", d, Comb(kw, a, b))
  \/ \E d \in RichD(D3), j \in DOMAIN NotSchemas : x = D("combinator", d, NotSchemas[j])
  \/ Rich /\ \E a \in DOMAIN CombLeaves, b \in DOMAIN CombLeaves : x = D("combinator", "2.0", Comb("allOf", a, b))
  \/ \E d \in AllD, j \in DOMAIN RefSchemas : x = DR("ref", d, RefSchemas[j])
  \/ \E d \in RichD(AllD), j \in DOMAIN ExampleSchemas : x = D("example", d, ExampleSchemas[j])
  \/ \E j \in DOMAIN ExampleSchemas3 : x = D("example", IF j = 2 THEN "3.1" ELSE "3.0", ExampleSchemas3[j])
  \/ \E j \in DOMAIN ShapeSchemas31 : x = D("shape", "3.1", ShapeSchemas31[j])
  \/ \E d \in AllD, j \in DOMAIN ShapeSchemas : x = D("shape", d, ShapeSchemas[j])

(* ------------------------------------------------------------------------- *)
(* Operation descriptors: per location <= 2 parameters, body alternatives    *)
(* ------------------------------------------------------------------------- *)
ParamLeaves == << Ty("integer") @@ [minimum |-> 0, maximum |-> 3],      \* 1
                  Ty("string") @@ [minLength |-> 2],                     \* 2
                  Ty("boolean"),                                         \* 3
                  Ty("string") @@ [enum |-> <<Sv(<<97>>), Sv(<<98>>)>>], \* 4
                  Ty("string") @@ [pattern |-> Patterns[2], maxLength |-> 3],   \* 5
                  Ty("string"),                                          \* 6
                  Ty("integer"),                                         \* 7
                  Ty("number") @@ [minimum |-> 0, maximum |-> 0],        \* 8
                  Ty("string") @@ [format |-> "uuid"],                   \* 9
                  Ty("array") @@ [items |-> Ty("integer")],              \* 10
                  Nullable(Ty("integer")),                               \* 11
                  Ty("string") @@ [pattern |-> Patterns[1], minLength |-> 1, maxLength |-> 2],   \* 12
                  Ty("string") @@ [pattern |-> PatWordBoth, maxLength |-> 5],   \* 13
                  Ty("string") @@ [pattern |-> PatWordEnd, maxLength |-> 3],    \* 14
                  Ty("string") @@ [pattern |-> PatAZ, minLength |-> 1, maxLength |-> 3],   \* 15
                  Ty("integer") @@ [minimum |-> 1, exclMin |-> FALSE, maximum |-> 3, exclMax |-> FALSE],   \* 16  draft-4 default spelled out
                  S0 @@ [maxLength |-> 3],                                      \* 17  no type: nothing presentable as valid in the coverage phase
                  Ty("string") @@ [format |-> "uri-reference"],               \* 18  a format whose grammar contains the empty text
                  Ty("string") @@ [format |-> "hostname"],                    \* 19  a format that has no empty member
                  Ty("string") @@ [pattern |-> OPat(<<94, 40, 97, 98, 41, 43, 36>>), maxLength |-> 5] >>   \* 20  ^(ab)+$ : a repeated GROUP, the bound counts characters
P(loc, name, req, si) == [loc |-> loc, name |-> name, required |-> req, schema |-> ParamLeaves[si]]
nQ1 == <<113, 49>>       \* q1
nQ2 == <<113, 50>>       \* q2
nId == <<105, 100>>      \* id
nKey == <<107, 101, 121>>  \* key
nH1 == <<88, 45, 72, 49>>  \* X-H1
nH2 == <<120, 45, 104, 50>> \* x-h2
nC1 == <<99, 49>>        \* c1
BodyPool == << Ty("object") @@ [props |-> [k |-> <<ka, kb>>, v |-> <<Ty("integer") @@ [minimum |-> 0, maximum |-> 3], Ty("string") @@ [minLength |-> 1]>>], required |-> <<ka>>],   \* 1
               Ty("integer") @@ [minimum |-> 0, maximum |-> 0],          \* 2
               Ty("string") @@ [pattern |-> Patterns[2], maxLength |-> 3],   \* 3
               S0,                                                       \* 4   {}: nothing to negate
               Ty("object") @@ [props |-> [k |-> <<ka, kb>>, v |-> <<RO(Ty("integer")), RO(Ty("string"))>>]],   \* 5
               Ty("array") @@ [items |-> Ty("integer") @@ [minimum |-> 1], minItems |-> 1],   \* 6
               Ty("object") @@ [addProps |-> Ty("integer")],             \* 7
               S0 @@ [anyOf |-> <<Ty("integer") @@ [minimum |-> 0, maximum |-> 3], Ty("integer") @@ [minimum |-> 2, maximum |-> 5]>>],   \* 8
               Nullable(Ty("string") @@ [minLength |-> 1]),              \* 9
               Ty("object") @@ [props |-> [k |-> <<ka>>, v |-> <<Ty("string") @@ [format |-> "date"]>>], required |-> <<ka>>],   \* 10
               Ty("string") @@ [pattern |-> PatWordBoth, maxLength |-> 5],    \* 11
               Ty("number"),                                             \* 12  every integer is a number: type negation must not yield integers
               Ty("number") @@ [minimum |-> 0],                          \* 13
               Ty("object") @@ [props |-> [k |-> <<ka, kb>>, v |-> <<RO(Ty("integer")), Ty("string") @@ [minLength |-> 1]>>], required |-> <<ka, kb>>],   \* 14  readOnly AND required
               S0 @@ [props |-> [k |-> <<ka>>, v |-> <<Ty("integer") @@ [minimum |-> 0]>>]],            \* 15  properties without type
               Ty("array") @@ [items |-> S0],                                \* 16  items that accept everything
               Ty("integer") @@ [minimum |-> 1, exclMin |-> TRUE],          \* 17  a keyword with a dependency (draft-4 exclusiveMinimum needs minimum)
               Ty("array") >>                                               \* 18  array without items
Bd(media, bi, req) == [media |-> media, schema |-> BodyPool[bi], required |-> req]
MJson == "application/json"
MText == "text/plain"
(* parameter / body sets are written as index tuples: <<>>, <<req, leaf>> or <<req, leaf, leaf2>> (second one optional) *)
LeafIdx(loc) == IF Rich THEN (IF loc = "query" THEN (1..16) \cup {18, 19, 20} ELSE {1, 2, 3, 4, 5, 6, 9, 12, 13, 14, 15}) ELSE (IF loc = "query" THEN {1, 2, 3, 4, 5, 6, 10, 11, 13, 14, 18, 20} ELSE {1, 2, 5, 6, 13})
QueryIdx == {<<0, 0, 0>>} \cup {<<r, a, 0>> : r \in {1, 2}, a \in LeafIdx("query")}
            \cup {<<r, a, b>> : r \in {1, 2}, a \in (IF Rich THEN LeafIdx("query") ELSE {1, 2, 5, 6}), b \in {1, 2, 6}}
PathIdx == {<<0, 0, 0>>} \cup {<<2, a, 0>> : a \in LeafIdx("path")} \cup {<<2, a, b>> : a \in {1, 6}, b \in {2, 5}}
HeaderIdx == {<<0, 0, 0>>} \cup {<<r, a, 0>> : r \in {1, 2}, a \in LeafIdx("header")} \cup {<<2, a, b>> : a \in {1, 6}, b \in {2, 6}}
CookieIdx == {<<0, 0, 0>>} \cup {<<r, a, 0>> : r \in {1, 2}, a \in {1, 2, 6}}
MkParams(loc, n1, n2, x) ==      \* x = <<0 none | 1 optional | 2 required, leaf index, second leaf index or 0>>
  IF x[1] = 0 THEN <<>>
  ELSE <<P(loc, n1, x[1] = 2, x[2])>> \o (IF x[3] = 0 THEN <<>> ELSE <<P(loc, n2, loc = "path", x[3])>>)
BodyIdxSet == {<<0, 0, 0>>} \cup {<<r, b, 0>> : r \in {1, 2}, b \in (IF Rich THEN (1..13) \cup (15..18) ELSE {1, 2, 3, 4, 5, 8, 9, 11, 12})}
              \cup {<<2, b, 0>> : b \in 15..18}
              \cup {<<2, a, b>> : a \in {1, 2, 4}, b \in {3, 4}}
MkBodies(d, x) == IF x[1] = 0 THEN <<>>
                  ELSE IF x[3] = 0 THEN <<Bd(MJson, x[2], x[1] = 2)>>
                  ELSE <<Bd(MJson, x[2], TRUE), Bd(MText, IF d = "2.0" THEN x[2] ELSE x[3], TRUE)>>      \* 2.0: one schema, two `consumes`
(* the two string restrictions are CROSSED: allow_x00 x codec (utf-8 = default, ascii, latin-1, none = no codec) *)
Cfgs == {cf \in {[allow_x00 |-> x, codec |-> c, security |-> s] : x \in BOOLEAN, c \in {"utf-8", "ascii", "latin-1", "none"}, s \in BOOLEAN} :
           cf.security => cf.codec = "utf-8"}          \* security parameters are orthogonal to the string restrictions
(* the Path Item the operation (always POST) lives in: written inline or behind a local $ref, alone or next to other documented methods *)
ItemInline == [ref |-> FALSE, also |-> <<>>]
Items == {[ref |-> r, also |-> a] : r \in BOOLEAN, a \in {<<>>, <<"get">>, <<"get", "put">>}}
(* how the document SPELLS the operation's inputs (same meaning, different lookup path in the implementation):                      *)
(*   params   "inline" in the operation | "ref" (Parameter Objects behind $ref) | "path" (declared on the Path Item, shared)          *)
(*   schemaIn "schema" | "content" (3.x: parameter described by content: {application/json: {schema}})                                *)
(*   body     "inline" | "ref" (3.x requestBody behind $ref; 2.0: the body parameter behind $ref)                                     *)
SpellPlain == [params |-> "inline", schemaIn |-> "schema", body |-> "inline"]
AllSpellings(d) == {[params |-> a, schemaIn |-> b, body |-> c] : a \in {"inline", "ref", "path"}, b \in (IF d = "2.0" THEN {"schema"} ELSE {"schema", "content"}),
                                                                    c \in {"inline", "ref"}} \ {SpellPlain}
PairwiseSpellings(d) == {sp \in AllSpellings(d) : sp \in {[params |-> "ref", schemaIn |-> "schema", body |-> "inline"], [params |-> "path", schemaIn |-> "schema", body |-> "ref"],
                                                          [params |-> "inline", schemaIn |-> "content", body |-> "inline"], [params |-> "inline", schemaIn |-> "schema", body |-> "ref"],
                                                          [params |-> "ref", schemaIn |-> "content", body |-> "ref"], [params |-> "path", schemaIn |-> "content", body |-> "inline"]}}
Spellings(d) == IF Rich \/ Family = "c01" THEN AllSpellings(d) ELSE PairwiseSpellings(d)
Op(g, d, ps, bs, cf) == [kind |-> "op", group |-> g, dialect |-> d, params |-> ps, bodies |-> bs, cfg |-> cf, defs |-> NoRefDefs, item |-> ItemInline,
                         spell |-> SpellPlain]
Cfg0 == [allow_x00 |-> TRUE, codec |-> "utf-8", security |-> FALSE]
None3 == <<0, 0, 0>>
CfgWide == Cfg0 @@ [draws |-> "wide"]      \* rare mutation choices matter: many draws per descriptor (harness/c02.py)
ExclIdx == {q \in NumIdx : (q[3] \/ q[5]) /\ q[6] \in {Absent, 2} /\ (Rich \/ (q[6] = Absent /\ q[2] \in {Absent, 0} /\ q[4] \in {Absent, 3}))}
MkOp(g, d, q, p, h, c, b, cf) ==
  Op(g, d, MkParams("path", nId, nKey, p) \o MkParams("query", nQ1, nQ2, q) \o MkParams("header", nH1, nH2, h) \o MkParams("cookie", nC1, nC1, c),
     MkBodies(d, b), cf)
OpDialects == IF Family = "c03o" THEN (IF Rich THEN AllD ELSE {"3.0", "2.0"}) ELSE (IF Rich THEN AllD ELSE {"3.0"})
(* Keyword group: for every keyword of the oracle's alphabet one leaf in which that keyword is the discriminating constraint at   *)
(* the TOP level of the schema, placed in every location (path / query / header / cookie / body) of every dialect that can     *)
(* express it.  Includes the explicit spelling of defaults (nullable: false), top level and nested.                              *)
KwLeaves == << Ty("integer"),                                                                      \*  1 type
               Ty("string") @@ [enum |-> <<Sv(<<97>>), Sv(<<98>>)>>],                            \*  2 enum
               Ty("string") @@ [const |-> Sv(<<97>>)],                                           \*  3 const (3.1)
               Ty("integer") @@ [minimum |-> 3],                                                 \*  4 minimum
               Ty("integer") @@ [maximum |-> 3],                                                 \*  5 maximum
               Ty("integer") @@ [minimum |-> 0, exclMin |-> TRUE, maximum |-> 5],                \*  6 exclusiveMinimum
               Ty("integer") @@ [maximum |-> 0, exclMax |-> TRUE, minimum |-> -5],               \*  7 exclusiveMaximum
               Ty("integer") @@ [multipleOf |-> 2, minimum |-> 0, maximum |-> 9],                \*  8 multipleOf
               Ty("string") @@ [minLength |-> 2],                                                \*  9 minLength
               Ty("string") @@ [maxLength |-> 1],                                                \* 10 maxLength
               Ty("string") @@ [pattern |-> Patterns[1]],                                        \* 11 pattern
               Ty("string") @@ [format |-> "date"],                                              \* 12 format
               Ty("array") @@ [items |-> Ty("integer")],                                         \* 13 items
               Ty("array") @@ [items |-> Ty("integer"), minItems |-> 2],                         \* 14 minItems
               Ty("array") @@ [items |-> Ty("integer"), maxItems |-> 1],                         \* 15 maxItems
               Ty("array") @@ [items |-> Ty("integer") @@ [minimum |-> 0, maximum |-> 3], uniqueItems |-> TRUE, minItems |-> 2],   \* 16 uniqueItems
               Ty("integer") @@ [minimum |-> 0, maximum |-> 3, not |-> S0 @@ [enum |-> <<I(0)>>]],   \* 17 not
               Ty("integer") @@ [allOf |-> <<S0 @@ [maximum |-> 3]>>],                           \* 18 allOf
               Ty("integer") @@ [anyOf |-> <<S0 @@ [maximum |-> 0], S0 @@ [minimum |-> 5]>>],    \* 19 anyOf
               Ty("integer") @@ [oneOf |-> <<S0 @@ [maximum |-> 0], S0 @@ [minimum |-> 5]>>],    \* 20 oneOf
               Nullable(Ty("integer")),                                                          \* 21 nullable: true
               Ty("integer") @@ [nullable |-> FALSE],                                            \* 22 nullable: false (the default, spelled out)
               Ty("boolean"),                                                                    \* 23 type boolean
               Ty("number") @@ [minimum |-> 0, maximum |-> 1],                                   \* 24 type number
               Ty("string") @@ [enum |-> <<Sv(<<97>>), Sv(<<98>>)>>, not |-> S0 @@ [enum |-> <<Sv(<<97>>)>>]],   \* 25 enum + not
               Ty("object") @@ [props |-> [k |-> <<ka>>, v |-> <<Ty("integer") @@ [nullable |-> FALSE]>>], required |-> <<ka>>],   \* 26 nested nullable: false
               Ty("array") @@ [items |-> Ty("integer") @@ [nullable |-> FALSE], minItems |-> 1],  \* 27 items nullable: false
               Ty("object") @@ [props |-> [k |-> <<ka>>, v |-> <<Ty("string")>>], addProps |-> [sk |-> "false"]],   \* 28 additionalProperties
               Ty("object") @@ [props |-> [k |-> <<ka>>, v |-> <<Ty("integer")>>], minProperties |-> 1],            \* 29 minProperties
               Ty("object") @@ [props |-> [k |-> <<ka, kb>>, v |-> <<Ty("integer"), Ty("integer")>>], maxProperties |-> 1],   \* 30 maxProperties
               Ty("object") @@ [required |-> <<ka>>] >>                                          \* 31 required
KwExpressible(d, loc, k) ==          \* can dialect d write keyword leaf k at location loc?
  /\ (k = 3 => d = "3.1") /\ (k \in {22, 26, 27} => d # "3.1")
  /\ (k \in {17, 19, 20, 25} => d # "2.0") /\ (k = 18 => (d # "2.0" \/ loc = "body"))
  /\ (k >= 26 => loc = "body") /\ (loc = "cookie" => d # "2.0")
KwQuickPairs == {<<"3.1", 3>>, <<"3.1", 17>>, <<"2.0", 22>>, <<"2.0", 2>>}
KwLocName(loc) == CASE loc = "path" -> nId [] loc = "query" -> nQ1 [] loc = "header" -> nH1 [] OTHER -> nC1
KwOp(d, loc, k) == IF loc = "body" THEN Op("keyword", d, <<>>, <<[media |-> MJson, schema |-> KwLeaves[k], required |-> TRUE]>>, Cfg0)
                   ELSE Op("keyword", d, <<[loc |-> loc, name |-> KwLocName(loc), required |-> TRUE, schema |-> KwLeaves[k]]>>, <<>>, Cfg0)
PairLeaves == IF Rich THEN {1, 2, 3, 5, 6, 7, 11, 13, 14} ELSE {1, 2, 6, 13}      \* parameter leaves used in the cross-group pairs
(* exhaustive inside a location group, pairwise across groups *)
IsOpDesc(x) ==
  \/ \E d \in OpDialects, q \in QueryIdx : x = MkOp("query", d, q, None3, None3, None3, None3, Cfg0)
  \/ \E d \in OpDialects, p \in PathIdx \ {None3} : x = MkOp("path", d, None3, p, None3, None3, None3, Cfg0)
  \/ \E d \in OpDialects, h \in HeaderIdx \ {None3} : x = MkOp("header", d, None3, None3, h, None3, None3, Cfg0)
  \/ \E d \in OpDialects \cap D3, c \in CookieIdx \ {None3} : x = MkOp("cookie", d, None3, None3, None3, c, None3, Cfg0)
  \/ \E d \in OpDialects, b \in BodyIdxSet \ {None3} : x = MkOp("body", d, None3, None3, None3, None3, b, Cfg0)
  \/ \E d \in OpDialects, q \in {q \in QueryIdx : q[1] # 0 /\ q[3] = 0 /\ q[2] \in PairLeaves}, b \in {b \in BodyIdxSet : b[1] = 2 /\ b[3] = 0 /\ (Rich \/ b[2] \in {1, 4, 12, 15})} :
        x = MkOp("query+body", d, q, None3, None3, None3, b, Cfg0)
  \/ \E d \in OpDialects, p \in {p \in PathIdx : p[1] # 0 /\ p[3] = 0}, h \in {h \in HeaderIdx : h[1] # 0 /\ h[3] = 0 /\ h[2] \in {1, 2, 6, 13} /\ (Rich \/ h[1] = 2)} :
        x = MkOp("path+header", d, None3, p, h, None3, None3, Cfg0)
  \/ \E d \in OpDialects \cap D3, q \in {q \in QueryIdx : q[1] = 2 /\ q[2] \in {1, 2} /\ q[3] \in {1, 6} /\ (Rich \/ q[2] = 1)},
                                     h \in {h \in HeaderIdx : h[3] # 0 /\ (Rich \/ h[2] = h[3] \/ h[3] = 2)}, c \in {c \in CookieIdx : c[1] = 2 /\ (Rich \/ c[2] # 2)} :
        x = MkOp("query+header+cookie", d, q, None3, h, c, None3, Cfg0)
  \/ \E d \in OpDialects \cap D3, h \in {h \in HeaderIdx : h[1] # 0 /\ h[2] \in {1, 6} /\ h[3] = 0}, c \in CookieIdx \ {None3} :      \* locations of different negatability
        x = MkOp("header+cookie", d, None3, None3, h, c, None3, Cfg0)
  \/ Family = "c03o" /\ \E d \in OpDialects, it \in Items \ {ItemInline}, q \in {None3, <<2, 1, 0>>, <<1, 6, 0>>}, b \in {None3, <<2, 1, 0>>} :   \* path-item shapes
        x = [MkOp("path-item", d, q, None3, None3, None3, b, Cfg0) EXCEPT !.item = it]
  \/ Family = "c01" /\ \E d \in AllD, loc \in {"path", "query", "header", "cookie", "body"}, k \in DOMAIN KwLeaves :
        /\ KwExpressible(d, loc, k) /\ (Rich \/ d = "3.0" \/ <<d, k>> \in KwQuickPairs)
        /\ x = KwOp(d, loc, k)
  (* --- spellings: one operation with a parameter in every location and a body, written in every way the dialect allows --- *)
  \/ \E d \in OpDialects \cup {"2.0"} : \E sp \in Spellings(d) :
        x = [MkOp("spelling", d, <<2, 1, 0>>, <<2, 1, 0>>, <<1, 2, 0>>, IF d = "2.0" THEN None3 ELSE <<2, 1, 0>>, <<2, 1, 0>>, Cfg0) EXCEPT !.spell = sp]
  \/ \E d \in OpDialects \cup {"2.0"} :       \* the same operation inside a Path Item given by $ref (lookup through the reference)
        x = [MkOp("spelling", d, <<2, 1, 0>>, <<2, 1, 0>>, <<1, 2, 0>>, None3, <<2, 1, 0>>, Cfg0) EXCEPT !.item = [ref |-> TRUE, also |-> <<"get">>]]
  \/ \E d \in OpDialects \cap D3, loc \in {"header", "cookie"}, r \in BOOLEAN :      \* the SAME name declared in two locations with different schemas
        x = Op("same-name", d, <<P("query", nKey, r, 4), P(loc, nKey, FALSE, 1), P(loc, IF loc = "header" THEN nH2 ELSE nC1, FALSE, 7)>>, <<>>, Cfg0)
  \/ \E d \in OpDialects :      \* three optional parameters in one location (subset selection in the coverage phase) next to a required one
        x = Op("many-optional", d, <<P("query", nQ1, TRUE, 1), P("query", nQ2, FALSE, 2), P("query", nKey, FALSE, 3), P("query", nC1, FALSE, 6)>>, <<>>, Cfg0)
  \/ Family # "c01" /\ \E ts \in {<<"string", "integer", "number", "boolean", "null", "object", "array">>, <<"string", "number", "boolean", "null", "array">>} :
        x = Op("type-array", "3.1", <<>>, <<[media |-> MJson, schema |-> [sk |-> "schema", type |-> ts, minLength |-> 2], required |-> TRUE]>>, Cfg0)
  (* --- explicit values (as_strategy(query={...}) / headers={...}): "declared" = the caller fixes q1, the rest of the location is generated;
         "undeclared" = the caller adds as many UNDECLARED keys as the location declares parameters (an Authorization header, a debug
         flag): every declared parameter still has to be generated - and negated --- *)
  \/ Family \in {"c01", "c02"} /\ \E d \in OpDialects, b \in {1, 2} :
        x = [MkOp("explicit", d, <<2, 1, b>>, None3, None3, None3, None3, Cfg0) EXCEPT !.cfg = Cfg0 @@ [explicit |-> "declared"]]
  \/ Family \in {"c01", "c02"} /\ \E d \in OpDialects, p \in {<<1, 1, 0>>, <<2, 1, 0>>, <<2, 1, 2>>}, loc \in {"query", "header"} :
        x = [MkOp("explicit", d, IF loc = "query" THEN p ELSE None3, None3, IF loc = "header" THEN p ELSE None3, None3, None3, Cfg0)
               EXCEPT !.cfg = Cfg0 @@ [explicit |-> "undeclared"]]
  (* --- local references: parameter / body / nested schemas behind $ref (depth 1, 2, recursive below an optional property) --- *)
  \/ \E d \in OpDialects \cup {"2.0"}, j \in DOMAIN RefSchemas :
        x = [Op("ref", d, <<>>, <<[media |-> MJson, schema |-> RefSchemas[j], required |-> TRUE]>>, Cfg0) EXCEPT !.defs = RefDefs]
  \/ \E d \in (OpDialects \cup {"3.1"}) \cap D3, loc \in {"path", "query", "header", "cookie"} :
        x = [Op("ref", d, <<[loc |-> loc, name |-> KwLocName(loc), required |-> TRUE, schema |-> S0 @@ [ref |-> "A"]]>>, <<>>, Cfg0) EXCEPT !.defs = RefDefs]
  (* --- form bodies: urlencoded / multipart objects (2.0: formData parameters) incl. a readOnly property that is listed as required --- *)
  \/ \E d \in OpDialects \cup {"2.0"}, m \in {"application/x-www-form-urlencoded", "multipart/form-data"}, b \in {1, 14}, r \in BOOLEAN :
        /\ (d = "2.0" => b = 1)
        /\ x = Op("form", d, <<>>, <<[media |-> m, schema |-> BodyPool[b], required |-> r]>>, Cfg0)
  \/ \E d \in OpDialects \cup {"2.0"} : x = MkOp("readOnly-required", d, None3, None3, None3, None3, <<2, 14, 0>>, Cfg0)
  (* --- pattern x length: every catalogue pattern with the length keywords the implementation folds into its quantifier --- *)
  \/ Family = "c01" /\ \E d \in {"3.0"}, loc \in {"query", "body"}, pi \in 1..15, l \in {<<1, 3>>, <<Absent, 2>>, <<2, Absent>>, <<2, 2>>, <<3, 5>>} :
        x = (IF loc = "body" THEN Op("pattern+length", d, <<>>, <<[media |-> MJson, schema |-> StrLeaf(l[1], l[2], pi, 0), required |-> TRUE]>>, Cfg0)
             ELSE Op("pattern+length", d, <<[loc |-> loc, name |-> nQ1, required |-> TRUE, schema |-> StrLeaf(l[1], l[2], pi, 0)]>>, <<>>, Cfg0))
  \/ Family # "c03o" /\ \E a \in {2, 6}, cf \in {cf \in Cfgs : Family = "c01" \/ (cf.codec \in {"utf-8", "ascii"} /\ ~cf.security)} :      \* a string in EVERY location
        x = MkOp("config", "3.0", <<2, a, 0>>, <<2, a, 0>>, <<2, a, 0>>, <<2, a, 0>>, <<2, 1, 0>>, cf)
  (* --- references beyond the depth that gets inlined: chains of 9 and 12 $refs and a recursive schema reached through a required
         reference, with readOnly / nullable / required properties at the far end --- *)
  \/ Family = "c01" /\ \E d \in AllD, r \in {"R1", "R4", "T", "Q1", "T2", "P1"} :
        x = [Op("deep-ref", d, <<>>, <<[media |-> MJson, schema |-> S0 @@ [ref |-> r], required |-> TRUE]>>, Cfg0) EXCEPT !.defs = DeepDefs]
  (* --- exclusive bounds on a numeric body: every numeric leaf of NumIdx in which exclusiveMinimum / exclusiveMaximum is switched on (2.0 / 3.0
         spell it as the draft-4 BOOLEAN next to the bound, 3.1 numerically), integer and number.  A value inside the open interval conforms
         (ValidD under the operation's dialect decides), so it must never come out labelled negative; the generator reaches such values only
         through rare mutation choices (a type change number -> integer keeps the bounds), hence cfg.draws = "wide": the driver takes many
         more draws for these descriptors than for the rest of the family --- *)
  \/ Family = "c02" /\ \E d \in OpDialects \cup {"2.0"}, q \in ExclIdx :
        x = Op("exclusive-bound", d, <<>>, <<[media |-> MJson, schema |-> NumLeaf(q), required |-> TRUE]>>, CfgWide)

(* Histories (C03): the coverage cases of operation A, then of operation B, generated in ONE process (labels are objects that *)
(* live across operations); every ordered pair over a small pool, incl. an operation whose second query parameter has no   *)
(* value presentable as valid (ParamLeaves[17]) after one that has.                                                       *)
HistPool == << MkOp("history", "3.0", <<2, 1, 17>>, None3, None3, None3, None3, Cfg0),          \* q1 integer 0..3, q2 {maxLength: 3}
               MkOp("history", "3.0", <<2, 2, 0>>, None3, <<2, 1, 0>>, None3, <<2, 1, 0>>, Cfg0),   \* q1 string, X-H1 integer, body object
               MkOp("history", "3.0", <<1, 1, 6>>, <<2, 1, 0>>, None3, <<2, 2, 0>>, None3, Cfg0),   \* path id, q1, q2, cookie
               MkOp("history", "2.0", <<2, 3, 0>>, None3, <<1, 6, 0>>, None3, <<2, 2, 0>>, Cfg0) >> \* 2.0: q1 boolean, X-H1 string, body integer
IsHistDesc(x) == \E a \in DOMAIN HistPool, b \in DOMAIN HistPool :
                   x = [kind |-> "history", group |-> "history", dialect |-> "3.0", ops |-> <<HistPool[a], HistPool[b]>>]

(* ------------------------------------------------------------------------- *)
(* The machine                                                               *)
(* ------------------------------------------------------------------------- *)
VARIABLES desc, outcome
vars == <<desc, outcome>>
Init == outcome = "new" /\ (IF Family = "c03s" THEN IsSchemaDesc(desc) ELSE IF Family = "c03h" THEN IsHistDesc(desc) ELSE IsOpDesc(desc))
CoverValue   == outcome = "new" /\ desc.kind = "schema" /\ outcome' = "values" /\ UNCHANGED desc
CoverCase    == outcome = "new" /\ desc.kind \in {"op", "history"} /\ Family \in {"c03o", "c03h"} /\ outcome' = "cases" /\ UNCHANGED desc
DrawPositive == outcome \in {"new", "cases"} /\ desc.kind = "op" /\ Family = "c01" /\ outcome' = "cases" /\ UNCHANGED desc
DrawNegative == outcome \in {"new", "cases"} /\ desc.kind = "op" /\ Family = "c02" /\ outcome' = "cases" /\ UNCHANGED desc
Skip         == outcome = "new" /\ desc.kind = "op" /\ Family = "c02" /\ outcome' = "skipped" /\ UNCHANGED desc
Unsat        == outcome = "new" /\ desc.kind = "op" /\ Family \in {"c01", "c02"} /\ outcome' = "unsat" /\ UNCHANGED desc
Next == CoverValue \/ CoverCase \/ DrawPositive \/ DrawNegative \/ Skip \/ Unsat
Spec == Init /\ [][Next]_vars

(* ------------------------------------------------------------------------- *)
(* Verdict operators (three-valued), from the property texts                 *)
(* ------------------------------------------------------------------------- *)
Locations == {"path", "query", "header", "cookie"}
DiaOf(d) == IF d = "3.1" THEN "2020" ELSE "d4"
(* one non-body location of a case: loc value `lv` is an encoded object (or [t |-> "absent"]), `alt` the same after one
   percent-decoding (path values are stored already quoted by the pipeline; Appendix D) *)
ParamsAt(op, loc) == {i \in DOMAIN op.params : op.params[i].loc = loc}
CoercedBoth(defs, lv, alt, name, sch) ==
  LET a == CoercedV(defs, ObjGet(lv, name), sch, "request")
      b == IF alt.t = "obj" /\ ObjHas(alt, name) THEN CoercedV(defs, ObjGet(alt, name), sch, "request") ELSE a
  IN IF a = b THEN a ELSE "U"
(* a parameter described by `content: {application/json: ..}` carries JSON text: the projection has parsed it, the parsed value is
   judged as a JSON value (no string coercion); text that is not JSON arrives as [t |-> "opaque"] => "U" *)
ParamVerdict(op, lv, alt, q) ==
  IF Fld(q, "json", FALSE) THEN ValidD(op.defs, q.schema, ObjGet(lv, q.name), "request", op.dia)
  ELSE CoercedBoth(op.defs, lv, alt, q.name, q.schema)
(* `given` = the keys of this location that the CALLER supplied explicitly (as_strategy(headers={...})): they are not generated content.
   An undeclared key among them is ignored; a GENERATED undeclared key makes the location undecided (the standard's and the
   implementation's reading of "extra parameter" differ, DESIGN Appendix D). *)
PartVerdict(op, lv, alt, loc, given) ==
  LET ps == ParamsAt(op, loc)
      has(n) == lv.t = "obj" /\ ObjHas(lv, n)
  IN IF lv.t \notin {"obj", "absent"} THEN "U"
     ELSE IF lv.t = "obj" /\ DupKeys(lv) THEN "U"
     ELSE IF \E i \in ps : op.params[i].required /\ ~has(op.params[i].name) THEN "F"            \* missing required parameter
     ELSE IF \E i \in ps : has(op.params[i].name) /\ ParamVerdict(op, lv, alt, op.params[i]) = "F" THEN "F"
     ELSE IF \E i \in ps : has(op.params[i].name) /\ ParamVerdict(op, lv, alt, op.params[i]) = "U" THEN "U"
     ELSE IF lv.t = "obj" /\ \E j \in DOMAIN lv.k : (~\E i \in ps : op.params[i].name = lv.k[j]) /\ (~\E g \in DOMAIN given : given[g] = lv.k[j])
          THEN "U"   \* generated undeclared parameter: readings differ
     ELSE "T"
(* the body: absent, or a value judged against the alternative of the case's media type *)
BodyVerdict(op, c) ==
  IF Len(op.bodies) = 0 THEN (IF c.hasBody THEN "U" ELSE "T")
  ELSE IF ~c.hasBody THEN (IF \A i \in DOMAIN op.bodies : op.bodies[i].required THEN "F" ELSE "T")
  ELSE LET m == {i \in DOMAIN op.bodies : op.bodies[i].media = c.media} IN
       IF m = {} THEN "U"
       ELSE LET r == {ValidD(op.defs, op.bodies[i].schema, c.body, "request", op.dia) : i \in m} IN
            IF r = {"T"} THEN "T" ELSE IF r = {"F"} THEN "F" ELSE "U"
Parts == Locations \cup {"body"}
GivenKeys(c, part) == IF Has(c, "given") THEN c.given[part] ELSE <<>>
Verdict(op, c, part) == IF part = "body" THEN BodyVerdict(op, c) ELSE PartVerdict(op, c.parts[part], c.alt[part], part, GivenKeys(c, part))
Present(c, part) == IF part = "body" THEN c.hasBody ELSE c.parts[part].t # "absent"

(* ---- C03: value level ---- *)
RestrictTo(s, keys) == [k \in (DOMAIN s \cap keys) \cup {"sk"} |-> s[k]]
RECURSIVE Branches(_, _, _)
Branches(defs, s, n) ==          \* sequence of the sub-schemas a description may talk about: through $ref and combinator branches;
  LET d == Deref(defs, s) IN     \* `nullable` is read as the implicit alternative {type: null}
  IF n = 0 \/ d.sk # "schema" THEN <<d>>
  ELSE <<d>> \o (IF Fld(d, "nullable", FALSE) THEN <<[sk |-> "schema", type |-> <<"null">>]>> ELSE <<>>)
       \o FlattenSeq([j \in 1..3 |-> LET k == <<"allOf", "anyOf", "oneOf">>[j] IN
                                     IF Has(d, k) THEN FlattenSeq([i \in DOMAIN d[k] |-> Branches(defs, d[k][i], n - 1)]) ELSE <<>>])
KwKeys(kw) == CASE kw = "type" -> {"type", "nullable"} [] kw = "enum" -> {"enum", "const"}
                [] kw = "maximum" -> {"maximum", "exclMax", "xMax"} [] kw = "minimum" -> {"minimum", "exclMin", "xMin"}
                [] OTHER -> {kw}
KwRejects(defs, b, kw, name, v, dia) ==
  IF b.sk # "schema" THEN "U"
  ELSE IF kw = "required" THEN B3(Has(b, "required") /\ (\E i \in DOMAIN b.required : b.required[i] = name) /\ v.t = "obj" /\ ~ObjHas(v, name))
  ELSE IF kw = "additional" THEN B3(v.t = "obj" /\ Has(b, "addProps") /\ \E i \in DOMAIN v.k : PropIdx(b, v.k[i]) = {} /\ ValidD(defs, b.addProps, v.v[i], "request", dia) = "F")
  ELSE IF ((DOMAIN b) \cap KwKeys(kw)) \ {"nullable"} = {} THEN "F"
  ELSE Not3(ValidD(defs, RestrictTo(b, KwKeys(kw)), v, "request", dia))
RECURSIVE ViolatesAs(_, _, _, _, _)
ViolatesAs(defs, s, steps, v, dia) ==    \* does v violate s the way the (parsed) description `steps` says?  "T" | "F" | "U"
  IF steps = <<>> THEN "T"
  ELSE LET st == Head(steps)
           bs == Branches(defs, s, 3)
       IN IF v.t = "opaque" \/ st.k = "unknown" THEN "U"
          ELSE IF st.k = "kw" THEN
                 LET r == Any3([j \in DOMAIN bs |-> KwRejects(defs, bs[j], st.kw, st.name, v, dia)]) IN
                 (* several allOf members may legitimately be merged into one equivalent schema before values are derived,
                    so the keyword named need not occur literally: undecided rather than a mismatch *)
                 IF r = "F" /\ \E j \in DOMAIN bs : bs[j].sk = "schema" /\ Has(bs[j], "allOf") /\ Len(bs[j].allOf) > 1 THEN "U" ELSE r
          ELSE IF st.k = "prop" THEN
                 IF v.t # "obj" \/ ~ObjHas(v, st.name) THEN "F"
                 ELSE Any3([j \in {j \in DOMAIN bs : bs[j].sk = "schema" /\ PropIdx(bs[j], st.name) # {}} |->
                              ViolatesAs(defs, bs[j].props.v[CHOOSE q \in PropIdx(bs[j], st.name) : TRUE], Tail(steps), ObjGet(v, st.name), dia)])
          ELSE IF st.k = "items" THEN
                 IF v.t # "arr" THEN "F"
                 ELSE Any3([j \in {j \in DOMAIN bs : bs[j].sk = "schema" /\ Has(bs[j], "items")} |->
                              Any3([i \in DOMAIN v.v |-> ViolatesAs(defs, bs[j].items, Tail(steps), v.v[i], dia)])])
          ELSE "U"
(* Any3 over a function with an arbitrary finite domain works as for sequences (it only quantifies over DOMAIN) *)
C03_Value(o) ==      \* o = [defs, schema, dia, value, mode, steps, exempt]; result: "ok" or the rule that fails
  IF o.exempt THEN "ok"
  ELSE LET r == ValidD(o.defs, o.schema, o.value, "request", o.dia) IN
       IF o.mode = "positive" THEN (IF r = "F" THEN "valid-label-invalid-value" ELSE "ok")
       ELSE IF r = "T" THEN "invalid-label-valid-value"
       ELSE IF r = "F" /\ ViolatesAs(o.defs, o.schema, o.steps, o.value, o.dia) = "F" THEN "description-mismatch"
       ELSE "ok"           \* (invalidity undecided => the manner of the violation is undecided too)
(* ---- C03: case level ---- *)
C03_Case(op, c, vs) ==             \* vs = [p \in Parts |-> Verdict(op, c, p)]
  LET structural == c.dup \/ ~\E m \in DOMAIN op.methods : op.methods[m] = c.method      \* duplicated parameter / method not documented for the path
      someInvalid == \E p \in Parts : vs[p] = "F"
      allValid == \A p \in Parts : vs[p] = "T"
  IN IF c.exempt THEN "ok"
     ELSE IF c.labels.case = "negative" /\ allValid /\ ~structural THEN "case-negative-nothing-invalid"
     ELSE IF c.labels.case = "positive" /\ (someInvalid \/ structural) THEN "case-positive-something-invalid"
     ELSE IF \E p \in Parts : c.labels[p] = "positive" /\ vs[p] = "F" THEN "part-positive-invalid"
     ELSE IF \E p \in Parts : c.labels[p] = "negative" /\ vs[p] = "T" /\ ~(p = "query" /\ c.dup) THEN "part-negative-valid"
     ELSE "ok"

(* ---- C01 ---- *)
RECURSIVE AllText(_)
AllText(v) ==      \* every code point of every string (keys included) of a value
  CASE v.t = "str" -> {v.v[i] : i \in DOMAIN v.v}
    [] v.t = "arr" -> UNION {AllText(v.v[i]) : i \in DOMAIN v.v}
    [] v.t = "obj" -> UNION {AllText(v.v[i]) : i \in DOMAIN v.v} \cup UNION {{v.k[i][j] : j \in DOMAIN v.k[i]} : i \in DOMAIN v.k}
    [] OTHER -> {}
CaseText(c) == UNION {AllText(c.parts[l]) : l \in Locations} \cup (IF c.hasBody THEN AllText(c.body) ELSE {})
C01_Case(op, c, vs) ==
  IF c.labels.case # "positive" THEN "case-not-labelled-positive"
  ELSE IF \E p \in Parts : Present(c, p) /\ c.labels[p] = "negative" THEN "part-labelled-negative"
  ELSE IF \E p \in Locations : vs[p] = "F" THEN "parameters-do-not-conform"
  ELSE IF vs["body"] = "F" THEN "body-does-not-conform"
  ELSE IF ~op.cfg.allow_x00 /\ 0 \in CaseText(c) THEN "nul-character"
  ELSE IF op.cfg.codec = "ascii" /\ \E x \in CaseText(c) : x > 127 THEN "outside-codec"
  ELSE IF op.cfg.codec = "latin-1" /\ \E x \in CaseText(c) : x > 255 THEN "outside-codec"
  ELSE IF op.cfg.codec = "utf-8" /\ \E x \in CaseText(c) : x >= 55296 /\ x <= 57343 THEN "outside-codec"
  ELSE "ok"
(* ---- C02 ---- *)
C02_Case(op, c, vs) ==          \* the SET of rules the case breaks (independent clauses of the property)
  (IF c.labels.case # "negative" THEN {"case-not-labelled-negative"} ELSE {})
  \cup (IF ~\E p \in Parts : c.labels[p] = "negative" /\ Present(c, p) THEN {"no-present-part-labelled-negative"} ELSE {})
  \cup (IF \E p \in Parts : c.labels[p] = "negative" /\ ~Present(c, p) THEN {"part-absent-but-labelled"} ELSE {})
  \cup (IF \E p \in Parts : c.labels[p] = "negative" /\ Present(c, p) /\ vs[p] = "T" THEN {"valid-labelled-negative"} ELSE {})
  \cup (IF \E p \in Parts : c.labels[p] = "positive" /\ vs[p] = "F" THEN {"invalid-labelled-positive"} ELSE {})

(* ---- outcome rules: witnesses from a bounded universe, so "satisfiable"/"negatable" are claimed only with a witness ---- *)
StrU == {<<>>, <<97>>, <<97, 98>>, <<97, 98, 99>>, <<97, 98, 99, 100>>, <<49, 50>>, <<49, 50, 51>>, <<65, 98>>, <<98, 98>>, <<98, 99>>, <<97, 48>>,
         <<50, 48, 50, 48, 45, 48, 49, 45, 51, 49>>,
         <<49, 50, 51, 52, 53, 54, 55, 56, 45, 49, 50, 51, 52, 45, 53, 54, 55, 56, 45, 49, 50, 51, 52, 45, 53, 54, 55, 56, 49, 50, 51, 52, 53, 54, 55, 56>>}
SmallU == <<I(0), I(1), I(3), Sv(<<97>>), Sv(<<97, 98>>), Nul>>
Arr(items) == [t |-> "arr", v |-> items]
Obj(ks, vs) == [t |-> "obj", k |-> ks, v |-> vs]
(* \E over the bounded universe of body values, by sort (no heterogeneous sets) *)
ExistsBodyU(Pr(_)) ==
  \/ (\E n \in -1..5 : Pr(I(n)))
  \/ (\E b \in BOOLEAN : Pr(Bv(b)))
  \/ Pr(Nul)
  \/ (\E s \in StrU : Pr(Sv(s)))
  \/ Pr(Arr(<<>>))
  \/ (\E a \in DOMAIN SmallU : Pr(Arr(<<SmallU[a]>>)))
  \/ (\E a \in DOMAIN SmallU, b \in DOMAIN SmallU : Pr(Arr(<<SmallU[a], SmallU[b]>>)))
  \/ Pr(Obj(<<>>, <<>>))
  \/ (\E kk \in {ka, kb, <<122>>}, a \in DOMAIN SmallU : Pr(Obj(<<kk>>, <<SmallU[a]>>)))
  \/ (\E a \in DOMAIN SmallU, b \in DOMAIN SmallU : Pr(Obj(<<ka, kb>>, <<SmallU[a], SmallU[b]>>)))
Sendable(loc, txt) == IF loc = "path" THEN txt # <<>> /\ ~\E i \in DOMAIN txt : txt[i] \in {47, 123, 125} ELSE TRUE
ParamSat(op, p) == \E s \in StrU : Sendable(p.loc, s) /\ CoercedD(op.defs, s, p.schema, "request") = "T"
ParamNeg(op, p) == (p.required /\ p.loc = "query")       \* omitting a required query parameter; path values cannot be omitted, and the
                   \/ \E s \in StrU : Sendable(p.loc, s) /\ CoercedD(op.defs, s, p.schema, "request") = "F"    \* property itself lists string headers as not negatable
BodySat(op, b) == LET Pr(v) == ValidD(op.defs, b.schema, v, "request", op.dia) = "T" IN ExistsBodyU(Pr)
BodyNeg(op, b) == LET Pr(v) == ValidD(op.defs, b.schema, v, "request", op.dia) = "F" IN ExistsBodyU(Pr)
Satisfiable(op) == (\A i \in DOMAIN op.params : ParamSat(op, op.params[i])) /\ (\A i \in DOMAIN op.bodies : BodySat(op, op.bodies[i]))
Negatable(op) == (\E i \in DOMAIN op.params : ParamNeg(op, op.params[i])) \/ (\E i \in DOMAIN op.bodies : BodyNeg(op, op.bodies[i]))
(* unambiguously NOT negatable (the property's own list): nothing declared at all, bodies that accept everything, plain
   string-typed path parameters and optional plain string-typed headers *)
PlainString(p) == p.schema = Ty("string")
NothingToNegate(op) == /\ \A i \in DOMAIN op.params : PlainString(op.params[i]) /\ (op.params[i].loc = "path" \/ (op.params[i].loc = "header" /\ ~op.params[i].required))
                       /\ \A i \in DOMAIN op.bodies : op.bodies[i].schema = S0
C01_Outcome(op, outcome_) == IF outcome_ \in {"unsat", "error"} /\ Satisfiable(op) THEN "satisfiable-but-" \o outcome_ ELSE "ok"   \* no cases although every input admits a value
C02_Outcome(op, outcome_, modesNegOnly) ==
  IF outcome_ \in {"unsat", "skipped"} /\ Negatable(op) /\ ~NothingToNegate(op) THEN "negatable-but-no-cases"
  ELSE IF modesNegOnly /\ NothingToNegate(op) /\ outcome_ # "skipped" THEN "not-negatable-not-skipped"
  ELSE "ok"

(* ------------------------------------------------------------------------- *)
(* Design-level checks of the specification itself (TLC, every descriptor)   *)
(* ------------------------------------------------------------------------- *)
TypeOK == /\ desc.kind \in {"schema", "op", "history"} /\ desc.dialect \in AllD
          /\ outcome \in {"new", "values", "cases", "skipped", "unsat"}
          /\ (desc.kind = "op" => \A i \in DOMAIN desc.params : desc.params[i].loc \in Locations)
(* the family stays inside the oracle's fragment: no probe value is judged "U" for a family schema without a pattern subtlety *)
Probe == <<I(0), I(1), I(4), Sv(<<97, 98>>), Sv(<<>>), Nul, Bv(TRUE), [t |-> "arr", v |-> <<I(1)>>], [t |-> "obj", k |-> <<ka>>, v |-> <<I(1)>>]>>
DefsOf(d) == IF d.defs = NoRefDefs THEN NoDefs ELSE d.defs
InFragment == desc.kind = "schema" =>
                \A j \in DOMAIN Probe : ValidD(DefsOf(desc), desc.schema, Probe[j], "request", DiaOf(desc.dialect)) # "U"
                                           \/ (Probe[j].t = "null" /\ Has(desc.schema, "nullable")) \/ Has(desc.schema, "format")
(* numeric leaves: the oracle's satisfiability over -1..5 and halves equals interval arithmetic (vacuity / sanity of the witness search) *)
NumericSat == (desc.kind = "schema" /\ desc.group = "numeric") =>
   LET s == desc.schema
       lo == IF Has(s, "minimum") THEN (IF Fld(s, "exclMin", FALSE) THEN s.minimum + 1 ELSE s.minimum) ELSE -1
       hi == IF Has(s, "maximum") THEN (IF Fld(s, "exclMax", FALSE) THEN s.maximum - 1 ELSE s.maximum) ELSE 5
       m == Fld(s, "multipleOf", 1)
   IN (\E n \in -1..5 : ValidD(NoDefs, s, I(n), "request", "d4") = "T") <=> (\E n \in lo..hi : n \in -1..5 /\ n % m = 0)
(* a parameter that is required, or typed integer/boolean/enum, can be violated; `{}` bodies cannot *)
OutcomeSanity == desc.kind = "op" => /\ (NothingToNegate(desc @@ [dia |-> "d4"]) => ~Negatable(desc @@ [dia |-> "d4"]))
                                     /\ (Satisfiable(desc @@ [dia |-> "d4"]) \/ (\E i \in DOMAIN desc.params : ~ParamSat(desc, desc.params[i]))
                                           \/ (\E j \in DOMAIN desc.bodies : ~BodySat(desc @@ [dia |-> "d4"], desc.bodies[j])))

Export == IF outcome # "new" THEN TRUE ELSE PrintT(<<"CASE", ToJson(desc)>>)
=============================================================================
