SPECIFICATION Spec
CONSTANTS
  W = 3
  NOps = 2
  K = 1
  MaxFail = 0
  NPhases = 1
  FixDrain = TRUE
  FixWorkerErr = TRUE
  AllowStop = TRUE
  AllowFault = FALSE
  AliveCheck = TRUE
  PhaseOn = {1, 2, 3, 4, 5}
  AllowCtrlC = FALSE
  MaxNFE = 0
  AllowInvalid = FALSE
INVARIANT ProtocolOK
INVARIANT ClosedAtEnd
INVARIANT NoProblemLost
INVARIANT ZeroMeansClean
INVARIANT AtMostOneAfterStop
INVARIANT MaxFailuresRespected
INVARIANT LaterPhasesSkipped
CHECK_DEADLOCK FALSE
