SPECIFICATION CSpec
CONSTANT Shared = TRUE
CONSTANT Rich = FALSE
INVARIANT OwnOperation
CHECK_DEADLOCK FALSE
