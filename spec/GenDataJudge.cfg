SPECIFICATION JSpec
CONSTANT Family = "judge"
CONSTANT Rich = FALSE
INVARIANT Report
CHECK_DEADLOCK FALSE
