SPECIFICATION JSpec
CONSTANT StrLen = 1
CONSTANT Rich = FALSE
INVARIANT Report
CHECK_DEADLOCK FALSE
