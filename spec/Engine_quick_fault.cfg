SPECIFICATION Spec
CONSTANTS
  W = 2
  NOps = 2
  K = 1
  MaxFail = 0
  NPhases = 2
  FixDrain = TRUE
  FixWorkerErr = TRUE
  AllowStop = FALSE
  AllowFault = TRUE
  AliveCheck = TRUE
INVARIANT ProtocolOK
INVARIANT ClosedAtEnd
INVARIANT NoProblemLost
INVARIANT ZeroMeansClean
INVARIANT AtMostOneAfterStop
INVARIANT MaxFailuresRespected
INVARIANT LaterPhasesSkipped
CHECK_DEADLOCK FALSE
