SPECIFICATION Spec
CONSTANT Labels = {1}
CONSTANT Versions = {1, 2}
CONSTANT ByContent = TRUE
CONSTANT MaxHist = 2
INVARIANT HistoryFree
INVARIANT Export
CHECK_DEADLOCK FALSE
