SPECIFICATION HSpec
CONSTANT MaxSteps = 4
INVARIANT CurIsFoldOfConfigSteps
INVARIANT DependsOnlyOnCurrent
INVARIANT SameCfgSameOutput
INVARIANT HExport
CHECK_DEADLOCK FALSE
