------------------------------ MODULE HooksConc ------------------------------
(***************************************************************************)
(* C19, concurrent generation: several worker threads generate cases for   *)
(* different operations of the same schema at the same time.  A draw for   *)
(* operation op is a sequence of steps                                     *)
(*    Start(t)   the draw creates / sets the hook context for op           *)
(*    Apply(t)   the hooks of the next container (path_parameters,         *)
(*               headers, cookies, query, body - in that order) are        *)
(*               applied: their apply_to / skip_for filters are evaluated  *)
(*               against, and the hook functions receive, the context      *)
(* The property: a hook is applied to exactly the operations matching its  *)
(* own filters - i.e. for a case of operation op the filters are evaluated *)
(* against op, whatever other threads do (OwnOperation, OwnFilter).        *)
(*                                                                         *)
(* Shared = TRUE models a design where all draws share ONE context object  *)
(* that Start re-points; TLC refutes it (vacuity guard: the model can      *)
(* express the defect, and its counterexample is the interleaving the      *)
(* driver forces on the real code).  Shared = FALSE (a context per draw)   *)
(* satisfies the invariants; its reachable states with thread 1 parked     *)
(* before container `park` and thread 2 just started are the schedules     *)
(* exported for replay.                                                    *)
(***************************************************************************)
EXTENDS HooksCatalogue, TLC, Json
CONSTANT Shared

Containers == <<"path_parameters", "headers", "cookies", "query", "body">>
NC == Len(Containers)
Kinds == {"before_generate", "filter", "map", "flatmap"}
ConcChains == {"C1", "C3"}
OpPairs == { <<1, 4>>, <<4, 1>>, <<2, 4>> }       \* operations of schema A the two threads generate for
Sel == [c \in ConcChains |-> [o \in 1..NOps |-> Selected(Ops[o], FilterSetOf(c))]]
ASSUME \A c \in ConcChains : \A p \in OpPairs : Sel[c][p[1]] # Sel[c][p[2]]     \* the filter tells the two operations apart

VARIABLES pc,     \* thread -> 0 (not started), k (next container to apply), NC + 1 (done)
          ctx,    \* the context(s): shared - the operation it points to; per draw - thread -> operation
          seen,   \* thread -> operations the hook evaluation saw, container by container
          desc    \* the filtered hook under observation: its container, kind, filter chain; and the operations of the threads
cvars == <<pc, ctx, seen, desc>>
Threads == {1, 2}
CInit == /\ pc = [t \in Threads |-> 0] /\ seen = [t \in Threads |-> << >>]
         /\ ctx = IF Shared THEN 0 ELSE [t \in Threads |-> 0]
         /\ desc \in [hc : 1..NC, kind : Kinds, chain : ConcChains, ops : OpPairs]
Cur(t) == IF Shared THEN ctx ELSE ctx[t]
Start(t) == /\ pc[t] = 0
            /\ ctx' = IF Shared THEN desc.ops[t] ELSE [ctx EXCEPT ![t] = desc.ops[t]]
            /\ pc' = [pc EXCEPT ![t] = 1] /\ UNCHANGED <<seen, desc>>
Apply(t) == /\ pc[t] \in 1..NC
            /\ seen' = [seen EXCEPT ![t] = Append(@, Cur(t))]
            /\ pc' = [pc EXCEPT ![t] = @ + 1] /\ UNCHANGED <<ctx, desc>>
CNext == \E t \in Threads : Start(t) \/ Apply(t)
CSpec == CInit /\ [][CNext]_cvars

(* every hook evaluation of a draw sees the draw's own operation *)
OwnOperation == \A t \in Threads : \A k \in 1..Len(seen[t]) : seen[t][k] = desc.ops[t]
(* hence the observed hook is applied to the case of thread t iff its own filter selects the operation of that case *)
OwnFilter == \A t \in Threads : Len(seen[t]) >= desc.hc => Sel[desc.chain][seen[t][desc.hc]] = Sel[desc.chain][desc.ops[t]]
Expected(t) == [op |-> desc.ops[t], applied |-> IF Sel[desc.chain][desc.ops[t]] THEN 1 ELSE 0]

(* schedules for replay: thread 1 is about to apply container `park` (<= the observed hook's container), thread 2 has just started *)
CExport == IF pc[2] = 1 /\ pc[1] \in 1..desc.hc
           THEN PrintT(<<"SCHED", ToJson([park |-> pc[1], container |-> Containers[desc.hc], parkContainer |-> Containers[pc[1]],
                                           kind |-> desc.kind, chain |-> desc.chain, chainDef |-> ChainDef[desc.chain], ops |-> desc.ops,
                                           expect |-> <<Expected(1), Expected(2)>>])>>)
           ELSE TRUE
=============================================================================
