-------------------------- MODULE ReportsYamlJudge --------------------------
(***************************************************************************)
(* Code -> spec for C16 (b).  One observation = one real cassette (raw     *)
(* lines, as indices into a pool of distinct lines), the HAR entry and the *)
(* JUnit well-formedness flag produced for one string placed in one field  *)
(* of one exchange, plus the delivered exchange x.  The cassette must be   *)
(* inside the emitter grammar, contain exactly one entry, and every field  *)
(* read back by the scanners must equal what was delivered.                *)
(***************************************************************************)
EXTENDS ReportsYaml, IOUtils
Obs == JsonDeserialize(IOEnv.OBS_FILE)
Pool == Obs.pool
Cases == Obs.cases
Scanned == [p \in 1..Len(Pool) |-> Scan(Pool[p])]
FlattenDoc(doc) == LET step(d, p) == DStep(d, Scanned[p]) IN FoldLeft(step, D0, doc)

VARIABLES i, ph
JInit == i \in 1..Len(Cases) /\ ph = 0 /\ str = <<>>
JNext == ph = 0 /\ ph' = 1 /\ UNCHANGED <<i, str>>      \* the verdict is computed on the successor state (by the worker threads)
JSpec == JInit /\ [][JNext]_<<i, ph, str>>
C == Cases[i]
(* with sanitisation on (uriExact = FALSE) the URI and header values may be redacted: they must be there and well-formed, their
   content is C15's subject *)
Redactable == {"uri", "request-header", "response-header"}
(* C.xs = the delivered exchanges in delivery order (one for the string family, many for a CLI run) *)
EntryVerdict(flat, n) ==
    LET x == C.xs[n]
        d == EntryDiffs(flat, n, x, C.preserve) IN
    (IF C.uriExact THEN d
     ELSE (d \ Redactable) \cup (IF Has(flat, Entry(n) \o <<P(K_request), P(K_uri)>>) THEN {} ELSE {"uri"}))
    \cup MetaDiffs(flat, n, x.meta)
VcrVerdict == IF ~C.vcr.written THEN {<<"vcr", 0, "missing">>}
              ELSE LET flat == FlattenDoc(C.vcr.doc) IN
                   IF ~flat.ok THEN {<<"vcr", flat.bad, "malformed">>}
                   ELSE (IF NEntries(flat) = Len(C.xs) THEN {} ELSE {<<"vcr", NEntries(flat), "count">>})
                        \cup UNION {{<<"vcr", n, tag>> : tag \in EntryVerdict(flat, n)}
                                    : n \in 1..(IF NEntries(flat) < Len(C.xs) THEN NEntries(flat) ELSE Len(C.xs))}
                        \cup (IF C.command.has /\ ~(/\ Len(Values(flat, <<P(K_command)>>)) = 1
                                                     /\ (C.command.exact => Val(flat, <<P(K_command)>>) = C.command.v))
                              THEN {<<"vcr", 0, "command">>} ELSE {})
HarVerdict == IF ~C.har.ok THEN {<<"har", 0, "malformed">>}
              ELSE (IF Len(C.har.entries) = Len(C.xs) THEN {} ELSE {<<"har", Len(C.har.entries), "count">>})
                   \cup UNION {{<<"har", n, tag>> : tag \in (IF C.uriExact THEN HarDiffs(C.har.entries[n], C.xs[n], C.preserve)
                                                               ELSE HarDiffs(C.har.entries[n], C.xs[n], C.preserve) \ Redactable)}
                               : n \in 1..(IF Len(C.har.entries) < Len(C.xs) THEN Len(C.har.entries) ELSE Len(C.xs))}
(* a lone surrogate is not a Unicode scalar value - YAML cannot represent it (readers disagree on the escape "\uD800");
   the cassette of a text field that contains one is outside the judged fragment *)
TextFields == {"title", "message", "cov-description", "command"}
VcrJudged == ~(C.field \in TextFields /\ \E j \in 1..Len(C.s) : C.s[j] >= 55296 /\ C.s[j] <= 57343)
Verdict == IF C.crashAt # 0 THEN {<<"crash", C.crashAt, C.crashSite>>}
           ELSE (IF VcrJudged THEN VcrVerdict ELSE {}) \cup HarVerdict \cup (IF C.junitOk THEN {} ELSE {<<"junit", 0, "malformed">>})
Report == IF ph = 0 \/ Verdict = {} THEN TRUE ELSE PrintT(<<"DISAGREE", ToJson([i |-> i, v |-> Verdict])>>)
=============================================================================
