-------------------------- MODULE ReportsYamlJudge --------------------------
(***************************************************************************)
(* Code -> spec for C16 (b).  One observation = one real cassette (raw     *)
(* lines, as indices into a pool of distinct lines), the HAR entry and the *)
(* JUnit well-formedness flag produced for one string placed in one field  *)
(* of one exchange, plus the delivered exchange x.  The cassette must be   *)
(* inside the emitter grammar, contain exactly one entry, and every field  *)
(* read back by the scanners must equal what was delivered.                *)
(***************************************************************************)
EXTENDS ReportsYaml, IOUtils
Obs == JsonDeserialize(IOEnv.OBS_FILE)
Pool == Obs.pool
Cases == Obs.cases
Scanned == [p \in 1..Len(Pool) |-> Scan(Pool[p])]
FlattenDoc(doc) == LET step(d, p) == DStep(d, Scanned[p]) IN FoldLeft(step, D0, doc)

VARIABLES i, ph
JInit == i \in 1..Len(Cases) /\ ph = 0 /\ str = <<>>
JNext == ph = 0 /\ ph' = 1 /\ UNCHANGED <<i, str>>      \* the verdict is computed on the successor state (by the worker threads)
JSpec == JInit /\ [][JNext]_<<i, ph, str>>
C == Cases[i]
VcrVerdict == IF ~C.vcr.written THEN {<<"vcr", 0, "missing">>}
              ELSE LET flat == FlattenDoc(C.vcr.doc) IN
                   IF ~flat.ok THEN {<<"vcr", flat.bad, "malformed">>}
                   ELSE (IF NEntries(flat) = 1 THEN {} ELSE {<<"vcr", NEntries(flat), "count">>})
                        \cup {<<"vcr", 1, tag>> : tag \in
                                (IF C.uriExact THEN EntryDiffs(flat, 1, C.x, C.preserve)
                                 ELSE (EntryDiffs(flat, 1, C.x, C.preserve) \ {"uri"})
                                      \cup (IF Has(flat, Entry(1) \o <<P(K_request), P(K_uri)>>) THEN {} ELSE {"uri"}))
                                \cup MetaDiffs(flat, 1, "coverage")
                                \cup (IF C.x.command.has /\ ~(Len(Values(flat, <<P(K_command)>>)) = 1 /\ Val(flat, <<P(K_command)>>) = C.x.command.v)
                                      THEN {"command"} ELSE {})}
HarVerdict == IF ~C.har.ok THEN {<<"har", 0, "malformed">>}
              ELSE IF Len(C.har.entries) # 1 THEN {<<"har", Len(C.har.entries), "count">>}
              ELSE {<<"har", 1, tag>> : tag \in (IF C.uriExact THEN HarDiffs(C.har.entries[1], C.x, C.preserve)
                                                  ELSE HarDiffs(C.har.entries[1], C.x, C.preserve) \ {"uri"})}
(* a lone surrogate is not a Unicode scalar value - YAML cannot represent it (readers disagree on the escape "\uD800");
   the cassette of a text field that contains one is outside the judged fragment *)
TextFields == {"title", "message", "cov-description", "command"}
VcrJudged == ~(C.field \in TextFields /\ \E j \in 1..Len(C.s) : C.s[j] >= 55296 /\ C.s[j] <= 57343)
Verdict == IF C.crashAt # 0 THEN {<<"crash", C.crashAt, C.crashSite>>}
           ELSE (IF VcrJudged THEN VcrVerdict ELSE {}) \cup HarVerdict \cup (IF C.junitOk THEN {} ELSE {<<"junit", 0, "malformed">>})
Report == IF ph = 0 \/ Verdict = {} THEN TRUE ELSE PrintT(<<"DISAGREE", ToJson([i |-> i, v |-> Verdict])>>)
=============================================================================
