---------------------------- MODULE OpCacheJudge ----------------------------
(* Code -> spec: what the real schema returned for every access of a history is judged against OpCache's oracle.     *)
(* One initial state per observation; Report prints <<"DISAGREE", observation, access>> for every rejected access.  *)
EXTENDS OpCache, IOUtils
Obs == JsonDeserialize(IOEnv.OBS_FILE)   \* sequence of [d, h, judged, obs: sequence of [items, depth]]
VARIABLE i
jvars == <<doc, ser, lay, hist, ops, byKey, byId, byRef, ret, i>>
JInit == /\ i \in 1..Len(Obs) /\ doc = Obs[i].d /\ hist = Obs[i].h
         /\ ser = "json" /\ lay = "single" /\ ops = <<>> /\ ret = <<>> /\ byKey = None /\ byId = None /\ byRef = None
JNext == UNCHANGED jvars
JSpec == JInit /\ [][JNext]_jvars

ToSet(s) == {s[x] : x \in 1..Len(s)}
NoDup(s) == Cardinality(ToSet(s)) = Len(s)
KeysOK(s, e) == /\ \A x \in 1..Len(s) : s[x][1] = "str"          \* mapping keys stay strings ...
                /\ {s[x][2] : x \in 1..Len(s)} = e /\ Len(s) = Cardinality(e)
Key(p) == [name |-> p.name, loc |-> p.loc]
Judgeable(s, e) == {p \in ToSet(s) : Key(p) \notin e.free}
OncePerFreeKey(s, e) == \A k \in e.free : Cardinality({x \in 1..Len(s) : Key(s[x]) = k}) = 1
MatchOk(it, e) == /\ it.ok /\ it.path = e.path /\ it.method = e.method
                  /\ it.ref = <<e.esc, e.method>>                          \* the operation's own JSON reference leads back to it
                  /\ Judgeable(it.params, e) = e.params /\ NoDup(it.params) /\ OncePerFreeKey(it.params, e)   \* what generation is built from
                  /\ Judgeable(it.plist, e) = e.params /\ NoDup(it.plist) /\ OncePerFreeKey(it.plist, e)     \* the containers themselves
                  /\ ToSet(it.bodies) = e.bodies /\ NoDup(it.bodies)
                  /\ KeysOK(it.resp, e.resp) /\ KeysOK(it.props, e.props)
                  /\ (e.date # "" => it.date = <<"str", e.date>>)        \* ... and date-like scalars are not dates
Match(it, e, viaIter) == IF e.ok THEN MatchOk(it, e) ELSE ~it.ok /\ (viaIter => it.path = e.path)
About(it, d, t) == it.path = PathOf(d, t) /\ it.method \in {MethodOf(t), ""}
AccessOK(d, a, judged, o) ==
    /\ o.depth = 0                                     \* the resolver's scope stack is back where it was
    /\ judged =>
         IF a.k = "iter"
         THEN /\ \A t \in Ops(d) : LET ab == {x \in 1..Len(o.items) : About(o.items[x], d, t)} IN
                                      Cardinality(ab) = 1 /\ \A x \in ab : Match(o.items[x], Outcome(d, t), TRUE)
              /\ \A x \in 1..Len(o.items) : \E t \in Ops(d) : About(o.items[x], d, t)
         ELSE IF NoSuchId(d, a) THEN Len(o.items) = 1 /\ ~o.items[1].ok
         ELSE Len(o.items) = 1 /\ Match(o.items[1], Outcome(d, a.t), FALSE)
Report == \A j \in 1..Len(hist) :
            IF AccessOK(doc, hist[j], Obs[i].judged[j], Obs[i].obs[j]) THEN TRUE ELSE PrintT(<<"DISAGREE", i, j>>)
=============================================================================
