SPECIFICATION Spec
CONSTANT Labels = {1}
CONSTANT Versions = {1, 2}
CONSTANT ByContent = FALSE
CONSTANT MaxHist = 2
INVARIANT HistoryFree
CHECK_DEADLOCK FALSE
