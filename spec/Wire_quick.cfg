SPECIFICATION Spec
CONSTANT StrLen = 1
CONSTANT Rich = FALSE
INVARIANT TypeOK
INVARIANT RoundTrip
INVARIANT CodecRoundTrip
INVARIANT JsonRoundTrip
INVARIANT MediaTypeSane
INVARIANT MultipartRoundTrip
INVARIANT HistSane
INVARIANT CoerceJsonLike
INVARIANT Export
CHECK_DEADLOCK FALSE
