SPECIFICATION JSpec
CONSTANT PtrLen = 0
CONSTANT Rich = FALSE
INVARIANT Report
CHECK_DEADLOCK FALSE
