SPECIFICATION HSpec
CONSTANT MaxSteps = 3
INVARIANT CurIsFoldOfConfigSteps
INVARIANT DependsOnlyOnCurrent
INVARIANT SameCfgSameOutput
INVARIANT HExport
CHECK_DEADLOCK FALSE
