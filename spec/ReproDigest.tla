---------------------------- MODULE ReproDigest ----------------------------
(***************************************************************************)
(* C13, worker clause in derandomised mode ("the number of workers affects *)
(* speed, not what is tested").  Without an explicit seed the random       *)
(* stream of an operation is derived from a digest that the worker WRITES  *)
(* onto the operation's test object right before the test starts and that  *)
(* the test framework READS when it starts the test.                       *)
(*                                                                         *)
(* Tiny design model: workers take operations from a shared list; for its  *)
(* operation a worker does Write (digest of the operation -> slot) and     *)
(* then Read (stream of the operation := content of the slot).  Shared =   *)
(* FALSE: one slot per operation; Shared = TRUE: one slot for all.         *)
(* StreamIsOwn (every operation is tested with the stream of its own       *)
(* digest) holds for per-operation slots and is refuted by TLC for the     *)
(* shared slot - the counterexample is the schedule the driver forces on   *)
(* the real engine: every worker has written before any worker reads.      *)
(***************************************************************************)
EXTENDS Integers, FiniteSets, TLC
CONSTANTS Workers, Ops, Shared
VARIABLES todo, holding, pc, slot, stream
vars == <<todo, holding, pc, slot, stream>>
None == 0
SlotOf(o) == IF Shared THEN 1 ELSE o
Init == /\ todo = Ops /\ holding = [w \in Workers |-> None] /\ pc = [w \in Workers |-> "idle"]
        /\ slot = [s \in {1} \cup Ops |-> None] /\ stream = [o \in Ops |-> None]
Take(w) == /\ pc[w] = "idle" /\ todo # {}
           /\ \E o \in todo : /\ o = CHOOSE x \in todo : \A y \in todo : x <= y      \* the producer hands operations out in order
                              /\ todo' = todo \ {o} /\ holding' = [holding EXCEPT ![w] = o]
           /\ pc' = [pc EXCEPT ![w] = "write"] /\ UNCHANGED <<slot, stream>>
Write(w) == /\ pc[w] = "write"
            /\ slot' = [slot EXCEPT ![SlotOf(holding[w])] = holding[w]]               \* digest of the operation
            /\ pc' = [pc EXCEPT ![w] = "read"] /\ UNCHANGED <<todo, holding, stream>>
Read(w) == /\ pc[w] = "read"
           /\ stream' = [stream EXCEPT ![holding[w]] = slot[SlotOf(holding[w])]]      \* the stream the operation is tested with
           /\ pc' = [pc EXCEPT ![w] = "idle"] /\ holding' = [holding EXCEPT ![w] = None]
           /\ UNCHANGED <<todo, slot>>
Next == \E w \in Workers : Take(w) \/ Write(w) \/ Read(w)
Spec == Init /\ [][Next]_vars
StreamIsOwn == \A o \in Ops : stream[o] \in {None, o}
=============================================================================
