------------------------------ MODULE Filters ------------------------------
(***************************************************************************)
(* C07 - exactly the selected API operations are tested, in every phase.   *)
(*                                                                         *)
(* State: the front door through which the user states the filters, the    *)
(* filter set built so far (include / exclude filters, each a conjunction  *)
(* of atoms from the catalogue, referred to by number) and - for the lazy  *)
(* fixture door - the filters the fixture schema already carries.          *)
(* One action per filter-construction call:                                *)
(*    Include(f)  schema.include(...)      | --include-* | lazy.include()  *)
(*    Exclude(f)  schema.exclude(...)      | --exclude-* | lazy.exclude()  *)
(*                                                                         *)
(* The oracle is FiltersMatch!SelectedVerdict, i.e. the property text:     *)
(* selected <=> (no include filter \/ some include filter matches) /\ no   *)
(* exclude filter matches.  Expected observations:                         *)
(*   - every site that offers operations for testing offers exactly the    *)
(*     selected ones (stateful: only selected ones, as source or target);  *)
(*   - statistic = (|selected|, |operations|), links = (links whose source *)
(*     and target are selected, all links).                                *)
(* "U" (the text does not decide the operation) is exported as -1 and not  *)
(* judged.                                                                 *)
(***************************************************************************)
EXTENDS FiltersMatch, TLC, Json

CONSTANTS MaxIncl, MaxExcl, MaxTotal,   \* bounds on the filter set (python and CLI doors)
          LazyTotal                     \* bound on the lazy-fixture door (on top of the fixture's own filters)

---------------------------------------------------------------------------
(* universe: shared path items (/u, /u/{id} with several methods and shared parameters), one path item reached through    *)
(* a $ref by two paths (/s1, /s2), operations without tags / operationId, deprecated true / false / absent                 *)
T_u    == <<"/","u">>
T_uid  == <<"/","u","/","{","i","d","}">>
T_s1   == <<"/","s","1">>
T_s2   == <<"/","s","2">>
T_users == <<"u","s","e","r","s">>
T_admin == <<"a","d","m","i","n">>
T_listUsers  == <<"l","i","s","t","U","s","e","r","s">>
T_createUser == <<"c","r","e","a","t","e","U","s","e","r">>
T_getUser    == <<"g","e","t","U","s","e","r">>
T_deleteUser == <<"d","e","l","e","t","e","U","s","e","r">>
M_get == <<"g","e","t">>
M_post == <<"p","o","s","t">>
M_delete == <<"d","e","l","e","t","e">>
M_patch == <<"p","a","t","c","h">>
(* the operation's own (query) parameters, each written in place or as a $ref to a reusable parameter object kept under     *)
(* components (`#/components/parameters/..`, Swagger 2.0: `#/parameters/..`) - the usual layout of real-life documents        *)
T_force == <<"f","o","r","c","e">>
T_limit == <<"l","i","m","i","t">>
Par(n, via) == [name |-> n, via |-> via]
Op(m, p, tags, id, d, shared, params) ==
  [method |-> m, path |-> p, tags |-> tags, opid |-> id, depr |-> d, shared |-> shared, params |-> params]
Ops == << Op(M_get,    T_u,   <<T_users>>,          T_listUsers,  "absent", FALSE, <<Par(T_limit, "ref")>>),
          Op(M_post,   T_u,   <<T_admin, T_users>>, T_createUser, "absent", FALSE, << >>),
          Op(M_get,    T_uid, <<T_users>>,          T_getUser,    "false",  FALSE, <<Par(T_force, "inline")>>),
          Op(M_delete, T_uid, << >>,                T_deleteUser, "true",   FALSE, <<Par(T_force, "ref")>>),
          Op(M_patch,  T_uid, << >>,                << >>,        "absent", FALSE, <<Par(T_limit, "inline"), Par(T_force, "ref")>>),
          Op(M_get,    T_s1,  << >>,                << >>,        "absent", TRUE,  << >>),
          Op(M_get,    T_s2,  << >>,                << >>,        "absent", TRUE,  << >>) >>
NOps == Len(Ops)
(* links: source operation, target operation, how the target is referenced, and where the link is written: inline in the *)
(* response, as a $ref to a reusable link object, or inside a response that is itself a $ref to a reusable response        *)
Links == << [src |-> 1, tgt |-> 3, by |-> "operationId", via |-> "ref-link"],
            [src |-> 2, tgt |-> 3, by |-> "operationId", via |-> "inline"],
            [src |-> 2, tgt |-> 4, by |-> "operationRef", via |-> "inline"],
            [src |-> 5, tgt |-> 3, by |-> "operationRef", via |-> "ref-response"] >>
NLinks == Len(Links)

---------------------------------------------------------------------------
(* filter catalogue: path / method / name / tag / operation-id x {value, list, regex}, expressions, deprecated, conjunctions *)
V(by, v)      == [by |-> by, how |-> "value", v |-> v, vs |-> << >>]
L(by, vs)     == [by |-> by, how |-> "list", v |-> << >>, vs |-> vs]
R(by, how, v) == [by |-> by, how |-> how, v |-> v, vs |-> << >>]
E(how, ptr, v) == [by |-> "expr", how |-> how, v |-> v, vs |-> <<ptr>>]
P_opid == <<"/","o","p","e","r","a","t","i","o","n","I","d">>
P_tag0 == <<"/","t","a","g","s","/","0">>
P_depr == <<"/","d","e","p","r","e","c","a","t","e","d">>
FilterDef ==
  << {V("path", T_u)},                                                          \*  1
     {L("path", <<T_uid, T_s1>>)},                                              \*  2
     {R("path", "prefix", <<"/","u","/">>)},                                    \*  3  ^/u/
     {V("method", <<"g","e","t">>)},                                            \*  4  lower-case spelling
     {V("method", <<"D","e","l","e","t","e">>)},                                \*  5  mixed-case spelling
     {L("method", << <<"p","o","s","t">>, <<"P","A","T","C","H">> >>)},         \*  6
     {R("method", "exact", <<"D","E","L","E","T","E">>)},                       \*  7  ^DELETE$
     {V("name", <<"G","E","T"," ","/","u">>)},                                  \*  8
     {L("name", << <<"D","E","L","E","T","E"," ">> \o T_uid, <<"G","E","T"," ">> \o T_s2 >>)},   \*  9
     {R("name", "suffix", <<"{","i","d","}">>)},                                \* 10  \{id\}$
     {V("tag", T_users)},                                                       \* 11
     {L("tag", <<T_admin, <<"n","o","n","e">> >>)},                             \* 12
     {R("tag", "prefix", <<"a","d","m">>)},                                     \* 13  ^adm
     {V("operation_id", T_getUser)},                                            \* 14
     {L("operation_id", <<T_createUser, T_deleteUser>>)},                       \* 15
     {R("operation_id", "infix", <<"U","s","e","r">>)},                         \* 16  User
     {E("eq_str", P_opid, T_getUser)},                                          \* 17  /operationId == "getUser"
     {E("ne_str", P_tag0, T_users)},                                            \* 18  /tags/0 != "users"   (U without tags)
     {E("eq_true", P_depr, << >>)},                                             \* 19  /deprecated == true
     {E("ne_true", P_depr, << >>)},                                             \* 20  /deprecated != true  (U when absent)
     {[by |-> "deprecated", how |-> "is", v |-> << >>, vs |-> << >>]},          \* 21  deprecated
     {V("method", <<"G","E","T">>), V("path", T_uid)},                          \* 22  conjunction of values
     {V("tag", T_users), R("method", "exact", <<"P","O","S","T">>)},            \* 23  conjunction value + regex
     {E("eq_raw", P_opid, T_createUser)},                                       \* 24  /operationId == createUser  (value without quotes)
     {E("eq_str", ParamPtr("0"), T_force)},                                     \* 25  /parameters/0/name == "force"  (inline or behind a $ref)
     {E("eq_str", ParamPtr("1"), T_force)} >>                                   \* 26  /parameters/1/name == "force"
NF == Len(FilterDef)
FilterIds == 1..NF
(* MatchTable[f][o]: verdict of catalogue filter f on operation o (constant, evaluated once) *)
MatchTable == [f \in FilterIds |-> [o \in 1..NOps |-> FilterVerdict(FilterDef[f], Ops[o])]]

(* filters a fixture schema may already carry when a lazy schema is derived from it: <<includes, excludes>> *)
BaseDef == << << {}, {} >>, << {}, {5} >>, << {11}, {} >>, << {}, {21} >>, << {4}, {1} >> >>
NBase == Len(BaseDef)

---------------------------------------------------------------------------
(* the oracle on filter ids *)
Sel(o, I, X) ==
  And3({ IF I = {} THEN "T" ELSE Or3({MatchTable[f][o] : f \in I}),
         Not3(Or3({MatchTable[f][o] : f \in X})) })
(* lazy fixture: the fixture's own filters and the lazy ones both apply; where "both apply" is ambiguous (include filters on *)
(* both sides: one filter set with more includes, or two successive selections) the text does not decide                    *)
SelLazy(o, b, I, X) ==
  LET joined == Sel(o, BaseDef[b][1] \cup I, BaseDef[b][2] \cup X)
      staged == And3({Sel(o, BaseDef[b][1], BaseDef[b][2]), Sel(o, I, X)})
  IN IF joined = staged THEN joined ELSE "U"
Verdict(door, b, I, X, o) == IF door = "lazy" THEN SelLazy(o, b, I, X) ELSE Sel(o, I, X)
Num(v) == IF v = "T" THEN 1 ELSE IF v = "F" THEN 0 ELSE -1
Expect(door, b, I, X) == [o \in 1..NOps |-> Num(Verdict(door, b, I, X, o))]
Count(S) == Cardinality(S)
ExpectStat(door, b, I, X) ==
  LET e == Expect(door, b, I, X)
      undecided == \E o \in 1..NOps : e[o] = -1
      linkUndecided == \E l \in 1..NLinks : e[Links[l].src] = -1 \/ e[Links[l].tgt] = -1
  IN [sel |-> IF undecided THEN -1 ELSE Count({o \in 1..NOps : e[o] = 1}),
      total |-> NOps,
      lsel |-> IF linkUndecided THEN -1 ELSE Count({l \in 1..NLinks : e[Links[l].src] = 1 /\ e[Links[l].tgt] = 1}),
      ltotal |-> NLinks]

(* The same abstract universe is written down in every supported dialect (OpenAPI 3.0, 3.1, Swagger 2.0 with x-links), and   *)
(* regular expressions are given as text or as compiled patterns; selection must not depend on either.  Both are assigned to *)
(* the elements by the spec so that every filter meets every dialect / form across the family.                               *)
RECURSIVE SumSet(_)
SumSet(S) == IF S = {} THEN 0 ELSE LET x == CHOOSE y \in S : TRUE IN x + SumSet(S \ {x})
Dialects == <<"oas30", "oas31", "swagger20">>
DialectOf(I, X) == Dialects[((SumSet(I) + 2 * SumSet(X) + Cardinality(X)) % 3) + 1]
RxFormOf(d, I, X) == IF d # "cli" /\ (SumSet(I \cup X) + Cardinality(I)) % 2 = 0 THEN "compiled" ELSE "text"

(* what the command line can say: value terms one flag each, one include filter made of the *-regex flags, one exclude     *)
(* filter per *-regex flag, one expression per side, --exclude-deprecated                                                   *)
IsValueFilter(f) == Cardinality(FilterDef[f]) = 1 /\ \A a \in FilterDef[f] : a.how = "value"
IsRegexFilter(f) == Cardinality(FilterDef[f]) = 1 /\ \A a \in FilterDef[f] : a.how \in {"prefix", "suffix", "infix", "exact"}
IsExprFilter(f)  == Cardinality(FilterDef[f]) = 1 /\ \A a \in FilterDef[f] : a.by = "expr"
IsDeprFilter(f)  == Cardinality(FilterDef[f]) = 1 /\ \A a \in FilterDef[f] : a.by = "deprecated"
ByOf(f) == (CHOOSE a \in FilterDef[f] : TRUE).by
CliExpressible(I, X) ==
  /\ \A f \in I : IsValueFilter(f) \/ IsRegexFilter(f) \/ IsExprFilter(f)
  /\ \A f \in X : IsValueFilter(f) \/ IsRegexFilter(f) \/ IsExprFilter(f) \/ IsDeprFilter(f)
  /\ Cardinality({f \in I : IsRegexFilter(f)}) <= 1
  /\ Cardinality({f \in I : IsExprFilter(f)}) <= 1
  /\ Cardinality({f \in X : IsExprFilter(f)}) <= 1
  /\ \A f, g \in X : (IsRegexFilter(f) /\ IsRegexFilter(g) /\ ByOf(f) = ByOf(g)) => f = g

---------------------------------------------------------------------------
VARIABLES door, base, incl, excl
vars == <<door, base, incl, excl>>
Init == /\ door \in {"py", "cli", "lazy"}
        /\ base \in 1..NBase /\ (door # "lazy" => base = 1)
        /\ incl = {} /\ excl = {}
Bound(i, e) == IF door = "lazy" THEN Cardinality(i) + Cardinality(e) <= LazyTotal
               ELSE Cardinality(i) <= MaxIncl /\ Cardinality(e) <= MaxExcl /\ Cardinality(i) + Cardinality(e) <= MaxTotal
(* expressions are a command-line feature; in the python API (eager and lazy) the same condition is a custom function given to  *)
(* include() / exclude() that reads the operation's resolved definition - the family has those for the parameter pointers.       *)
(* "deprecated" exists only as an exclusion (exclude(deprecated=True), --exclude-deprecated)                                     *)
IsParamExpr(f) == IsExprFilter(f) /\ \A a \in FilterDef[f] : a.vs[1] \in {ParamPtr("0"), ParamPtr("1")}
DoorHas(f) == IsExprFilter(f) => (door = "cli" \/ IsParamExpr(f))
(* ThroughRef[f][o]: the verdict of filter f on operation o is read from a parameter object written as a $ref (a feature of the *)
(* element for reports; the verdict itself does not depend on it)                                                                *)
ThroughRef == [f \in FilterIds |-> [o \in 1..NOps |->
                 \E a \in FilterDef[f] : a.by = "expr" /\ \E k \in 1..Len(Ops[o].params) :
                     a.vs[1] = ParamPtr(<<"0","1">>[k]) /\ Ops[o].params[k].via = "ref"]]
(* parameter pointers are used with `==` only: a Swagger 2.0 document writes the request body as one more parameter after them *)
ASSUME \A f \in FilterIds : IsParamExpr(f) => \A a \in FilterDef[f] : a.how = "eq_str"
ASSUME \A o \in 1..NOps : Len(Ops[o].params) <= 2
Include(f) == /\ f \notin incl \cup excl             \* the API rejects a filter that already exists
              /\ DoorHas(f) /\ ~IsDeprFilter(f)
              /\ Bound(incl \cup {f}, excl)
              /\ door = "cli" => CliExpressible(incl \cup {f}, excl)
              /\ incl' = incl \cup {f} /\ UNCHANGED <<door, base, excl>>
Exclude(f) == /\ f \notin incl \cup excl
              /\ DoorHas(f)
              /\ Bound(incl, excl \cup {f})
              /\ door = "cli" => CliExpressible(incl, excl \cup {f})
              /\ excl' = excl \cup {f} /\ UNCHANGED <<door, base, incl>>
Next == \E f \in FilterIds : Include(f) \/ Exclude(f)
Spec == Init /\ [][Next]_vars

---------------------------------------------------------------------------
(* design invariants *)
TypeOK == incl \subseteq FilterIds /\ excl \subseteq FilterIds /\ incl \cap excl = {} /\ base \in 1..NBase
(* an operation matched by an exclude filter is never selected, through any door *)
ExcludeWins == \A o \in 1..NOps : (\E f \in excl : MatchTable[f][o] = "T") => Verdict(door, base, incl, excl, o) = "F"
(* without include filters everything not excluded is selected *)
NoIncludeMeansAll == (incl = {} /\ door # "lazy") => \A o \in 1..NOps : (\A f \in excl : MatchTable[f][o] = "F") => Sel(o, incl, excl) = "T"
(* adding an exclude filter never selects more; adding an include filter to a non-empty include side never selects less *)
Monotone == \A o \in 1..NOps : \A f \in FilterIds \ (incl \cup excl) :
               /\ (Sel(o, incl, excl) = "F" => Sel(o, incl, excl \cup {f}) = "F")
               /\ ((incl # {} /\ Sel(o, incl, excl) = "T") => Sel(o, incl \cup {f}, excl) = "T")
(* the lazy door never selects an operation the fixture's own filters exclude *)
LazyKeepsBaseExcludes == door = "lazy" => \A o \in 1..NOps :
                           (\E f \in BaseDef[base][2] : MatchTable[f][o] = "T") => Verdict(door, base, incl, excl, o) = "F"
(* reported link count never exceeds the number of links between selected operations *)
StatConsistent == LET s == ExpectStat(door, base, incl, excl) IN s.sel <= s.total /\ s.lsel <= s.ltotal
(* every catalogue filter discriminates on the universe and every operation is matched by some filter *)
ASSUME \A f \in FilterIds : (\E o \in 1..NOps : MatchTable[f][o] = "T") /\ (\E o \in 1..NOps : MatchTable[f][o] # "T")
ASSUME \A o \in 1..NOps : \E f \in FilterIds : MatchTable[f][o] = "T"

SetToSeq(S) == LET RECURSIVE go(_) go(T) == IF T = {} THEN << >> ELSE LET x == CHOOSE y \in T : \A z \in T : y <= z IN <<x>> \o go(T \ {x}) IN go(S)
Export ==
  /\ IF door = "py" /\ incl = {} /\ excl = {}
     THEN PrintT(<<"CATALOGUE", ToJson([ops |-> Ops, links |-> Links, filters |-> FilterDef, match |-> MatchTable, throughref |-> ThroughRef,
                                         bases |-> [b \in 1..NBase |-> [incl |-> SetToSeq(BaseDef[b][1]), excl |-> SetToSeq(BaseDef[b][2])]]])>>)
     ELSE TRUE
  /\ PrintT(<<"CASE", ToJson([door |-> door, base |-> base, incl |-> SetToSeq(incl), excl |-> SetToSeq(excl),
                               dialect |-> DialectOf(incl, excl), rx |-> RxFormOf(door, incl, excl),
                               expect |-> Expect(door, base, incl, excl), stat |-> ExpectStat(door, base, incl, excl)])>>)
=============================================================================
