------------------------- MODULE CheckVerdictsJudge -------------------------
(* Code -> spec: what the real `st run` handed to the engine for a command line, and what the engine's checks did with a      *)
(* (command line, case, answer) element, is judged against CheckVerdicts!Run / ConfigOf / Expected, recomputed here from the  *)
(* recorded descriptor (not from the exporter's copy).                                                                        *)
(*   Obs.sels : Seq([sel, names : Seq(STRING) checks in the engine's list, cfg : per-check config entries, err : "" / "rejected"])        *)
(*   Obs.obs  : Seq([sel, kase, resp, o : [check name |-> "N"/"P"/"F"/"E"/"X"], err : "" / "rejected" / "crash-early"])                                  *)
EXTENDS CheckVerdicts, IOUtils
Obs == JsonDeserialize(IOEnv.OBS_FILE)
VARIABLE i
NS == Len(Obs.sels)
IsSel == i <= NS
JInit == /\ i \in 1..(NS + Len(Obs.obs))
         /\ IF i <= NS
            THEN sel = Obs.sels[i].sel /\ kase = NoCase /\ resp = NoResp /\ exp = NoExp
            ELSE LET ob == Obs.obs[i - NS] IN
                 sel = ob.sel /\ kase = ob.kase /\ resp = ob.resp /\ exp = Expected(ob.sel, ob.kase, ob.resp)
JNext == UNCHANGED <<i, sel, kase, resp, exp>>
JSpec == JInit /\ [][JNext]_<<i, sel, kase, resp, exp>>
Say(c, k) == PrintT(<<"DISAGREE", i, c, k>>)
ReportSel ==
  LET ob == Obs.sels[i] got == Range(ob.names) IN
  IF ob.err # "" THEN Say("cli", ob.err)
  ELSE /\ \A c \in Names : IF Run(sel, c) = "Y" /\ c \notin got THEN Say(c, "not-run")
                           ELSE IF Run(sel, c) = "N" /\ c \in got THEN Say(c, "ran-unselected") ELSE TRUE
       /\ \A c \in {NDR, PDA, MRH} : IF c \in got /\ ob.cfg[c] # ConfigOf(sel)[c] THEN Say(c, "config") ELSE TRUE
       /\ IF MRT \in got /\ ob.cfg[MRT] # sel.mrt THEN Say(MRT, "config") ELSE TRUE
ReportCase ==
  LET ob == Obs.obs[i - NS] IN
  IF ob.err # "" THEN Say("cli", ob.err)
  ELSE \A c \in Names : LET k == Disagreement(exp[c], ob.o[c]) IN IF k = "-" THEN TRUE ELSE Say(c, k)
Report == IF IsSel THEN ReportSel ELSE ReportCase
JSanity == IsSel \/ Sanity
=============================================================================
