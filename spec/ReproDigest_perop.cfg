SPECIFICATION Spec
CONSTANT Workers = {1, 2}
CONSTANT Ops = {1, 2, 3}
CONSTANT Shared = FALSE
INVARIANT StreamIsOwn
CHECK_DEADLOCK FALSE
