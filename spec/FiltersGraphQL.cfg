SPECIFICATION GSpec
CONSTANT GMaxIncl = 2
CONSTANT GMaxExcl = 2
CONSTANT GMaxTotal = 3
INVARIANT GTypeOK
INVARIANT GExcludeWins
INVARIANT GExport
CHECK_DEADLOCK FALSE
