SPECIFICATION HSpec
CONSTANT Thorough = TRUE
CONSTANT MaxSteps = 3
INVARIANT HStateIsHistory
INVARIANT HDrawUsesCurrent
INVARIANT HObligationFollowsOwnStep
INVARIANT HExport
CHECK_DEADLOCK FALSE
