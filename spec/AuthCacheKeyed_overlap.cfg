SPECIFICATION Spec
CONSTANTS
 Threads = {1, 2, 3}
 Keys = {1, 2}
 R = 2
 MaxTime = 3
 MaxCalls = 4
 MaxLocks = 2
 AtomicCreate = TRUE
INVARIANT NoOverlap
CHECK_DEADLOCK FALSE
