---------------------------- MODULE SanitizeJudge ----------------------------
(***************************************************************************)
(* Code -> spec for C15.  Obs.units : results of the sanitizer functions   *)
(* on one (name, cfg): was the value replaced?  Obs.runs : one end-to-end  *)
(* CLI run each - configuration, and per exercised route the carrier name  *)
(* and the observed matrix present[sink] (canary found in the sink in      *)
(* plain, percent-encoded or base64 form).                                 *)
(***************************************************************************)
EXTENDS Sanitize, IOUtils
Obs == JsonDeserialize(IOEnv.OBS_FILE)
Units == Obs.units      \* shape = "-" or the shape of the URL userinfo the unit renders (route = its userinfo route then); [name, cfg, form, shape, route, header ("-" | "cookie" | "set-cookie": the value is one cookie inside that header), redacted]
Runs == Obs.runs        \* fate = "answered" / "no-response" (the server dropped every request of the run); routes[k].shape = userinfo shape or "-"; dead = sinks whose artifact is not well-formed / incomplete (not judged); [cfg, sanitize, dead, routes : <<[route, name, k (slot), present : [console, curl, junit, vcr, har]]>>]
Hists == Obs.hists      \* [steps : <<[kind, op, name]>>, outs : <<[step, form, redacted]>>] - one process, re-configured on the way
VARIABLES what, i
jvars == <<vars, what, i>>
JInit == /\ kind = "judge" /\ nameIx = 0 /\ cfgKind = "-" /\ route = "-" /\ sink = "-" /\ sanitize = TRUE /\ sens = FALSE /\ omitted = FALSE /\ pos = "-" /\ sep = "-" /\ shape = "-" /\ fate = "-"
         /\ \/ what = "unit" /\ i \in 1..Len(Units)
            \/ what = "run" /\ i \in 1..Len(Runs)
            \/ what = "hist" /\ i \in 1..Len(Hists)
JNext == UNCHANGED jvars
JSpec == JInit /\ [][JNext]_jvars

UnitVerdict == LET u == Units[i] IN
               IF u.redacted = (IF u.shape # "-" THEN u.shape \in UserinfoShapes /\ UserinfoRedacted(u.route, u.shape, Cfg(u.cfg))
                                ELSE IF u.header = "cookie" THEN SensCarrier("gen-cookie", u.name, Cfg(u.cfg))
                                ELSE IF u.header = "set-cookie" THEN SensCarrier("resp-set-cookie", u.name, Cfg(u.cfg))
                                ELSE u.form = "curl-api-userinfo" \/ Sensitive(u.name, Cfg(u.cfg))) THEN {}
               ELSE {<<u.form, "-", IF u.redacted THEN "over-redacted" ELSE "leak">>}
RunVerdict == LET r == Runs[i] IN
              UNION {LET x == r.routes[k] IN
                     {<<x.route, s, IF ExpectedF(x.route, s, x.name, r.sanitize, Cfg(r.cfg), r.fate) = "absent" THEN "leak" ELSE "missing", x.k>>
                        : s \in {s \in Sinks \ {r.dead[d] : d \in 1..Len(r.dead)} : LET e == ExpectedF(x.route, s, x.name, r.sanitize, Cfg(r.cfg), r.fate) IN
                                               (e = "absent" /\ x.present[s]) \/ (e = "present" /\ ~x.present[s])}}
                     : k \in 1..Len(r.routes)}
(* every output of a history must be what the configuration current at that call says - nothing remembered from earlier calls *)
HistVerdict == LET h == Hists[i] IN
               {<<h.outs[k].form, h.outs[k].step, IF h.outs[k].redacted THEN "over-redacted" ELSE "leak">>
                  : k \in {k \in 1..Len(h.outs) :
                             h.outs[k].redacted # Sensitive(h.steps[h.outs[k].step].name, CfgAt(h.steps, h.outs[k].step - 1))}}
Verdict == IF what = "unit" THEN UnitVerdict ELSE IF what = "run" THEN RunVerdict ELSE HistVerdict
Report == IF Verdict = {} THEN TRUE ELSE PrintT(<<"DISAGREE", ToJson([what |-> what, i |-> i, v |-> Verdict])>>)
=============================================================================
