---------------------------- MODULE ReportsWriter ----------------------------
(***************************************************************************)
(* C16 (c) - the asynchronous cassette writer: handler thread, queue,      *)
(* writer thread, bounded join at shutdown, process exit.                  *)
(*                                                                         *)
(* Handler: Start puts Initialize (item 0); Enqueue puts Process(k) for    *)
(* every delivered scenario; Shutdown puts Finalize (-1) and joins the     *)
(* writer for a BOUNDED time: the join either sees the writer finished     *)
(* (Joined) or gives up (JoinTimesOut) - both are possible whenever the    *)
(* writer still has work.  Writer: Take removes the head of the queue,     *)
(* Write appends a piece of the current item to the file (an item takes    *)
(* one or more writes); writing to a closed file kills the writer.  The    *)
(* process exits only after the (non-daemon) writer thread has ended, and  *)
(* only then is the file closed.                                           *)
(*                                                                         *)
(* HandlerCloses is a design switch: TRUE = shutdown closes the file when  *)
(* the join returns.  The property must hold for FALSE and TLC shows it    *)
(* fails for TRUE (ReportsWriter_closing.cfg), on exactly the interleaving *)
(* JoinTimesOut -> close -> Write.                                         *)
(***************************************************************************)
EXTENDS Integers, Sequences, FiniteSets, TLC

CONSTANTS N,             \* scenarios the engine delivers
          MaxWrites,     \* bound on the writes one item takes
          HandlerCloses

VARIABLES pc,        \* handler: "start", "running", "joining", "returned", "exited"
          queue,     \* items waiting: 0 = Initialize, k > 0 = Process(k), -1 = Finalize
          w,         \* writer: "idle", "busy", "done", "dead"
          cur, left, \* item being written, writes it may still take
          file,      \* item of every write so far, in order
          open,      \* the report file accepts writes
          delivered, \* scenarios enqueued
          timedOut
wvars == <<pc, queue, w, cur, left, file, open, delivered, timedOut>>

WInit == /\ pc = "start" /\ queue = <<>> /\ w = "idle" /\ cur = 0 /\ left = 0 /\ file = <<>>
         /\ open = TRUE /\ delivered = 0 /\ timedOut = FALSE

Start == /\ pc = "start" /\ pc' = "running" /\ queue' = Append(queue, 0)
         /\ UNCHANGED <<w, cur, left, file, open, delivered, timedOut>>
Enqueue == /\ pc = "running" /\ delivered < N
           /\ queue' = Append(queue, delivered + 1) /\ delivered' = delivered + 1
           /\ UNCHANGED <<pc, w, cur, left, file, open, timedOut>>
PutFinalize == /\ pc = "running" /\ pc' = "joining" /\ queue' = Append(queue, -1)
               /\ UNCHANGED <<w, cur, left, file, open, delivered, timedOut>>
Take == /\ w = "idle" /\ queue # <<>>
        /\ queue' = Tail(queue)
        /\ IF Head(queue) = -1 THEN w' = "done" /\ UNCHANGED <<cur, left>>
                               ELSE w' = "busy" /\ cur' = Head(queue) /\ left' = MaxWrites
        /\ UNCHANGED <<pc, file, open, delivered, timedOut>>
(* one write of the current item; `last` = the item is complete after it *)
Write(last) == /\ w = "busy" /\ (left = 1 => last)
               /\ IF open
                  THEN /\ file' = Append(file, cur)
                       /\ IF last THEN w' = "idle" /\ left' = 0 ELSE w' = "busy" /\ left' = left - 1
                  ELSE w' = "dead" /\ UNCHANGED <<file, left>>        \* "I/O operation on closed file" ends the thread
               /\ UNCHANGED <<pc, queue, cur, open, delivered, timedOut>>
Ended == w \in {"done", "dead"}
Joined == /\ pc = "joining" /\ Ended /\ pc' = "returned" /\ timedOut' = FALSE
          /\ open' = IF HandlerCloses THEN FALSE ELSE open
          /\ UNCHANGED <<queue, w, cur, left, file, delivered>>
JoinTimesOut == /\ pc = "joining" /\ ~Ended /\ pc' = "returned" /\ timedOut' = TRUE
                /\ open' = IF HandlerCloses THEN FALSE ELSE open
                /\ UNCHANGED <<queue, w, cur, left, file, delivered>>
Exit == /\ pc = "returned" /\ Ended /\ pc' = "exited" /\ open' = FALSE
        /\ UNCHANGED <<queue, w, cur, left, file, delivered, timedOut>>

Handler == Start \/ Enqueue \/ PutFinalize \/ Joined \/ JoinTimesOut \/ Exit
Writer == Take \/ \E last \in BOOLEAN : Write(last)
WNext == Handler \/ Writer
WSpec == WInit /\ [][WNext]_wvars /\ WF_wvars(Writer) /\ WF_wvars(Start \/ PutFinalize \/ Joined \/ JoinTimesOut \/ Exit)

---------------------------------------------------------------------------
(* items in the file, each counted once per maximal run of its writes *)
Items(f) == SelectSeq([j \in 1..Len(f) |-> IF j = 1 \/ f[j] # f[j - 1] THEN f[j] ELSE -2], LAMBDA x : x # -2)
Expected(n) == [j \in 1..(n + 1) |-> j - 1]               \* header, then every delivered scenario in delivery order
IsPrefixOf(a, b) == Len(a) <= Len(b) /\ \A j \in 1..Len(a) : a[j] = b[j]

WriterNeverDies == w # "dead"
(* exactly once and in order, at every moment *)
NoDuplicateNoReorder == IsPrefixOf(Items(file), Expected(delivered))
(* once the writer has finished, everything delivered is in the file and the last item is complete *)
CompleteWhenFinished == w = "done" => Items(file) = Expected(delivered)
CompleteAtExit == pc = "exited" => (w = "done" /\ Items(file) = Expected(delivered))
(* the join really can time out with work left (the interleaving the property is about is inside the model) *)
TimeoutReachable == ~(timedOut /\ queue # <<>>)          \* expected to be VIOLATED: used as a reachability witness
EventuallyExits == <>(pc = "exited")
=============================================================================
