--------------------------- MODULE AuthCacheJudge ---------------------------
(* Code -> spec for C14's auth cache: fetch / return logs recorded from the real CachingAuthProvider (forced schedules and
   free-running threads) are judged with AuthCache's own property operators; for forced schedules the recorded fetch log must
   also equal the one the model behaviour predicts. *)
EXTENDS Naturals, Sequences, FiniteSets, TLC, Json, IOUtils
Obs == JsonDeserialize(IOEnv.OBS_FILE)   \* sequence of [fetches, returned, R, expected, hasExpected, nfails, expectedFails]
VARIABLE i
Init == i \in 1..Len(Obs)
Next == UNCHANGED i
Spec == Init /\ [][Next]_i
F == Obs[i].fetches
FetchOnce == \A a, b \in 1..Len(F) : (a < b /\ F[a].k = F[b].k) => F[b].at >= F[a].at + Obs[i].R
ReturnsFresh == \A r \in 1..Len(Obs[i].returned) :
                   LET x == Obs[i].returned[r] IN x.data >= 1 /\ x.data <= Len(F) /\ F[x.data].k = x.k
AsPredicted == Obs[i].hasExpected => (F = Obs[i].expected /\ Obs[i].nfails = Obs[i].expectedFails)
Report == /\ IF FetchOnce THEN TRUE ELSE PrintT(<<"DISAGREE", i, "FetchOnce">>)
          /\ IF ReturnsFresh THEN TRUE ELSE PrintT(<<"DISAGREE", i, "ReturnsFresh">>)
          /\ IF AsPredicted THEN TRUE ELSE PrintT(<<"DISAGREE", i, "AsPredicted">>)
          /\ IF FetchOnce /\ ReturnsFresh /\ AsPredicted THEN PrintT(<<"ACCEPT", i>>) ELSE TRUE
=============================================================================
