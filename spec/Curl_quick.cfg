SPECIFICATION Spec
CONSTANT MaxLen = 2
CONSTANT LongLen = 3
INVARIANT TypeOK
INVARIANT QuoteRoundTrip
INVARIANT RefFaithful
INVARIANT NaivePitfalls
INVARIANT DefaultCTOnlyWithData
INVARIANT StaleRefuted
INVARIANT Export
CHECK_DEADLOCK FALSE
