SPECIFICATION Spec
CONSTANT Family = "c01"
CONSTANT Rich = TRUE
INVARIANT TypeOK
INVARIANT InFragment
INVARIANT NumericSat
INVARIANT OutcomeSanity
INVARIANT Export
CHECK_DEADLOCK FALSE
