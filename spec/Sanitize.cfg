SPECIFICATION Spec
INVARIANT CaseInsensitive
INVARIANT OffMeansNothingAbsent
INVARIANT FateNeverUnhides
INVARIANT UserinfoShapeAlwaysAbsent
INVARIANT UserinfoAlwaysAbsent
INVARIANT ExactlySensitive
INVARIANT Export
CHECK_DEADLOCK FALSE
