SPECIFICATION Spec
INVARIANT CaseInsensitive
INVARIANT OffMeansNothingAbsent
INVARIANT UserinfoAlwaysAbsent
INVARIANT DefaultsCoverStandardHeaders
INVARIANT ExactlySensitive
INVARIANT Export
CHECK_DEADLOCK FALSE
