SPECIFICATION Spec
INVARIANT CaseInsensitive
INVARIANT OffMeansNothingAbsent
INVARIANT UserinfoAlwaysAbsent
INVARIANT ExactlySensitive
INVARIANT Export
CHECK_DEADLOCK FALSE
