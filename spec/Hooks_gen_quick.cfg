SPECIFICATION Spec
CONSTANT MaxReg = 2
CONSTANT MaxUnreg = 1
CONSTANT MaxLen = 3
CONSTANT MaxGen = 2
CONSTANT Negative = FALSE
CONSTANT Narrow = TRUE
CONSTANT Rich = FALSE
INVARIANT TypeOK
INVARIANT ScopePartition
INVARIANT OracleAgrees
INVARIANT UnfilteredEverywhere
INVARIANT Independent
INVARIANT GenerationsAreInert
INVARIANT Export
CHECK_DEADLOCK FALSE
