---------------------------- MODULE ReportsTrace ----------------------------
(***************************************************************************)
(* Code -> spec for C16 (a).  Every recorded replay of a history (real     *)
(* events fed to the real ExecutionContext / JunitXMLHandler / cassette    *)
(* writers) is re-run through the actions of Reports; after each event the *)
(* projected Statistic must equal the machine's state, and at the end the  *)
(* files must show exactly what the machine says was delivered.  The raw   *)
(* VCR text is handed over line by line (indices into a pool of distinct   *)
(* lines, each scanned once by ReportsYaml!Scan).                          *)
(***************************************************************************)
EXTENDS Reports, IOUtils
Y == INSTANCE ReportsYaml WITH MaxLen <- 0, str <- <<>>

Obs == JsonDeserialize(IOEnv.OBS_FILE)
Pool == Obs.pool                       \* distinct cassette lines (code points)
XPool == Obs.xpool                     \* distinct delivered exchanges (projected from the objects the driver built)
HPool == Obs.hpool                     \* distinct HAR entries (projected from the parsed JSON)
TraceLog == Obs.traces
Scanned == [p \in 1..Len(Pool) |-> Y!Scan(Pool[p])]
FlattenDoc(doc) == LET step(d, p) == Y!DStep(d, Scanned[p]) IN Y!FoldLeft(step, Y!D0, doc)

VARIABLES i, k
tvars == <<vars, i, k>>
TInit == i \in 1..Len(TraceLog) /\ k = 0 /\ Init
T == TraceLog[i]
TNext == /\ UNCHANGED i
         /\ \/ /\ k < Len(T.events)
               /\ LET e == T.events[k + 1] IN
                    IF e.kind = "SF" THEN ScenarioFinished(e.label, e.phase, e.shape, e.final) ELSE NonFatalError(e.label, e.phase)
               /\ k' = k + 1
            \/ /\ k = Len(T.events) /\ EngineFinished /\ k' = k + 1
TSpec == TInit /\ [][TNext]_tvars

ToSet(q) == {q[j] : j \in 1..Len(q)}
Min3(a, b, c) == LET m == IF a < b THEN a ELSE b IN IF m < c THEN m ELSE c
K_chk == <<99, 104, 107>>
TitleSeq(f) == IF f = 1 THEN <<70, 49>> ELSE <<70, 50>>
SpecChecks(c) == [j \in 1..Len(c.checks) |->
                    [name |-> K_chk, status |-> IF c.checks[j].fail = 0 THEN Y!K_SUCCESS ELSE Y!K_FAILURE,
                     hasMsg |-> c.checks[j].fail # 0, msg |-> TitleSeq(c.checks[j].fail)]]
(* the delivered exchange n: transport data from the driver's objects, check results and response presence from the machine *)
X(n) == [checks |-> SpecChecks(cassette[n]), checksExact |-> TRUE, hasResp |-> cassette[n].resp,
         covDesc |-> [has |-> cassette[n].meta = "coverage", v |-> XPool[T.exch[n]].covDesc.v]] @@ XPool[T.exch[n]]

StatDiffs == IF k >= 1 /\ k <= Len(T.events) /\ k <= Len(T.snaps)
             THEN (IF ToSet(T.snaps[k].grouped) = grouped THEN {} ELSE {<<"stat", k, "failures">>})
                  \cup (IF ToSet(T.snaps[k].unique) = unique THEN {} ELSE {<<"stat", k, "unique">>})
             ELSE {}
VcrDiffs == IF ~T.vcr.written THEN {<<"vcr", 0, "missing">>}
            ELSE LET flat == FlattenDoc(T.vcr.doc) IN
                 IF ~flat.ok THEN {<<"vcr", flat.bad, "malformed">>}
                 ELSE (IF Y!NEntries(flat) = Len(cassette) THEN {} ELSE {<<"vcr", Y!NEntries(flat), "count">>})
                      \cup UNION {{<<"vcr", n, tag>> : tag \in Y!EntryDiffs(flat, n, X(n), FALSE) \cup Y!MetaDiffs(flat, n, cassette[n].meta)}
                                  : n \in 1..Min3(Len(T.exch), Len(cassette), Y!NEntries(flat))}   \* entries that are missing are reported once, as "count"
HarDiffsAll == IF ~T.har.ok THEN {<<"har", 0, "malformed">>}
               ELSE (IF Len(T.har.entries) = Len(cassette) THEN {} ELSE {<<"har", Len(T.har.entries), "count">>})
                    \cup UNION {{<<"har", n, tag>> : tag \in Y!HarDiffs(HPool[T.har.entries[n]], X(n), FALSE)}
                                : n \in 1..(IF Len(T.har.entries) < Len(cassette) THEN Len(T.har.entries) ELSE Len(cassette))}
JunitDiffs == IF ~T.junit.ok THEN {<<"junit", 0, "malformed">>}
              ELSE LET obsCases == T.junit.cases IN
                   (IF [j \in 1..Len(obsCases) |-> obsCases[j].label] = [j \in 1..Len(junit) |-> junit[j].label]
                    THEN {} ELSE {<<"junit", Len(obsCases), "testcases">>})
                   \cup UNION {LET exp == {junit[m] : m \in {m \in 1..Len(junit) : junit[m].label = obsCases[j].label}} IN
                               IF exp = {} THEN {}
                               ELSE LET e == CHOOSE e \in exp : TRUE IN
                                    (IF obsCases[j].errors = e.errors THEN {} ELSE {<<"junit", j, "errors">>})
                                    \cup (IF obsCases[j].skipped = e.skipped THEN {} ELSE {<<"junit", j, "skipped">>})
                                    \cup (IF ToSet(obsCases[j].titles) = TitlesOf(e.label) THEN {} ELSE {<<"junit", j, "failures">>})
                               : j \in 1..Len(obsCases)}
(* the run must not crash: T.crashAt = 0 *)
CrashDiffs == IF T.crashAt = 0 THEN {} ELSE {<<"crash", T.crashAt, T.crashSite>>}
Verdict == IF done THEN CrashDiffs \cup (IF T.crashAt = 0 THEN VcrDiffs \cup HarDiffsAll \cup JunitDiffs ELSE {})
           ELSE StatDiffs
Report == IF Verdict = {} THEN TRUE ELSE PrintT(<<"DISAGREE", ToJson([i |-> i, v |-> Verdict])>>)
=============================================================================
