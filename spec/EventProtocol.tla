--------------------------- MODULE EventProtocol ---------------------------
(***************************************************************************)
(* C11 - reference automaton for the engine's event stream.                *)
(*                                                                         *)
(* Pure operators over a monitor record; INSTANCEd / EXTENDed by the       *)
(* design model (Engine.tla) and by the trace specification                *)
(* (EngineStream.tla), so the same automaton judges the model's behaviours *)
(* and the implementation's recorded streams.                              *)
(*                                                                         *)
(* An event is a record with field k (kind) and, depending on the kind:    *)
(*   ES                       engine started                               *)
(*   PS  ph                   phase ph started (phases are numbered in the *)
(*                            fixed plan order 1..NPh)                     *)
(*   PF  ph st                phase finished with status st                *)
(*   SS  ph su                suite su started                             *)
(*   SF  ph su st             suite finished                               *)
(*   ScS ph su sc             scenario sc started in suite su              *)
(*   ScF ph su sc st          scenario finished                            *)
(*   NFE ph                   non-fatal error                              *)
(*   INT                      interrupted                                  *)
(*   EF                       engine finished                              *)
(* Statuses: "success" "failure" "error" "interrupted" "skip".             *)
(***************************************************************************)
EXTENDS Naturals, FiniteSets

Rank(s) == CASE s = "success" -> 1 [] s = "failure" -> 2 [] s = "error" -> 3 [] s = "interrupted" -> 4
             [] s = "skip" -> 0 [] OTHER -> 0
IsBad(s) == s \in {"failure", "error"}

MonInit == [started |-> FALSE, finished |-> FALSE, phase |-> 0, phaseOpen |-> FALSE, suite |-> 0,
            suitesSeen |-> {}, open |-> {}, everOpened |-> {}, why |-> "", intr |-> FALSE, worst |-> 0, nbad |-> 0]

Fail(m, reason) == IF m.why = "" THEN [m EXCEPT !.why = reason] ELSE m
Bad(m) == m.why # ""

(* the run was cut short: by the user (stop / Ctrl-C) or by --max-failures (maxFail = 0 means no limit) *)
LimitCut(m, maxFail) == maxFail # 0 /\ m.nbad >= maxFail
CutShort(m, maxFail, stopped) == stopped \/ m.intr \/ LimitCut(m, maxFail)

Observe(m, e, maxFail, stopped) ==
  LET k == e.k IN
  IF m.finished THEN Fail(m, "event after EngineFinished")
  ELSE IF ~m.started /\ k # "ES" THEN Fail(m, "first event is not EngineStarted")
  ELSE CASE
       k = "ES"  -> IF m.started THEN Fail(m, "second EngineStarted") ELSE [m EXCEPT !.started = TRUE]
    [] k = "PS"  -> IF m.phaseOpen THEN Fail(m, "PhaseStarted while a phase is open")
                    ELSE IF e.ph # m.phase + 1 THEN Fail(m, "phase out of the fixed order or repeated")
                    ELSE [m EXCEPT !.phase = e.ph, !.phaseOpen = TRUE, !.worst = 0]
    [] k = "SS"  -> IF ~m.phaseOpen \/ e.ph # m.phase THEN Fail(m, "SuiteStarted outside its phase")
                    ELSE IF m.suite # 0 THEN Fail(m, "SuiteStarted while a suite is open")
                    ELSE IF e.su \in m.suitesSeen THEN Fail(m, "suite id reused")
                    ELSE [m EXCEPT !.suite = e.su, !.suitesSeen = @ \cup {e.su}]
    [] k = "ScS" -> IF m.suite = 0 \/ e.su # m.suite \/ e.ph # m.phase THEN Fail(m, "ScenarioStarted outside its suite")
                    ELSE IF e.sc \in m.everOpened THEN Fail(m, "scenario id reused")
                    ELSE [m EXCEPT !.open = @ \cup {e.sc}, !.everOpened = @ \cup {e.sc}]
    [] k = "ScF" -> IF e.sc \notin m.open THEN Fail(m, "ScenarioFinished without ScenarioStarted")
                    ELSE IF e.su # m.suite \/ e.ph # m.phase THEN Fail(m, "ScenarioFinished outside its suite")
                    ELSE [m EXCEPT !.open = @ \ {e.sc},
                                   !.nbad = IF IsBad(e.st) THEN @ + 1 ELSE @,
                                   \* only failed / errored scenarios constrain the phase status: an interrupted scenario
                                   \* belongs to an interrupted run, where a phase may still end as skipped ("nothing to test")
                                   !.worst = IF IsBad(e.st) /\ Rank(e.st) > @ THEN Rank(e.st) ELSE @,
                                   !.intr = @ \/ e.st = "interrupted"]
    [] k = "NFE" -> IF ~m.phaseOpen THEN Fail(m, "NonFatalError outside a phase")
                    ELSE [m EXCEPT !.worst = IF 3 > @ THEN 3 ELSE @]
    [] k = "INT" -> [m EXCEPT !.intr = TRUE]
    [] k = "SF"  -> IF m.suite = 0 \/ e.su # m.suite \/ e.ph # m.phase THEN Fail(m, "SuiteFinished without matching SuiteStarted")
                    ELSE IF m.open # {} /\ ~(CutShort(m, maxFail, stopped) \/ e.st = "interrupted")
                         THEN Fail(m, "suite closed with an announced scenario still open in an uninterrupted run")
                    ELSE [m EXCEPT !.suite = 0, !.open = {}, !.intr = @ \/ e.st = "interrupted"]
    [] k = "PF"  -> IF ~m.phaseOpen \/ e.ph # m.phase THEN Fail(m, "PhaseFinished without matching PhaseStarted")
                    ELSE IF m.suite # 0 THEN Fail(m, "PhaseFinished while a suite is open")
                    ELSE IF Rank(e.st) < m.worst /\ e.st # "interrupted"
                         THEN Fail(m, "phase status better than its worst scenario")
                    ELSE [m EXCEPT !.phaseOpen = FALSE, !.intr = @ \/ e.st = "interrupted"]
    [] k = "EF"  -> IF m.phaseOpen THEN Fail(m, "EngineFinished while a phase is open")
                    ELSE IF m.suite # 0 THEN Fail(m, "EngineFinished while a suite is open")
                    ELSE [m EXCEPT !.finished = TRUE]
    [] OTHER     -> Fail(m, "unknown event kind")

(* what must hold when the stream ends *)
EndOK(m, nPhases, maxFail, stopped) ==
    /\ m.started /\ m.finished /\ ~m.phaseOpen /\ m.suite = 0
    /\ (m.phase = nPhases \/ stopped \/ m.intr)     \* every phase is announced unless the run was interrupted
=============================================================================
