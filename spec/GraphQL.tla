------------------------------ MODULE GraphQL ------------------------------
(***************************************************************************)
(* C20 - generated GraphQL requests are valid for the schema and target    *)
(* their field; the operations offered and the selected/total counts are   *)
(* exactly the root query and mutation fields passing the name filters.    *)
(*                                                                         *)
(* A schema is a TYPE TABLE (type name -> definition).  A document is a    *)
(* PROJECTED AST (what graphql-core's parser returns, reduced to kinds,    *)
(* names, argument values and nesting).  All operators below are written   *)
(* from the GraphQL specification (October 2021: 3.5 scalars, 3.10 input   *)
(* objects, 3.11 list input coercion, 3.12 non-null, 5.3 field selections, *)
(* 5.4 arguments, 5.5 fragments, 5.6 values) and from the property text,   *)
(* never from hypothesis-graphql / schemathesis.                           *)
(*                                                                         *)
(* State: `shape`, the descriptor of one schema of the bounded family       *)
(* (optionally a source schema EDITED by an after_load_schema hook).       *)
(* TLC enumerates the family (every element is an initial state), checks   *)
(* the design invariants on each and exports it with the spec's expected   *)
(* outcome (operations, offered sets / counts per filter, canonical        *)
(* document and its mutants with verdicts).                                *)
(***************************************************************************)
EXTENDS Integers, Sequences, FiniteSets, TLC, Json

CONSTANT Thorough        \* BOOLEAN: family size (quick ~ 80 shapes, thorough ~ 450)

(* ------------------------------ type references ------------------------ *)
(* <<"NN", "L", "NN", "Int">> is [Int!]! ; the last element is the named type *)
BaseOf(tr) == tr[Len(tr)]
WrapT(w, b) == CASE w = "T"     -> <<b>>
                 [] w = "T!"    -> <<"NN", b>>
                 [] w = "[T]"   -> <<"L", b>>
                 [] w = "[T!]!" -> <<"NN", "L", "NN", b>>
                 [] w = "T!=d"  -> <<"NN", b>>          \* non-null with a default value: not required

(* ------------------------------ type table ----------------------------- *)
TD(kind, sk, values, fields, possible, ifaces) ==
    [kind |-> kind, sk |-> sk, values |-> values, fields |-> fields, possible |-> possible, ifaces |-> ifaces]
ScalarT(sk) == TD("scalar", sk, {}, <<>>, {}, {})
FD(name, args, type) == [name |-> name, args |-> args, type |-> type, dflt |-> FALSE]   \* output field
AD(name, type, dflt) == [name |-> name, args |-> <<>>, type |-> type, dflt |-> dflt]    \* argument / input field

FixedTypes ==
    ("Int" :> ScalarT("Int")) @@ ("Float" :> ScalarT("Float")) @@ ("String" :> ScalarT("String")) @@
    ("Boolean" :> ScalarT("Boolean")) @@ ("ID" :> ScalarT("ID")) @@
    (* custom scalars: declared kind of the literals their registered strategy is documented to produce *)
    ("Date" :> ScalarT("date")) @@          \* schemathesis built-in: String literal YYYY-MM-DD
    ("Long" :> ScalarT("long")) @@          \* schemathesis built-in: Int literal in the 64-bit range
    ("Reg" :> ScalarT("regstr")) @@         \* registered by the user (the harness) with a String-literal strategy
    ("Unreg" :> ScalarT("unreg")) @@        \* no strategy registered anywhere
    ("Color" :> TD("enum", "", {"RED", "GREEN", "BLUE"}, <<>>, {}, {})) @@
    ("Inner" :> TD("input", "", {}, <<AD("a", <<"NN", "Int">>, FALSE), AD("b", <<"String">>, TRUE),
                                      AD("n", <<"NN", "Int">>, TRUE)>>, {}, {})) @@
    ("Outer" :> TD("input", "", {}, <<AD("inner", <<"NN", "Inner">>, FALSE), AD("c", <<"L", "NN", "Int">>, FALSE),
                                      AD("e", <<"Color">>, FALSE), AD("d", <<"Date">>, FALSE)>>, {}, {})) @@
    ("Leaf" :> TD("object", "", {}, <<FD("v", <<>>, <<"Int">>),
                                      FD("tag", <<AD("n", <<"NN", "Int">>, FALSE), AD("c", <<"Color">>, FALSE)>>, <<"String">>)>>,
                  {"Leaf"}, {})) @@
    ("Obj" :> TD("object", "", {}, <<FD("id", <<>>, <<"NN", "ID">>), FD("name", <<>>, <<"String">>),
                                     FD("child", <<>>, <<"Leaf">>)>>, {"Obj"}, {})) @@
    ("Node" :> TD("interface", "", {}, <<FD("id", <<>>, <<"NN", "ID">>)>>, {"A", "B"}, {})) @@
    ("A" :> TD("object", "", {}, <<FD("id", <<>>, <<"NN", "ID">>), FD("x", <<>>, <<"Int">>), FD("v", <<>>, <<"Int">>)>>,
               {"A"}, {"Node"})) @@
    ("B" :> TD("object", "", {}, <<FD("id", <<>>, <<"NN", "ID">>), FD("y", <<>>, <<"String">>), FD("v", <<>>, <<"String">>)>>,
               {"B"}, {"Node"})) @@
    ("U" :> TD("union", "", {}, <<>>, {"A", "B"}, {}))

RetType(r) == CASE r = "scalar" -> <<"Int">> [] r = "enum" -> <<"Color">> [] r = "object" -> <<"Obj">>
                [] r = "interface" -> <<"Node">> [] r = "union" -> <<"U">> [] r = "listobj" -> <<"NN", "L", "NN", "Obj">>

RootQ(s) == IF s.names = "std" THEN "Query" ELSE "RootQ"
RootM(s) == IF s.mut = "none" THEN "" ELSE IF s.names = "std" THEN "Mutation" ELSE "RootM"
RootS(s) == IF ~s.sub THEN "" ELSE IF s.names = "std" THEN "Subscription" ELSE "RootS"
MField(s) == IF s.mut = "same" THEN "f" ELSE "g"
ArgDefs(s) == [i \in 1..Len(s.args) |-> AD(s.args[i].name, WrapT(s.args[i].wrap, s.args[i].base), s.args[i].wrap = "T!=d")]
QueryT(s) == TD("object", "", {}, <<FD("f", ArgDefs(s), RetType(s.ret)), FD("ping", <<>>, <<"Int">>)>>, {RootQ(s)}, {})
MutationT(s) == TD("object", "", {}, <<FD(MField(s), <<AD("x", <<"NN", "Int">>, FALSE)>>, <<"Obj">>),
                                        FD("pong", <<AD("x", <<"Int">>, FALSE)>>, <<"Int">>)>>, {RootM(s)}, {})
SubT(s) == TD("object", "", {}, <<FD("tick", <<>>, <<"Int">>)>>, {RootS(s)}, {})
(* member-field arguments: the implementation-only fields A.x and B.y (reached through `... on A { }` from the interface Node and *)
(* the union U) take the optional argument `m` of type s.marg, B.y also a plain `k: Int`; marg.base = "" means no argument       *)
MArgs(s) == IF s.marg.base = "" THEN <<>> ELSE <<AD("m", WrapT(s.marg.wrap, s.marg.base), FALSE)>>
MemberA(s) == TD("object", "", {}, <<FD("id", <<>>, <<"NN", "ID">>), FD("x", MArgs(s), <<"Int">>), FD("v", <<>>, <<"Int">>)>>, {"A"}, {"Node"})
MemberB(s) == TD("object", "", {}, <<FD("id", <<>>, <<"NN", "ID">>),
                                     FD("y", MArgs(s) \o (IF s.marg.base = "" THEN <<>> ELSE <<AD("k", <<"Int">>, FALSE)>>), <<"String">>),
                                     FD("v", <<>>, <<"String">>)>>, {"B"}, {"Node"})
Types(s) ==
    LET t1 == (RootQ(s) :> QueryT(s)) @@ ("A" :> MemberA(s)) @@ ("B" :> MemberB(s)) @@ FixedTypes
        t2 == IF s.mut = "none" THEN t1 ELSE (RootM(s) :> MutationT(s)) @@ t1
    IN IF s.sub THEN (RootS(s) :> SubT(s)) @@ t2 ELSE t2

RootName(s, optype) == CASE optype = "query" -> RootQ(s) [] optype = "mutation" -> RootM(s)
                         [] optype = "subscription" -> RootS(s) [] OTHER -> ""

(* ------------------------------ a schema edited by a load hook --------- *)
(* A user's `after_load_schema` hook may EDIT the introspection result of the schema that was just loaded (hide a root field, change  *)
(* the declared type of an argument).  From then on the schema IS the edited one: the operations offered, the counts and every       *)
(* generated document follow the schema AS EDITED, never the source document.                                                        *)
(* shape.hook: "none" | "hide" (the source declares an extra Query field `debug(token: String!)` and - where a Mutation type exists - *)
(* an extra Mutation field `purge`; the hook removes them) | "retype" (the source declares every argument of Query.f, and the argument *)
(* `x` of the first Mutation field, with ANOTHER named type; the hook sets the types this shape declares) | "both".                   *)
(* Types(s) (above) is the schema IN FORCE, i.e. after the hook - every oracle of this module reads Types(s) / AllOps(s) and therefore *)
(* speaks about the edited schema.  SourceTypes(s) is what the source document says, HookEdits(s) what the hook does; the design      *)
(* invariant HookYieldsTypes ties them together: the edits applied to the source give exactly Types(s).                              *)
HookOf(s) == IF "hook" \in DOMAIN s THEN s.hook ELSE "none"
Hides(s) == HookOf(s) \in {"hide", "both"}
Retypes(s) == HookOf(s) \in {"retype", "both"}
SwapBase(b) == IF b = "String" THEN "Int" ELSE "String"      \* the named type the SOURCE declares where the shape says b
HiddenQ == FD("debug", <<AD("token", <<"NN", "String">>, FALSE)>>, <<"String">>)
HiddenM == FD("purge", <<>>, <<"Int">>)
SrcArgDefs(s) == [i \in 1..Len(s.args) |-> AD(s.args[i].name,
                                               WrapT(s.args[i].wrap, IF Retypes(s) THEN SwapBase(s.args[i].base) ELSE s.args[i].base),
                                               s.args[i].wrap = "T!=d")]
SrcQueryT(s) == TD("object", "", {}, <<FD("f", SrcArgDefs(s), RetType(s.ret))>> \o (IF Hides(s) THEN <<HiddenQ>> ELSE <<>>)
                                     \o <<FD("ping", <<>>, <<"Int">>)>>, {RootQ(s)}, {})
SrcMutationT(s) == TD("object", "", {}, <<FD(MField(s), <<AD("x", <<"NN", IF Retypes(s) THEN SwapBase("Int") ELSE "Int">>, FALSE)>>, <<"Obj">>)>>
                                        \o (IF Hides(s) THEN <<HiddenM>> ELSE <<>>)
                                        \o <<FD("pong", <<AD("x", <<"Int">>, FALSE)>>, <<"Int">>)>>, {RootM(s)}, {})
SourceTypes(s) == LET t1 == (RootQ(s) :> SrcQueryT(s)) @@ Types(s)
                  IN IF s.mut = "none" THEN t1 ELSE (RootM(s) :> SrcMutationT(s)) @@ t1
(* one edit of the hook: [op ("drop-field" / "set-arg-type"), type, field, arg, to (type reference), dflt] *)
DropField(type, fld) == [op |-> "drop-field", type |-> type, field |-> fld, arg |-> "", to |-> <<>>, dflt |-> FALSE]
SetArgType(type, fld, arg, to, dflt) == [op |-> "set-arg-type", type |-> type, field |-> fld, arg |-> arg, to |-> to, dflt |-> dflt]
HookEdits(s) ==
    (IF Hides(s) THEN <<DropField(RootQ(s), "debug")>> \o (IF s.mut = "none" THEN <<>> ELSE <<DropField(RootM(s), "purge")>>) ELSE <<>>)
    \o (IF Retypes(s)
        THEN [i \in 1..Len(s.args) |-> SetArgType(RootQ(s), "f", s.args[i].name, WrapT(s.args[i].wrap, s.args[i].base), s.args[i].wrap = "T!=d")]
             \o (IF s.mut = "none" THEN <<>> ELSE <<SetArgType(RootM(s), MField(s), "x", <<"NN", "Int">>, FALSE)>>)
        ELSE <<>>)
SetArgIn(args, e) == [j \in 1..Len(args) |-> IF args[j].name = e.arg THEN [args[j] EXCEPT !.type = e.to, !.dflt = e.dflt] ELSE args[j]]
EditFields(fs, e) == IF e.op = "drop-field" THEN SelectSeq(fs, LAMBDA fl : fl.name # e.field)
                     ELSE [k \in 1..Len(fs) |-> IF fs[k].name = e.field THEN [fs[k] EXCEPT !.args = SetArgIn(fs[k].args, e)] ELSE fs[k]]
ApplyEdit(T, e) == [T EXCEPT ![e.type].fields = EditFields(@, e)]
RECURSIVE ApplyEdits(_, _)
ApplyEdits(T, es) == IF es = <<>> THEN T ELSE ApplyEdits(ApplyEdit(T, Head(es)), Tail(es))
(* the root fields of a type table (what a loader that ignored the hook would offer) *)
RootFieldsOf(T, s) == UNION {{[root |-> r, field |-> T[RootName(s, r)].fields[k].name] : k \in 1..Len(T[RootName(s, r)].fields)} :
                                 r \in {x \in {"query", "mutation"} : RootName(s, x) # ""}}

(* ------------------------------ values --------------------------------- *)
(* projected literals:  [t |-> "null"], [t |-> "int", neg, digits], [t |-> "float", finite], [t |-> "str", v (code points)],
   [t |-> "bool", v], [t |-> "enum", v], [t |-> "list", v], [t |-> "obj", k (names), v (values)], [t |-> "var"] *)
All3(S) == IF "F" \in S THEN "F" ELSE IF "U" \in S THEN "U" ELSE "T"
B3(b) == IF b THEN "T" ELSE "F"

LexLeq(a, b) == \/ a = b
                \/ \E i \in 1..Len(a) : (\A j \in 1..(i - 1) : a[j] = b[j]) /\ a[i] < b[i]
NumLeq(a, b) == Len(a) < Len(b) \/ (Len(a) = Len(b) /\ LexLeq(a, b))   \* decimal digit sequences without leading zeros
Max32 == <<2, 1, 4, 7, 4, 8, 3, 6, 4, 7>>
Min32 == <<2, 1, 4, 7, 4, 8, 3, 6, 4, 8>>
Max64 == <<9, 2, 2, 3, 3, 7, 2, 0, 3, 6, 8, 5, 4, 7, 7, 5, 8, 0, 7>>
Min64 == <<9, 2, 2, 3, 3, 7, 2, 0, 3, 6, 8, 5, 4, 7, 7, 5, 8, 0, 8>>
In32(v) == IF v.neg THEN NumLeq(v.digits, Min32) ELSE NumLeq(v.digits, Max32)
In64(v) == IF v.neg THEN NumLeq(v.digits, Min64) ELSE NumLeq(v.digits, Max64)
Digit(c) == c >= 48 /\ c <= 57
IsDate(s) == /\ Len(s) = 10 /\ s[5] = 45 /\ s[8] = 45
             /\ \A i \in {1, 2, 3, 4, 6, 7, 9, 10} : Digit(s[i])
             /\ LET m == (s[6] - 48) * 10 + (s[7] - 48)  d == (s[9] - 48) * 10 + (s[10] - 48)
                IN m >= 1 /\ m <= 12 /\ d >= 1 /\ d <= 31

ScalarOK(sk, v) ==
    CASE sk = "Int"     -> B3(v.t = "int" /\ In32(v))
      [] sk = "Float"   -> IF v.t = "float" THEN B3(v.finite)
                           ELSE IF v.t = "int" THEN (IF Len(v.digits) < 300 THEN "T" ELSE "U") ELSE "F"
      [] sk = "String"  -> B3(v.t = "str")
      [] sk = "Boolean" -> B3(v.t = "bool")
      [] sk = "ID"      -> B3(v.t \in {"str", "int"})
      [] sk = "date"    -> B3(v.t = "str" /\ IsDate(v.v))
      [] sk = "long"    -> B3(v.t = "int" /\ In64(v))
      [] sk = "regstr"  -> B3(v.t = "str")
      [] sk = "regint"  -> B3(v.t = "int")
      [] OTHER          -> "U"               \* unregistered custom scalar: nothing is declared about its literals

Required(a) == a.type[1] = "NN" /\ ~a.dflt
HasField(d, n) == \E i \in 1..Len(d.fields) : d.fields[i].name = n
FieldOf(d, n) == d.fields[CHOOSE i \in 1..Len(d.fields) : d.fields[i].name = n]
Dup(names) == \E i, j \in 1..Len(names) : i # j /\ names[i] = names[j]

(* TypeOK(value, type): "T" acceptable, "F" not acceptable, "U" undetermined (outside the judged fragment) *)
RECURSIVE TypeOK(_, _, _)
TypeOK(T, v, tr) ==
    IF tr[1] = "NN" THEN (IF v.t = "null" THEN "F" ELSE TypeOK(T, v, Tail(tr)))
    ELSE IF v.t = "null" THEN "T"
    ELSE IF v.t = "var" THEN "U"
    ELSE IF tr[1] = "L" THEN
        (IF v.t = "list" THEN All3({TypeOK(T, v.v[i], Tail(tr)) : i \in 1..Len(v.v)})
         ELSE TypeOK(T, v, Tail(tr)))                         \* 3.11: a single value is coerced to a list of one
    ELSE IF tr[1] \notin DOMAIN T THEN "F"
    ELSE LET d == T[tr[1]] IN
        CASE d.kind = "scalar" -> ScalarOK(d.sk, v)
          [] d.kind = "enum"   -> B3(v.t = "enum" /\ v.v \in d.values)
          [] d.kind = "input"  ->
                IF v.t # "obj" THEN "F"
                ELSE IF Dup(v.k) THEN "F"
                ELSE IF \E i \in 1..Len(v.k) : ~HasField(d, v.k[i]) THEN "F"
                ELSE IF \E i \in 1..Len(d.fields) : Required(d.fields[i]) /\ ~\E j \in 1..Len(v.k) : v.k[j] = d.fields[i].name THEN "F"
                ELSE All3({TypeOK(T, v.v[j], FieldOf(d, v.k[j]).type) : j \in 1..Len(v.k)})
          [] OTHER -> "F"                                     \* output type in input position

RECURSIVE HasNull(_)
HasNull(v) == CASE v.t = "null" -> TRUE
                [] v.t \in {"list", "obj"} -> \E i \in 1..Len(v.v) : HasNull(v.v[i])
                [] OTHER -> FALSE
RECURSIVE HasCodePoint(_, _, _)     \* some string inside v contains a code point in lo..hi
HasCodePoint(v, lo, hi) == CASE v.t = "str" -> \E i \in 1..Len(v.v) : v.v[i] >= lo /\ v.v[i] <= hi
                             [] v.t \in {"list", "obj"} -> \E i \in 1..Len(v.v) : HasCodePoint(v.v[i], lo, hi)
                             [] OTHER -> FALSE
HasNUL(v) == HasCodePoint(v, 0, 0)
HasNonAscii(v) == HasCodePoint(v, 128, 1114111)

(* ------------------------------ documents ------------------------------ *)
(* doc = [defs |-> << [kind ("operation"/"fragment"), optype, named, nvars, sels] >>]
   sel = [kind ("field"/"inline"/"spread"), name, rn (response name), on (type condition or ""), args << [name, value] >>, sels] *)
CompositeK == {"object", "interface", "union"}
IsLeafType(T, n) == T[n].kind \in {"scalar", "enum"}

ArgViol(T, cfg, f, args) ==
    LET names == [i \in 1..Len(args) |-> args[i].name]
        declared(i) == \E k \in 1..Len(f.args) : f.args[k].name = args[i].name
    IN  (IF Dup(names) THEN {"duplicate-argument"} ELSE {})
        \cup (IF \E i \in 1..Len(args) : ~declared(i) THEN {"unknown-argument"} ELSE {})
        \cup (IF \E k \in 1..Len(f.args) : Required(f.args[k]) /\ ~\E i \in 1..Len(args) : args[i].name = f.args[k].name
              THEN {"missing-required-argument"} ELSE {})
        \cup (IF \E i \in 1..Len(args) : declared(i) /\
                    TypeOK(T, args[i].value, f.args[CHOOSE k \in 1..Len(f.args) : f.args[k].name = args[i].name].type) = "F"
              THEN {"bad-argument-value"} ELSE {})
        \cup (IF \E i \in 1..Len(args) : declared(i) /\
                    TypeOK(T, args[i].value, f.args[CHOOSE k \in 1..Len(f.args) : f.args[k].name = args[i].name].type) = "U"
              THEN {"U:argument-value"} ELSE {})
        \cup (IF ~cfg.allowNull /\ \E i \in 1..Len(args) : HasNull(args[i].value) THEN {"null-when-disabled"} ELSE {})
        \cup (IF ~cfg.allowX00 /\ \E i \in 1..Len(args) : HasNUL(args[i].value) THEN {"nul-when-disabled"} ELSE {})
        \cup (IF cfg.ascii /\ \E i \in 1..Len(args) : HasNonAscii(args[i].value) THEN {"non-ascii-with-ascii-codec"} ELSE {})

(* fields of a selection set after flattening inline fragments: [rn, name, ptype] *)
RECURSIVE Flat(_, _)
Flat(P, sels) == UNION {IF sels[i].kind = "field" THEN {[rn |-> sels[i].rn, name |-> sels[i].name, ptype |-> P]}
                        ELSE IF sels[i].kind = "inline" THEN Flat(IF sels[i].on = "" THEN P ELSE sels[i].on, sels[i].sels)
                        ELSE {} : i \in 1..Len(sels)}
(* 5.3.2 (SameResponseShape, leaf case): two fields with one response name, one of them of a leaf type, must have equal types *)
MergeViol(T, P, sels) ==
    LET fl == {x \in Flat(P, sels) : x.name # "__typename" /\ x.ptype \in DOMAIN T /\ T[x.ptype].kind \in {"object", "interface"}
                                      /\ HasField(T[x.ptype], x.name)}
        ty(x) == FieldOf(T[x.ptype], x.name).type
    IN IF \E x, y \in fl : /\ x.rn = y.rn /\ x # y
                           /\ (IsLeafType(T, BaseOf(ty(x))) \/ IsLeafType(T, BaseOf(ty(y))))
                           /\ ty(x) # ty(y)
       THEN {"fields-conflict"} ELSE {}

RECURSIVE SelSetViol(_, _, _, _)
RECURSIVE SelViol(_, _, _, _)
SelViol(T, cfg, P, s) ==
    IF s.kind = "field" THEN
        IF s.name = "__typename" THEN (IF s.args # <<>> \/ s.sels # <<>> THEN {"typename-misuse"} ELSE {})
        ELSE IF T[P].kind \notin {"object", "interface"} \/ ~HasField(T[P], s.name) THEN {"unknown-field"}
        ELSE LET f == FieldOf(T[P], s.name)
                 b == BaseOf(f.type)
             IN ArgViol(T, cfg, f, s.args)
                \cup (IF IsLeafType(T, b) THEN (IF s.sels # <<>> THEN {"leaf-with-selection"} ELSE {})
                      ELSE IF s.sels = <<>> THEN {"composite-without-selection"}
                      ELSE SelSetViol(T, cfg, b, s.sels))
    ELSE IF s.kind = "inline" THEN
        LET C == IF s.on = "" THEN P ELSE s.on IN
        IF C \notin DOMAIN T \/ T[C].kind \notin CompositeK THEN {"fragment-on-non-composite"}
        ELSE (IF T[C].possible \cap T[P].possible = {} THEN {"fragment-impossible"} ELSE {})
             \cup (IF s.sels = <<>> THEN {"empty-selection"} ELSE SelSetViol(T, cfg, C, s.sels))
    ELSE {"U:fragment-spread"}
SelSetViol(T, cfg, P, sels) == UNION {SelViol(T, cfg, P, sels[i]) : i \in 1..Len(sels)} \cup MergeViol(T, P, sels)

(* rules about the operation the case was generated for: op = [root ("query"/"mutation"), field] *)
TargetRules == {"not-exactly-one-operation", "wrong-operation-type", "not-exactly-the-field", "no-root-type-for-operation"}
ConfigRules == {"null-when-disabled", "nul-when-disabled", "non-ascii-with-ascii-codec"}
OpDefs(doc) == {i \in 1..Len(doc.defs) : doc.defs[i].kind = "operation"}
(* validation of one operation definition (5.2.2.1 lone anonymous operation; 5.3 - 5.6 on its selection set).  A missing root  *)
(* type is not a validation error of the standard (it is an execution error) - it is reported as a targeting rule instead.    *)
DefViolT(T, s, cfg, doc, i) ==
    LET d == doc.defs[i]
        R == RootName(s, d.optype)
    IN (IF ~d.named /\ Cardinality(OpDefs(doc)) > 1 THEN {"lone-anonymous-operation"} ELSE {})
       \cup (IF d.nvars > 0 THEN {"U:variables"} ELSE {})
       \cup (IF R = "" THEN {"no-root-type-for-operation"}
             ELSE IF d.sels = <<>> THEN {"empty-selection"}
             ELSE SelSetViol(T, cfg, R, d.sels))
(* T = the type table in force when the document was drawn (Types(s), or Types(s) with a re-registered custom scalar) *)
DocViolT(T, s, cfg, op, doc) ==
    (IF \E i \in 1..Len(doc.defs) : doc.defs[i].kind # "operation" THEN {"U:fragment-spread"} ELSE {})
    \cup UNION {DefViolT(T, s, cfg, doc, i) : i \in OpDefs(doc)}
    \cup (IF Len(doc.defs) # 1 \/ doc.defs[1].kind # "operation" THEN {"not-exactly-one-operation"}
          ELSE LET d == doc.defs[1]
               IN (IF d.optype # op.root THEN {"wrong-operation-type"} ELSE {})
                  \cup (IF ~(Len(d.sels) = 1 /\ d.sels[1].kind = "field" /\ d.sels[1].name = op.field) THEN {"not-exactly-the-field"} ELSE {}))
DocViol(s, cfg, op, doc) == DocViolT(Types(s), s, cfg, op, doc)
Definite(viol) == {r \in viol : r \notin {"U:argument-value", "U:fragment-spread", "U:variables", "U:wire-get"}}

(* ------------------------------ operations, filters, counts ------------ *)
Op(root, field) == [root |-> root, field |-> field]
AllOps(s) == {Op("query", "f"), Op("query", "ping")}
             \cup (IF s.mut = "none" THEN {} ELSE {Op("mutation", MField(s)), Op("mutation", "pong")})
(* filter atoms over the operation name "<RootTypeName>.<field>":
   eq = the name equals; in = the name is one of; root = the name starts with "<RootTypeName>."; field = it ends with ".<field>" *)
Atom(k, root, field, ops) == [k |-> k, root |-> root, field |-> field, ops |-> ops]
NoAtom == Atom("none", "", "", {})
Match(a, o) == CASE a.k = "eq"    -> o.root = a.root /\ o.field = a.field
                 [] a.k = "in"    -> o \in a.ops
                 [] a.k = "root"  -> o.root = a.root
                 [] a.k = "field" -> o.field = a.field
                 [] OTHER         -> FALSE
Selected(o, filt) == /\ (filt.incl.k = "none" \/ Match(filt.incl, o))
                     /\ ~(filt.excl.k # "none" /\ Match(filt.excl, o))
Offered(s, filt) == {o \in AllOps(s) : Selected(o, filt)}
Counts(s, filt) == [selected |-> Cardinality(Offered(s, filt)), total |-> Cardinality(AllOps(s))]
Atoms(s) == {NoAtom, Atom("eq", "query", "f", {}), Atom("eq", "mutation", MField(s), {}),
             Atom("in", "", "", {Op("query", "ping"), Op("mutation", MField(s))}),
             Atom("root", "query", "", {}), Atom("root", "mutation", "", {}),
             Atom("field", "", "f", {}), Atom("field", "", "pong", {})}
Filters(s) == {[incl |-> i, excl |-> e] : i \in Atoms(s), e \in Atoms(s)} \ {[incl |-> a, excl |-> a] : a \in Atoms(s) \ {NoAtom}}

(* can a value be produced at all?  (unregistered scalars have no strategy: only null / absence) *)
RECURSIVE Generatable(_, _)
Generatable(T, tr) ==
    IF tr[1] = "NN" THEN (IF tr[2] = "L" THEN Generatable(T, <<"NN">> \o Tail(Tail(tr))) ELSE Generatable(T, Tail(tr)))
    ELSE IF tr[1] = "L" THEN TRUE                       \* nullable: null / absence is always available
    ELSE LET d == T[tr[1]] IN
         CASE d.kind = "scalar" -> d.sk # "unreg"
           [] d.kind = "input"  -> \A i \in 1..Len(d.fields) : d.fields[i].type[1] = "NN" => Generatable(T, d.fields[i].type)
           [] OTHER -> TRUE
OpField(s, o) == FieldOf(Types(s)[RootName(s, o.root)], o.field)

(* ------------------------------ canonical documents -------------------- *)
IntV(neg, digits) == [t |-> "int", neg |-> neg, digits |-> digits]
StrV(cps) == [t |-> "str", v |-> cps]
NullV == [t |-> "null"]
RECURSIVE MinVal(_, _)
MinVal(T, tr) ==
    IF tr[1] = "NN" THEN MinVal(T, Tail(tr))
    ELSE IF tr[1] = "L" THEN [t |-> "list", v |-> <<>>]
    ELSE LET d == T[tr[1]] IN
         CASE d.kind = "enum" -> [t |-> "enum", v |-> CHOOSE x \in d.values : TRUE]
           [] d.kind = "input" ->
                LET req == SelectSeq(d.fields, Required)
                IN [t |-> "obj", k |-> [i \in 1..Len(req) |-> req[i].name], v |-> [i \in 1..Len(req) |-> MinVal(T, req[i].type)]]
           [] d.sk \in {"Int", "long"} -> IntV(FALSE, <<0>>)
           [] d.sk = "Float" -> [t |-> "float", finite |-> TRUE]
           [] d.sk = "Boolean" -> [t |-> "bool", v |-> TRUE]
           [] d.sk = "date" -> StrV(<<50, 48, 50, 48, 45, 48, 49, 45, 51, 49>>)     \* 2020-01-31
           [] OTHER -> StrV(<<>>)
FieldSel(name, args, sels) == [kind |-> "field", name |-> name, rn |-> name, on |-> "", args |-> args, sels |-> sels]
InlineSel(on, sels) == [kind |-> "inline", name |-> "", rn |-> "", on |-> on, args |-> <<>>, sels |-> sels]
MinSel(T, n) == IF T[n].kind = "union" THEN <<InlineSel("A", <<FieldSel("id", <<>>, <<>>)>>)>>
                ELSE <<FieldSel(T[n].fields[1].name, <<>>, <<>>)>>     \* the first field of every composite type of the table is a leaf
ReqArgs(T, f) == LET req == SelectSeq(f.args, Required)
                 IN [i \in 1..Len(req) |-> [name |-> req[i].name, value |-> MinVal(T, req[i].type)]]
OpDoc(optype, sels) == [defs |-> <<[kind |-> "operation", optype |-> optype, named |-> FALSE, nvars |-> 0, sels |-> sels]>>]
CanonSel(s, o) == LET T == Types(s)  f == OpField(s, o)  b == BaseOf(f.type)
                  IN FieldSel(o.field, ReqArgs(T, f), IF IsLeafType(T, b) THEN <<>> ELSE MinSel(T, b))
Canon(s, o) == OpDoc(o.root, <<CanonSel(s, o)>>)
Other(root) == IF root = "query" THEN "mutation" ELSE "query"
OtherField(s, o) == IF o.root = "query" THEN (IF o.field = "ping" THEN "f" ELSE "ping")
                    ELSE (IF o.field = "pong" THEN MField(s) ELSE "pong")
PlainOther(s, o) == LET T == Types(s)  f == FieldOf(T[RootName(s, o.root)], OtherField(s, o))
                    IN FieldSel(f.name, ReqArgs(T, f), IF IsLeafType(T, BaseOf(f.type)) THEN <<>> ELSE MinSel(T, BaseOf(f.type)))
(* mutants of the canonical document, each with the rule the specification must report *)
Mutants(s, o) ==
    LET T == Types(s)
        c == CanonSel(s, o)
        f == OpField(s, o)
        b == BaseOf(f.type)
    IN  {[name |-> "flip-operation-type", rule |-> "wrong-operation-type", doc |-> OpDoc(Other(o.root), <<c>>)],
         [name |-> "other-field", rule |-> "not-exactly-the-field", doc |-> OpDoc(o.root, <<PlainOther(s, o)>>)],
         [name |-> "extra-field", rule |-> "not-exactly-the-field", doc |-> OpDoc(o.root, <<c, PlainOther(s, o)>>)],
         [name |-> "two-operations", rule |-> "not-exactly-one-operation",
          doc |-> [defs |-> Canon(s, o).defs \o Canon(s, o).defs]],
         [name |-> "two-anonymous-operations", rule |-> "lone-anonymous-operation",
          doc |-> [defs |-> Canon(s, o).defs \o Canon(s, o).defs]],
         [name |-> "unknown-argument", rule |-> "unknown-argument",
          doc |-> OpDoc(o.root, <<[c EXCEPT !.args = Append(@, [name |-> "zz", value |-> IntV(FALSE, <<1>>)])]>>)],
         [name |-> "unknown-subfield", rule |-> IF IsLeafType(T, b) THEN "leaf-with-selection" ELSE "unknown-field",
          doc |-> OpDoc(o.root, <<[c EXCEPT !.sels = <<FieldSel("nope", <<>>, <<>>)>>]>>)]}
        \cup (IF c.args = <<>> THEN {} ELSE
               {[name |-> "drop-required-argument", rule |-> "missing-required-argument",
                 doc |-> OpDoc(o.root, <<[c EXCEPT !.args = Tail(@)]>>)],
                [name |-> "null-for-non-null", rule |-> "bad-argument-value",
                 doc |-> OpDoc(o.root, <<[c EXCEPT !.args[1].value = NullV]>>)],
                [name |-> "duplicate-argument", rule |-> "duplicate-argument",
                 doc |-> OpDoc(o.root, <<[c EXCEPT !.args = <<@[1]>> \o @]>>)]})
        \cup (IF IsLeafType(T, b) THEN {} ELSE
               {[name |-> "drop-selection", rule |-> "composite-without-selection",
                 doc |-> OpDoc(o.root, <<[c EXCEPT !.sels = <<>>]>>)],
                [name |-> "fragment-on-unrelated-type", rule |-> "fragment-impossible",
                 doc |-> OpDoc(o.root, <<[c EXCEPT !.sels = <<InlineSel("Leaf", <<FieldSel("v", <<>>, <<>>)>>)>>]>>)]})
        \cup (IF b # "U" THEN {} ELSE
               {[name |-> "conflicting-leaf-types", rule |-> "fields-conflict",
                 doc |-> OpDoc(o.root, <<[c EXCEPT !.sels = <<InlineSel("A", <<FieldSel("v", <<>>, <<>>)>>),
                                                              InlineSel("B", <<FieldSel("v", <<>>, <<>>)>>)>>]>>)]})

(* ------------------------------ the request on the wire ---------------- *)
(* A GraphQL test case is SENT as a GraphQL-over-HTTP request: POST, a JSON object whose member `query` is the document (a string);    *)
(* the only other members the protocol knows are operationName, variables and extensions; the URL path is the one the schema was       *)
(* loaded from / configured with.  w = [method, ctypeJson, isObject, keys << member names >>, queryIsString, verbatim (the member is    *)
(* the case's document, character for character), pathOk, doc (projected AST of the `query` member)].                                  *)
WireMembers == {"query", "operationName", "variables", "extensions"}
WireViol(s, cfg, op, w) ==
    (IF w.method = "POST" THEN {} ELSE IF w.method = "GET" /\ op.root = "query" THEN {"U:wire-get"} ELSE {"wire-method"})
    \cup (IF w.ctypeJson THEN {} ELSE {"wire-content-type"})
    \cup (IF w.isObject /\ w.queryIsString /\ (\E j \in 1..Len(w.keys) : w.keys[j] = "query") THEN {} ELSE {"wire-no-query-member"})
    \cup (IF \A j \in 1..Len(w.keys) : w.keys[j] \in WireMembers THEN {} ELSE {"wire-unknown-member"})
    \cup (IF w.pathOk THEN {} ELSE {"wire-path"})
    \cup (IF w.verbatim THEN {} ELSE {"wire-document-differs"})
    \cup (IF w.isObject /\ w.queryIsString THEN DocViol(s, cfg, op, w.doc) ELSE {})
(* Mapping-style access offers the same operations: iterating the schema gives the root types that carry operations (query, then      *)
(* mutation - never the subscription type), iterating a root's map gives exactly its fields.                                          *)
MapsViol(s, roots, fields) ==
    LET want == IF s.mut = "none" THEN <<"query">> ELSE <<"query", "mutation">>
        got == {[root |-> fields[j].root, field |-> fields[j].field] : j \in 1..Len(fields)}
    IN (IF roots = want THEN {} ELSE {"roots-offered"})
       \cup (IF got = AllOps(s) /\ Cardinality(got) = Len(fields) THEN {} ELSE {"fields-offered"})

(* ------------------------------ histories on ONE schema object --------- *)
(* A loaded schema object is used repeatedly while its configuration changes.  step = [a, cfg, has, root, field, kind]:            *)
(*   a = "configure": the schema's generation config becomes cfg;   a = "register": custom scalar Reg is (re-)registered with a   *)
(*   strategy of literal kind `kind` ("str" / "int");   a = "draw": cases are drawn for operation (root, field), with an explicit  *)
(*   per-draw generation config cfg when has = TRUE.                                                                               *)
(* Every document must obey the configuration and the registration in force AT ITS OWN DRAW - never an earlier one.               *)
GCfg(n, x, a) == [allowNull |-> n, allowX00 |-> x, ascii |-> a]
DefaultCfg == GCfg(TRUE, TRUE, FALSE)            \* GenerationConfig() of a freshly loaded schema
DefaultReg == "str"                              \* how the harness registers Reg before anything else happens
LastBefore(h, k, a) == LET js == {j \in 1..(k - 1) : h[j].a = a} IN IF js = {} THEN 0 ELSE CHOOSE j \in js : \A j2 \in js : j2 <= j
ConfiguredAt(h, k) == IF LastBefore(h, k, "configure") = 0 THEN DefaultCfg ELSE h[LastBefore(h, k, "configure")].cfg
CfgAt(h, k) == IF h[k].a = "draw" /\ h[k].has THEN h[k].cfg ELSE ConfiguredAt(h, k)      \* an explicit per-draw config wins
RegAt(h, k) == IF LastBefore(h, k, "register") = 0 THEN DefaultReg ELSE h[LastBefore(h, k, "register")].kind
TypesReg(s, kind) == IF kind = "int" THEN ("Reg" :> ScalarT("regint")) @@ Types(s) ELSE Types(s)
HistDocViol(s, h, k, doc) == DocViolT(TypesReg(s, RegAt(h, k)), s, CfgAt(h, k), [root |-> h[k].root, field |-> h[k].field], doc)

(* ------------------------------ the family ----------------------------- *)
Bases == <<"Int", "Float", "String", "Boolean", "ID", "Color", "Date", "Long", "Reg", "Unreg", "Inner", "Outer">>
Wraps == <<"T", "T!", "[T]", "[T!]!", "T!=d">>
Rets == <<"scalar", "object", "interface", "union", "enum", "listobj">>
Arg(n, b, w) == [name |-> n, base |-> b, wrap |-> w]
NoMArg == [base |-> "", wrap |-> ""]
ShapeH(args, ret, mut, names, sub, marg, hook) == [args |-> args, ret |-> ret, mut |-> mut, names |-> names, sub |-> sub, marg |-> marg, hook |-> hook]
ShapeM(args, ret, mut, names, sub, marg) == ShapeH(args, ret, mut, names, sub, marg, "none")
Shape(args, ret, mut, names, sub) == ShapeM(args, ret, mut, names, sub, NoMArg)
MBases == IF Thorough THEN {Bases[i] : i \in 1..Len(Bases)} ELSE {"Int", "String", "Unreg", "Inner"}
MArgSet == {[base |-> b, wrap |-> w] : b \in MBases, w \in {"T", "[T]"}}
           \cup (IF Thorough THEN {[base |-> b, wrap |-> "T!"] : b \in MBases \ {"Unreg"}} ELSE {})
RetFor(i, j) == Rets[((i + j) % 6) + 1]
Second == IF Thorough THEN {Arg("b", "String", "T"), Arg("b", "Outer", "T!"), Arg("b", "Unreg", "T"), Arg("b", "Long", "[T!]!")}
          ELSE {Arg("b", "String", "T"), Arg("b", "Outer", "T!")}
First == IF Thorough THEN {Arg("a", Bases[i], Wraps[j]) : i \in 1..Len(Bases), j \in 1..Len(Wraps)}
         ELSE {Arg("a", "Int", "T!"), Arg("a", "Inner", "T"), Arg("a", "Color", "[T]")}
HookedArgs == {<<Arg("a", "Int", "T!")>>, <<Arg("a", "Inner", "T")>>}
              \cup (IF Thorough THEN {<<Arg("a", "String", "[T!]!")>>, <<Arg("a", "Color", "T!=d")>>, <<Arg("a", "ID", "T"), Arg("b", "Outer", "T!")>>}
                    ELSE {})
Family ==
    (* no arguments: every return kind *)
    {Shape(<<>>, Rets[r], m, nm, nm = "custom") : r \in 1..6,
        m \in (IF Thorough THEN {"none", "same", "other"} ELSE {"none"}), nm \in (IF Thorough THEN {"std", "custom"} ELSE {"std"})}
    (* one argument: every base type x every wrapper; the return kind rotates *)
    \cup {Shape(<<Arg("a", Bases[i], Wraps[j])>>, RetFor(i, j), m, "std", FALSE) : i \in 1..Len(Bases), j \in 1..Len(Wraps),
            m \in (IF Thorough THEN {"none", "same", "other"} ELSE {"none"})}
    (* a Query field and a Mutation field with the same / another name, standard and custom root type names, Subscription present *)
    \cup {Shape(a, "scalar", m, nm, nm = "custom") : a \in {<<>>, <<Arg("a", "Int", "T!")>>}, m \in {"same", "other"}, nm \in {"std", "custom"}}
    (* interface / union return types whose member types have fields WITH arguments: documents with arguments inside inline fragments *)
    \cup {ShapeM(<<>>, r, "none", "std", FALSE, ma) : r \in {"interface", "union"}, ma \in MArgSet}
    (* two arguments *)
    \cup {Shape(<<a, b>>, "object", "none", "std", FALSE) : a \in First, b \in Second}
    (* the schema is EDITED by an after_load_schema hook (root fields hidden / argument types changed / both): Types(s) is the edited schema *)
    \cup {ShapeH(a, IF m = "none" THEN "object" ELSE "scalar", m, nm, nm = "custom", NoMArg, h) :
            a \in HookedArgs, m \in (IF Thorough THEN {"none", "same", "other"} ELSE {"none", "same"}),
            nm \in (IF Thorough THEN {"std", "custom"} ELSE {"std"}), h \in {"hide", "retype", "both"}}

VARIABLE shape
Init == shape \in Family
Next == UNCHANGED shape
Spec == Init /\ [][Next]_shape

(* ------------------------------ design invariants ---------------------- *)
TableClosedT(T) ==   \* every type reference of the table is defined; arguments are input types, fields are output types
    \A n \in DOMAIN T : \A i \in 1..Len(T[n].fields) :
        LET fl == T[n].fields[i] IN
        /\ BaseOf(fl.type) \in DOMAIN T
        /\ (T[n].kind = "input" => T[BaseOf(fl.type)].kind \in {"scalar", "enum", "input"})
        /\ (T[n].kind \in {"object", "interface"} => T[BaseOf(fl.type)].kind \in {"scalar", "enum"} \cup CompositeK)
        /\ \A k \in 1..Len(fl.args) : BaseOf(fl.args[k].type) \in DOMAIN T /\ T[BaseOf(fl.args[k].type)].kind \in {"scalar", "enum", "input"}
TableClosed == TableClosedT(Types(shape)) /\ TableClosedT(SourceTypes(shape))
(* the hook's edits, applied to what the source document declares, give exactly the schema every oracle reads; the oracle's operations *)
(* are the root fields of the EDITED table; and a hooked shape is told apart from its source (a loader ignoring the hook is visible)   *)
HookYieldsTypes ==
    /\ ApplyEdits(SourceTypes(shape), HookEdits(shape)) = Types(shape)
    /\ RootFieldsOf(Types(shape), shape) = AllOps(shape)
    /\ (HookOf(shape) = "none" <=> HookEdits(shape) = <<>>)
    /\ (HookOf(shape) = "none" <=> SourceTypes(shape) = Types(shape))
    /\ (Hides(shape) => RootFieldsOf(SourceTypes(shape), shape) # AllOps(shape))
    /\ (Retypes(shape) => \A i \in 1..Len(shape.args) : SrcArgDefs(shape)[i].type # ArgDefs(shape)[i].type)
OfferedSane == \A filt \in Filters(shape) :
                  /\ Offered(shape, filt) \subseteq AllOps(shape)
                  /\ (filt.incl.k = "none" /\ filt.excl.k = "none" => Offered(shape, filt) = AllOps(shape))
                  /\ Counts(shape, filt).selected <= Counts(shape, filt).total
                  /\ (filt.excl.k = "none" /\ filt.incl.k = "eq" /\ filt.incl \in {Atom("eq", o.root, o.field, {}) : o \in AllOps(shape)}
                        => Counts(shape, filt).selected = 1)         \* a full name denotes one operation, also under a name clash
NameClashDistinct == shape.mut = "same" => Op("query", "f") \in AllOps(shape) /\ Op("mutation", "f") \in AllOps(shape)
StrictCfg == [allowNull |-> FALSE, allowX00 |-> FALSE, ascii |-> TRUE]
CanOps == {o \in AllOps(shape) : \A k \in 1..Len(OpField(shape, o).args) :
                 OpField(shape, o).args[k].type[1] = "NN" => Generatable(Types(shape), OpField(shape, o).args[k].type)}
CanonAccepted == \A o \in AllOps(shape) : Definite(DocViol(shape, StrictCfg, o, Canon(shape, o))) = {}
MutantsRejected == \A o \in AllOps(shape) : \A m \in Mutants(shape, o) : m.rule \in DocViol(shape, StrictCfg, o, m.doc)

(* catalogue: TypeOK against the standard's own examples (3.5, 3.10, 3.11, 3.12) *)
T0 == FixedTypes
I(n) == IntV(FALSE, n)
LV(x) == [t |-> "list", v |-> x]
OV(k, v) == [t |-> "obj", k |-> k, v |-> v]
ASSUME TypeOK(T0, I(Max32), <<"Int">>) = "T" /\ TypeOK(T0, I(Min32), <<"Int">>) = "F" /\ TypeOK(T0, IntV(TRUE, Min32), <<"Int">>) = "T"
ASSUME TypeOK(T0, I(<<1, 0, 0, 0, 0, 0, 0, 0, 0, 0, 0>>), <<"Int">>) = "F" /\ TypeOK(T0, I(<<1, 0, 0, 0, 0, 0, 0, 0, 0, 0, 0>>), <<"ID">>) = "T"
ASSUME TypeOK(T0, I(Max64), <<"Long">>) = "T" /\ TypeOK(T0, I(Min64), <<"Long">>) = "F" /\ TypeOK(T0, StrV(<<49>>), <<"Long">>) = "F"
ASSUME TypeOK(T0, I(<<1>>), <<"Float">>) = "T" /\ TypeOK(T0, [t |-> "float", finite |-> FALSE], <<"Float">>) = "F" /\ TypeOK(T0, StrV(<<>>), <<"Float">>) = "F"
ASSUME TypeOK(T0, I(<<1>>), <<"String">>) = "F" /\ TypeOK(T0, [t |-> "enum", v |-> "RED"], <<"String">>) = "F" /\ TypeOK(T0, [t |-> "bool", v |-> TRUE], <<"ID">>) = "F"
ASSUME TypeOK(T0, NullV, <<"Int">>) = "T" /\ TypeOK(T0, NullV, <<"NN", "Int">>) = "F" /\ TypeOK(T0, NullV, <<"L", "NN", "Int">>) = "T"
ASSUME TypeOK(T0, LV(<<I(<<1>>), NullV>>), <<"L", "Int">>) = "T" /\ TypeOK(T0, LV(<<I(<<1>>), NullV>>), <<"L", "NN", "Int">>) = "F"
ASSUME TypeOK(T0, I(<<1>>), <<"L", "Int">>) = "T" /\ TypeOK(T0, I(<<1>>), <<"L", "L", "Int">>) = "T" /\ TypeOK(T0, LV(<<I(<<1>>)>>), <<"L", "L", "Int">>) = "T"
ASSUME TypeOK(T0, StrV(<<97>>), <<"L", "Int">>) = "F" /\ TypeOK(T0, LV(<<>>), <<"Int">>) = "F"
ASSUME TypeOK(T0, [t |-> "enum", v |-> "RED"], <<"Color">>) = "T" /\ TypeOK(T0, [t |-> "enum", v |-> "PINK"], <<"Color">>) = "F" /\ TypeOK(T0, StrV(<<82, 69, 68>>), <<"Color">>) = "F"
ASSUME TypeOK(T0, OV(<<"a">>, <<I(<<1>>)>>), <<"Inner">>) = "T" /\ TypeOK(T0, OV(<<>>, <<>>), <<"Inner">>) = "F"
ASSUME TypeOK(T0, OV(<<"a", "zz">>, <<I(<<1>>), I(<<1>>)>>), <<"Inner">>) = "F" /\ TypeOK(T0, OV(<<"a", "a">>, <<I(<<1>>), I(<<1>>)>>), <<"Inner">>) = "F"
ASSUME TypeOK(T0, OV(<<"a", "n">>, <<I(<<1>>), NullV>>), <<"Inner">>) = "F" /\ TypeOK(T0, OV(<<"a", "b">>, <<I(<<1>>), NullV>>), <<"Inner">>) = "T"
ASSUME TypeOK(T0, OV(<<"inner">>, <<OV(<<"a">>, <<I(<<1>>)>>)>>), <<"Outer">>) = "T" /\ TypeOK(T0, OV(<<"inner">>, <<OV(<<"b">>, <<NullV>>)>>), <<"Outer">>) = "F"
ASSUME TypeOK(T0, OV(<<"inner", "c">>, <<OV(<<"a">>, <<I(<<1>>)>>), I(<<7>>)>>), <<"Outer">>) = "T"      \* coercion inside an input object
ASSUME TypeOK(T0, StrV(<<50, 48, 50, 48, 45, 48, 49, 45, 51, 49>>), <<"Date">>) = "T" /\ TypeOK(T0, StrV(<<50, 48, 50, 48, 45, 49, 51, 45, 48, 49>>), <<"Date">>) = "F"
ASSUME TypeOK(T0, StrV(<<>>), <<"Unreg">>) = "U" /\ TypeOK(T0, NullV, <<"Unreg">>) = "T" /\ TypeOK(T0, I(<<1>>), <<"Obj">>) = "F"
ASSUME HasNull(OV(<<"a">>, <<LV(<<NullV>>)>>)) /\ ~HasNull(OV(<<"a">>, <<LV(<<>>)>>)) /\ HasNUL(LV(<<StrV(<<97, 0>>)>>)) /\ ~HasNUL(StrV(<<97>>)) /\ HasNonAscii(StrV(<<233>>))

(* ------------------------------ export --------------------------------- *)
OpView(o) == [root |-> o.root, field |-> o.field, rootName |-> RootName(shape, o.root),
              generatable |-> o \in CanOps,
              canon |-> Canon(shape, o),
              mutants |-> {[name |-> m.name, rule |-> m.rule, doc |-> m.doc,
                            viol |-> DocViol(shape, [allowNull |-> TRUE, allowX00 |-> TRUE, ascii |-> FALSE], o, m.doc)] : m \in Mutants(shape, o)}]
View == [shape |-> shape, types |-> Types(shape), source |-> SourceTypes(shape), edits |-> HookEdits(shape),
         roots |-> [query |-> RootQ(shape), mutation |-> RootM(shape), subscription |-> RootS(shape)],
         ops |-> {OpView(o) : o \in AllOps(shape)},
         filters |-> {[filt |-> fl, offered |-> Offered(shape, fl), selected |-> Counts(shape, fl).selected,
                       total |-> Counts(shape, fl).total] : fl \in Filters(shape)}]
Export == PrintT(<<"CASE", ToJson(View)>>)
=============================================================================
