SPECIFICATION JSpec
CONSTANT MaxDev = 13
CONSTANT MaxLen = 9
INVARIANT Report
CHECK_DEADLOCK FALSE
