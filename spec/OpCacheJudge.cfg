SPECIFICATION JSpec
CONSTANT MaxDev = 0
CONSTANT Diag = FALSE
CONSTANT MaxLen = 9
INVARIANT Report
CHECK_DEADLOCK FALSE
