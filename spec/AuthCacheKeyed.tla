--------------------------- MODULE AuthCacheKeyed ---------------------------
(***************************************************************************)
(* C14 (second sentence), design exploration: ONE REFRESH LOCK PER CACHE   *)
(* KEY instead of AuthCache.tla's single lock - the refactoring that lets  *)
(* tokens of different keys be fetched in parallel (seeded change          *)
(* C14-r4v1 did exactly this).  The per-key lock lives in a map that is    *)
(* filled lazily.  AtomicCreate = TRUE is `locks.setdefault(key, Lock())`  *)
(* (one step: look up, create if absent, store); AtomicCreate = FALSE is   *)
(* the check-then-act version (`if key not in locks: locks[key] = Lock()`, *)
(* then `locks[key]`): look-up and store are two steps, so two threads can *)
(* both see "absent", each stores its own lock object, and the one whose   *)
(* store came first goes on with a lock object nobody else will ever use.  *)
(* TLC proves FetchOnce for the atomic design (and the parallelism it is   *)
(* for: FetchesOverlap is reachable) and refutes the racy one.  Everything *)
(* else is AuthCache.tla's protocol step by step.                          *)
(***************************************************************************)
EXTENDS Naturals, Sequences, FiniteSets, TLC
CONSTANTS Threads, Keys, R, MaxTime, MaxCalls, MaxLocks, AtomicCreate
None == [data |-> 0, expires |-> 0, set |-> FALSE]
VARIABLES cache, lockmap, held, nlocks, mylock, pc, key, now, fetches, calls
vars == <<cache, lockmap, held, nlocks, mylock, pc, key, now, fetches, calls>>
Valid(e) == e.set /\ now < e.expires
Init == /\ cache = [k \in Keys |-> None] /\ lockmap = [k \in Keys |-> 0] /\ held = [l \in 1..MaxLocks |-> 0] /\ nlocks = 0
        /\ mylock = [t \in Threads |-> 0] /\ pc = [t \in Threads |-> "idle"] /\ key = [t \in Threads |-> 0]
        /\ now = 0 /\ fetches = <<>> /\ calls = 0
Call(t, k) == /\ pc[t] = "idle" /\ calls < MaxCalls /\ key' = [key EXCEPT ![t] = k] /\ pc' = [pc EXCEPT ![t] = "read"] /\ calls' = calls + 1
              /\ UNCHANGED <<cache, lockmap, held, nlocks, mylock, now, fetches>>
Read(t) == /\ pc[t] = "read" /\ pc' = [pc EXCEPT ![t] = IF Valid(cache[key[t]]) THEN "idle" ELSE "getlock"]
           /\ UNCHANGED <<cache, lockmap, held, nlocks, mylock, key, now, fetches, calls>>
(* look the key's lock up; the atomic design creates and stores it in the same step *)
GetLock(t) == /\ pc[t] = "getlock"
              /\ IF lockmap[key[t]] # 0
                 THEN mylock' = [mylock EXCEPT ![t] = lockmap[key[t]]] /\ pc' = [pc EXCEPT ![t] = "acquire"] /\ UNCHANGED <<lockmap, nlocks>>
                 ELSE IF AtomicCreate
                      THEN /\ nlocks < MaxLocks /\ nlocks' = nlocks + 1 /\ lockmap' = [lockmap EXCEPT ![key[t]] = nlocks + 1]
                           /\ mylock' = [mylock EXCEPT ![t] = nlocks + 1] /\ pc' = [pc EXCEPT ![t] = "acquire"]
                      ELSE pc' = [pc EXCEPT ![t] = "mklock"] /\ UNCHANGED <<lockmap, nlocks, mylock>>
              /\ UNCHANGED <<cache, held, key, now, fetches, calls>>
(* check-then-act: the thread saw "absent" one step ago and stores a fresh lock object now, whatever is there meanwhile *)
MkLock(t) == /\ pc[t] = "mklock" /\ nlocks < MaxLocks /\ nlocks' = nlocks + 1 /\ lockmap' = [lockmap EXCEPT ![key[t]] = nlocks + 1]
             /\ pc' = [pc EXCEPT ![t] = "relook"] /\ UNCHANGED <<cache, held, mylock, key, now, fetches, calls>>
ReLook(t) == /\ pc[t] = "relook" /\ mylock' = [mylock EXCEPT ![t] = lockmap[key[t]]] /\ pc' = [pc EXCEPT ![t] = "acquire"]
             /\ UNCHANGED <<cache, lockmap, held, nlocks, key, now, fetches, calls>>
Acquire(t) == /\ pc[t] = "acquire" /\ held[mylock[t]] = 0 /\ held' = [held EXCEPT ![mylock[t]] = t] /\ pc' = [pc EXCEPT ![t] = "reread"]
              /\ UNCHANGED <<cache, lockmap, nlocks, mylock, key, now, fetches, calls>>
ReRead(t) == /\ pc[t] = "reread"
             /\ IF Valid(cache[key[t]]) THEN pc' = [pc EXCEPT ![t] = "idle"] /\ held' = [held EXCEPT ![mylock[t]] = 0]
                ELSE pc' = [pc EXCEPT ![t] = "fetch"] /\ UNCHANGED held
             /\ UNCHANGED <<cache, lockmap, nlocks, mylock, key, now, fetches, calls>>
Fetch(t) == /\ pc[t] = "fetch" /\ fetches' = Append(fetches, [k |-> key[t], at |-> now]) /\ pc' = [pc EXCEPT ![t] = "write"]
            /\ UNCHANGED <<cache, lockmap, held, nlocks, mylock, key, now, calls>>
Write(t) == /\ pc[t] = "write" /\ cache' = [cache EXCEPT ![key[t]] = [data |-> Len(fetches), expires |-> now + R, set |-> TRUE]]
            /\ held' = [held EXCEPT ![mylock[t]] = 0] /\ pc' = [pc EXCEPT ![t] = "idle"]
            /\ UNCHANGED <<lockmap, nlocks, mylock, key, now, fetches, calls>>
Tick == /\ now < MaxTime /\ now' = now + 1 /\ UNCHANGED <<cache, lockmap, held, nlocks, mylock, pc, key, fetches, calls>>
Next == Tick \/ \E t \in Threads : Read(t) \/ GetLock(t) \/ MkLock(t) \/ ReLook(t) \/ Acquire(t) \/ ReRead(t) \/ Fetch(t) \/ Write(t)
                                   \/ \E k \in Keys : Call(t, k)
Spec == Init /\ [][Next]_vars
FetchOnce == \A i, j \in 1..Len(fetches) : (i < j /\ fetches[i].k = fetches[j].k) => fetches[j].at >= fetches[i].at + R
(* one lock object per key, for ever: what the atomic creation guarantees and the racy one breaks *)
OneLockPerKey == \A t \in Threads : pc[t] \in {"acquire", "reread", "fetch", "write"} => mylock[t] = lockmap[key[t]]
InCritical(t) == pc[t] \in {"reread", "fetch", "write"}
ExclusionPerKey == \A a, b \in Threads : (a # b /\ InCritical(a) /\ InCritical(b)) => key[a] # key[b]
LockOwner == \A l \in 1..MaxLocks : held[l] # 0 => (InCritical(held[l]) /\ mylock[held[l]] = l)
(* what the design is for - must be REACHABLE (checked as an invariant that TLC has to violate in the witness cfg) *)
NoOverlap == ~(\E a, b \in Threads : a # b /\ pc[a] = "write" /\ pc[b] = "write")
=============================================================================
