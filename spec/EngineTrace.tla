---------------------------- MODULE EngineTrace ----------------------------
(***************************************************************************)
(* Action-level trace validation of the engine's unit phase: every line of *)
(* a run that was executed under the deterministic scheduler (exactly one  *)
(* instrumented thread moves at a time, so log order = execution order) is *)
(* explained by ONE action of Engine.tla; steps the hooks do not log (test  *)
(* construction, the per-case stop check, sending) are silent actions that *)
(* TLC infers.  A run is accepted iff some interleaving of silent steps    *)
(* consumes the whole log; every Engine invariant is evaluated after every *)
(* line.  Lines:                                                           *)
(*   G role tok   a granted scheduling token (see harness/sched.py)        *)
(*   Y k st sc    an event yielded to the stream consumer                  *)
(***************************************************************************)
EXTENDS Engine, Json, IOUtils
Runs == JsonDeserialize(IOEnv.OBS_FILE)      \* sequence of sequences of lines
VARIABLES t, l
tvars == <<vars, t, l>>
Lines == Runs[t]
Line == Lines[l]
More == l <= Len(Lines)
Consume == l' = l + 1 /\ t' = t
Keep == UNCHANGED <<t, l>>
IsG(role, tok) == More /\ Line.e = "G" /\ Line.role = role /\ Line.tok = tok
IsY(k) == More /\ Line.e = "Y" /\ Line.k = k

TInit == Init /\ t \in 1..Len(Runs) /\ l = 1

RoleStr(w) == CASE w = 1 -> "1" [] w = 2 -> "2" [] w = 3 -> "3" [] OTHER -> "?"
TookTok(op) == CASE op = 0 -> "took:0" [] op = 1 -> "took:1" [] op = 2 -> "took:2" [] op = 3 -> "took:3" [] OTHER -> "took:?"

Silent == /\ Keep
          /\ \/ \E w \in Workers : W_Create(w) \/ W_CaseCheck(w) \/ W_Done(w) \/ W_Send(w) \/ (W_Loop(w) /\ wpc'[w] = "take")
             \/ C_Join

Logged ==
  /\ Consume
  /\ \/ IsY("ES") /\ P_Start
     \/ IsY("PS") /\ P_PhaseStarted
     \/ IsY("PF") /\ ((P_Skip /\ Line.st = "skip") \/ (U_PhaseFinish /\ Line.st = pstatus))
     \/ IsY("EF") /\ P_Finish
     \/ IsY("SS") /\ U_SuiteStart
     \/ IsY("SF") /\ U_SuiteFinish /\ Line.st = pstatus
     \/ IsY("INT") /\ ((C_Yield /\ cur.k = "INT") \/ C_CtrlC)
     \/ (More /\ Line.e = "Y" /\ Line.k \in {"ScS", "ScF", "NFE"}) /\ C_Yield /\ cur.k = Line.k /\ cur.sc = Line.sc
           /\ (Line.k = "ScF" => cur.st = Line.st)
     \/ IsG("c", "got") /\ C_Get
     \/ IsG("c", "empty") /\ C_Timeout
     \/ IsG("c", "alive") /\ C_Alive
     \/ IsG("env", "stop") /\ Env_Stop
     \/ \E w \in Workers :
          \/ IsG(RoleStr(w), "loop") /\ wpc[w] = "take" /\ UNCHANGED vars        \* about to ask the producer (the stop check before it is silent)
          \/ \E op \in Ops : IsG(RoleStr(w), TookTok(op)) /\ W_Take(w) /\ wop'[w] = op /\ wpc'[w] = "create"
          \/ IsG(RoleStr(w), "took:0") /\ W_Take(w) /\ wpc'[w] = "dead"                            \* no operation left
          \/ IsG(RoleStr(w), "exit") /\ ((W_Loop(w) /\ wpc'[w] = "dead") \/ (wpc[w] = "dead" /\ UNCHANGED vars))
          \/ IsG(RoleStr(w), "put:ScS") /\ (W_Started(w) \/ W_Err1(w))
          \/ IsG(RoleStr(w), "put:NFE") /\ (W_Err2(w) \/ W_PutNFE(w))
          \/ IsG(RoleStr(w), "put:ScF") /\ W_Finish(w)
          \/ IsG(RoleStr(w), "put:INT") /\ W_Intr(w)

TNext == Silent \/ Logged
TSpec == TInit /\ [][TNext]_tvars

Accepted == l = Len(Lines) + 1
EngineInvariants == ProtocolOK /\ ClosedAtEnd /\ NoProblemLost /\ ZeroMeansClean /\ AtMostOneAfterStop /\ MaxFailuresRespected
Report == /\ IF Accepted THEN PrintT(<<"ACCEPT", t>>) ELSE TRUE
          /\ IF EngineInvariants THEN TRUE ELSE PrintT(<<"INVARIANT", t, l - 1>>)
          /\ IF ~Accepted /\ ~ENABLED TNext THEN PrintT(<<"STUCK", t, l>>) ELSE TRUE
=============================================================================
