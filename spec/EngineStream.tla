---------------------------- MODULE EngineStream ----------------------------
(***************************************************************************)
(* Trace specification (code -> spec) for C05 / C11 / C12 at the level of  *)
(* what a consumer of the engine can observe: the yielded event stream,    *)
(* the requests the API received (server log), worker send points, stop    *)
(* requests, injected faults and the exit code computed by the CLI         *)
(* context.  Every recorded run is one initial state; each action consumes *)
(* one line of the run's global log and all invariants are evaluated after *)
(* every line.                                                             *)
(*                                                                         *)
(* C11: the stream is accepted by the EventProtocol reference automaton.   *)
(* C05: a bad response / injected fault / schema error is reported         *)
(*      (scenario, phase, exit code), exit code 0 only for clean runs.     *)
(* C12: max-examples, max-failures + later phases skipped, at most one     *)
(*      request per worker after a stop, no scenario delivered after a     *)
(*      stop, unique inputs.                                               *)
(***************************************************************************)
EXTENDS EventProtocol, Integers, Sequences, TLC, Json, IOUtils

Runs == JsonDeserialize(IOEnv.OBS_FILE)      \* sequence of [hdr |-> ..., lines |-> <<...>>]
NPhases == 5
Fuzzing == 4
Stateful == 5

VARIABLES t,        \* run id
          l,        \* next line of the run
          mon,      \* EventProtocol monitor
          acc,      \* accounting record (see AccInit)
          why       \* "" or the first violated clause (reporting only)
vars == <<t, l, mon, acc, why>>

Hdr == Runs[t].hdr
Lines == Runs[t].lines
Line == Lines[l]
MaxFail == Hdr.maxfail

AccInit == [bad |-> {},          \* <<phase, op>> : the API answered badly (5xx / dropped connection)
            faults |-> {},       \* <<phase, op>> : an injected fault fired
            efaults |-> {},      \* <<phase, op>> : ... that was an ERROR (an exception that is not a failed assertion of a check)
            rep |-> {},          \* <<phase, op, status>> : delivered ScenarioFinished
            pf |-> {},           \* <<phase, status, skipReason>> : delivered PhaseFinished
            nfe |-> {},          \* <<phase, op>> : delivered NonFatalError
            sent |-> {},         \* <<phase, op, request number>> (numbered per run)
            digests |-> {},      \* <<op, digest>> seen in unit phases
            dup |-> FALSE,       \* a unit-phase request digest was repeated for the same operation
            stopped |-> FALSE, ctrlc |-> FALSE, crashed |-> FALSE,
            afterStop |-> {},    \* <<thread, n>> sends after the stop request, unit phases
            limited |-> FALSE,   \* the failure limit was reached (ExecutionControl.count_failure logged limit = TRUE)
            afterLimit |-> {},   \* <<thread, n>> sends after the failure limit was reached
            reqAfterStopStateful |-> 0,
            scsAfterStopUnit |-> 0,
            putAfterStop |-> {}, \* <<thread, n>> ScenarioStarted events enqueued after the stop request
            limitAt |-> 0,       \* phase in which the failure limit was reached (0 = not reached)
            badRecorded |-> TRUE,\* every failed check was recorded with its case, request and reproduction command
            times |-> <<>>,      \* arrival times (ms) of the requests, only kept when a rate limit is configured
            rateBad |-> FALSE,
            scenReq |-> 0,       \* requests of the current stateful scenario (reset when the thread announces a scenario)
            hung |-> FALSE,      \* the event stream stopped producing events: the harness' watchdog expired while it waited for the next one
            stepsBad |-> FALSE,  \* a stateful scenario sent more requests than the configured number of steps
            statlost |-> 0,      \* distinct delivered failures that are missing from the CLI statistic at the end of the run
            deaths |-> 0,        \* threads that died with an uncaught exception (each is a problem that must be reported)
            exit |-> -1, nreq |-> 0]

Init == /\ t \in 1..Len(Runs) /\ l = 1 /\ mon = MonInit /\ acc = AccInit /\ why = ""

IsUnit(ph) == ph \in {2, 3, 4}
StopRequested == acc.stopped \/ acc.ctrlc      \* EventStream.stop() was called, or Ctrl-C reached the consumer (both are stop requests)
RateJitter == (Hdr.rateW * 3) \div 5       \* scheduling jitter allowance for the rate-limit clause (timing, not logic; generous: arrival times are taken by a loaded server thread)
CountThr(S, thr) == Cardinality({x \in S : x[1] = thr})

Step ==
  /\ l <= Len(Lines)
  /\ l' = l + 1 /\ t' = t /\ UNCHANGED why
  /\ LET x == Line IN
     CASE x.e = "Y" /\ x.k = "FE" ->      \* FatalError: not an engine event of the protocol; recorded as a crash
            /\ acc' = [acc EXCEPT !.crashed = TRUE] /\ UNCHANGED mon
       [] x.e = "Y" ->
            /\ mon' = Observe(mon, x, MaxFail, acc.stopped \/ acc.ctrlc)
            /\ acc' = [acc EXCEPT
                 !.rep = IF x.k = "ScF" THEN @ \cup {<<x.ph, x.op, x.st>>} ELSE @,
                 !.pf = IF x.k = "PF" THEN @ \cup {<<x.ph, x.st, x.skip>>} ELSE @,
                 !.nfe = IF x.k = "NFE" THEN @ \cup {<<x.ph, x.op>>} ELSE @,
                 !.badRecorded = @ /\ (x.k = "ScF" => x.reqok),
                 !.crashed = @ \/ x.ctxerr # "",
                 !.scsAfterStopUnit = IF x.k = "ScS" /\ StopRequested /\ IsUnit(x.ph) THEN @ + 1 ELSE @,
                 !.limitAt = IF @ = 0 /\ x.k = "ScF" /\ IsBad(x.st) /\ MaxFail # 0 /\ mon.nbad + 1 >= MaxFail THEN x.ph ELSE @]
       [] x.e = "R" ->
            /\ acc' = [acc EXCEPT
                 !.bad = IF x.bad THEN @ \cup {<<x.ph, x.op>>} ELSE @,
                 !.nreq = @ + 1,
                 !.sent = @ \cup {<<x.ph, x.op, acc.nreq + 1>>},
                 !.dup = @ \/ (IsUnit(x.ph) /\ <<x.op, x.dg>> \in acc.digests),
                 !.digests = IF IsUnit(x.ph) THEN @ \cup {<<x.op, x.dg>>} ELSE @,
                 !.reqAfterStopStateful = IF StopRequested /\ x.ph = Stateful THEN @ + 1 ELSE @,
                 !.scenReq = IF x.ph = Stateful THEN @ + 1 ELSE @,
                 !.stepsBad = @ \/ (x.ph = Stateful /\ acc.scenReq + 1 > Hdr.steps),
                 !.times = IF Hdr.rateL > 0 THEN Append(@, x.t) ELSE @,
                 !.rateBad = @ \/ (Hdr.rateL > 0 /\ Len(acc.times) >= Hdr.rateL
                                     /\ x.t - acc.times[Len(acc.times) - Hdr.rateL + 1] < Hdr.rateW - RateJitter)]
            /\ UNCHANGED mon
       [] x.e = "SEND" ->
            /\ acc' = [acc EXCEPT !.afterStop = IF StopRequested THEN @ \cup {<<x.thr, CountThr(@, x.thr) + 1>>} ELSE @,
                                  !.afterLimit = IF acc.limited THEN @ \cup {<<x.thr, CountThr(@, x.thr) + 1>>} ELSE @]
            /\ UNCHANGED mon
       [] x.e = "COUNT" -> acc' = [acc EXCEPT !.limited = @ \/ x.limit] /\ UNCHANGED mon
       [] x.e = "QPUT" ->
            /\ acc' = [acc EXCEPT !.putAfterStop = IF StopRequested /\ x.k = "ScS" THEN @ \cup {<<x.thr, CountThr(@, x.thr) + 1>>} ELSE @,
                                  !.scenReq = IF x.k = "ScS" /\ x.ph = Stateful THEN 0 ELSE @]
            /\ UNCHANGED mon
       [] x.e = "STOP" -> acc' = [acc EXCEPT !.stopped = TRUE] /\ UNCHANGED mon
       [] x.e = "CTRLC" -> acc' = [acc EXCEPT !.ctrlc = TRUE] /\ UNCHANGED mon
       [] x.e = "FAULT" -> acc' = [acc EXCEPT !.faults = @ \cup {<<x.ph, x.op>>},
                                              !.efaults = IF x.exc # "AssertionError" /\ x.ph \in {2, 3, 4} /\ x.op # 0 /\ x.site # "unit.worker.case"
                                                          THEN @ \cup {<<x.ph, x.op>>} ELSE @]      \* (the case hook sits outside the test function's own try block:
                                                                                                     \*  an exception there is the harness', not a place where the code can raise)
                           /\ UNCHANGED mon
       [] x.e = "CRASH" -> acc' = [acc EXCEPT !.crashed = TRUE] /\ UNCHANGED mon
       [] x.e = "HANG" -> acc' = [acc EXCEPT !.hung = TRUE] /\ UNCHANGED mon
       [] x.e = "TDEATH" -> acc' = [acc EXCEPT !.faults = @ \cup {<<x.ph, 0>>}, !.deaths = @ + 1] /\ UNCHANGED mon
       [] x.e = "X" -> acc' = [acc EXCEPT !.exit = x.code, !.statlost = x.statlost] /\ UNCHANGED mon
       [] OTHER -> UNCHANGED <<mon, acc>>       \* informational lines (STEP, WEXIT, COUNT)

Next == Step
Spec == Init /\ [][Next]_vars

AtEnd == l = Len(Lines) + 1
Interrupted == acc.stopped \/ acc.ctrlc \/ mon.intr
Cut == Interrupted \/ acc.limitAt # 0          \* interrupted, or cut short by --max-failures (DESIGN App. F.2)
PhaseStatus(ph) == {x[2] : x \in {y \in acc.pf : y[1] = ph}}
PhaseBad(ph) == \E s \in PhaseStatus(ph) : IsBad(s)
Enabled(ph) == Hdr.enabled[ph]

(* ---------------- C11 ---------------- *)
ProtocolOK == ~Bad(mon)
(* runs of the real CLI in a subprocess carry only what is visible from outside: the requests the API received and the
   process exit code (Hdr.cli); the stream clauses do not apply to them *)
Cli == Hdr.cli
EndProtocolOK == (AtEnd /\ ~Cli) => EndOK(mon, NPhases, MaxFail, acc.stopped \/ acc.ctrlc)
NoCrash == ~acc.crashed                       \* neither the stream nor the CLI context raised
(* the implementation-side face of Engine!Termination / Stateful!Termination: "exactly one finish event last" needs the stream to end *)
Terminates == ~acc.hung

(* ---------------- C05 ---------------- *)
Problems == acc.bad \cup acc.faults
(* which scenario must carry a problem of <<ph, op>>: the operation's own scenario in unit phases, any scenario in stateful *)
ReportedBad(ph, op) ==
    IF ph = Stateful THEN \E r \in acc.rep : r[1] = ph /\ IsBad(r[3])
    ELSE IF op = 0 THEN (\E r \in acc.rep : r[1] = ph /\ IsBad(r[3])) \/ (\E n \in acc.nfe : n[1] = ph)
    ELSE \E r \in acc.rep : r[1] = ph /\ r[2] = op /\ IsBad(r[3])
NoProblemLost == (AtEnd /\ ~Cut) =>
    \A p \in Problems : /\ (Cli \/ ReportedBad(p[1], p[2]))
                        /\ (Cli \/ PhaseBad(p[1]))
                        /\ acc.exit # 0
(* the process exit code of the real CLI: non-zero when the API answered badly, a selected operation could not be prepared
   (invalid / unserialisable definition) or an event handler raised *)
CliExitCode == (AtEnd /\ Cli) =>
    /\ ((Len(Hdr.invalid) > 0 \/ Len(Hdr.weird) > 0) /\ Enabled(Fuzzing) => acc.exit # 0)
    /\ (Hdr.handlerfault => acc.exit # 0)
SchemaErrorsReported == (AtEnd /\ ~Cut /\ ~Cli) =>
    \A i \in 1..Len(Hdr.invalid) : \A ph \in {Fuzzing} :
        (Enabled(ph) /\ \E x \in acc.pf : x[1] = ph /\ x[2] # "skip") =>
            (\E r \in acc.rep : r[1] = ph /\ r[2] = Hdr.invalid[i] /\ IsBad(r[3])) /\ acc.exit # 0
(* a failed / errored scenario that WAS delivered always counts, also when the run is then cut short by --max-failures:
   only an external stop / Ctrl-C exempts the phase status and the exit code *)
ExternallyInterrupted == acc.stopped \/ acc.ctrlc
DeliveredFailureCounts == (AtEnd /\ ~ExternallyInterrupted) =>
    \A r \in acc.rep : IsBad(r[3]) => PhaseBad(r[1]) /\ acc.exit # 0
UnserializableReported == (AtEnd /\ ~Cut /\ ~Cli) =>
    \A i \in 1..Len(Hdr.weird) : \A ph \in {3, 4} :
        (Enabled(ph) /\ \E x \in acc.pf : x[1] = ph /\ x[2] # "skip") =>
            (\E r \in acc.rep : r[1] = ph /\ r[2] = Hdr.weird[i] /\ IsBad(r[3])) /\ acc.exit # 0
FailuresRecordedWithRequest == acc.badRecorded /\ acc.statlost = 0
(* an internal ERROR (as opposed to a failed check) while testing an operation is itself reported - as a NonFatalError of that operation or
   as the ERROR status of its scenario - also when a failed check of a later case decides the scenario's status *)
ErrorsReported == (AtEnd /\ ~Cut /\ ~Cli) =>
    \A p \in acc.efaults : (p \in acc.nfe) \/ (\E r \in acc.rep : r[1] = p[1] /\ r[2] = p[2] /\ r[3] = "error")
ZeroMeansClean == (AtEnd /\ ~Cut /\ acc.exit = 0) =>
    /\ Problems = {} /\ acc.nfe = {}
    /\ (Cli \/ \A r \in acc.rep : ~IsBad(r[3]))
    /\ (Cli \/ \A ph \in {2, 3, 4} : (Enabled(ph) /\ PhaseStatus(ph) # {}) =>
          \A op \in 1..Hdr.nops : \E r \in acc.rep : r[1] = ph /\ r[2] = op /\ r[3] \in {"success", "skip"})
ExitCodeSet == (AtEnd /\ ~Cli) => acc.exit \in {0, 1}
(* "the exit code is zero only if every selected operation was either TESTED without a failing check or explicitly reported as
   skipped": an operation reported as passed in a unit phase has received at least one request during the run (with unique-inputs
   a later phase may legitimately have nothing new to send, so the requests of all phases count) *)
TestedMeansSent == (AtEnd /\ ~Cut /\ ~Cli /\ acc.exit = 0) =>
    \A r \in acc.rep : (r[1] \in {2, 3, 4} /\ r[3] = "success" /\ r[2] # 0) => \E x \in acc.sent : x[2] = r[2]

(* ---------------- C12 ---------------- *)
SentCount(ph, op) == Cardinality({x \in acc.sent : x[1] = ph /\ x[2] = op})
MaxExamplesRespected ==      \* only for operations on which nothing failed in the fuzzing phase (no shrinking / replay)
    \A op \in 1..Hdr.nops :
        (/\ <<Fuzzing, op, "success">> \in acc.rep
         /\ ~\E r \in acc.rep : r[1] = Fuzzing /\ r[2] = op /\ r[3] # "success"
         /\ <<Fuzzing, op>> \notin Problems)
            => SentCount(Fuzzing, op) <= Hdr.maxex
MaxFailuresRespected == MaxFail # 0 => mon.nbad <= MaxFail
LaterPhasesSkipped == (AtEnd /\ acc.limitAt # 0 /\ ~Interrupted) =>
    \A ph \in (acc.limitAt + 1)..NPhases :
        /\ \E x \in acc.pf : x[1] = ph
        /\ \A x \in acc.pf : x[1] = ph => x[2] = "skip" /\ (Enabled(ph) => x[3] = "failure limit reached")
(* no scenario is delivered by a unit phase after the stop request; no thread announces more than the one scenario it
   may have been starting when the request arrived *)
NoScenarioAfterStop == acc.scsAfterStopUnit = 0 /\ \A x \in acc.putAfterStop : x[2] <= 1
(* the engine's own decision to stop (failure limit reached) binds the workers like an external stop request *)
AtMostOneSendAfterStop == /\ \A x \in acc.afterStop : x[2] <= 1
                          /\ \A x \in acc.afterLimit : x[2] <= 1
                          /\ acc.reqAfterStopStateful <= 1
UniqueInputs == Hdr.unique => ~acc.dup
(* a stateful sequence never exceeds the configured number of steps (requests counted by the API between two scenario announcements) *)
StepCountRespected == ~acc.stepsBad
(* any rateL + 1 consecutive requests span at least one window, up to the stated scheduling jitter (timing, not logic:
   arrival times are taken by the API, the limiter works on send times) *)
RateRespected == ~acc.rateBad

AllOK == /\ ProtocolOK /\ EndProtocolOK /\ NoCrash /\ Terminates /\ NoProblemLost /\ CliExitCode /\ DeliveredFailureCounts /\ SchemaErrorsReported /\ UnserializableReported /\ FailuresRecordedWithRequest /\ ErrorsReported
         /\ ZeroMeansClean /\ ExitCodeSet /\ TestedMeansSent /\ MaxExamplesRespected /\ MaxFailuresRespected /\ LaterPhasesSkipped
         /\ NoScenarioAfterStop /\ AtMostOneSendAfterStop /\ UniqueInputs /\ RateRespected /\ StepCountRespected

ViolatedClauses ==
    (IF ~ProtocolOK THEN {"C11 ProtocolOK: " \o mon.why} ELSE {}) \cup
    (IF ~EndProtocolOK THEN {"C11 EndProtocolOK"} ELSE {}) \cup
    (IF ~NoCrash THEN {"C11 NoCrash"} ELSE {}) \cup
    (IF ~Terminates THEN {"C11 Terminates"} ELSE {}) \cup
    (IF ~NoProblemLost THEN {"C05 NoProblemLost"} ELSE {}) \cup
    (IF ~CliExitCode THEN {"C05 CliExitCode"} ELSE {}) \cup
    (IF ~DeliveredFailureCounts THEN {"C05 DeliveredFailureCounts"} ELSE {}) \cup
    (IF ~SchemaErrorsReported THEN {"C05 SchemaErrorsReported"} ELSE {}) \cup
    (IF ~UnserializableReported THEN {"C05 UnserializableReported"} ELSE {}) \cup
    (IF ~FailuresRecordedWithRequest THEN {"C05 FailuresRecordedWithRequest"} ELSE {}) \cup
    (IF ~ErrorsReported THEN {"C05 ErrorsReported"} ELSE {}) \cup
    (IF ~ZeroMeansClean THEN {"C05 ZeroMeansClean"} ELSE {}) \cup
    (IF ~ExitCodeSet THEN {"C05 ExitCodeSet"} ELSE {}) \cup
    (IF ~TestedMeansSent THEN {"C05 TestedMeansSent"} ELSE {}) \cup
    (IF ~MaxExamplesRespected THEN {"C12 MaxExamplesRespected"} ELSE {}) \cup
    (IF ~MaxFailuresRespected THEN {"C12 MaxFailuresRespected"} ELSE {}) \cup
    (IF ~LaterPhasesSkipped THEN {"C12 LaterPhasesSkipped"} ELSE {}) \cup
    (IF ~NoScenarioAfterStop THEN {"C12 NoScenarioAfterStop"} ELSE {}) \cup
    (IF ~AtMostOneSendAfterStop THEN {"C12 AtMostOneSendAfterStop"} ELSE {}) \cup
    (IF ~UniqueInputs THEN {"C12 UniqueInputs"} ELSE {}) \cup
    (IF ~RateRespected THEN {"C12 RateRespected"} ELSE {}) \cup
    (IF ~StepCountRespected THEN {"C12 StepCountRespected"} ELSE {})

(* reporting invariant: always TRUE; one line per accepted run, one per first violation of a run *)
Report == /\ IF AllOK THEN TRUE ELSE \A c \in ViolatedClauses : PrintT(<<"REJECT", t, l - 1, c>>)
          /\ IF AtEnd /\ AllOK THEN PrintT(<<"ACCEPT", t, Cardinality(Problems), mon.nbad>>) ELSE TRUE
=============================================================================
