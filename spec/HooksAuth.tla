----------------------------- MODULE HooksAuth -----------------------------
(***************************************************************************)
(* C19, auth providers: a provider registered with apply_to / skip_for is  *)
(* applied to exactly the operations matching its own filters.             *)
(*                                                                         *)
(* Actions (one per user-visible call):                                    *)
(*   AuthRegister(s, f, c)                                                 *)
(*      s = "global" (schemathesis.auth), "schema" (schema.auth),          *)
(*          "test" (the storage that `apply` attaches to a test function)  *)
(*      f = "register"  @storage.register().<chain>   class Provider       *)
(*          "call"      @storage().<chain>            class Provider       *)
(*      k = caching option passed to register / __call__ / apply:          *)
(*          refresh_interval default | number | None, with / without       *)
(*          cache_by_key ("-" for set_from_requests, which has none)       *)
(*          "requests"  storage.set_from_requests(auth).<chain>            *)
(*          "apply"     @schema.auth(Provider).<chain> on the test         *)
(*      c = the chain written in that registration ("-" = none)            *)
(*   AuthUnregister(s)   storage.unregister(): drops the providers of s    *)
(*                                                                         *)
(* Oracle, from the property text: a provider may set the auth of a case   *)
(* for operation o only if it is registered and o is selected by its own   *)
(* filter (May).  The text does not say which of several applicable        *)
(* providers wins, nor whether a more specific scope shadows a less        *)
(* specific one, so completeness is demanded only when it is unambiguous:  *)
(* if providers live on exactly one scope and one of them matches o, then  *)
(* some matching provider is applied ("some"); if nobody matches, nobody   *)
(* is applied ("none"); otherwise the oracle is silent ("U").              *)
(***************************************************************************)
EXTENDS HooksCatalogue, TLC, Json

CONSTANTS MaxAuth,     \* maximal number of provider registrations
          MaxLen       \* maximal number of events

AScopes == {"global", "schema", "test"}
AForms(s) == IF s = "test" THEN {"apply"}
             ELSE IF Rich THEN {"register", "call", "requests"} ELSE {"call", "requests"}
AChains == IF Rich THEN ChainIds ELSE {"C1", "C2", "C3"}
(* caching options of a provider-class registration: refresh_interval default / a number / None, with or without cache_by_key. *)
(* They decide how auth data is cached, never where the provider applies.  The first registration of a history takes every   *)
(* option, a later one the option that follows its predecessor's in the cycle (all pairs of options with every form, scope   *)
(* and filter chain are covered without multiplying the family).                                                                *)
CacheOpts == <<"default", "number", "none", "keyed", "keyed_number", "keyed_none">>
CacheSet == {CacheOpts[j] : j \in 1..Len(CacheOpts)}
NextOpt(k) == LET j == CHOOSE x \in 1..Len(CacheOpts) : CacheOpts[x] = k IN CacheOpts[(j % Len(CacheOpts)) + 1]
ARegEvent(s, f, c, k) == [ev |-> "areg", s |-> s, f |-> f, c |-> c, k |-> k]
AUnregEvent(s)        == [ev |-> "aunreg", s |-> s, f |-> "-", c |-> "-", k |-> "-"]

ASelTable == [c \in ChainIds \cup {"-"} |-> [o \in 1..NOps |-> Selected(Ops[o], FilterSetOf(c))]]
ARegPositions(hs) == {k \in 1..Len(hs) : hs[k].ev = "areg"}
APosOf(hs, p) == CHOOSE k \in ARegPositions(hs) : Cardinality({j \in ARegPositions(hs) : j <= k}) = p
ANRegs(hs) == Cardinality(ARegPositions(hs))
ALive(hs, p) == LET k == APosOf(hs, p) IN ~\E j \in (k + 1)..Len(hs) : hs[j].ev = "aunreg" /\ hs[j].s = hs[k].s
(* two schemas live in the process (HooksCatalogue): the schema storage and the test storage belong to schema A, the global *)
(* storage concerns both                                                                                                     *)
ACovers(s, o) == s = "global" \/ Ops[o].schema = "A"
May(hs, p, o) == ALive(hs, p) /\ ASelTable[hs[APosOf(hs, p)].c][o] /\ ACovers(hs[APosOf(hs, p)].s, o)
LiveScopes(hs, o) == {sc \in {hs[APosOf(hs, p)].s : p \in {q \in 1..ANRegs(hs) : ALive(hs, q)}} : ACovers(sc, o)}
Must(hs, o) == IF ~\E p \in 1..ANRegs(hs) : May(hs, p, o) THEN "none"
               ELSE IF Cardinality(LiveScopes(hs, o)) = 1 THEN "some" ELSE "U"
(* verdict on an observation: obs = id of the provider whose data ended up on the case, 0 = none *)
Sound(hs, o, obs) == obs = 0 \/ (obs \in 1..ANRegs(hs) /\ May(hs, obs, o))
Complete(hs, o, obs) == Must(hs, o) = "some" => obs # 0

VARIABLES ahist, providers,    \* providers: scope -> sequence of provider ids
          aorder               \* order in which the two schemas are used when cases are generated ("AB" / "BA")
avars == <<ahist, providers, aorder>>
anreg == ANRegs(ahist)
AInit == ahist = << >> /\ providers = [s \in AScopes |-> << >>] /\ aorder \in {"AB", "BA"}
LastOpt == LET ks == {j \in 1..Len(ahist) : ahist[j].ev = "areg" /\ ahist[j].k # "-"} IN
           IF ks = {} THEN "-" ELSE ahist[CHOOSE j \in ks : \A i \in ks : i <= j].k
AuthRegister(s, f, c, k) ==
  /\ anreg < MaxAuth /\ Len(ahist) < MaxLen
  /\ f \in AForms(s)
  /\ f = "requests" <=> k = "-"
  /\ (k # "-" /\ LastOpt # "-") => k = NextOpt(LastOpt)
  /\ (k # "-" /\ LastOpt = "-" /\ ~Rich) =>      \* ... and the schema order alternates with the option (both orders for every scope, form, chain)
        aorder = (IF (CHOOSE x \in 1..Len(CacheOpts) : CacheOpts[x] = k) % 2 = 1 THEN "AB" ELSE "BA")
  /\ s = "test" => providers["test"] = << >>        \* `apply` can decorate a test function once
  /\ ahist' = Append(ahist, ARegEvent(s, f, c, k))
  /\ providers' = [providers EXCEPT ![s] = Append(@, anreg + 1)]
  /\ UNCHANGED aorder
AuthUnregister(s) ==
  /\ Len(ahist) < MaxLen /\ s # "test" /\ providers[s] # << >>
  /\ ~\E k \in 1..Len(ahist) : ahist[k].ev = "aunreg"
  /\ ahist' = Append(ahist, AUnregEvent(s))
  /\ providers' = [providers EXCEPT ![s] = << >>]
  /\ UNCHANGED aorder
ANext == \/ \E s \in AScopes, f \in {"register", "call", "requests", "apply"}, c \in AChains \cup {"-"}, k \in CacheSet \cup {"-"} :
               AuthRegister(s, f, c, k)
         \/ \E s \in AScopes : AuthUnregister(s)
ASpec == AInit /\ [][ANext]_avars

(* design invariants *)
AInList(s, p) == \E i \in 1..Len(providers[s]) : providers[s][i] = p
ATypeOK == Len(ahist) <= MaxLen /\ anreg <= MaxAuth
AStateAgrees == \A p \in 1..anreg : ALive(ahist, p) = \E s \in AScopes : AInList(s, p)
AUnfilteredEverywhere == \A p \in 1..anreg : (ahist[APosOf(ahist, p)].c = "-" /\ ALive(ahist, p)) =>
                            \A o \in 1..NOps : ACovers(ahist[APosOf(ahist, p)].s, o) => May(ahist, p, o)
(* the caching option never changes where a provider applies *)
CacheIrrelevant == \A p \in 1..anreg : \A o \in 1..NOps :
                     May(ahist, p, o) = May([j \in 1..Len(ahist) |-> [ahist[j] EXCEPT !.k = "-"]], p, o)
ANoneMeansNoMay == \A o \in 1..NOps : Must(ahist, o) = "none" <=> \A p \in 1..anreg : ~May(ahist, p, o)

Bit(b) == IF b THEN 1 ELSE 0
AExport ==
  IF ahist = << >>
  THEN aorder = "BA" \/ PrintT(<<"CATALOGUE", ToJson([ops |-> Ops, chains |-> [c \in ChainIds |-> ChainDef[c]]])>>)
  ELSE PrintT(<<"CASE", ToJson([events |-> ahist, order |-> aorder,
                                 may |-> [p \in 1..anreg |-> [o \in 1..NOps |-> Bit(May(ahist, p, o))]],
                                 must |-> [o \in 1..NOps |-> Must(ahist, o)]])>>)
=============================================================================
