SPECIFICATION Spec
CONSTANT Thorough = FALSE
INVARIANT TypeOK
INVARIANT UndefinedIffNoKey
INVARIANT DefaultCoversAll
INVARIANT ExactBeatsWildcard
INVARIANT WildcardBeatsDefault
INVARIANT UndocumentedStatusOnlyThat
INVARIANT ContentTypeKindsExclusive
INVARIANT ParamsIgnored
INVARIANT Export
CHECK_DEADLOCK FALSE
