----------------------------- MODULE SanitizeHist -----------------------------
(***************************************************************************)
(* C15 - the sanitizer under re-configuration: a history machine.          *)
(* State = the configuration currently installed in the process; actions   *)
(* Configure(op) (configure / extend / reset) and SanitizeCall(name) (any  *)
(* of sanitize_value, sanitize_url, the curl sample, the cassette writers  *)
(* asked to render a value carried under `name`).  The recorded output of  *)
(* a call is Sensitive(name, current configuration).  TLC enumerates all   *)
(* histories up to MaxSteps that end in a call - including the same name   *)
(* (hence the same URL) rendered before and after a re-configuration.      *)
(***************************************************************************)
EXTENDS Sanitize
CONSTANT MaxSteps
VARIABLES cur, hist
hvars == <<vars, cur, hist>>
HInit == /\ kind = "hist" /\ nameIx = 0 /\ cfgKind = "-" /\ route = "-" /\ sink = "-" /\ sanitize = TRUE /\ sens = FALSE /\ omitted = FALSE /\ pos = "-" /\ sep = "-" /\ shape = "-" /\ fate = "-"
         /\ cur = Cfg("default") /\ hist = <<>>
Configure(op) == /\ Len(hist) < MaxSteps
                 /\ cur' = ApplyOp(cur, op)
                 /\ hist' = Append(hist, [kind |-> "C", op |-> op, name |-> <<>>, out |-> FALSE])
SanitizeCall(n) == /\ Len(hist) < MaxSteps
                   /\ hist' = Append(hist, [kind |-> "S", op |-> "-", name |-> n, out |-> Sensitive(n, cur)])
                   /\ UNCHANGED cur
HNext == /\ UNCHANGED vars
         /\ \/ \E op \in ConfigOps : Configure(op)
            \/ \E j \in 1..Len(HNames) : SanitizeCall(HNames[j])
HSpec == HInit /\ [][HNext]_hvars

(* the state variable IS what the configuration steps say (no other influence) *)
CurIsFoldOfConfigSteps == cur = CfgAt(hist, Len(hist))
(* an output depends only on the configuration current at the call *)
DependsOnlyOnCurrent == \A j \in 1..Len(hist) : hist[j].kind = "S" => hist[j].out = Sensitive(hist[j].name, CfgAt(hist, j - 1))
SameCfgSameOutput == \A a, b \in 1..Len(hist) :
    (hist[a].kind = "S" /\ hist[b].kind = "S" /\ hist[a].name = hist[b].name /\ CfgAt(hist, a - 1) = CfgAt(hist, b - 1))
        => hist[a].out = hist[b].out
(* re-configuration matters: some history renders the same name differently before and after (witness; expected to be VIOLATED) *)
NoFlipWitness == ~\E a, b \in 1..Len(hist) : a < b /\ hist[a].kind = "S" /\ hist[b].kind = "S"
                                             /\ hist[a].name = hist[b].name /\ hist[a].out # hist[b].out
HExport == IF hist # <<>> /\ hist[Len(hist)].kind = "S" THEN PrintT(<<"HIST", ToJson([steps |-> hist])>>) ELSE TRUE
=============================================================================
