----------------------------- MODULE LinksJudge -----------------------------
(* Code -> spec.  Three kinds of observations of the real code are judged against Links' oracle:                      *)
(*  "expr":   evaluate(expression, exchange) -> value / unresolvable / rejected at parse time / error at evaluation   *)
(*  "status": the statuses for which the real state machine routes a response into the bundle of a link key          *)
(*  "tree":   evaluate(JSON tree, exchange, evaluate_nested) for requestBody-like values                                *)
(*  "same":   the source exchange before and after a derivation (must be untouched)                                  *)
(*  "live":   one link-derived request as the server received it (or, strict, one Transition returned by link.extract)   *)
EXTENDS Links, IOUtils
Obs == JsonDeserialize(IOEnv.OBS_FILE)
VARIABLE i
jvars == <<fam, e, tree, lnk, xid, key, keys, out, i>>
JInit == i \in 1..Len(Obs) /\ fam = "judge" /\ e = <<>> /\ tree = Null /\ lnk = NoLink /\ xid = "" /\ key = "" /\ keys = {} /\ out = Pending
JNext == UNCHANGED jvars
JSpec == JInit /\ [][JNext]_jvars

SeqSet(s) == {s[n] : n \in 1..Len(s)}
AgreeExpr(exp, o) == CASE exp.k = "U" -> TRUE
                       [] exp.k = "val" -> o.k = "val" /\ o.v = exp.v
                       [] exp.k = "unres" -> o.k \in {"unres", "error"}            \* nothing is sent
                       [] exp.k = "malformed" -> o.k = "rejected"                  \* refused when the link is read
                       [] exp.k = "litorrej" -> o.k = "rejected" \/ (o.k = "val" /\ o.v = exp.v)
                       [] OTHER -> o.k \in {"rejected", "unres", "error"}          \* bad pointer: refused or nothing, never a value
StatusSound(r) == SeqSet(r.matched) \subseteq {s \in Statuses : LinkMatches(r.key, s, SeqSet(r.keys))}

HasSub(s, sub) == \E n \in 1..(Len(s) - Len(sub) + 1) : SubSeq(s, n, n + Len(sub) - 1) = sub
Marker == <<85, 110, 114, 101, 115, 111, 108, 118, 97, 98, 108, 101>>              \* "Unresolvable"
ParamOK(p, x, strict) == LET exp == Eval(p.expr, x) IN
                   IF exp.k = "val" /\ exp.v.t \in {"str", "int"} THEN p.sent /\ p.text = TextOf(exp)
                   ELSE IF exp.k \in {"unres", "malformed", "badptr"} THEN ~HasSub(p.text, Marker) /\ (strict => ~p.sent)
                   ELSE TRUE
BodyOK(b, x) == ~b.has \/ LET exp == EvalTree(b.def, x) IN
                            IF exp.t = "unres" THEN (b.strict => b.sent.t = "none")   \* nothing of the link is passed on
                            ELSE IF b.merge /\ exp.t = "obj" /\ b.sent.t = "obj"
                                 THEN \A n \in 1..Len(exp.k) : Child(b.sent, exp.k[n]) = exp.a[n]     \* link values override generated ones
                                 ELSE b.sent = exp
StatusOK(r) == LinkMatches(r.key, r.x.status, SeqSet(r.keys))
Report == LET r == Obs[i] IN
            IF r.kind = "expr" THEN (IF AgreeExpr(Eval(r.e, r.x), r.obs) THEN TRUE ELSE PrintT(<<"DISAGREE", i, "expr", 0>>))
            ELSE IF r.kind = "tree" THEN (IF AgreeExpr(TreeResult(r.tree, r.x), r.obs) THEN TRUE ELSE PrintT(<<"DISAGREE", i, "tree", 0>>))
            ELSE IF r.kind = "link" THEN (IF LinkVerdict(r.link) \in {"U", r.obs} THEN TRUE ELSE PrintT(<<"DISAGREE", i, "link", 0>>))
            ELSE IF r.kind = "same" THEN (IF r.a = r.b THEN TRUE ELSE PrintT(<<"DISAGREE", i, "source-changed", 0>>))
            ELSE IF r.kind = "status" THEN (IF StatusSound(r) THEN TRUE ELSE PrintT(<<"DISAGREE", i, "status", 0>>))
            ELSE /\ IF StatusOK(r) THEN TRUE ELSE PrintT(<<"DISAGREE", i, "live-status", 0>>)
                 \* a link is fed only by responses of the operation it is declared on
                 /\ IF r.src = r.from THEN TRUE ELSE PrintT(<<"DISAGREE", i, "live-source", 0>>)
                 /\ IF BodyOK(r.body, r.x) THEN TRUE ELSE PrintT(<<"DISAGREE", i, "live-body", 0>>)
                 /\ \A n \in 1..Len(r.params) : IF ParamOK(r.params[n], r.x, r.body.strict) THEN TRUE ELSE PrintT(<<"DISAGREE", i, "live-param", n>>)
=============================================================================
