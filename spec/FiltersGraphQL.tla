--------------------------- MODULE FiltersGraphQL ---------------------------
(***************************************************************************)
(* C07 on a GraphQL schema: the operations are the fields of the Query and *)
(* Mutation root types, named "<Root>.<field>"; all of them are POST to    *)
(* the one endpoint path and none has tags or an operation id, so filters  *)
(* on those attributes match all / none of them.  Same oracle             *)
(* (FiltersMatch!SelectedVerdict), same doors (python API, command line),  *)
(* same actions Include(f) / Exclude(f) as Filters.tla.                    *)
(***************************************************************************)
EXTENDS FiltersMatch, TLC, Json
CONSTANTS GMaxIncl, GMaxExcl, GMaxTotal

EP == <<"/","g","r","a","p","h","q","l">>
GOp(root, fld) == [method |-> <<"p","o","s","t">>, path |-> EP, tags |-> << >>, opid |-> << >>, depr |-> "absent",
                   root |-> root, field |-> fld, label |-> root \o <<".">> \o fld]
TQ == <<"Q","u","e","r","y">>
TM == <<"M","u","t","a","t","i","o","n">>
F_getBooks == <<"g","e","t","B","o","o","k","s">>
F_getAuthors == <<"g","e","t","A","u","t","h","o","r","s">>
F_addBook == <<"a","d","d","B","o","o","k">>
F_addAuthor == <<"a","d","d","A","u","t","h","o","r">>
GOps == << GOp(TQ, F_getBooks), GOp(TQ, F_getAuthors), GOp(TM, F_addBook), GOp(TM, F_addAuthor) >>
GN == Len(GOps)

V(by, v)      == [by |-> by, how |-> "value", v |-> v, vs |-> << >>]
L(by, vs)     == [by |-> by, how |-> "list", v |-> << >>, vs |-> vs]
R(by, how, v) == [by |-> by, how |-> how, v |-> v, vs |-> << >>]
GFilterDef ==
  << {V("name", TQ \o <<".">> \o F_getBooks)},                                    \* 1
     {L("name", << TM \o <<".">> \o F_addBook, TQ \o <<".">> \o F_getAuthors >>)}, \* 2
     {R("name", "prefix", TM \o <<".">>)},                                        \* 3  ^Mutation\.
     {R("name", "infix", <<"B","o","o","k">>)},                                   \* 4  Book
     {V("method", <<"p","o","s","t">>)},                                          \* 5  every operation is a POST
     {V("path", EP)},                                                             \* 6  every operation lives on the endpoint path
     {V("tag", <<"x">>)},                                                         \* 7  no operation has tags
     {V("operation_id", <<"x">>)} >>                                              \* 8  no operation has an operation id
GNF == Len(GFilterDef)
GMatch == [f \in 1..GNF |-> [o \in 1..GN |-> FilterVerdict(GFilterDef[f], GOps[o])]]
GSel(o, I, X) == And3({ IF I = {} THEN "T" ELSE Or3({GMatch[f][o] : f \in I}), Not3(Or3({GMatch[f][o] : f \in X})) })
GExpect(I, X) == [o \in 1..GN |-> IF GSel(o, I, X) = "T" THEN 1 ELSE IF GSel(o, I, X) = "F" THEN 0 ELSE -1]
GSelected(I, X) == Cardinality({o \in 1..GN : GExpect(I, X)[o] = 1})

VARIABLES gdoor, gincl, gexcl
gvars == <<gdoor, gincl, gexcl>>
GInit == gdoor \in {"py", "cli"} /\ gincl = {} /\ gexcl = {}
GBound(I, X) == Cardinality(I) <= GMaxIncl /\ Cardinality(X) <= GMaxExcl /\ Cardinality(I) + Cardinality(X) <= GMaxTotal
IsRx(f) == \A a \in GFilterDef[f] : a.how \in {"prefix", "suffix", "infix", "exact"}
IsList(f) == \A a \in GFilterDef[f] : a.how = "list"
(* command line: no list values; one include filter made of regex flags, one exclude regex per attribute *)
GCli(I, X) == /\ \A f \in I \cup X : ~IsList(f)
              /\ Cardinality({f \in I : IsRx(f)}) <= 1 /\ Cardinality({f \in X : IsRx(f)}) <= 1
GInclude(f) == /\ f \notin gincl \cup gexcl /\ GBound(gincl \cup {f}, gexcl)
               /\ gdoor = "cli" => GCli(gincl \cup {f}, gexcl)
               /\ gincl' = gincl \cup {f} /\ UNCHANGED <<gdoor, gexcl>>
GExclude(f) == /\ f \notin gincl \cup gexcl /\ GBound(gincl, gexcl \cup {f})
               /\ gdoor = "cli" => GCli(gincl, gexcl \cup {f})
               /\ gexcl' = gexcl \cup {f} /\ UNCHANGED <<gdoor, gincl>>
GNext == \E f \in 1..GNF : GInclude(f) \/ GExclude(f)
GSpec == GInit /\ [][GNext]_gvars

GTypeOK == gincl \cap gexcl = {} /\ gincl \cup gexcl \subseteq 1..GNF
GExcludeWins == \A o \in 1..GN : (\E f \in gexcl : GMatch[f][o] = "T") => GExpect(gincl, gexcl)[o] = 0
(* filters on attributes a GraphQL operation does not have match nothing; method / path filters match everything *)
ASSUME \A o \in 1..GN : GMatch[7][o] = "F" /\ GMatch[8][o] = "F" /\ GMatch[5][o] = "T" /\ GMatch[6][o] = "T"

SetToSeq(S) == LET RECURSIVE go(_) go(T) == IF T = {} THEN << >> ELSE LET x == CHOOSE y \in T : \A z \in T : y <= z IN <<x>> \o go(T \ {x}) IN go(S)
GExport ==
  /\ IF gdoor = "py" /\ gincl = {} /\ gexcl = {} THEN PrintT(<<"GCATALOGUE", ToJson([ops |-> GOps, filters |-> GFilterDef])>>) ELSE TRUE
  /\ PrintT(<<"GCASE", ToJson([door |-> gdoor, incl |-> SetToSeq(gincl), excl |-> SetToSeq(gexcl),
                                expect |-> GExpect(gincl, gexcl), sel |-> GSelected(gincl, gexcl), total |-> GN])>>)
=============================================================================
