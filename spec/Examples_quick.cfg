SPECIFICATION Spec
CONSTANT Thorough = FALSE
INVARIANT Sanity
INVARIANT Export
CHECK_DEADLOCK FALSE
