------------------------------- MODULE Sanitize -------------------------------
(***************************************************************************)
(* C15 - with sanitisation on, secrets never reach any output.             *)
(*                                                                         *)
(* A secret travels on a ROUTE (where the user or the API put it) under a  *)
(* carrier NAME (header / query / cookie name) and may surface in a SINK.  *)
(* Sensitive(name, cfg) is the matching rule of the property text: the     *)
(* lower-cased name is one of the configured keys, or one of the           *)
(* configured markers is a substring of it.  URL userinfo is always a      *)
(* credential.  The expected content of every sink:                        *)
(*    sanitize /\ sensitive carrier  =>  the secret is ABSENT              *)
(*    otherwise, if the sink carries that field  =>  it is PRESENT         *)
(* ("changes exactly that set": nothing else is redacted, and switching    *)
(* sanitisation off or re-configuring keys/markers changes only            *)
(* Sensitive).  Text is sequences of code points (TLC strings only         *)
(* compare); the default key / marker lists are part of the specification. *)
(***************************************************************************)
EXTENDS Integers, Sequences, FiniteSets, SequencesExt, TLC, Json

Lower(s) == [i \in 1..Len(s) |-> IF s[i] >= 65 /\ s[i] <= 90 THEN s[i] + 32 ELSE s[i]]
IsSub(m, s) == \E i \in 0..(Len(s) - Len(m)) : \A j \in 1..Len(m) : s[i + j] = m[j]
Sensitive(name, cfg) == LET n == Lower(name) IN n \in cfg.keys \/ \E m \in cfg.markers : IsSub(m, n)

\* default keys: phpsessid xsrf-token _csrf _csrf_token _session _xsrf aiohttp_session api_key api-key apikey auth authorization connect.sid cookie credentials csrf csrf_token csrf-token csrftoken ip_address mysql_pwd passwd password private_key private-key privatekey remote_addr remote-addr secret session sessionid set_cookie set-cookie token x_api_key x-api-key x_csrftoken x-csrftoken x_forwarded_for x-forwarded-for x_real_ip x-real-ip
DefaultKeys == {
    <<112, 104, 112, 115, 101, 115, 115, 105, 100>>, <<120, 115, 114, 102, 45, 116, 111, 107, 101, 110>>,
    <<95, 99, 115, 114, 102>>, <<95, 99, 115, 114, 102, 95, 116, 111, 107, 101, 110>>,
    <<95, 115, 101, 115, 115, 105, 111, 110>>, <<95, 120, 115, 114, 102>>,
    <<97, 105, 111, 104, 116, 116, 112, 95, 115, 101, 115, 115, 105, 111, 110>>, <<97, 112, 105, 95, 107, 101, 121>>,
    <<97, 112, 105, 45, 107, 101, 121>>, <<97, 112, 105, 107, 101, 121>>,
    <<97, 117, 116, 104>>, <<97, 117, 116, 104, 111, 114, 105, 122, 97, 116, 105, 111, 110>>,
    <<99, 111, 110, 110, 101, 99, 116, 46, 115, 105, 100>>, <<99, 111, 111, 107, 105, 101>>,
    <<99, 114, 101, 100, 101, 110, 116, 105, 97, 108, 115>>, <<99, 115, 114, 102>>,
    <<99, 115, 114, 102, 95, 116, 111, 107, 101, 110>>, <<99, 115, 114, 102, 45, 116, 111, 107, 101, 110>>,
    <<99, 115, 114, 102, 116, 111, 107, 101, 110>>, <<105, 112, 95, 97, 100, 100, 114, 101, 115, 115>>,
    <<109, 121, 115, 113, 108, 95, 112, 119, 100>>, <<112, 97, 115, 115, 119, 100>>,
    <<112, 97, 115, 115, 119, 111, 114, 100>>, <<112, 114, 105, 118, 97, 116, 101, 95, 107, 101, 121>>,
    <<112, 114, 105, 118, 97, 116, 101, 45, 107, 101, 121>>, <<112, 114, 105, 118, 97, 116, 101, 107, 101, 121>>,
    <<114, 101, 109, 111, 116, 101, 95, 97, 100, 100, 114>>, <<114, 101, 109, 111, 116, 101, 45, 97, 100, 100, 114>>,
    <<115, 101, 99, 114, 101, 116>>, <<115, 101, 115, 115, 105, 111, 110>>,
    <<115, 101, 115, 115, 105, 111, 110, 105, 100>>, <<115, 101, 116, 95, 99, 111, 111, 107, 105, 101>>,
    <<115, 101, 116, 45, 99, 111, 111, 107, 105, 101>>, <<116, 111, 107, 101, 110>>,
    <<120, 95, 97, 112, 105, 95, 107, 101, 121>>, <<120, 45, 97, 112, 105, 45, 107, 101, 121>>,
    <<120, 95, 99, 115, 114, 102, 116, 111, 107, 101, 110>>, <<120, 45, 99, 115, 114, 102, 116, 111, 107, 101, 110>>,
    <<120, 95, 102, 111, 114, 119, 97, 114, 100, 101, 100, 95, 102, 111, 114>>, <<120, 45, 102, 111, 114, 119, 97, 114, 100, 101, 100, 45, 102, 111, 114>>,
    <<120, 95, 114, 101, 97, 108, 95, 105, 112>>, <<120, 45, 114, 101, 97, 108, 45, 105, 112>>}
\* default markers: token key secret password auth session passwd credential
DefaultMarkers == {
    <<116, 111, 107, 101, 110>>, <<107, 101, 121>>, <<115, 101, 99, 114, 101, 116>>, <<112, 97, 115, 115, 119, 111, 114, 100>>,
    <<97, 117, 116, 104>>, <<115, 101, 115, 115, 105, 111, 110>>, <<112, 97, 115, 115, 119, 100>>, <<99, 114, 101, 100, 101, 110, 116, 105, 97, 108>>}
\* pool: authorization Authorization AUTHORIZATION aUtHoRiZaTiOn cookie Cookie COOKIE set-cookie Set-Cookie SET-COOKIE x-api-key X-API-Key X-Api-Key X-API-KEY x-auth-token X-Auth-Token X-AUTH-TOKEN token Token-X X-Token mytokenvalue X-Secret-Id client_secret SECRETARY apikey Api_Key KeyId monkey X-Session-Id sessionid Password x-password-hint passwd X-Credential X-Forwarded-For X-Real-Ip PHPSESSID csrftoken Accept Content-Type X-Request-Id X-Trace User-Agent Location ETag X-Custom X-Zeta-Id Kee Tok-en Auht-X sid page theme lang zetacookie
HandPool == <<
    <<97, 117, 116, 104, 111, 114, 105, 122, 97, 116, 105, 111, 110>>,
    <<65, 117, 116, 104, 111, 114, 105, 122, 97, 116, 105, 111, 110>>,
    <<65, 85, 84, 72, 79, 82, 73, 90, 65, 84, 73, 79, 78>>,
    <<97, 85, 116, 72, 111, 82, 105, 90, 97, 84, 105, 79, 110>>,
    <<99, 111, 111, 107, 105, 101>>,
    <<67, 111, 111, 107, 105, 101>>,
    <<67, 79, 79, 75, 73, 69>>,
    <<115, 101, 116, 45, 99, 111, 111, 107, 105, 101>>,
    <<83, 101, 116, 45, 67, 111, 111, 107, 105, 101>>,
    <<83, 69, 84, 45, 67, 79, 79, 75, 73, 69>>,
    <<120, 45, 97, 112, 105, 45, 107, 101, 121>>,
    <<88, 45, 65, 80, 73, 45, 75, 101, 121>>,
    <<88, 45, 65, 112, 105, 45, 75, 101, 121>>,
    <<88, 45, 65, 80, 73, 45, 75, 69, 89>>,
    <<120, 45, 97, 117, 116, 104, 45, 116, 111, 107, 101, 110>>,
    <<88, 45, 65, 117, 116, 104, 45, 84, 111, 107, 101, 110>>,
    <<88, 45, 65, 85, 84, 72, 45, 84, 79, 75, 69, 78>>,
    <<116, 111, 107, 101, 110>>,
    <<84, 111, 107, 101, 110, 45, 88>>,
    <<88, 45, 84, 111, 107, 101, 110>>,
    <<109, 121, 116, 111, 107, 101, 110, 118, 97, 108, 117, 101>>,
    <<88, 45, 83, 101, 99, 114, 101, 116, 45, 73, 100>>,
    <<99, 108, 105, 101, 110, 116, 95, 115, 101, 99, 114, 101, 116>>,
    <<83, 69, 67, 82, 69, 84, 65, 82, 89>>,
    <<97, 112, 105, 107, 101, 121>>,
    <<65, 112, 105, 95, 75, 101, 121>>,
    <<75, 101, 121, 73, 100>>,
    <<109, 111, 110, 107, 101, 121>>,
    <<88, 45, 83, 101, 115, 115, 105, 111, 110, 45, 73, 100>>,
    <<115, 101, 115, 115, 105, 111, 110, 105, 100>>,
    <<80, 97, 115, 115, 119, 111, 114, 100>>,
    <<120, 45, 112, 97, 115, 115, 119, 111, 114, 100, 45, 104, 105, 110, 116>>,
    <<112, 97, 115, 115, 119, 100>>,
    <<88, 45, 67, 114, 101, 100, 101, 110, 116, 105, 97, 108>>,
    <<88, 45, 70, 111, 114, 119, 97, 114, 100, 101, 100, 45, 70, 111, 114>>,
    <<88, 45, 82, 101, 97, 108, 45, 73, 112>>,
    <<80, 72, 80, 83, 69, 83, 83, 73, 68>>,
    <<99, 115, 114, 102, 116, 111, 107, 101, 110>>,
    <<65, 99, 99, 101, 112, 116>>,
    <<67, 111, 110, 116, 101, 110, 116, 45, 84, 121, 112, 101>>,
    <<88, 45, 82, 101, 113, 117, 101, 115, 116, 45, 73, 100>>,
    <<88, 45, 84, 114, 97, 99, 101>>,
    <<85, 115, 101, 114, 45, 65, 103, 101, 110, 116>>,
    <<76, 111, 99, 97, 116, 105, 111, 110>>,
    <<69, 84, 97, 103>>,
    <<88, 45, 67, 117, 115, 116, 111, 109>>,
    <<88, 45, 90, 101, 116, 97, 45, 73, 100>>,
    <<75, 101, 101>>,
    <<84, 111, 107, 45, 101, 110>>,
    <<65, 117, 104, 116, 45, 88>>,
    <<115, 105, 100>>,
    <<112, 97, 103, 101>>,
    <<116, 104, 101, 109, 101>>,
    <<108, 97, 110, 103>>,
    <<122, 101, 116, 97, 99, 111, 111, 107, 105, 101>>>>

\* The name family is DERIVED from the default key list: every default key in its original, upper-case and mixed-case spelling is a
\* family element (in header, query and cookie position), next to the hand-written names above (markers in all positions, innocuous names).
Upper(s) == [i \in 1..Len(s) |-> IF s[i] >= 97 /\ s[i] <= 122 THEN s[i] - 32 ELSE s[i]]
Mixed(s) == [i \in 1..Len(s) |-> IF i % 2 = 1 /\ s[i] >= 97 /\ s[i] <= 122 THEN s[i] - 32 ELSE s[i]]
DefaultKeySeq == SetToSeq(DefaultKeys)
KeyPool == DefaultKeySeq \o [i \in 1..Len(DefaultKeySeq) |-> Upper(DefaultKeySeq[i])] \o [i \in 1..Len(DefaultKeySeq) |-> Mixed(DefaultKeySeq[i])]
Pool == HandPool \o KeyPool

\* custom configuration used by the checks: keys = {x-custom}, markers = {zeta}
CustomKeys == {<<120, 45, 99, 117, 115, 116, 111, 109>>}
CustomMarkers == {<<122, 101, 116, 97>>}
\* "no-cookie-keys": the default lists without the header names cookie / set-cookie - cookies are then judged one by one, by their names
CfgKinds == {"default", "custom-keys", "custom-markers", "no-cookie-keys"}
Cfg(kind) == CASE kind = "custom-keys"    -> [keys |-> CustomKeys, markers |-> DefaultMarkers]
               [] kind = "no-cookie-keys" -> [keys |-> DefaultKeys \ {<<99, 111, 111, 107, 105, 101>>, <<115, 101, 116, 45, 99, 111, 111, 107, 105, 101>>},
                                              markers |-> DefaultMarkers]
               [] kind = "custom-markers" -> [keys |-> DefaultKeys, markers |-> CustomMarkers]
               [] OTHER                   -> [keys |-> DefaultKeys, markers |-> DefaultMarkers]

N_authorization == <<97, 117, 116, 104, 111, 114, 105, 122, 97, 116, 105, 111, 110>>
N_cookie == <<99, 111, 111, 107, 105, 101>>
N_set_cookie == <<115, 101, 116, 45, 99, 111, 111, 107, 105, 101>>

(* "schema-userinfo" / "schema-query": the credential is in the URL the SCHEMA is loaded from (userinfo / a query parameter `name`);
   "requests-auth": the credential is put on the request by a `requests` auth object (schema.auth.set_from_requests, auth= at call
   time) while the request is prepared, under the header `name` *)
Routes == {"user-header", "auth-basic", "gen-header", "gen-query", "gen-cookie", "url-userinfo", "resp-set-cookie", "resp-header",
           "requests-auth", "schema-userinfo", "schema-query"}
Sinks == {"console", "curl", "junit", "vcr", "har"}
(* is the carrier of the route credential-bearing under cfg?  name = the header / parameter / cookie name the secret travels under *)
SensCarrier(route, name, cfg) ==
    CASE route \in {"url-userinfo", "schema-userinfo"} -> TRUE
      [] route = "auth-basic"      -> Sensitive(N_authorization, cfg)
      [] route = "gen-cookie"      -> Sensitive(N_cookie, cfg) \/ Sensitive(name, cfg)
      [] route = "resp-set-cookie" -> Sensitive(N_set_cookie, cfg) \/ Sensitive(name, cfg)
      [] OTHER                     -> Sensitive(name, cfg)
(* sinks that show the field of a route when nothing is redacted: request data is shown by the failure report (console curl sample,
   JUnit message) and by both cassettes, response headers only by the cassettes; the console proper shows the base URL *)
\* headers the reproduction command leaves out for readability (transport defaults): user-agent accept accept-encoding connection content-length transfer-encoding
ReproOmits == {<<117, 115, 101, 114, 45, 97, 103, 101, 110, 116>>, <<97, 99, 99, 101, 112, 116>>,
               <<97, 99, 99, 101, 112, 116, 45, 101, 110, 99, 111, 100, 105, 110, 103>>, <<99, 111, 110, 110, 101, 99, 116, 105, 111, 110>>,
               <<99, 111, 110, 116, 101, 110, 116, 45, 108, 101, 110, 103, 116, 104>>, <<116, 114, 97, 110, 115, 102, 101, 114, 45, 101, 110, 99, 111, 100, 105, 110, 103>>}
(* omitted = the carrier is one of the headers the reproduction command leaves out *)
(* FATE of the request is a dimension of every flow: "answered" (a response came back) or "no-response" (transport-level fault:
   connection reset / nothing received).  What must be ABSENT does not depend on it - a request that was never answered is still
   written to the cassettes and its credentials are still secrets.  What must be PRESENT does: without a response there is no
   failure report (no reproduction command, no JUnit message) and no response data at all; the request itself is still carried by
   both cassettes and the console still shows the base URL / the schema location. *)
Fates == {"answered", "no-response"}
MustCarryBy(route, sink, omitted, fate) ==
    IF route \in {"resp-set-cookie", "resp-header"} THEN fate = "answered" /\ sink \in {"vcr", "har"}
    ELSE IF route = "url-userinfo" THEN fate = "answered" \/ sink \in {"console", "vcr", "har"}
    ELSE IF route \in {"schema-userinfo", "schema-query"} THEN sink = "console"      \* the "Loaded specification from ..." line
    ELSE IF route = "requests-auth" THEN fate = "answered" /\ sink = "curl" /\ ~omitted   \* Python API: Case.as_curl_command / the failure report's curl sample
    ELSE IF fate = "no-response" THEN sink \in {"vcr", "har"}
    ELSE IF route \in {"user-header", "gen-header"} /\ omitted THEN sink \in {"vcr", "har"}
    ELSE sink \in {"curl", "junit", "vcr", "har"}
ExpectedBy(route, sink, sanitize, sens, omitted, fate) ==
    IF sanitize /\ sens THEN "absent"
    ELSE IF MustCarryBy(route, sink, omitted, fate) THEN "present" ELSE "U"
Omitted(name) == Lower(name) \in ReproOmits
MustCarry(route, sink, name) == MustCarryBy(route, sink, Omitted(name), "answered")
ExpectedF(route, sink, name, sanitize, cfg, fate) == ExpectedBy(route, sink, sanitize, SensCarrier(route, name, cfg), Omitted(name), fate)
Expected(route, sink, name, sanitize, cfg) == ExpectedF(route, sink, name, sanitize, cfg, "answered")
(* SHAPE of URL userinfo is a dimension of the carrier of the userinfo routes (RFC 3986: userinfo = *( unreserved / pct-encoded /
   sub-delims / ":" ) - the ":password" part is optional): user:password, a bare token used as user name, token with an empty
   password, empty user with a password.  URL userinfo is always a credential - whatever its shape. *)
UserinfoShapes == {"user-password", "token-only", "token-empty-password", "empty-user-password"}
UserinfoRoutes == {"url-userinfo", "schema-userinfo"}
UserinfoRedacted(r, shp, cfg) == SensCarrier(r, <<>>, cfg)

---------------------------------------------------------------------------
(* Re-configuration within one process is a history.  The configuration API: configure(keys) / configure(markers) REPLACE that
   list of the current configuration, extend(keys) / extend(markers) ADD to it, "reset" re-installs the defaults.  An output of
   the sanitizer depends only on the configuration current at the call (CfgAt), never on earlier calls. *)
\* extra key: customer_ref, extra marker: trace
ExtraKeys == {<<99, 117, 115, 116, 111, 109, 101, 114, 95, 114, 101, 102>>}
ExtraMarkers == {<<116, 114, 97, 99, 101>>}
ConfigOps == {"configure-keys", "configure-markers", "extend-keys", "extend-markers", "configure-replacement", "reset"}
ApplyOp(cfg, op) == CASE op = "configure-keys"    -> [cfg EXCEPT !.keys = CustomKeys]
                      [] op = "configure-markers" -> [cfg EXCEPT !.markers = CustomMarkers]
                      [] op = "extend-keys"       -> [cfg EXCEPT !.keys = @ \cup ExtraKeys]
                      [] op = "extend-markers"    -> [cfg EXCEPT !.markers = @ \cup ExtraMarkers]
                      [] op = "configure-replacement" -> cfg      \* another redaction marker: what is sensitive does not change
                      [] OTHER                    -> Cfg("default")
(* configuration in force after the first k steps of history h (steps: [kind "C"/"S", op, name]) *)
CfgAt(h, k) == LET f[j \in 0..k] == IF j = 0 THEN Cfg("default")
                                    ELSE IF h[j].kind = "C" THEN ApplyOp(f[j - 1], h[j].op) ELSE f[j - 1]
               IN f[k]
\* names used by the history family: X-Custom X-Zeta-Id X-Trace customer_ref Authorization
HNames == <<<<88, 45, 67, 117, 115, 116, 111, 109>>,
            <<88, 45, 90, 101, 116, 97, 45, 73, 100>>,
            <<88, 45, 84, 114, 97, 99, 101>>,
            <<99, 117, 115, 116, 111, 109, 101, 114, 95, 114, 101, 102>>,
            <<65, 117, 116, 104, 111, 114, 105, 122, 97, 116, 105, 111, 110>>>>

---------------------------------------------------------------------------
(* the enumerated family: every (name, cfg) pair of the pool, and the abstract flow matrix route x sink x sanitize x
   (carrier sensitive?) x (carrier omitted by the reproduction command?) *)
(* a cookie travels inside a Cookie / Set-Cookie header among other cookies: its POSITION (first / middle / last of three) and the
   separator spelling ("; " or ";") are dimensions of the carrier; the expectation does not depend on them *)
Positions == {"first", "middle", "last"}
Separators == {"semicolon-space", "semicolon"}
VARIABLES kind, nameIx, cfgKind, route, sink, sanitize, sens, omitted, pos, sep, shape, fate
vars == <<kind, nameIx, cfgKind, route, sink, sanitize, sens, omitted, pos, sep, shape, fate>>
Init == \/ /\ kind = "name" /\ nameIx \in 1..Len(Pool) /\ cfgKind \in CfgKinds
           /\ route = "-" /\ sink = "-" /\ sanitize = TRUE /\ sens = FALSE /\ omitted = FALSE /\ pos = "-" /\ sep = "-"
           /\ shape = "-" /\ fate = "-"
        \/ /\ kind = "cookie" /\ nameIx \in 1..Len(Pool) /\ cfgKind \in CfgKinds /\ route \in {"gen-cookie", "resp-set-cookie"}
           /\ pos \in Positions /\ sep \in Separators
           /\ sink = "-" /\ sanitize = TRUE /\ sens = FALSE /\ omitted = FALSE /\ shape = "-" /\ fate = "-"
        \/ /\ kind = "userinfo" /\ nameIx = 0 /\ cfgKind \in CfgKinds /\ route \in UserinfoRoutes /\ shape \in UserinfoShapes
           /\ sink = "-" /\ sanitize = TRUE /\ sens = FALSE /\ omitted = FALSE /\ pos = "-" /\ sep = "-" /\ fate = "-"
        \/ /\ kind = "flow" /\ nameIx = 0 /\ cfgKind = "-"
           /\ route \in Routes /\ sink \in Sinks /\ sanitize \in BOOLEAN /\ sens \in BOOLEAN /\ omitted \in BOOLEAN
           /\ pos = "-" /\ sep = "-" /\ shape = "-" /\ fate \in Fates
Next == UNCHANGED vars
Spec == Init /\ [][Next]_vars

(* design-level facts checked on the family *)
CaseInsensitive == kind = "name" => Sensitive(Pool[nameIx], Cfg(cfgKind)) = Sensitive(Lower(Pool[nameIx]), Cfg(cfgKind))
OffMeansNothingAbsent == (kind = "flow" /\ ~sanitize) => ExpectedBy(route, sink, sanitize, sens, omitted, fate) # "absent"
(* what must be absent does not depend on whether the request was answered; an unanswered request demands no more presence than an answered one *)
FateNeverUnhides == kind = "flow" =>
    /\ (ExpectedBy(route, sink, sanitize, sens, omitted, "answered") = "absent") = (ExpectedBy(route, sink, sanitize, sens, omitted, "no-response") = "absent")
    /\ MustCarryBy(route, sink, omitted, "no-response") => MustCarryBy(route, sink, omitted, "answered")
(* userinfo of every shape is redacted in every sink, answered or not *)
UserinfoShapeAlwaysAbsent == kind = "userinfo" =>
    /\ UserinfoRedacted(route, shape, Cfg(cfgKind))
    /\ \A s \in Sinks, f \in Fates : ExpectedF(route, s, <<>>, TRUE, Cfg(cfgKind), f) = "absent"
UserinfoAlwaysAbsent == kind = "name" => \A s \in Sinks : Expected("url-userinfo", s, Pool[nameIx], TRUE, Cfg(cfgKind)) = "absent"
(* customising changes exactly Sensitive: same name, same flow, another cfg => the expectation differs only if Sensitive differs *)
ExactlySensitive == kind = "name" =>
    \A r \in Routes, s \in Sinks, z \in BOOLEAN, k \in CfgKinds :
        (SensCarrier(r, Pool[nameIx], Cfg(k)) = SensCarrier(r, Pool[nameIx], Cfg(cfgKind)))
            => Expected(r, s, Pool[nameIx], z, Cfg(k)) = Expected(r, s, Pool[nameIx], z, Cfg(cfgKind))
(* the well-known credential headers are sensitive under the default configuration *)
DefaultsCoverStandardHeaders == \A n \in {N_authorization, N_cookie, N_set_cookie} : Sensitive(n, Cfg("default"))
(* every default key, in any of the three spellings, is sensitive as long as the key list is the default one - whatever the markers *)
EveryDefaultKeySensitive == \A j \in 1..Len(KeyPool) : Sensitive(KeyPool[j], Cfg("default")) /\ Sensitive(KeyPool[j], Cfg("custom-markers"))
ASSUME DefaultsCoverStandardHeaders
ASSUME EveryDefaultKeySensitive

(* cookie family: the expected outcome is SensCarrier of the route - a function of the name and the configuration only, the same
   for every position and separator *)
Export == IF kind = "cookie"
          THEN PrintT(<<"COOKIE", ToJson([name |-> Pool[nameIx], cfg |-> cfgKind, route |-> route, pos |-> pos, sep |-> sep,
                                           redacted |-> SensCarrier(route, Pool[nameIx], Cfg(cfgKind))])>>)
          ELSE IF kind = "userinfo"
          THEN PrintT(<<"USERINFO", ToJson([route |-> route, shape |-> shape, cfg |-> cfgKind,
                                             redacted |-> UserinfoRedacted(route, shape, Cfg(cfgKind))])>>)
          ELSE IF kind = "name"
          THEN PrintT(<<"NAME", ToJson([name |-> Pool[nameIx], cfg |-> cfgKind, sensitive |-> Sensitive(Pool[nameIx], Cfg(cfgKind)),
                                         omitted |-> Omitted(Pool[nameIx]), isDefaultKey |-> Pool[nameIx] \in DefaultKeys,
                                         carrier |-> [r \in Routes |-> SensCarrier(r, Pool[nameIx], Cfg(cfgKind))]])>>)
          ELSE PrintT(<<"FLOW", ToJson([route |-> route, sink |-> sink, sanitize |-> sanitize, sens |-> sens, omitted |-> omitted, fate |-> fate,
                                         expected |-> ExpectedBy(route, sink, sanitize, sens, omitted, fate)])>>)
=============================================================================
