SPECIFICATION YSpec
CONSTANT MaxLen = 2
INVARIANT DqRoundTrip
INVARIANT SqRoundTrip
INVARIANT SqRejectsRaw
INVARIANT Export
CHECK_DEADLOCK FALSE
