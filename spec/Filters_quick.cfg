SPECIFICATION Spec
CONSTANT MaxIncl = 2
CONSTANT MaxExcl = 2
CONSTANT MaxTotal = 3
CONSTANT LazyTotal = 2
INVARIANT TypeOK
INVARIANT ExcludeWins
INVARIANT NoIncludeMeansAll
INVARIANT LazyKeepsBaseExcludes
INVARIANT StatConsistent
INVARIANT Export
CHECK_DEADLOCK FALSE
