---------------------------- MODULE EngineFamily ----------------------------
(***************************************************************************)
(* The family of abstract run descriptors for the engine checks (C05, C11, *)
(* C12): API behaviour per operation, link behaviour, phase selection,     *)
(* workers, max-failures, continue-on-failure, unique-inputs, and the kind *)
(* of disturbance (none / stop request / Ctrl-C / single fault).  TLC      *)
(* enumerates it (every descriptor is one initial state) and exports it;   *)
(* the harness runs the real engine for (a seeded stratified sample of)    *)
(* the descriptors and, per descriptor, for EVERY position of the          *)
(* disturbance.                                                            *)
(***************************************************************************)
EXTENDS Naturals, Sequences, FiniteSets, TLC, Json
CONSTANTS NOps, MaxWorkers
Beh == {"ok", "bad", "badif", "neterr", "invalid", "weird"}
LinkBeh == {"none", "ok", "bad"}
PhaseSets == {<<"coverage">>, <<"fuzzing">>, <<"coverage", "fuzzing">>, <<"examples", "coverage", "fuzzing", "stateful">>,
              <<"fuzzing", "stateful">>, <<"stateful">>, <<"probing", "coverage", "fuzzing">>}
HasStateful(ps) == \E i \in 1..Len(ps) : ps[i] = "stateful"
(* shape of the API document beyond the independent GET operations:
     "twin"      two more operations on ONE path that differ only by method (PUT answers well, DELETE badly): requests that are
                 equal up to the method, which matters to anything keyed by "the request" (unique-inputs)
     "authprobe" the operations declare an apiKey credential, one is configured, the API does not enforce it and the
                 ignored_auth check is enabled: the failing response belongs to a request the CHECK derived, not to the case's own *)
Shapes == {"plain", "twin", "authprobe"}
Desc == {d \in [ops : [1..NOps -> Beh], links : LinkBeh, phases : PhaseSets, workers : 1..MaxWorkers,
                max_failures : {0, 1, 2}, cof : BOOLEAN, unique : BOOLEAN, shape : Shapes] :
           /\ (d.links # "none" => HasStateful(d.phases))            \* links only matter to the stateful phase; the phase may also be
                                                                   \* selected for an API without links (it is then not applicable)
           /\ (d.shape # "plain" => d.links = "none")
           /\ (d.phases = <<"stateful">> => \A i \in 1..NOps : d.ops[i] = "ok")}
FaultSites == {"builder.create_test", "unit.worker.case", "unit.worker.send", "checks.run", "stateful.thread.step"}
FaultExc == {"Exception", "ConnectionError", "AssertionError"}
VARIABLE d
Init == d \in Desc
Next == UNCHANGED d
Spec == Init /\ [][Next]_d
(* sanity of the family itself: every behaviour, phase set and limit value occurs *)
Export == PrintT(<<"CASE", ToJson([ops |-> d.ops, links |-> d.links, phases |-> d.phases, workers |-> d.workers,
                                   max_failures |-> d.max_failures, cof |-> d.cof, unique |-> d.unique, shape |-> d.shape])>>)
=============================================================================
