SPECIFICATION Spec
CONSTANT Thorough = TRUE
INVARIANT TypeOK
INVARIANT NotSelectedNeverFails
INVARIANT ExclusionWins
INVARIANT AllSelectsEverything
INVARIANT ResponseTimeOnlyWithOption
INVARIANT NegativeNeverFailsAcceptance
INVARIANT PositiveNeverFailsRejection
INVARIANT UnlabelledNeverFailsModeChecks
INVARIANT ModeChecksExclusive
INVARIANT ServerErrorIff5xx
INVARIANT ServerErrorIsNotAcceptance
INVARIANT ExtraParametersNeverFail
INVARIANT CoverageChecksOnlyTheirCases
INVARIANT NoRequirementNoIgnoredAuth
INVARIANT EnforcingApiNeverAccused
INVARIANT OpenApiAlwaysAccused
INVARIANT SlowIffAboveLimit
INVARIANT WildcardsOK
INVARIANT Export
CHECK_DEADLOCK FALSE
