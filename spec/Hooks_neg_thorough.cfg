SPECIFICATION Spec
CONSTANT MaxReg = 1
CONSTANT MaxUnreg = 1
CONSTANT MaxLen = 3
CONSTANT MaxGen = 2
CONSTANT Negative = TRUE
CONSTANT Narrow = TRUE
CONSTANT Rich = FALSE
INVARIANT TypeOK
INVARIANT ScopePartition
INVARIANT OracleAgrees
INVARIANT UnfilteredEverywhere
INVARIANT Independent
INVARIANT GenerationsAreInert
INVARIANT Export
CHECK_DEADLOCK FALSE
