SPECIFICATION Spec
CONSTANT Family = "c03h"
CONSTANT Rich = FALSE
INVARIANT TypeOK
INVARIANT InFragment
INVARIANT NumericSat
INVARIANT OutcomeSanity
INVARIANT Export
CHECK_DEADLOCK FALSE
