----------------------------- MODULE HooksJudge -----------------------------
(* Code -> spec: (hook, operation) matrices observed on the real dispatchers are judged against Hooks!Applied. *)
EXTENDS Hooks, IOUtils
Obs == JsonDeserialize(IOEnv.OBS_FILE)   \* sequence of [events, obs : matrix of 0/1, one row per registration, err]
VARIABLE i
JInit == /\ i \in 1..Len(Obs) /\ hist = Obs[i].events
         /\ plan = << >> /\ registry = [s \in Scopes |-> << >>] /\ filterOf = << >>
JNext == UNCHANGED <<i, vars>>
JSpec == JInit /\ [][JNext]_<<i, vars>>
(* err = number of the event whose call raised (0: none); the spec says every call of an enumerated history succeeds *)
RegsUpTo(k) == Cardinality({j \in RegPositions(hist) : j <= k})
Report == IF Obs[i].err # 0
          THEN PrintT(<<"DISAGREE", i, IF RegsUpTo(Obs[i].err) = 0 THEN 1 ELSE RegsUpTo(Obs[i].err), 0, "raised">>)
          ELSE \A h \in 1..NRegs(hist) : \A o \in 1..NOps :
                 IF Obs[i].obs[h][o] = Bit(Applied(hist, h, o)) THEN TRUE
                 ELSE PrintT(<<"DISAGREE", i, h, o, IF Obs[i].obs[h][o] = 1 THEN "spurious" ELSE "missing">>)
=============================================================================
