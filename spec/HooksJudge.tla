----------------------------- MODULE HooksJudge -----------------------------
(* Code -> spec: (hook, operation) matrices observed on the real dispatchers at every generation of a history are judged       *)
(* against Hooks!AppliedAt.                                                                                                    *)
EXTENDS Hooks, IOUtils
Obs == JsonDeserialize(IOEnv.OBS_FILE)   \* sequence of [events, order, obs : one 0/1 matrix (row per registration so far) per generation, err]
VARIABLE i
JInit == /\ i \in 1..Len(Obs) /\ hist = Obs[i].events
         /\ plan = Plan(<< >>, "AB") /\ registry = [s \in Scopes |-> << >>] /\ filterOf = << >>
JNext == UNCHANGED <<i, vars>>
JSpec == JInit /\ [][JNext]_<<i, vars>>
(* err = number of the event whose call raised (0: none); the spec says every call of an enumerated history succeeds *)
Report == IF Obs[i].err # 0
          THEN PrintT(<<"DISAGREE", i, 0, IF NRegsUpTo(hist, Obs[i].err) = 0 THEN 1 ELSE NRegsUpTo(hist, Obs[i].err), 0, "raised">>)
          ELSE LET gs == GenSeq(hist) IN
               \A j \in 1..Len(gs) : \A h \in 1..NRegsUpTo(hist, gs[j][1]) : \A o \in 1..NOps :
                 IF Obs[i].obs[j][h][o] = Bit(Used(Obs[i].order, o) /\ AppliedAt(hist, gs[j][1], gs[j][2], h, o)) THEN TRUE
                 ELSE PrintT(<<"DISAGREE", i, j, h, o, IF Obs[i].obs[j][h][o] = 1 THEN "spurious" ELSE "missing">>)
=============================================================================
