SPECIFICATION Spec
CONSTANT Thorough = FALSE
INVARIANT TableClosed
INVARIANT HookYieldsTypes
INVARIANT OfferedSane
INVARIANT NameClashDistinct
INVARIANT CanonAccepted
INVARIANT MutantsRejected
INVARIANT Export
CHECK_DEADLOCK FALSE
