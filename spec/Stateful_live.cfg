SPECIFICATION FairSpec
CONSTANTS
  StepCount = 2
  MaxScen = 2
  MaxSuites = 2
  MaxFail = 0
  FixDrain = TRUE
  FixCtrlC = TRUE
  FixDrainExec = TRUE
  FixSetup = TRUE
  FixWorst = TRUE
  AllowStop = TRUE
  AllowCtrlC = TRUE
  AllowError = TRUE
  AliveCheck = TRUE
  NKinds = 1
INVARIANT ProtocolOK
PROPERTY Termination
CHECK_DEADLOCK FALSE
