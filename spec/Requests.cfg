SPECIFICATION Spec
INVARIANT UserWins
INVARIANT Export
CHECK_DEADLOCK FALSE
