SPECIFICATION Spec
CONSTANT Thorough = TRUE
INVARIANT TypeOK
INVARIANT UndefinedIffNoKey
INVARIANT DefaultCoversAll
INVARIANT ExactBeatsWildcard
INVARIANT WildcardBeatsDefault
INVARIANT UndocumentedStatusOnlyThat
INVARIANT ContentTypeKindsExclusive
INVARIANT ParamsIgnored
INVARIANT Export
CHECK_DEADLOCK FALSE
