----------------------------- MODULE OasSchema -----------------------------
(***************************************************************************)
(* Three-valued, implementation-independent oracle for the OpenAPI Schema  *)
(* Object (2.0 / 3.0: JSON-Schema draft-4 flavour; 3.1: 2020-12 flavour).  *)
(* Written from the standards (OAS 2.0/3.0.3/3.1, JSON Schema validation,  *)
(* RFC 3339 / 4122 / 4648), never from schemathesis' converter, patterns,  *)
(* hypothesis-jsonschema or jsonschema.  Used by C01-C04 and C17.          *)
(*                                                                         *)
(* INTERFACE (everything else in this module is auxiliary)                 *)
(*   Valid(defs, s, v, dir)         "T" | "F" | "U"; dialect unknown       *)
(*   ValidD(defs, s, v, dir, dia)   dia \in {"d4", "2020", "any"}          *)
(*   CoercedV(defs, v, s, dir)      validity of a GENERATED value v (tagged*)
(*                                  record) of a path/query/header/cookie  *)
(*                                  parameter, read through the string it  *)
(*                                  is sent as (DESIGN Appendix D)         *)
(*   CoercedD(defs, txt, s, dir)    same for a received/sent text (Seq Nat)*)
(*   Coerced(txt, s)                = CoercedD(NoDefs, txt, s, "request")  *)
(*   Eq3(a, b)                      JSON equality, three-valued            *)
(*   And3 Or3 Not3 B3 All3 Any3 One3   three-valued connectives            *)
(*   PatternMatch(txt, pat)  FormatOk(fmt, txt)   the text scanners        *)
(*   NoDefs                         empty reference table                  *)
(* "U" = the oracle does not decide (input outside the modelled fragment   *)
(* or the standards/tools disagree).  Users must only act on "T"/"F".      *)
(*   dir = "request": a property whose schema is readOnly must be absent   *)
(*         (and is not required); dir = "response": same for writeOnly.    *)
(*                                                                         *)
(* ENCODING (produced by harness/encode.py, or built directly in TLA+)     *)
(* value   [t |-> "null"] | [t |-> "bool", v |-> BOOLEAN]                  *)
(*         | [t |-> "int", v |-> Int]                     |v| <= 2^30      *)
(*         | [t |-> "num", isInt, isFloat, lo, hi, res, rep, txt]          *)
(*               any other finite number: lo = floor, hi = ceil clipped to *)
(*               +-(2^31-1); isInt = integral; isFloat = written with a    *)
(*               fraction/exponent (python float); res = <<<<m, v mod m>>,*)
(*               ...>> for the multipleOf constants in play; rep = exact   *)
(*               canonical text as a TLC string (equality only); txt = the *)
(*               text it is sent as, code points (optional)                *)
(*         | [t |-> "str", v |-> Seq(Nat)]   code points                   *)
(*         | [t |-> "arr", v |-> Seq(value)]                               *)
(*         | [t |-> "obj", k |-> Seq(Seq(Nat)), v |-> Seq(value)]  ordered *)
(*         | [t |-> "opaque", why |-> STRING]    outside the fragment => U *)
(* schema  record with sk \in {"schema", "true", "false", "opaque"} and,   *)
(*         for sk = "schema", any subset of the optional fields            *)
(*   ref : STRING (key of defs; no siblings)                               *)
(*   type : Seq(STRING)  (one element for a plain type, several for a 3.1  *)
(*          type array)   nullable : BOOLEAN (3.0 nullable / 2.0 x-nullable)*)
(*   enum : Seq(value)   const : value                                     *)
(*   minimum, maximum : Int;  exclMin, exclMax : BOOLEAN (draft-4 form);   *)
(*   xMin, xMax : Int (numeric exclusiveMinimum/Maximum);  multipleOf : Int>0 *)
(*   minLength, maxLength : Nat;  pattern : pat;  format : STRING          *)
(*     (uuid, date, date-time, ipv4, byte are decided; for the other       *)
(*      formats common checkers implement only the empty text is decided   *)
(*      (member / not a member), the rest is "U"; unknown format = "T")    *)
(*   items : schema;  minItems, maxItems : Nat;  uniqueItems : BOOLEAN     *)
(*   props : [k : Seq(Seq(Nat)), v : Seq(schema)];  required : Seq(Seq(Nat))*)
(*   addProps : schema;  minProperties, maxProperties : Nat                *)
(*   allOf, anyOf, oneOf : Seq(schema);  not : schema                      *)
(*   readOnly, writeOnly : BOOLEAN                                         *)
(* pat     [k |-> "cat", as, ae : BOOLEAN (anchored at start / end),       *)
(*          atoms : Seq([cls : Seq(<<lo, hi>>), neg : BOOLEAN, min : Nat,  *)
(*                       max : Nat or -1 (unbounded)])]                    *)
(*         | [k |-> "opaque"]  (not in the catalogue => "U")               *)
(*         a pattern is a concatenation of quantified character classes;   *)
(*         SEARCH semantics (ECMA-262 / python re.search agree on these).  *)
(* defs    record (function) from reference strings to schemas.            *)
(* A keyword that is not listed, or does not belong to the dialect, makes  *)
(* encode.py emit sk = "opaque" for that node (=> "U", never a guess).     *)
(***************************************************************************)
EXTENDS Integers, Sequences, FiniteSets, TLC, SequencesExt

Has(r, k) == k \in DOMAIN r
Fld(r, k, d) == IF k \in DOMAIN r THEN r[k] ELSE d
NoDefs == [nodefs |-> [sk |-> "opaque"]]

(* ---------------- three-valued logic ---------------- *)
And3(a, b) == IF a = "F" \/ b = "F" THEN "F" ELSE IF a = "U" \/ b = "U" THEN "U" ELSE "T"
Or3(a, b)  == IF a = "T" \/ b = "T" THEN "T" ELSE IF a = "U" \/ b = "U" THEN "U" ELSE "F"
Not3(a) == IF a = "T" THEN "F" ELSE IF a = "F" THEN "T" ELSE "U"
B3(b) == IF b THEN "T" ELSE "F"
(* quantifiers over a sequence of verdicts: defined with \E, never by recursion on the tail *)
All3(r) == IF \E i \in DOMAIN r : r[i] = "F" THEN "F" ELSE IF \E i \in DOMAIN r : r[i] = "U" THEN "U" ELSE "T"
Any3(r) == IF \E i \in DOMAIN r : r[i] = "T" THEN "T" ELSE IF \E i \in DOMAIN r : r[i] = "U" THEN "U" ELSE "F"
One3(r) == LET nt == Cardinality({i \in DOMAIN r : r[i] = "T"})
               nu == Cardinality({i \in DOMAIN r : r[i] = "U"})
           IN IF nt > 1 THEN "F" ELSE IF nu > 0 THEN "U" ELSE B3(nt = 1)

(* ---------------- numbers ---------------- *)
MaxClip == 2147483647
IsNum(v) == v.t \in {"int", "num"}
Lo(v) == IF v.t = "int" THEN v.v ELSE v.lo
Hi(v) == IF v.t = "int" THEN v.v ELSE v.hi
IsIntegral(v) == v.t = "int" \/ (v.t = "num" /\ v.isInt)
Clipped(v) == v.t = "num" /\ (v.lo >= MaxClip \/ v.lo <= -MaxClip \/ v.hi >= MaxClip \/ v.hi <= -MaxClip)
(* c is an integer constant with |c| <= 2^30: exact on floor/ceil *)
GE(v, c) == Lo(v) >= c
GT(v, c) == IF IsIntegral(v) THEN Lo(v) > c ELSE Lo(v) >= c
LE(v, c) == Hi(v) <= c
LT(v, c) == IF IsIntegral(v) THEN Hi(v) < c ELSE Hi(v) <= c
MultipleOf3(v, m) ==
  IF v.t = "int" THEN B3(v.v % m = 0)
  ELSE IF ~v.isInt THEN "F"                         \* a non-integral number is no multiple of an integer
  ELSE IF Has(v, "res") /\ \E i \in DOMAIN v.res : v.res[i][1] = m
       THEN B3(\E i \in DOMAIN v.res : v.res[i][1] = m /\ v.res[i][2] = 0)
  ELSE IF ~Clipped(v) THEN B3(v.lo % m = 0) ELSE "U"

(* ---------------- JSON equality ---------------- *)
NumEq3(a, b) ==
  IF a.t = "int" /\ b.t = "int" THEN B3(a.v = b.v)
  ELSE IF a.t = "int" THEN B3(b.isInt /\ b.lo = a.v /\ b.hi = a.v)
  ELSE IF b.t = "int" THEN B3(a.isInt /\ a.lo = b.v /\ a.hi = b.v)
  ELSE IF Has(a, "rep") /\ Has(b, "rep") THEN B3(a.rep = b.rep)
  ELSE IF a.lo # b.lo \/ a.hi # b.hi \/ a.isInt # b.isInt THEN "F" ELSE "U"
DupKeys(o) == \E i, j \in DOMAIN o.k : i < j /\ o.k[i] = o.k[j]
ObjHas(o, key) == \E i \in DOMAIN o.k : o.k[i] = key
ObjGet(o, key) == o.v[CHOOSE i \in DOMAIN o.k : o.k[i] = key]
RECURSIVE Eq3(_, _)
Eq3(a, b) ==
  IF a.t = "opaque" \/ b.t = "opaque" THEN "U"
  ELSE IF IsNum(a) /\ IsNum(b) THEN NumEq3(a, b)
  ELSE IF a.t # b.t THEN "F"
  ELSE CASE a.t = "null" -> "T"
         [] a.t = "bool" -> B3(a.v = b.v)
         [] a.t = "str"  -> B3(a.v = b.v)
         [] a.t = "arr"  -> IF Len(a.v) # Len(b.v) THEN "F" ELSE All3([i \in DOMAIN a.v |-> Eq3(a.v[i], b.v[i])])
         [] a.t = "obj"  -> IF DupKeys(a) \/ DupKeys(b) THEN "U"
                            ELSE IF Len(a.k) # Len(b.k) \/ \E i \in DOMAIN a.k : ~ObjHas(b, a.k[i]) THEN "F"
                            ELSE All3([i \in DOMAIN a.k |-> Eq3(a.v[i], ObjGet(b, a.k[i]))])
         [] OTHER -> "U"

(* ---------------- pattern: NFA over (atom index, repetitions), advanced by a fold ---------------- *)
InCls(ch, a) == LET hit == \E r \in DOMAIN a.cls : a.cls[r][1] <= ch /\ ch <= a.cls[r][2]
                IN IF a.neg THEN ~hit ELSE hit
PatClosure(atoms, S) ==
  LET L == Len(atoms) IN
  S \cup {<<j, 0>> : j \in {q \in 2..(L + 1) :
             \E c \in S : /\ c[1] < q /\ c[1] <= L /\ c[2] >= atoms[c[1]].min
                          /\ \A k \in (c[1] + 1)..(q - 1) : atoms[k].min = 0}}
PatMove(atoms, S, ch) ==
  {<<c[1], IF atoms[c[1]].max = -1 THEN (IF c[2] < atoms[c[1]].min THEN c[2] + 1 ELSE c[2]) ELSE c[2] + 1>> :
     c \in {c \in S : /\ c[1] <= Len(atoms)
                      /\ (atoms[c[1]].max = -1 \/ c[2] < atoms[c[1]].max)
                      /\ InCls(ch, atoms[c[1]])}}
PatAccept(atoms) == <<Len(atoms) + 1, 0>>
PatInit(pat) == LET S == PatClosure(pat.atoms, {<<1, 0>>}) IN [S |-> S, m |-> PatAccept(pat.atoms) \in S]
PatStep(pat, st, ch) ==
  LET S1 == PatClosure(pat.atoms, PatMove(pat.atoms, st.S, ch) \cup (IF pat.as THEN {} ELSE {<<1, 0>>}))
  IN [S |-> S1, m |-> st.m \/ PatAccept(pat.atoms) \in S1]
PatSearch(txt, pat) ==
  LET fin == FoldLeft(LAMBDA st, ch : PatStep(pat, st, ch), PatInit(pat), txt)
  IN IF pat.ae THEN PatAccept(pat.atoms) \in fin.S ELSE fin.m
PatternMatch(txt, pat) ==
  IF pat.k # "cat" THEN "U"
  ELSE IF pat.ae /\ Len(txt) > 0 /\ txt[Len(txt)] = 10 THEN "U"       \* python: $ also matches before a final \n
  ELSE IF \E i \in DOMAIN txt : txt[i] > 65535 THEN "U"                 \* ECMA-262 without /u counts UTF-16 units
  ELSE B3(PatSearch(txt, pat))

(* ---------------- formats (positional scanners; no recursion) ---------------- *)
Str(s) == [i \in 1..Len(s) |-> s[i]]
IsDig(c) == c >= 48 /\ c <= 57
IsHex(c) == IsDig(c) \/ (c >= 65 /\ c <= 70) \/ (c >= 97 /\ c <= 102)
D2(s, i) == (s[i] - 48) * 10 + (s[i + 1] - 48)
D4(s, i) == D2(s, i) * 100 + D2(s, i + 2)
Leap(y) == (y % 4 = 0 /\ y % 100 # 0) \/ y % 400 = 0
DaysIn(y, m) == IF m \in {1, 3, 5, 7, 8, 10, 12} THEN 31 ELSE IF m = 2 THEN (IF Leap(y) THEN 29 ELSE 28) ELSE 30
DateShape(s) == Len(s) >= 10 /\ s[5] = 45 /\ s[8] = 45 /\ (\A i \in {1, 2, 3, 4, 6, 7, 9, 10} : IsDig(s[i]))
DateV(s) == IF ~DateShape(s) THEN "F"           \* RFC 3339 full-date at s[1..10]
            ELSE LET y == D4(s, 1) mo == D2(s, 6) d == D2(s, 9) IN
                 IF mo < 1 \/ mo > 12 \/ d < 1 \/ d > DaysIn(y, mo) THEN "F" ELSE IF y = 0 THEN "U" ELSE "T"
FmtDate(s) == IF Len(s) # 10 THEN "F" ELSE DateV(s)
FmtDateTime(s) ==
  LET n == Len(s)
      timeShape == /\ n >= 19 /\ s[11] \in {84, 116, 32}
                   /\ s[14] = 58 /\ s[17] = 58 /\ (\A i \in {12, 13, 15, 16, 18, 19} : IsDig(s[i]))
      zEnd == n >= 20 /\ s[n] \in {90, 122}
      offEnd == /\ n >= 25 /\ s[n - 5] \in {43, 45} /\ s[n - 2] = 58
                /\ (\A i \in {n - 4, n - 3, n - 1, n} : IsDig(s[i]))
      tz == IF zEnd THEN n ELSE IF offEnd THEN n - 5 ELSE n + 1          \* first position of the zone designator
      fracOk == tz = 20 \/ (tz >= 22 /\ s[20] = 46 /\ (\A i \in 21..(tz - 1) : IsDig(s[i])))
  IN IF ~DateShape(s) \/ ~timeShape \/ ~fracOk THEN "F"
     ELSE IF DateV(s) = "F" \/ D2(s, 12) > 23 \/ D2(s, 15) > 59 \/ D2(s, 18) > 60 THEN "F"
     ELSE IF offEnd /\ ~zEnd /\ (D2(s, n - 4) > 23 \/ D2(s, n - 1) > 59) THEN "F"
     ELSE IF DateV(s) = "U" \/ s[11] # 84 \/ D2(s, 18) = 60 \/ tz = n + 1 \/ (zEnd /\ s[n] = 122) THEN "U"
     ELSE "T"
FmtUuid(s) ==
  IF Len(s) = 36 /\ (\A i \in 1..36 : (IF i \in {9, 14, 19, 24} THEN s[i] = 45 ELSE IsHex(s[i]))) THEN "T"
  ELSE IF /\ Len(s) >= 32 /\ Len(s) <= 47
          /\ (\A i \in DOMAIN s : (IsHex(s[i]) \/ s[i] \in {45, 123, 125, 58, 117, 114, 110, 105, 85, 82, 78, 73}))
          /\ Cardinality({j \in DOMAIN s : IsHex(s[j])}) >= 32 THEN "U"   \* forms python's uuid.UUID also reads
  ELSE "F"
FmtIpv4(s) ==
  LET n == Len(s)
      dots == {i \in 1..n : s[i] = 46}
      bnd == dots \cup {0, n + 1}
      parts == {<<a, b>> \in bnd \X bnd : a < b /\ ~\E c \in bnd : a < c /\ c < b}     \* consecutive boundaries
      plen(p) == p[2] - p[1] - 1
      pval(p) == IF plen(p) = 1 THEN s[p[1] + 1] - 48
                 ELSE IF plen(p) = 2 THEN D2(s, p[1] + 1) ELSE (s[p[1] + 1] - 48) * 100 + D2(s, p[1] + 2)
  IN IF n < 7 \/ n > 15 \/ Cardinality(dots) # 3 \/ \E i \in 1..n : ~(IsDig(s[i]) \/ s[i] = 46) THEN "F"
     ELSE IF \E p \in parts : plen(p) < 1 \/ plen(p) > 3 THEN "F"
     ELSE IF \E p \in parts : pval(p) > 255 THEN "F"
     ELSE IF \E p \in parts : plen(p) > 1 /\ s[p[1] + 1] = 48 THEN "U"        \* leading zero: octal for inet_aton
     ELSE "T"
IsB64(c) == IsDig(c) \/ (c >= 65 /\ c <= 90) \/ (c >= 97 /\ c <= 122) \/ c = 43 \/ c = 47
FmtByte(s) ==
  LET n == Len(s)
      pad == IF n >= 2 /\ s[n] = 61 /\ s[n - 1] = 61 THEN 2 ELSE IF n >= 1 /\ s[n] = 61 THEN 1 ELSE 0
  IN IF (\A i \in 1..(n - pad) : IsB64(s[i])) THEN (IF n % 4 = 0 THEN "T" ELSE IF pad = 0 THEN "U" ELSE "F")
     ELSE IF (\A i \in 1..(n - pad) : (IsB64(s[i]) \/ s[i] \in {45, 95, 10, 13, 32})) THEN "U"   \* url-safe alphabet, MIME line breaks
     ELSE "F"
EmptyOkFormats == {"uri-reference", "iri-reference", "uri-template", "regex", "json-pointer"}
NonEmptyFormats == {"duration", "email", "hostname", "idn-email", "idn-hostname", "ipv6", "iri", "time", "uri", "relative-json-pointer"}
FormatOk(fmt, txt) ==
  CASE fmt = "date"      -> FmtDate(Str(txt))
    [] fmt = "date-time" -> FmtDateTime(Str(txt))
    [] fmt = "uuid"      -> FmtUuid(Str(txt))
    [] fmt = "ipv4"      -> FmtIpv4(Str(txt))
    [] fmt = "byte"      -> FmtByte(Str(txt))
    [] fmt \in EmptyOkFormats  -> IF txt = <<>> THEN "T" ELSE "U"     \* the empty text is a member (RFC 3986 relative reference, RFC 6570,
                                                                       \* RFC 6901 whole-document pointer, the empty regular expression)
    [] fmt \in NonEmptyFormats -> IF txt = <<>> THEN "F" ELSE "U"     \* their grammars have no empty member; anything else is not decided here
    [] OTHER             -> "T"                     \* every other format is an annotation

(* ---------------- validity ---------------- *)
TypeMatch3(ty, v, dia) ==
  CASE ty = "integer" -> IF v.t = "int" THEN "T"
                         ELSE IF v.t = "num" /\ v.isInt
                              THEN (IF ~v.isFloat THEN "T" ELSE IF dia = "2020" THEN "T" ELSE IF dia = "d4" THEN "F" ELSE "U")
                         ELSE "F"
    [] ty = "number"  -> B3(IsNum(v))
    [] ty = "string"  -> B3(v.t = "str")
    [] ty = "boolean" -> B3(v.t = "bool")
    [] ty = "null"    -> B3(v.t = "null")
    [] ty = "array"   -> B3(v.t = "arr")
    [] ty = "object"  -> B3(v.t = "obj")
    [] OTHER -> "U"
RECURSIVE Deref(_, _)
Deref(defs, s) == IF s.sk = "schema" /\ Has(s, "ref") /\ s.ref \in DOMAIN defs THEN Deref(defs, defs[s.ref]) ELSE s
Flag(defs, s, name) == LET d == Deref(defs, s) IN d.sk = "schema" /\ Fld(d, name, FALSE)
Forbidden(defs, ps, ctx) == \/ ctx.dir = "request" /\ Flag(defs, ps, "readOnly")
                            \/ ctx.dir = "response" /\ Flag(defs, ps, "writeOnly")
PropIdx(s, key) == IF Has(s, "props") THEN {j \in DOMAIN s.props.k : s.props.k[j] = key} ELSE {}

RECURSIVE ValidC(_, _, _, _)
ValidC(defs, s, v, ctx) ==           \* ctx = [dir : "request" | "response", dia : "d4" | "2020" | "any"]
  IF s.sk = "true" THEN "T" ELSE IF s.sk = "false" THEN "F" ELSE IF s.sk # "schema" THEN "U"
  ELSE IF v.t = "opaque" THEN "U"
  ELSE IF Has(s, "ref") THEN (IF s.ref \in DOMAIN defs THEN ValidC(defs, defs[s.ref], v, ctx) ELSE "U")
  ELSE
  LET nullOk == v.t = "null" /\ Fld(s, "nullable", FALSE)
      c1 == IF nullOk \/ ~Has(s, "type") THEN "T" ELSE Any3([i \in DOMAIN s.type |-> TypeMatch3(s.type[i], v, ctx.dia)])
      c2 == And3(IF Has(s, "enum") THEN Any3([i \in DOMAIN s.enum |-> Eq3(s.enum[i], v)]) ELSE "T",
                 IF Has(s, "const") THEN Eq3(s.const, v) ELSE "T")
      c3 == IF IsNum(v) THEN
              All3(<< IF Has(s, "minimum") THEN B3(IF Fld(s, "exclMin", FALSE) THEN GT(v, s.minimum) ELSE GE(v, s.minimum)) ELSE "T",
                      IF Has(s, "maximum") THEN B3(IF Fld(s, "exclMax", FALSE) THEN LT(v, s.maximum) ELSE LE(v, s.maximum)) ELSE "T",
                      IF Has(s, "xMin") THEN B3(GT(v, s.xMin)) ELSE "T",
                      IF Has(s, "xMax") THEN B3(LT(v, s.xMax)) ELSE "T",
                      IF Has(s, "multipleOf") THEN MultipleOf3(v, s.multipleOf) ELSE "T" >>)
            ELSE "T"
      c4 == IF v.t = "str" THEN
              All3(<< IF Has(s, "minLength") THEN B3(Len(v.v) >= s.minLength) ELSE "T",
                      IF Has(s, "maxLength") THEN B3(Len(v.v) <= s.maxLength) ELSE "T",
                      IF Has(s, "pattern") THEN PatternMatch(v.v, s.pattern) ELSE "T",
                      IF Has(s, "format") THEN FormatOk(s.format, v.v) ELSE "T" >>)
            ELSE "T"
      c5 == IF v.t = "arr" THEN
              All3(<< IF Has(s, "minItems") THEN B3(Len(v.v) >= s.minItems) ELSE "T",
                      IF Has(s, "maxItems") THEN B3(Len(v.v) <= s.maxItems) ELSE "T",
                      IF Fld(s, "uniqueItems", FALSE)
                        THEN LET pairs == {p \in (DOMAIN v.v) \X (DOMAIN v.v) : p[1] < p[2]} IN
                             IF \E p \in pairs : Eq3(v.v[p[1]], v.v[p[2]]) = "T" THEN "F"
                             ELSE IF \E p \in pairs : Eq3(v.v[p[1]], v.v[p[2]]) = "U" THEN "U" ELSE "T"
                        ELSE "T",
                      IF Has(s, "items") THEN All3([i \in DOMAIN v.v |-> ValidC(defs, s.items, v.v[i], ctx)]) ELSE "T" >>)
            ELSE "T"
      c6 == IF v.t = "obj" THEN
              IF DupKeys(v) THEN "U" ELSE
              All3(<< IF Has(s, "required")
                        THEN B3(\A i \in DOMAIN s.required :
                                   \/ ObjHas(v, s.required[i])
                                   \/ \E j \in PropIdx(s, s.required[i]) : Forbidden(defs, s.props.v[j], ctx))
                        ELSE "T",
                      IF Has(s, "minProperties") THEN B3(Len(v.k) >= s.minProperties) ELSE "T",
                      IF Has(s, "maxProperties") THEN B3(Len(v.k) <= s.maxProperties) ELSE "T",
                      All3([i \in DOMAIN v.k |->
                              IF PropIdx(s, v.k[i]) # {}
                              THEN LET ps == s.props.v[CHOOSE j \in PropIdx(s, v.k[i]) : TRUE] IN
                                   IF Forbidden(defs, ps, ctx) THEN "F" ELSE ValidC(defs, ps, v.v[i], ctx)
                              ELSE IF Has(s, "addProps") THEN ValidC(defs, s.addProps, v.v[i], ctx)
                              ELSE "T"]) >>)
            ELSE "T"
      c7 == IF Has(s, "allOf") THEN All3([i \in DOMAIN s.allOf |-> ValidC(defs, s.allOf[i], v, ctx)]) ELSE "T"
      c8 == IF Has(s, "anyOf") THEN Any3([i \in DOMAIN s.anyOf |-> ValidC(defs, s.anyOf[i], v, ctx)]) ELSE "T"
      c9 == IF Has(s, "oneOf") THEN One3([i \in DOMAIN s.oneOf |-> ValidC(defs, s.oneOf[i], v, ctx)]) ELSE "T"
      c10 == IF Has(s, "not") THEN Not3(ValidC(defs, s.not, v, ctx)) ELSE "T"
      r == All3(<<c1, c2, c3, c4, c5, c6, c7, c8, c9, c10>>)
  IN (* nullable admits null in addition; whether enum/const/combinators of the same schema object may still reject
        null is disputed (3.0.3 clarification vs. practice) => "U" *)
     IF nullOk /\ r # "T" THEN "U" ELSE r

ValidD(defs, s, v, dir, dia) == ValidC(defs, s, v, [dir |-> dir, dia |-> dia])
Valid(defs, s, v, dir) == ValidD(defs, s, v, dir, "any")

(* ---------------- string coercion (path / query / header / cookie) ---------------- *)
Lower(c) == IF c >= 65 /\ c <= 90 THEN c + 32 ELSE c
LowerTxt(t) == [i \in 1..Len(t) |-> Lower(t[i])]
TxtTrue == <<116, 114, 117, 101>>
TxtFalse == <<102, 97, 108, 115, 101>>
TxtNull == <<110, 117, 108, 108>>
TxtNone == <<110, 111, 110, 101>>
StrictInt(t) ==      \* -?(0|[1-9][0-9]*) with at most 9 digits
  LET neg == Len(t) >= 1 /\ t[1] = 45
      d0 == IF neg THEN 2 ELSE 1
      nd == Len(t) - d0 + 1
  IN /\ nd >= 1 /\ nd <= 9 /\ (\A i \in d0..Len(t) : IsDig(t[i]))
     /\ (nd > 1 => t[d0] # 48) /\ ~(neg /\ nd = 1 /\ t[d0] = 48)
IntOfTxt(t) ==
  LET neg == t[1] = 45
      mag == FoldLeft(LAMBDA a, c : IF c = 45 THEN a ELSE a * 10 + (c - 48), 0, t)
  IN IF neg THEN 0 - mag ELSE mag
NumericIsh(t) ==     \* might be read as a number by some parser: digits with sign / point / exponent / blanks, or nan / inf
  \/ /\ (\E i \in DOMAIN t : IsDig(t[i]))
     /\ (\A i \in DOMAIN t : (IsDig(t[i]) \/ t[i] \in {43, 45, 46, 101, 69, 32, 9, 10, 13, 95}))
  \/ LET l == SelectSeq(LowerTxt(t), LAMBDA c : c \notin {43, 45, 32}) IN
       l \in {<<110, 97, 110>>, <<105, 110, 102>>, <<105, 110, 102, 105, 110, 105, 116, 121>>}
DigitsOf(n) ==       \* decimal text of an integer |n| < 10^10
  LET m == IF n < 0 THEN 0 - n ELSE n
      d == IF m >= 1000000000 THEN 10 ELSE CHOOSE k \in 1..9 : m < 10 ^ k /\ (k = 1 \/ m >= 10 ^ (k - 1))
      ds == [i \in 1..d |-> ((m \div (10 ^ (d - i))) % 10) + 48]
  IN IF n < 0 THEN <<45>> \o ds ELSE ds
No == [st |-> "no"]
Unsure == [st |-> "u"]
Ok(val) == [st |-> "ok", v |-> val]
(* readings of a generated scalar value as each JSON type, through the text it is sent as *)
Reading(kind, v) ==
  CASE v.t = "str" ->
         (CASE kind = "string"  -> Ok(v)
            [] kind = "integer" -> IF StrictInt(v.v) THEN Ok([t |-> "int", v |-> IntOfTxt(v.v)])
                                   ELSE IF NumericIsh(v.v) THEN Unsure ELSE No
            [] kind = "number"  -> IF StrictInt(v.v) THEN Ok([t |-> "int", v |-> IntOfTxt(v.v)])
                                   ELSE IF NumericIsh(v.v) THEN Unsure ELSE No
            [] kind = "boolean" -> IF v.v = TxtTrue THEN Ok([t |-> "bool", v |-> TRUE])
                                   ELSE IF v.v = TxtFalse THEN Ok([t |-> "bool", v |-> FALSE])
                                   ELSE IF LowerTxt(v.v) \in {TxtTrue, TxtFalse} THEN Unsure ELSE No
            [] kind = "null"    -> IF v.v = TxtNull THEN Ok([t |-> "null"])
                                   ELSE IF v.v = <<>> \/ LowerTxt(v.v) \in {TxtNull, TxtNone} THEN Unsure ELSE No
            [] OTHER -> Unsure)
    [] v.t = "int" ->
         (CASE kind = "string" -> Ok([t |-> "str", v |-> DigitsOf(v.v)])
            [] kind \in {"integer", "number"} -> Ok(v)
            [] kind \in {"boolean", "null"} -> No
            [] OTHER -> Unsure)
    [] v.t = "num" ->
         (CASE kind = "string" -> IF Has(v, "txt") THEN Ok([t |-> "str", v |-> v.txt]) ELSE Unsure
            [] kind = "number" -> Ok(v)
            [] kind = "integer" -> IF ~v.isInt THEN No ELSE IF ~v.isFloat THEN Ok(v) ELSE Unsure
            [] kind \in {"boolean", "null"} -> No
            [] OTHER -> Unsure)
    [] v.t = "bool" ->
         (CASE kind = "boolean" -> Ok(v)
            [] kind = "string" -> Unsure            \* "true" / "True" / "1": serializer dependent
            [] kind \in {"integer", "number", "null"} -> No
            [] OTHER -> Unsure)
    [] v.t = "null" ->
         (CASE kind = "null" -> Ok(v)
            [] kind = "string" -> Unsure            \* "null", "" or absent
            [] kind \in {"integer", "number", "boolean"} -> No
            [] OTHER -> Unsure)
    [] OTHER -> Unsure
ScalarKinds == <<"string", "integer", "number", "boolean", "null">>
ItemTxtHasComma(v) ==
  \/ v.t = "str" /\ \E i \in DOMAIN v.v : v.v[i] = 44
  \/ v.t = "num" /\ Has(v, "txt") /\ \E i \in DOMAIN v.txt : v.txt[i] = 44
ArrayKeys == {"sk", "type", "nullable", "items", "minItems", "maxItems", "uniqueItems"}

RECURSIVE CoercedC(_, _, _, _)
CoercedC(defs, v, s, ctx) ==
  LET s0 == Deref(defs, s) IN
  IF s0.sk = "true" THEN "T" ELSE IF s0.sk = "false" THEN "F" ELSE IF s0.sk # "schema" \/ Has(s0, "ref") THEN "U"
  ELSE IF v.t \in {"obj", "opaque"} THEN "U"
  ELSE IF v.t = "arr" THEN
     IF ~Has(s0, "type") \/ s0.type # <<"array">> \/ DOMAIN s0 \ ArrayKeys # {} THEN "U"
     ELSE IF Len(v.v) = 0 THEN "U"                                           \* indistinguishable from absent / empty text
     ELSE IF \E i \in DOMAIN v.v : v.v[i].t \in {"arr", "obj", "opaque"} \/ ItemTxtHasComma(v.v[i]) THEN "U"
     ELSE All3(<< IF Has(s0, "minItems") THEN B3(Len(v.v) >= s0.minItems) ELSE "T",
                  IF Has(s0, "maxItems") THEN B3(Len(v.v) <= s0.maxItems) ELSE "T",
                  IF Fld(s0, "uniqueItems", FALSE) THEN "U" ELSE "T",
                  IF Has(s0, "items") THEN All3([i \in DOMAIN v.v |-> CoercedC(defs, v.v[i], s0.items, ctx)]) ELSE "T" >>)
  ELSE
  LET declared == IF Has(s0, "type")
                  THEN {s0.type[i] : i \in DOMAIN s0.type} \cup (IF Fld(s0, "nullable", FALSE) THEN {"null"} ELSE {})
                  ELSE {ScalarKinds[i] : i \in DOMAIN ScalarKinds}
      kinds == SelectSeq(ScalarKinds, LAMBDA k : k \in declared)
      rd == [i \in DOMAIN kinds |-> Reading(kinds[i], v)]
      live == {i \in DOMAIN rd : rd[i].st # "no"}
      verdict(i) == IF rd[i].st = "u" THEN "U" ELSE ValidC(defs, s0, rd[i].v, ctx)
      structured == declared \cap {"array", "object"} # {}                  \* p=5 may also be a one-element array
  IN IF live = {} THEN (IF structured THEN "U" ELSE "F")
     ELSE IF structured THEN (IF \A i \in live : verdict(i) = "T" THEN "T" ELSE "U")
     ELSE IF \A i \in live : verdict(i) = "T" THEN "T"
     ELSE IF \A i \in live : verdict(i) = "F" THEN "F"
     ELSE "U"                                                               \* readings disagree

CoercedV(defs, v, s, dir) == CoercedC(defs, v, s, [dir |-> dir, dia |-> "any"])
CoercedD(defs, txt, s, dir) == CoercedV(defs, [t |-> "str", v |-> txt], s, dir)
Coerced(txt, s) == CoercedD(NoDefs, txt, s, "request")
=============================================================================
