SPECIFICATION Spec
CONSTANT MaxIncl = 2
CONSTANT MaxExcl = 2
CONSTANT MaxTotal = 4
CONSTANT LazyTotal = 3
INVARIANT TypeOK
INVARIANT ExcludeWins
INVARIANT NoIncludeMeansAll
INVARIANT Monotone
INVARIANT LazyKeepsBaseExcludes
INVARIANT StatConsistent
INVARIANT Export
CHECK_DEADLOCK FALSE
