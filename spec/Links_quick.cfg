SPECIFICATION Spec
CONSTANT PtrLen = 2
CONSTANT Rich = FALSE
INVARIANT TypeOK
INVARIANT DefaultIsTheRest
INVARIANT ExplicitIgnoresOthers
INVARIANT EmbeddedIsText
INVARIANT ConstantIsItself
INVARIANT NeverSendsNothing
INVARIANT PointerLaws
INVARIANT FalsyIsAValue
INVARIANT TreeAllOrNothing
INVARIANT Export
CHECK_DEADLOCK FALSE
