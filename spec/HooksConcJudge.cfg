SPECIFICATION JSpec
CONSTANT Shared = FALSE
CONSTANT Rich = FALSE
INVARIANT Report
CHECK_DEADLOCK FALSE
