SPECIFICATION Spec
CONSTANTS
  StepCount = 3
  MaxScen = 3
  MaxSuites = 3
  MaxFail = 0
  FixDrain = TRUE
  FixCtrlC = TRUE
  FixDrainExec = TRUE
  FixSetup = TRUE
  FixWorst = TRUE
  AllowStop = TRUE
  AllowCtrlC = TRUE
  AllowError = TRUE
  AliveCheck = TRUE
  NKinds = 1
INVARIANT ProtocolOK
INVARIANT ClosedAtEnd
INVARIANT NoProblemLost
INVARIANT AtMostOneRequestAfterStop
INVARIANT AtMostOneScenarioAfterStop
INVARIANT StepsBounded
INVARIANT FailureLimit
CHECK_DEADLOCK FALSE
