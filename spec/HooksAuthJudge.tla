--------------------------- MODULE HooksAuthJudge ---------------------------
(* Code -> spec: per operation, the provider whose data ended up on the generated case, judged against HooksAuth!Sound / Complete. *)
EXTENDS HooksAuth, IOUtils
Obs == JsonDeserialize(IOEnv.OBS_FILE)   \* sequence of [events, obs : provider id per operation, 0 = none]
VARIABLE i
JInit == /\ i \in 1..Len(Obs) /\ ahist = Obs[i].events /\ providers = [s \in AScopes |-> << >>] /\ aorder = "AB"
JNext == UNCHANGED <<i, avars>>
JSpec == JInit /\ [][JNext]_<<i, avars>>
Report == \A o \in 1..NOps :
            /\ IF Sound(ahist, o, Obs[i].obs[o]) THEN TRUE ELSE PrintT(<<"DISAGREE", i, o, "unsound">>)
            /\ IF Complete(ahist, o, Obs[i].obs[o]) THEN TRUE ELSE PrintT(<<"DISAGREE", i, o, "incomplete">>)
=============================================================================
