SPECIFICATION Spec
CONSTANT MaxGiven = 3
CONSTANT Combo = "valid"
INVARIANT TypeOK
INVARIANT Total
INVARIANT GivenReaches
INVARIANT DefaultsKept
INVARIANT Independent
INVARIANT InvalidRefused
INVARIANT RejectMonotone
INVARIANT UndecidedSticks
INVARIANT HypConsistent
INVARIANT Export
CHECK_DEADLOCK FALSE
