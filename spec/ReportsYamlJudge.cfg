SPECIFICATION JSpec
CONSTANT MaxLen = 0
INVARIANT Report
CHECK_DEADLOCK FALSE
