----------------------------- MODULE Lifecycle -----------------------------
(***************************************************************************)
(* C18 - resource-lifecycle findings follow from the observed history.     *)
(*                                                                         *)
(* State: a scenario forest `tree` (sequence of nodes in the order the     *)
(* requests were made; node = operation kind, identifier value, response   *)
(* status, index of the parent node or 0 for a root) and `link`, whether   *)
(* the path parameters of the LAST node all came from the link that        *)
(* produced it.  One action per recorder operation: Append = the stateful  *)
(* runner records a case and its response; Unlink = the same request made  *)
(* with generated (not link-supplied) parameters.                          *)
(*                                                                         *)
(* The verdict operators are written from the property text, not from      *)
(* checks.py.  UAF is an equivalence (sound and complete), RNA is an       *)
(* implication (the property only says when it may be reported).           *)
(***************************************************************************)
EXTENDS Integers, Sequences, FiniteSets, TLC, Json

CONSTANTS MaxN,        \* maximal number of nodes of a tree
          Rich,        \* TRUE: full status set on every node; FALSE: reduced statuses on non-final nodes
          Small        \* TRUE: one collection, one identifier (used to reach deeper trees within the quick budget)

AllKinds == {"POST users", "GET user", "DELETE user", "GET user posts", "POST user posts",
             "DELETE order", "GET order"}
Kinds == IF Small THEN {"POST users", "GET user", "DELETE user", "GET user posts"} ELSE AllKinds
Ids == IF Small THEN {1} ELSE {1, 11}    \* "1" is a proper prefix of "11"
HasId(k) == k # "POST users"
Method(k) == CASE k \in {"POST users", "POST user posts"} -> "POST"
               [] k \in {"DELETE user", "DELETE order"}   -> "DELETE"
               [] OTHER                                     -> "GET"
StatusOf(k) == IF Method(k) = "POST" THEN {201, 302, 400, 500}
               ELSE IF Method(k) = "DELETE" THEN {204, 403, 404, 500}
               ELSE {200, 403, 404, 500}
(* path as a sequence of segments; identifier values are segments like any other *)
Segs(n) == CASE n.kind = "POST users"                 -> <<"users">>
             [] n.kind \in {"GET user", "DELETE user"} -> <<"users", n.id>>
             [] n.kind \in {"GET user posts", "POST user posts"} -> <<"users", n.id, "posts">>
             [] OTHER                                  -> <<"orders", n.id>>

NodeAt(i) == {n \in [kind : Kinds, id : Ids, status : {200, 201, 204, 302, 400, 403, 404, 500}, parent : 0..(i - 1)] :
                /\ n.status \in StatusOf(n.kind)
                /\ (~HasId(n.kind) => n.id = 1)}

RECURSIVE Root(_, _)
Root(t, i) == IF t[i].parent = 0 THEN i ELSE Root(t, t[i].parent)
IsPrefixSeq(a, b) == Len(a) <= Len(b) /\ \A i \in 1..Len(a) : a[i] = b[i]
Is2xx(s) == s >= 200 /\ s < 300
SameTree(t, i, j) == Root(t, i) = Root(t, j)
SameResource(d, n) == IsPrefixSeq(Segs(d), Segs(n))
SuccessfulDelete(t, j, i) == /\ Method(t[j].kind) = "DELETE" /\ Is2xx(t[j].status)
                             /\ SameTree(t, j, i) /\ SameResource(t[j], t[i])

(* use after free: reported for node i  <=>  ... *)
UAF(t, i) == /\ t[i].status # 404 /\ t[i].status < 500
             /\ \E j \in 1..(i - 1) : SuccessfulDelete(t, j, i)

(* resource not available: may be reported for node i only if ... *)
RNANoLink(t, i) ==
    /\ t[i].status >= 400 /\ t[i].status < 500
    /\ t[i].parent # 0
    /\ LET p == t[t[i].parent] IN
         /\ Method(p.kind) = "POST" /\ p.status >= 200 /\ p.status < 400
         /\ SameResource(p, t[i])
    /\ ~\E j \in (t[i].parent + 1)..(i - 1) : SuccessfulDelete(t, j, i)
RNAAllowed(t, i, lnk, ext) == lnk /\ ~ext /\ RNANoLink(t, i)

VARIABLES tree, link, extra
vars == <<tree, link, extra>>
Init == tree = <<>> /\ link = TRUE /\ extra = FALSE
Reduced(n) == n.status \in {200, 201, 204, 403, 404}
Append1 == /\ link /\ ~extra /\ Len(tree) < MaxN
           /\ (Rich \/ \A i \in 1..Len(tree) : Reduced(tree[i]))
           /\ \E n \in NodeAt(Len(tree) + 1) : tree' = Append(tree, n)
           /\ UNCHANGED <<link, extra>>
Unlink == /\ link /\ ~extra /\ tree # <<>> /\ HasId(tree[Len(tree)].kind) /\ RNANoLink(tree, Len(tree))
          /\ link' = FALSE /\ UNCHANGED <<tree, extra>>
(* the same link-derived request carrying, in addition, an OPTIONAL parameter the link does not supply and the generator filled in:
   not all of its parameters came from the link any more *)
AddExtra == /\ link /\ ~extra /\ tree # <<>> /\ tree[Len(tree)].kind = "GET user posts" /\ RNANoLink(tree, Len(tree))
            /\ extra' = TRUE /\ UNCHANGED <<tree, link>>
Next == Append1 \/ Unlink \/ AddExtra
Spec == Init /\ [][Next]_vars

(* design-level sanity, checked by TLC on every enumerated tree *)
TypeOK == /\ Len(tree) <= MaxN
          /\ \A i \in 1..Len(tree) : tree[i].parent < i
UAFNeedsDelete == \A i \in 1..Len(tree) : UAF(tree, i) => \E j \in 1..(i - 1) : Method(tree[j].kind) = "DELETE"
UAFNever404 == \A i \in 1..Len(tree) : UAF(tree, i) => tree[i].status # 404
RNAOnly4xxChildOfPost == \A i \in 1..Len(tree) : RNAAllowed(tree, i, TRUE, FALSE) =>
                            /\ tree[i].status \in 400..499 /\ tree[i].parent # 0
                            /\ Method(tree[tree[i].parent].kind) = "POST"
(* a successful delete of the resource between creation and use excludes RNA and, unless 404, implies UAF *)
DeleteSeparates == \A i \in 1..Len(tree) : (RNANoLink(tree, i) /\ tree[i].status # 404) => ~UAF(tree, i) \/
                       \E j \in 1..tree[i].parent : SuccessfulDelete(tree, j, i)

(* export: every reachable (tree, link) with the spec's verdicts for the last node *)
Export == IF tree = <<>> THEN TRUE
          ELSE PrintT(<<"CASE", ToJson([tree |-> tree, link |-> link, extra |-> extra,
                                         uaf |-> UAF(tree, Len(tree)),
                                         rna |-> RNAAllowed(tree, Len(tree), link, extra)])>>)
=============================================================================
