--------------------------- MODULE StatefulTrace ---------------------------
(***************************************************************************)
(* Action-level trace validation of the engine's stateful phase: the log   *)
(* recorded from a real run (harness/engine_driver.Recorder: one global    *)
(* order, queue puts logged under the queue's own mutex) must be explained *)
(* line by line by actions of Stateful.tla.  Two threads run freely (no    *)
(* scheduler is needed): what a thread does between two of its log points  *)
(* is a silent action TLC infers, and the three moments the log cannot pin *)
(* down - the instant a stop flag becomes visible to the thread - are left *)
(* to inference as well:                                                   *)
(*   * stream.stop() sets the flag BEFORE the harness logs STOP, so the     *)
(*     model's Env_Stop is a silent step that must have happened by the    *)
(*     time the STOP line is consumed;                                     *)
(*   * a KeyboardInterrupt in the consumer's get() is logged (CTRLC) when  *)
(*     it is raised, the flag is set a few instructions later by the       *)
(*     handler: C_CtrlC is a silent step after the CTRLC line, and the     *)
(*     Interrupted event it emits is the next Y INT line;                  *)
(*   * how many NEW failures a request produced is chosen at the R line    *)
(*     (prophecy) and confirmed by the COUNT lines that follow.            *)
(* Lines (every field always present):                                     *)
(*   Q k st        event put on the queue by the state-machine thread      *)
(*   STEP          the thread entered step() (stop check)                  *)
(*   R             the API received a request                              *)
(*   COUNT f lim   ExecutionControl.count_failure returned (counter, flag) *)
(*   TEXIT         the thread left its loop                                *)
(*   STOP / CTRLC  the environment: stream.stop() / Ctrl-C in get()        *)
(*   Y k st        event delivered to the stream consumer                  *)
(***************************************************************************)
EXTENDS Stateful, Json, IOUtils
Runs == JsonDeserialize(IOEnv.OBS_FILE)      \* sequence of [stop |-> BOOLEAN, unique |-> BOOLEAN, lines |-> sequence of lines]
VARIABLES t, l, cnt, cntLimit, pendCtrlC, owedInt
aux == <<t, l, cnt, cntLimit, pendCtrlC, owedInt>>
tvars == <<vars, aux>>
Lines == Runs[t].lines
Line == Lines[l]
More == l <= Len(Lines)
Consume == l' = l + 1 /\ t' = t
KeepAux == UNCHANGED aux
Is(e) == More /\ Line.e = e
IsQ(k) == More /\ Line.e = "Q" /\ Line.k = k
IsY(k) == More /\ Line.e = "Y" /\ Line.k = k

TInit == Init /\ t \in 1..Len(Runs) /\ l = 1 /\ cnt = 0 /\ cntLimit = FALSE /\ pendCtrlC = FALSE /\ owedInt = FALSE

(* steps of the two threads that leave no line *)
Silent ==
  /\ KeepAux
  /\ \/ T_SuiteCheck
     \/ T_EndScenario
     \/ T_Setup                                            \* the stop check of setup(); a KeyboardInterrupt announces nothing
     \/ T_StepCheck                                        \* the stop check of step(), made right after the STEP log point
     \/ (T_RunEnd /\ pend \in {"none", "failure", "flaky"}) \* run() returned / raised FailureGroup / Flaky: nothing is put
     \/ C_Get \/ C_Timeout \/ C_Alive \/ C_Join
     \/ (C_Drain /\ q = <<>>)
     \/ (Runs[t].stop /\ Env_Stop)
     \/ (Runs[t].unique /\ T_Step)      \* with unique-inputs a step may be answered from the outcome cache: no request reaches the API
CtrlCTakesEffect ==
  /\ pendCtrlC /\ C_CtrlC
  /\ pendCtrlC' = FALSE /\ owedInt' = TRUE /\ UNCHANGED <<t, l, cnt, cntLimit>>

Delivered(k) ==      \* the consumer hands event k to the stream: from its loop, or from the drain after the join
  \/ (C_Yield /\ cur.k = k /\ (k \in {"ScF", "SF"} => cur.st = Line.st))
  \/ (C_Drain /\ q # <<>> /\ Head(q).k = k /\ (k \in {"ScF", "SF"} => Head(q).st = Line.st))

Logged ==
  /\ Consume
  /\ \/ IsY("ES") /\ P_Start /\ UNCHANGED <<cnt, cntLimit, pendCtrlC, owedInt>>
     \/ IsQ("SS") /\ T_SuiteStart /\ UNCHANGED <<cnt, cntLimit, pendCtrlC, owedInt>>
     \/ IsQ("INT") /\ (T_SuiteIntr1 \/ (T_RunEnd /\ pend = "ctrlc")) /\ UNCHANGED <<cnt, cntLimit, pendCtrlC, owedInt>>
     \/ IsQ("SF") /\ ((T_SuiteIntr2 /\ Line.st = "interrupted") \/ (T_SuiteFinish /\ Line.st = sst))
                  /\ UNCHANGED <<cnt, cntLimit, pendCtrlC, owedInt>>
     \/ IsQ("ScS") /\ T_SetupPut /\ UNCHANGED <<cnt, cntLimit, pendCtrlC, owedInt>>
     \/ Is("STEP") /\ tpc = "step_check" /\ UNCHANGED vars /\ UNCHANGED <<cnt, cntLimit, pendCtrlC, owedInt>>
     \/ Is("R") /\ T_Step /\ UNCHANGED <<cnt, cntLimit, pendCtrlC, owedInt>>
     \/ Is("COUNT") /\ cnt' = Line.fails /\ cntLimit' = Line.limit /\ UNCHANGED vars /\ UNCHANGED <<pendCtrlC, owedInt>>
     \/ IsQ("ScF") /\ T_Teardown /\ Line.st = (IF scst = "none" THEN "skip" ELSE scst)
                   /\ (MaxFail = 0 \/ (cnt = fails /\ cntLimit = limit))     \* the prophecy made at the R lines is confirmed
                   /\ UNCHANGED <<cnt, cntLimit, pendCtrlC, owedInt>>
     \/ IsQ("NFE") /\ T_RunEnd /\ pend = "error" /\ UNCHANGED <<cnt, cntLimit, pendCtrlC, owedInt>>
     \/ Is("TEXIT") /\ T_Exit /\ UNCHANGED <<cnt, cntLimit, pendCtrlC, owedInt>>
     \/ Is("STOP") /\ stopped /\ UNCHANGED vars /\ UNCHANGED <<cnt, cntLimit, pendCtrlC, owedInt>>
     \/ Is("CTRLC") /\ cpc \in {"get", "alive"} /\ pendCtrlC' = TRUE /\ UNCHANGED vars /\ UNCHANGED <<cnt, cntLimit, owedInt>>
     \/ (\E k \in {"SS", "ScS", "ScF", "SF", "NFE"} : IsY(k) /\ Delivered(k)) /\ UNCHANGED <<cnt, cntLimit, pendCtrlC, owedInt>>
     \/ IsY("INT") /\ \/ (owedInt /\ owedInt' = FALSE /\ UNCHANGED vars /\ UNCHANGED <<cnt, cntLimit, pendCtrlC>>)
                      \/ (~owedInt /\ Delivered("INT") /\ UNCHANGED <<cnt, cntLimit, pendCtrlC, owedInt>>)
     \/ IsY("PF") /\ C_PhaseFinished /\ Line.st = (IF ~executed \/ status = "none" THEN "skip" ELSE status)
                  /\ UNCHANGED <<cnt, cntLimit, pendCtrlC, owedInt>>
     \/ IsY("EF") /\ C_EngineFinished /\ UNCHANGED <<cnt, cntLimit, pendCtrlC, owedInt>>

TNext == Silent \/ CtrlCTakesEffect \/ Logged
TSpec == TInit /\ [][TNext]_tvars

Accepted == l = Len(Lines) + 1 /\ Done
TraceInvariants == ProtocolOK /\ ClosedAtEnd /\ StepsBounded /\ NoProblemLost
Report == /\ IF Accepted THEN PrintT(<<"ACCEPT", t>>) ELSE TRUE
          /\ IF TraceInvariants THEN TRUE ELSE PrintT(<<"INVARIANT", t, l - 1>>)
          /\ IF ~Accepted /\ ~ENABLED TNext THEN PrintT(<<"STUCK", t, l>>) ELSE TRUE
=============================================================================
