SPECIFICATION JSpec
CONSTANT Thorough = FALSE
INVARIANT JSanity
INVARIANT Report
CHECK_DEADLOCK FALSE
