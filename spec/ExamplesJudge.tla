---------------------------- MODULE ExamplesJudge ----------------------------
(* Code -> spec: what the real examples phase sent for an operation (generated Cases on the fast path, the loopback     *)
(* server's log through the real engine on the wire path) is judged against Examples!Complaints.                       *)
EXTENDS Examples, IOUtils
Obs == JsonDeserialize(IOEnv.OBS_FILE)   \* Seq([op, mode : "case" | "wire", status : "ok" | "error" | "skipped" | other, sent : Seq([parts])])
VARIABLE i
JInit == i \in 1..Len(Obs) /\ op = Obs[i].op
JNext == UNCHANGED <<i, op>>
JSpec == JInit /\ [][JNext]_<<i, op>>
Report == \A c \in Complaints(op, Obs[i]) : PrintT(<<"COMPLAINT", i, c>>)
=============================================================================
