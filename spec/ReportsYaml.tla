---------------------------- MODULE ReportsYaml ----------------------------
(***************************************************************************)
(* C16 (b) - the emitter grammar of the hand-written VCR cassette writer.  *)
(*                                                                         *)
(* The cassette is a YAML document assembled by string concatenation.  The *)
(* YAML subset it is meant to consist of (DESIGN Appendix D, "YAML") is    *)
(* stated here as a LINE grammar plus an indentation discipline:           *)
(*                                                                         *)
(*   line  ::= indent [ "- " ] ( key ":" [ " " value ] | dq-scalar ) trail *)
(*   trail ::= sp* | sp+ "#" any*                                          *)
(*          |  sp*                                                         *)
(*   key   ::= [A-Za-z0-9_]+  |  dq-scalar                                 *)
(*   value ::= sq-scalar | dq-scalar | plain                               *)
(*   plain ::= null | ~ | {} | [] | number | word                          *)
(*                                                                         *)
(* Scalars are one-line YAML 1.1 flow scalars: single-quoted ('' is the    *)
(* only escape), double-quoted (YAML 1.1 escape table), both made of       *)
(* printable non-break characters; U+2028 / U+2029 (line breaks that YAML  *)
(* 1.1 preserves and YAML 1.2 treats as ordinary characters) are admitted  *)
(* inside quotes when no raw white space touches them (1.1 folding would   *)
(* strip it), so an accepted scalar reads the same under both versions.  Every scanner is a finite         *)
(* automaton advanced by FoldLeft over the code points of a line; a second *)
(* fold over the scanned lines keeps the stack of open block collections   *)
(* and flattens the document to (path, value) pairs.  Written from the     *)
(* YAML 1.1 specification (chapters 4.1, 5.4-5.7, 7.3), not from           *)
(* cassettes.py.  The model is cross-checked against PyYAML on every       *)
(* enumerated string (ReportsYamlJudge!XReport).                           *)
(***************************************************************************)
EXTENDS Integers, Sequences, FiniteSets, SequencesExt, TLC, Json

SP == 32  DQ == 34  HASH == 35  SQ == 39  DASH == 45  COLON == 58  BSL == 92

(* YAML 1.1 c-printable and b-char *)
IsBreak(c) == c \in {10, 13, 133, 8232, 8233}
Printable(c) == \/ c = 9 \/ c = 10 \/ c = 13 \/ c = 133
                \/ (c >= 32 /\ c <= 126)
                \/ (c >= 160 /\ c <= 55295)
                \/ (c >= 57344 /\ c <= 65533)
                \/ (c >= 65536 /\ c <= 1114111)
Inline(c) == Printable(c) /\ ~IsBreak(c)
IsDigit(c) == c >= 48 /\ c <= 57
IsAlpha(c) == (c >= 65 /\ c <= 90) \/ (c >= 97 /\ c <= 122) \/ c = 95
IsKeyChar(c) == IsAlpha(c) \/ IsDigit(c)
HexVal(c) == IF IsDigit(c) THEN c - 48
             ELSE IF c >= 65 /\ c <= 70 THEN c - 55
             ELSE IF c >= 97 /\ c <= 102 THEN c - 87 ELSE -1

(* YAML 1.1 escape table of double-quoted scalars: escape char -> code point, -1 = none *)
Esc(c) == CASE c = 48 -> 0    [] c = 97 -> 7    [] c = 98 -> 8   [] c = 116 -> 9  [] c = 9 -> 9
            [] c = 110 -> 10  [] c = 118 -> 11  [] c = 102 -> 12 [] c = 114 -> 13 [] c = 101 -> 27
            [] c = 32 -> 32   [] c = 34 -> 34   [] c = 47 -> 47  [] c = 92 -> 92
            [] c = 78 -> 133  [] c = 95 -> 160  [] c = 76 -> 8232 [] c = 80 -> 8233
            [] OTHER -> -1
HexLen(c) == CASE c = 120 -> 2 [] c = 117 -> 4 [] c = 85 -> 8 [] OTHER -> 0

---------------------------------------------------------------------------
(* plain scalars the grammar admits *)
W_null == <<110, 117, 108, 108>>
W_tilde == <<126>>
W_map == <<123, 125>>
W_seq == <<91, 93>>
(* number automaton: 0 start, 1 after '-', 2 int digits, 3 after '.', 4 frac digits, 5 after e, 6 after e sign, 7 exp digits, 9 dead *)
NumStep(q, c) ==
    CASE q = 0 -> IF c = DASH THEN 1 ELSE IF IsDigit(c) THEN 2 ELSE 9
      [] q = 1 -> IF IsDigit(c) THEN 2 ELSE 9
      [] q = 2 -> IF IsDigit(c) THEN 2 ELSE IF c = 46 THEN 3 ELSE IF c \in {69, 101} THEN 5 ELSE 9
      [] q = 3 -> IF IsDigit(c) THEN 4 ELSE 9
      [] q = 4 -> IF IsDigit(c) THEN 4 ELSE IF c \in {69, 101} THEN 5 ELSE 9
      [] q = 5 -> IF c \in {43, 45} THEN 6 ELSE IF IsDigit(c) THEN 7 ELSE 9
      [] q = 6 -> IF IsDigit(c) THEN 7 ELSE 9
      [] q = 7 -> IF IsDigit(c) THEN 7 ELSE 9
      [] OTHER -> 9
IsNumber(v) == FoldLeft(NumStep, 0, v) \in {2, 4, 7}
IsWord(v) == Len(v) > 0 /\ IsAlpha(v[1]) /\ \A i \in 1..Len(v) : IsKeyChar(v[i])
PlainKind(v) == IF v = W_null \/ v = W_tilde THEN "null"
                ELSE IF v = W_map THEN "map"
                ELSE IF v = W_seq THEN "seq"
                ELSE IF IsNumber(v) THEN "num"
                ELSE IF IsWord(v) THEN "word" ELSE "bad"

---------------------------------------------------------------------------
(* the line automaton *)
L0 == [st |-> "ind", ind |-> 0, dash |-> FALSE, key |-> <<>>, kq |-> FALSE, hasKey |-> FALSE,
       val |-> <<>>, style |-> "none", atKey |-> FALSE, hx |-> 0, hv |-> 0, ws |-> FALSE, ls |-> FALSE]
Bad(s) == [s EXCEPT !.st = "bad"]
IsLS(c) == c \in {8232, 8233}
IsWs(c) == c \in {9, 32}
(* content character of a quoted scalar: ws = last raw character was white space, ls = it was U+2028/9 *)
Content(s, c) == IF IsLS(c) THEN (IF s.ws THEN Bad(s) ELSE [s EXCEPT !.val = Append(@, c), !.ls = TRUE, !.ws = FALSE])
                 ELSE IF IsWs(c) THEN (IF s.ls THEN Bad(s) ELSE [s EXCEPT !.val = Append(@, c), !.ws = TRUE])
                 ELSE [s EXCEPT !.val = Append(@, c), !.ws = FALSE, !.ls = FALSE]
StartDq(s, atKey) == [s EXCEPT !.st = "dq", !.atKey = atKey, !.val = <<>>, !.style = IF atKey THEN "none" ELSE "dq", !.ws = FALSE, !.ls = FALSE]
LStep(s, c) ==
    CASE s.st = "ind" ->
           IF c = SP THEN [s EXCEPT !.ind = @ + 1]
           ELSE IF c = DASH THEN [s EXCEPT !.st = "dash"]
           ELSE IF c = DQ THEN StartDq(s, TRUE)
           ELSE IF IsKeyChar(c) THEN [s EXCEPT !.st = "key", !.key = <<c>>]
           ELSE Bad(s)
      [] s.st = "dash" -> IF c = SP THEN [s EXCEPT !.st = "item", !.dash = TRUE] ELSE Bad(s)
      [] s.st = "item" ->
           IF c = DQ THEN StartDq(s, TRUE)
           ELSE IF IsKeyChar(c) THEN [s EXCEPT !.st = "key", !.key = <<c>>]
           ELSE Bad(s)
      [] s.st = "key" ->
           IF IsKeyChar(c) THEN [s EXCEPT !.key = Append(@, c)]
           ELSE IF c = COLON THEN [s EXCEPT !.st = "colon", !.hasKey = TRUE]
           ELSE Bad(s)
      [] s.st = "colon" -> IF c = SP THEN [s EXCEPT !.st = "pre"] ELSE Bad(s)
      [] s.st = "pre" ->
           IF c = SP THEN s
           ELSE IF c = HASH THEN [s EXCEPT !.st = "comment"]
           ELSE IF c = SQ THEN [s EXCEPT !.st = "sq", !.style = "sq", !.ws = FALSE, !.ls = FALSE]
           ELSE IF c = DQ THEN StartDq(s, FALSE)
           ELSE IF Inline(c) THEN [s EXCEPT !.st = "plain", !.style = "plain", !.val = <<c>>]
           ELSE Bad(s)
      [] s.st = "sq" ->
           IF c = SQ THEN [s EXCEPT !.st = "sqq"]
           ELSE IF Inline(c) \/ IsLS(c) THEN Content(s, c)
           ELSE Bad(s)
      [] s.st = "sqq" ->
           IF c = SQ THEN [s EXCEPT !.st = "sq", !.val = Append(@, SQ), !.ws = FALSE, !.ls = FALSE]
           ELSE IF c = SP THEN [s EXCEPT !.st = "trail"]
           ELSE Bad(s)
      [] s.st = "dq" ->
           IF c = DQ THEN [s EXCEPT !.st = IF s.atKey THEN "kclosed" ELSE "dqc"]
           ELSE IF c = BSL THEN [s EXCEPT !.st = "esc", !.ws = FALSE, !.ls = FALSE]
           ELSE IF Inline(c) \/ IsLS(c) THEN Content(s, c)
           ELSE Bad(s)
      [] s.st = "esc" ->
           IF Esc(c) >= 0 THEN [s EXCEPT !.st = "dq", !.val = Append(@, Esc(c))]
           ELSE IF HexLen(c) > 0 THEN [s EXCEPT !.st = "hex", !.hx = HexLen(c), !.hv = 0]
           ELSE Bad(s)
      [] s.st = "hex" ->
           IF HexVal(c) < 0 \/ s.hv * 16 + HexVal(c) > 1114111 THEN Bad(s)
           ELSE IF s.hx = 1 THEN [s EXCEPT !.st = "dq", !.val = Append(@, s.hv * 16 + HexVal(c)), !.hx = 0, !.hv = 0]
           ELSE [s EXCEPT !.hx = @ - 1, !.hv = s.hv * 16 + HexVal(c)]
      [] s.st = "kclosed" ->
           IF c = COLON THEN [s EXCEPT !.st = "colon", !.key = s.val, !.val = <<>>, !.kq = TRUE, !.hasKey = TRUE]
           ELSE IF c = SP /\ s.dash THEN [s EXCEPT !.st = "trail", !.style = "dq"]
           ELSE Bad(s)
      [] s.st = "plain" -> IF Inline(c) THEN [s EXCEPT !.val = Append(@, c)] ELSE Bad(s)
      [] s.st = "dqc" -> IF c = SP THEN [s EXCEPT !.st = "trail"] ELSE Bad(s)
      [] s.st = "trail" -> IF c = SP THEN s ELSE IF c = HASH THEN [s EXCEPT !.st = "comment"] ELSE Bad(s)
      [] s.st = "comment" -> IF Inline(c) THEN s ELSE Bad(s)
      [] OTHER -> s

(* scanned line: kind "blank" | "key" (opens a collection or has an empty value) | "kv" | "item" (sequence entry that is a scalar) | "bad" *)
LineOf(s) ==
    LET base == [ind |-> s.ind, dash |-> s.dash, key |-> s.key, kq |-> s.kq, val |-> s.val] IN
    CASE s.st = "ind" -> base @@ [kind |-> "blank", style |-> "none"]
      [] s.st \in {"colon", "pre"} \/ (s.st = "comment" /\ s.style = "none" /\ s.hasKey) -> base @@ [kind |-> "key", style |-> "none"]
      [] s.st \in {"sqq", "dqc", "trail", "comment"} /\ s.hasKey /\ s.style # "none" -> base @@ [kind |-> "kv", style |-> s.style]
      [] s.st \in {"trail", "comment"} /\ ~s.hasKey /\ s.dash -> base @@ [kind |-> "item", style |-> "dq"]
      [] s.st = "kclosed" /\ s.dash -> base @@ [kind |-> "item", style |-> "dq"]
      [] s.st = "plain" /\ PlainKind(s.val) # "bad" -> base @@ [kind |-> "kv", style |-> PlainKind(s.val)]
      [] OTHER -> base @@ [kind |-> "bad", style |-> "none"]
Scan(line) == LineOf(FoldLeft(LStep, L0, line))

---------------------------------------------------------------------------
(* scalar-only scanners used for the PyYAML cross-check: text is the complete scalar including its quotes *)
ScanValue(text) == Scan(<<107, COLON, SP>> \o text)         \* "k: " + text
SqOK(text) == LET r == ScanValue(text) IN r.kind = "kv" /\ r.style = "sq"
DqOK(text) == LET r == ScanValue(text) IN r.kind = "kv" /\ r.style = "dq"
PlainOK(text) == LET r == ScanValue(text) IN r.kind = "kv" /\ r.style \in {"null", "map", "seq", "num", "word"}
Unquote(text) == ScanValue(text).val

---------------------------------------------------------------------------
(* block structure: stack of open collections.  Virtual columns: a key at indent c sits at 2c, a "- " at indent d at 2d+1 *)
Frame(col, key, item, n, hasVal) == [col |-> col, key |-> key, item |-> item, n |-> n, hasVal |-> hasVal, cc |-> -1]
D0 == [stack |-> <<Frame(-1, <<>>, FALSE, 0, FALSE)>>, out |-> <<>>, ok |-> TRUE, bad |-> 0, ln |-> 0]
PathOf(stack) == [i \in 1..(Len(stack) - 1) |-> [k |-> stack[i + 1].key, n |-> IF stack[i + 1].item THEN stack[i + 1].n ELSE 0]]
Keep(stack, col) == SelectSeq(stack, LAMBDA f : f.col < col)
(* register a child at virtual column x under the top frame; returns the updated stack or <<>> if the indentation is inconsistent *)
Adopt(stack, x) ==
    LET top == stack[Len(stack)] IN
    IF top.hasVal \/ (top.cc # -1 /\ top.cc # x) THEN <<>>
    ELSE [stack EXCEPT ![Len(stack)].cc = x]
DStep(d, l) ==
    LET fail == [d EXCEPT !.ok = FALSE, !.bad = IF d.bad = 0 THEN d.ln + 1 ELSE d.bad, !.ln = @ + 1]
        next(st, out) == [d EXCEPT !.stack = st, !.out = out, !.ln = @ + 1] IN
    IF l.kind = "bad" THEN fail
    ELSE IF l.kind = "blank" THEN [d EXCEPT !.ln = @ + 1]
    ELSE IF l.dash THEN
        LET kept == Keep(d.stack, 2 * l.ind + 1)
            par == kept[Len(kept)]
            ad == Adopt(kept, 2 * l.ind + 1) IN
        IF par.item \/ ad = <<>> THEN fail
        ELSE LET ad2 == [ad EXCEPT ![Len(ad)].n = @ + 1]
                 itemF == Frame(2 * l.ind + 1, <<>>, TRUE, par.n + 1, FALSE) IN
             IF l.kind = "item"
             THEN next(ad2, Append(d.out, [path |-> PathOf(Append(ad2, itemF)), val |-> l.val, style |-> l.style]))
             ELSE LET withItem == Append(ad2, [itemF EXCEPT !.cc = 2 * (l.ind + 2)])
                      st2 == Append(withItem, Frame(2 * (l.ind + 2), l.key, FALSE, 0, l.kind = "kv")) IN
                  next(st2, IF l.kind = "kv" THEN Append(d.out, [path |-> PathOf(st2), val |-> l.val, style |-> l.style]) ELSE d.out)
    ELSE
        LET kept == Keep(d.stack, 2 * l.ind)
            ad == Adopt(kept, 2 * l.ind) IN
        IF ad = <<>> THEN fail
        ELSE LET st2 == Append(ad, Frame(2 * l.ind, l.key, FALSE, 0, l.kind = "kv")) IN
             next(st2, IF l.kind = "kv" THEN Append(d.out, [path |-> PathOf(st2), val |-> l.val, style |-> l.style]) ELSE d.out)

(* lines : sequence of code-point sequences (the file split on LF) *)
Flatten(lines) == FoldLeft(LAMBDA d, ln : DStep(d, Scan(ln)), D0, lines)
P(k) == [k |-> k, n |-> 0]
Item(n) == [k |-> <<>>, n |-> n]
Values(flat, path) == SelectSeq(flat.out, LAMBDA e : e.path = path)
Has(flat, path) == Values(flat, path) # <<>>
Val(flat, path) == Values(flat, path)[1].val
Style(flat, path) == Values(flat, path)[1].style
(* number of direct children of path that were emitted with a value (keys or items) *)
Under(flat, path) == SelectSeq(flat.out, LAMBDA e : IsPrefix(path, e.path))

---------------------------------------------------------------------------
(* base64 (RFC 4648) decoder as a fold: state = bit accumulator *)
B64Val(c) == IF c >= 65 /\ c <= 90 THEN c - 65
             ELSE IF c >= 97 /\ c <= 122 THEN c - 71
             ELSE IF IsDigit(c) THEN c + 4
             ELSE IF c = 43 THEN 62 ELSE IF c = 47 THEN 63 ELSE -1
B0 == [acc |-> 0, bits |-> 0, out |-> <<>>, pad |-> 0, ok |-> TRUE]
BStep(b, c) ==
    IF c = 61 THEN [b EXCEPT !.pad = @ + 1]
    ELSE IF B64Val(c) < 0 \/ b.pad > 0 THEN [b EXCEPT !.ok = FALSE]
    ELSE LET acc == b.acc * 64 + B64Val(c)
             bits == b.bits + 6 IN
         IF bits >= 8
         THEN [b EXCEPT !.out = Append(@, acc \div (2 ^ (bits - 8))), !.acc = acc % (2 ^ (bits - 8)), !.bits = bits - 8]
         ELSE [b EXCEPT !.acc = acc, !.bits = bits]
B64(text) == LET b == FoldLeft(BStep, B0, text) IN
             [ok |-> b.ok /\ (Len(text) % 4 = 0) /\ b.pad <= 2 /\ b.acc = 0, bytes |-> b.out]

---------------------------------------------------------------------------
(* UTF-8 decoding of a byte sequence to code points, as a fold; invalid input => ok = FALSE *)
U0 == [need |-> 0, cp |-> 0, min |-> 0, out |-> <<>>, ok |-> TRUE]
UStep(u, b) ==
    IF u.need = 0 THEN
        IF b < 128 THEN [u EXCEPT !.out = Append(@, b)]
        ELSE IF b >= 194 /\ b <= 223 THEN [u EXCEPT !.need = 1, !.cp = b - 192, !.min = 128]
        ELSE IF b >= 224 /\ b <= 239 THEN [u EXCEPT !.need = 2, !.cp = b - 224, !.min = 2048]
        ELSE IF b >= 240 /\ b <= 244 THEN [u EXCEPT !.need = 3, !.cp = b - 240, !.min = 65536]
        ELSE [u EXCEPT !.ok = FALSE]
    ELSE IF b < 128 \/ b > 191 THEN [u EXCEPT !.ok = FALSE, !.need = 0]
    ELSE LET cp == u.cp * 64 + (b - 128) IN
         IF u.need = 1
         THEN IF cp < u.min \/ (cp >= 55296 /\ cp <= 57343) \/ cp > 1114111
              THEN [u EXCEPT !.ok = FALSE, !.need = 0]
              ELSE [u EXCEPT !.need = 0, !.out = Append(@, cp)]
         ELSE [u EXCEPT !.need = @ - 1, !.cp = cp]
Utf8(bytes) == LET u == FoldLeft(UStep, U0, bytes) IN [ok |-> u.ok /\ u.need = 0, text |-> u.out]

---------------------------------------------------------------------------
(* keys of the cassette format *)
K_http_interactions == <<104, 116, 116, 112, 95, 105, 110, 116, 101, 114, 97, 99, 116, 105, 111, 110, 115>>
K_command == <<99, 111, 109, 109, 97, 110, 100>>
K_id == <<105, 100>>
K_status == <<115, 116, 97, 116, 117, 115>>
K_phase == <<112, 104, 97, 115, 101>>
K_name == <<110, 97, 109, 101>>
K_data == <<100, 97, 116, 97>>
K_description == <<100, 101, 115, 99, 114, 105, 112, 116, 105, 111, 110>>
K_parameter == <<112, 97, 114, 97, 109, 101, 116, 101, 114>>
K_checks == <<99, 104, 101, 99, 107, 115>>
K_message == <<109, 101, 115, 115, 97, 103, 101>>
K_request == <<114, 101, 113, 117, 101, 115, 116>>
K_uri == <<117, 114, 105>>
K_method == <<109, 101, 116, 104, 111, 100>>
K_headers == <<104, 101, 97, 100, 101, 114, 115>>
K_body == <<98, 111, 100, 121>>
K_string == <<115, 116, 114, 105, 110, 103>>
K_base64_string == <<98, 97, 115, 101, 54, 52, 95, 115, 116, 114, 105, 110, 103>>
K_response == <<114, 101, 115, 112, 111, 110, 115, 101>>
K_code == <<99, 111, 100, 101>>

Entry(n) == <<P(K_http_interactions), Item(n)>>
NEntries(flat) == Cardinality({flat.out[j].path[2].n : j \in {i \in 1..Len(flat.out) :
                                   Len(flat.out[i].path) >= 2 /\ flat.out[i].path[1] = P(K_http_interactions)}})
K_SUCCESS == <<83, 85, 67, 67, 69, 83, 83>>
K_FAILURE == <<70, 65, 73, 76, 85, 82, 69>>
K_ERROR == <<69, 82, 82, 79, 82>>
K_SKIP == <<83, 75, 73, 80>>
(* status of a cassette entry: no response = ERROR, nothing checked = SKIP, some check failed = FAILURE, else SUCCESS *)
ExpStatus(x) == IF ~x.hasResp THEN K_ERROR
                ELSE IF x.checks = <<>> THEN K_SKIP
                ELSE IF \E j \in 1..Len(x.checks) : x.checks[j].status = K_FAILURE THEN K_FAILURE
                ELSE K_SUCCESS

(***************************************************************************)
(* Faithfulness of entry n against the delivered exchange x (projected by  *)
(* the driver from the real PreparedRequest / Response objects it built):  *)
(*  x.method, x.uri : code points; x.reqHeaders, x.respHeaders : sequences *)
(*  of [name, value]; x.hasReqBody, x.reqBody (bytes); x.hasResp, x.code   *)
(*  (digits as code points), x.respBody (bytes); x.checks : sequence of    *)
(*  [name, status, hasMsg, msg]; x.status; x.id.  Returns the set of field *)
(*  names that are missing or differ ({} = faithful).                       *)
(***************************************************************************)
HeaderDiffs(flat, base, hs, tag) ==
    {tag : i \in {j \in 1..Len(hs) :
        LET p == base \o <<P(K_headers), P(hs[j].name), Item(1)>> IN
        ~(Len(Values(flat, p)) = 1 /\ Val(flat, p) = hs[j].value)}}
    \cup (IF Len(Under(flat, base \o <<P(K_headers)>>)) # Len(hs) THEN {tag} ELSE {})
K_encoding == <<101, 110, 99, 111, 100, 105, 110, 103>>
LowerA(t) == [j \in 1..Len(t) |-> IF t[j] >= 65 /\ t[j] <= 90 THEN t[j] + 32 ELSE t[j]]
Utf8Names == {<<117, 116, 102, 45, 56>>, <<117, 116, 102, 56>>}
Latin1Names == {<<105, 115, 111, 45, 56, 56, 53, 57, 45, 49>>, <<108, 97, 116, 105, 110, 45, 49>>, <<108, 97, 116, 105, 110, 49>>}
(* text a body stands for under the character encoding the cassette declares next to it: UTF-8, ISO-8859-1 (every byte is its own
   code point); any other declared encoding is outside the judged fragment *)
BodyDiffs(flat, base, has, bytes, preserve, tag) ==
    LET ps == base \o <<P(K_body), P(K_string)>>
        pb == base \o <<P(K_body), P(K_base64_string)>>
        pe == base \o <<P(K_body), P(K_encoding)>> IN
    IF ~has \/ (bytes = <<>> /\ ~Has(flat, ps) /\ ~Has(flat, pb))
    THEN (IF (Has(flat, ps) /\ Val(flat, ps) # <<>>) \/ (Has(flat, pb) /\ Val(flat, pb) # <<>>) THEN {tag} ELSE {})
    ELSE IF preserve
    THEN (IF Len(Values(flat, pb)) = 1 /\ B64(Val(flat, pb)).ok /\ B64(Val(flat, pb)).bytes = bytes THEN {} ELSE {tag})
    ELSE IF Len(Values(flat, pe)) # 1 \/ Len(Values(flat, ps)) # 1 THEN {tag}
    ELSE IF LowerA(Val(flat, pe)) \in Latin1Names THEN (IF Val(flat, ps) = bytes THEN {} ELSE {tag})
    ELSE IF LowerA(Val(flat, pe)) \in Utf8Names
    THEN (IF ~Utf8(bytes).ok THEN {}                      \* lossy by definition without preserve-bytes: not judged
          ELSE IF Val(flat, ps) = Utf8(bytes).text THEN {} ELSE {tag})
    ELSE {}
NChecks(flat, e) == Len(SelectSeq(flat.out, LAMBDA o : IsPrefix(e \o <<P(K_checks)>>, o.path) /\ Len(o.path) = Len(e) + 3
                                                        /\ o.path[Len(e) + 3] = P(K_name)))
CheckAt(flat, e, k, c) ==
    LET b == e \o <<P(K_checks), Item(k)>>
        p == b \o <<P(K_message)>> IN
    /\ Len(Values(flat, b \o <<P(K_name)>>)) = 1 /\ Val(flat, b \o <<P(K_name)>>) = c.name
    /\ Len(Values(flat, b \o <<P(K_status)>>)) = 1 /\ Val(flat, b \o <<P(K_status)>>) = c.status
    /\ Len(Values(flat, p)) = 1
    /\ IF c.hasMsg THEN Style(flat, p) \in {"sq", "dq"} /\ Val(flat, p) = c.msg ELSE Style(flat, p) = "null"
(* exact = cs are ALL check results of the exchange, in order; otherwise every expected result must be among the recorded ones
   (a CLI run adds checks of its own) *)
CheckDiffs(flat, e, cs, exact) ==
    IF exact
    THEN {"checks" : j \in {j \in 1..Len(cs) : ~CheckAt(flat, e, j, cs[j])}}
         \cup (IF NChecks(flat, e) # Len(cs) THEN {"checks"} ELSE {})
    ELSE {"checks" : j \in {j \in 1..Len(cs) : ~\E k \in 1..NChecks(flat, e) : CheckAt(flat, e, k, cs[j])}}
(* the fragment of a URL is never transmitted: a recorded URI may carry one in addition to what was sent *)
StripFragment(t) == IF \E j \in 1..Len(t) : t[j] = HASH
                    THEN SubSeq(t, 1, (CHOOSE j \in 1..Len(t) : t[j] = HASH /\ \A m \in 1..(j - 1) : t[m] # HASH) - 1)
                    ELSE t
UriMatches(recorded, sent) == recorded = sent \/ StripFragment(recorded) = sent
EntryDiffs(flat, n, x, preserve) ==
    LET e == Entry(n)
        rq == e \o <<P(K_request)>>
        rs == e \o <<P(K_response)>>
        one(p, v, tag) == IF Len(Values(flat, p)) = 1 /\ Val(flat, p) = v THEN {} ELSE {tag} IN
    one(e \o <<P(K_id)>>, x.id, "id")
    \cup one(e \o <<P(K_status)>>, ExpStatus(x), "status")
    \cup (IF Len(Values(flat, rq \o <<P(K_uri)>>)) = 1 /\ UriMatches(Val(flat, rq \o <<P(K_uri)>>), x.uri) THEN {} ELSE {"uri"})
    \cup one(rq \o <<P(K_method)>>, x.method, "method")
    \cup HeaderDiffs(flat, rq, x.reqHeaders, "request-header")
    \cup BodyDiffs(flat, rq, x.hasReqBody, x.reqBody, preserve, "request-body")
    \cup CheckDiffs(flat, e, x.checks, x.checksExact)
    \cup (IF x.hasResp
          THEN one(rs \o <<P(K_status), P(K_code)>>, x.code, "status-code")
               \cup one(rs \o <<P(K_status), P(K_message)>>, x.reason, "reason")
               \cup HeaderDiffs(flat, rs, x.respHeaders, "response-header")
               \cup BodyDiffs(flat, rs, TRUE, x.respBody, preserve, "response-body")
          ELSE (IF Len(Values(flat, rs)) = 1 /\ Style(flat, rs) = "null" THEN {} ELSE {"response"}))
    \cup (IF x.covDesc.has
          THEN one(e \o <<P(K_phase), P(K_data), P(K_description)>>, x.covDesc.v, "coverage-description")
               \cup {"coverage-data" : j \in {j \in 1..Len(x.covExtra) :
                        LET p == e \o <<P(K_phase), P(K_data), P(x.covExtra[j].key)>> IN
                        ~(Len(Values(flat, p)) = 1 /\ IF x.covExtra[j].has THEN Style(flat, p) = "dq" /\ Val(flat, p) = x.covExtra[j].v
                                                                            ELSE Style(flat, p) = "null")}}
          ELSE {})

---------------------------------------------------------------------------
(* case metadata block: absent for a case without metadata, otherwise phase.name names the generator *)
K_generation == <<103, 101, 110, 101, 114, 97, 116, 105, 111, 110>>
K_mode == <<109, 111, 100, 101>>
W_coverage == <<99, 111, 118, 101, 114, 97, 103, 101>>
W_generate == <<103, 101, 110, 101, 114, 97, 116, 101>>
MetaDiffs(flat, n, meta) ==
    LET e == Entry(n)
        pn == e \o <<P(K_phase), P(K_name)>>
        pg == e \o <<P(K_generation), P(K_mode)>> IN
    IF meta = "none" THEN (IF Has(flat, pn) \/ Has(flat, pg) THEN {"metadata"} ELSE {})
    ELSE IF Len(Values(flat, pn)) = 1 /\ Val(flat, pn) = (IF meta = "coverage" THEN W_coverage ELSE W_generate)
            /\ Len(Values(flat, pg)) = 1
         THEN {} ELSE {"metadata"}

(***************************************************************************)
(* HAR entry h (projected from the parsed JSON by the driver: method, url, *)
(* reqHeaders, hasPost, postText, status, reason, respHeaders, hasText,    *)
(* text, b64) against the delivered exchange x.                            *)
(***************************************************************************)
SeqToSet(q) == {q[i] : i \in 1..Len(q)}
HarBody(hasField, text, b64, has, bytes, preserve, tag) ==
    IF ~has \/ (bytes = <<>> /\ ~hasField) THEN (IF hasField /\ text # <<>> THEN {tag} ELSE {})
    ELSE IF ~hasField THEN {tag}
    ELSE IF preserve THEN (IF B64(text).ok /\ B64(text).bytes = bytes THEN {} ELSE {tag})
    ELSE IF ~Utf8(bytes).ok THEN {}
    ELSE IF text = Utf8(bytes).text /\ ~b64 THEN {} ELSE {tag}
HarDiffs(h, x, preserve) ==
    (IF h.method = x.method THEN {} ELSE {"method"})
    \cup (IF UriMatches(h.url, x.uri) THEN {} ELSE {"uri"})
    \cup (IF SeqToSet(h.reqHeaders) = SeqToSet(x.reqHeaders) /\ Len(h.reqHeaders) = Len(x.reqHeaders) THEN {} ELSE {"request-header"})
    \cup HarBody(h.hasPost, h.postText, preserve, x.hasReqBody, x.reqBody, preserve, "request-body")
    \cup (IF x.hasResp
          THEN (IF h.status = x.codeInt THEN {} ELSE {"status-code"})
               \cup (IF h.reason = x.reason THEN {} ELSE {"reason"})
               \cup (IF SeqToSet(h.respHeaders) = SeqToSet(x.respHeaders) /\ Len(h.respHeaders) = Len(x.respHeaders) THEN {} ELSE {"response-header"})
               \cup HarBody(h.hasText, h.text, h.b64, TRUE, x.respBody, preserve, "response-body")
          ELSE (IF h.status = 0 /\ h.respHeaders = <<>> /\ ~h.hasText THEN {} ELSE {"response"}))

---------------------------------------------------------------------------
(* the bounded string family: every string over Alphabet up to MaxLen, built by appending (state count = family size) *)
CONSTANTS MaxLen
(* 133 = NEL (a C1 control that YAML treats as a line break) and 156 = a C1 control outside c-printable: both are legal latin-1
   octets of a header value on the wire, and neither may appear raw in a one-line scalar *)
Alphabet == {97, SQ, DQ, BSL, COLON, HASH, 10, 0, 1, 8232, 233, 55296, SP, DASH, 123, 91, 128512, 133, 156}
VARIABLE str
YInit == str = <<>>
YNext == Len(str) < MaxLen /\ \E c \in Alphabet : str' = Append(str, c)
YSpec == YInit /\ [][YNext]_str

(* design-level facts about the grammar itself, checked on every enumerated string *)
SqQuote(s) == <<SQ>> \o FoldLeft(LAMBDA a, c : IF c = SQ THEN a \o <<SQ, SQ>> ELSE Append(a, c), <<>>, s) \o <<SQ>>
Hex8(c) == LET h(d) == IF d < 10 THEN 48 + d ELSE 55 + d IN
           <<BSL, 85, 48, 48, h(c \div 1048576), h((c \div 65536) % 16), h((c \div 4096) % 16), h((c \div 256) % 16), h((c \div 16) % 16), h(c % 16)>>
DqQuote(s) == <<DQ>> \o FoldLeft(LAMBDA a, c : IF c \in {DQ, BSL} THEN a \o <<BSL, c>>
                                                ELSE IF Inline(c) THEN Append(a, c) ELSE a \o Hex8(c), <<>>, s) \o <<DQ>>
AllInline(s) == \A i \in 1..Len(s) : Inline(s[i])
(* raw text a single-quoted scalar can carry: inline characters, U+2028/9 not touching white space *)
SqCarriable(s) == \A i \in 1..Len(s) : \/ Inline(s[i])
                                        \/ (IsLS(s[i]) /\ (i = 1 \/ ~IsWs(s[i - 1])) /\ (i = Len(s) \/ ~IsWs(s[i + 1])))
(* every string has a double-quoted form the scanner reads back exactly; a single-quoted form exists iff it is inline-printable *)
DqRoundTrip == DqOK(DqQuote(str)) /\ Unquote(DqQuote(str)) = str
SqRoundTrip == SqCarriable(str) => (SqOK(SqQuote(str)) /\ Unquote(SqQuote(str)) = str)
SqRejectsRaw == ~SqCarriable(str) => ~SqOK(SqQuote(str))
(* export: the string, and for the PyYAML cross-check the verdicts on the RAW text used as 'str', "str" and str *)
Export == PrintT(<<"STR", ToJson([s |-> str,
                                   sqOk |-> SqOK(<<SQ>> \o str \o <<SQ>>), sqVal |-> Unquote(<<SQ>> \o str \o <<SQ>>),
                                   dqOk |-> DqOK(<<DQ>> \o str \o <<DQ>>), dqVal |-> Unquote(<<DQ>> \o str \o <<DQ>>),
                                   plOk |-> PlainOK(str)])>>)
=============================================================================
