SPECIFICATION Spec
CONSTANT Family = "c03h"
CONSTANT Rich = TRUE
INVARIANT TypeOK
INVARIANT InFragment
INVARIANT NumericSat
INVARIANT OutcomeSanity
INVARIANT Export
CHECK_DEADLOCK FALSE
