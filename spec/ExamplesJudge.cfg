SPECIFICATION JSpec
CONSTANT Thorough = FALSE
INVARIANT Sanity
INVARIANT Report
CHECK_DEADLOCK FALSE
