SPECIFICATION Spec
CONSTANT MaxGiven = 2
CONSTANT Combo = "all"
INVARIANT TypeOK
INVARIANT Total
INVARIANT GivenReaches
INVARIANT DefaultsKept
INVARIANT Independent
INVARIANT InvalidRefused
INVARIANT RejectMonotone
INVARIANT UndecidedSticks
INVARIANT HypConsistent
INVARIANT Export
CHECK_DEADLOCK FALSE
