SPECIFICATION Spec
CONSTANT MaxReg = 3
CONSTANT MaxUnreg = 1
CONSTANT MaxLen = 3
CONSTANT MaxGen = 0
CONSTANT Negative = FALSE
CONSTANT Narrow = FALSE
CONSTANT Rich = FALSE
INVARIANT TypeOK
INVARIANT ScopePartition
INVARIANT OracleAgrees
INVARIANT UnfilteredEverywhere
INVARIANT Independent
INVARIANT GenerationsAreInert
INVARIANT Export
CHECK_DEADLOCK FALSE
