--------------------------- MODULE OasSchemaEval ---------------------------
(* Evaluates the OasSchema oracle on a JSON file of cases (used by harness/oas_selftest.py, the differential self-test   *)
(* of the oracle; not a property check).  Case = [defs, schema, value, dir, dia, mode : "valid" | "coerced", expect].   *)
(* Prints <<"R", i, verdict>> for every case whose verdict differs from `expect` ("T"/"F"/"U"; "-" = just report).     *)
EXTENDS OasSchema, Json, IOUtils
Obs == JsonDeserialize(IOEnv.OBS_FILE)
VARIABLE i
EInit == i \in 1..Len(Obs)
ENext == UNCHANGED i
ESpec == EInit /\ [][ENext]_i
Verdict(c) == IF c.mode = "coerced" THEN CoercedC(c.defs, c.value, c.schema, [dir |-> c.dir, dia |-> c.dia])
              ELSE ValidD(c.defs, c.schema, c.value, c.dir, c.dia)
Report == LET r == Verdict(Obs[i]) IN IF r = Obs[i].expect THEN TRUE ELSE PrintT(<<"R", i, r>>)
=============================================================================
