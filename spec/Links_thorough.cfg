SPECIFICATION Spec
CONSTANT PtrLen = 3
CONSTANT Rich = TRUE
INVARIANT TypeOK
INVARIANT DefaultIsTheRest
INVARIANT ExplicitIgnoresOthers
INVARIANT EmbeddedIsText
INVARIANT ConstantIsItself
INVARIANT NeverSendsNothing
INVARIANT PointerLaws
INVARIANT FalsyIsAValue
INVARIANT TreeAllOrNothing
INVARIANT Export
CHECK_DEADLOCK FALSE
