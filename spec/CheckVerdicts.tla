--------------------------- MODULE CheckVerdicts ---------------------------
(***************************************************************************)
(* X01 - which response checks run, and what they conclude.                *)
(*                                                                         *)
(* The statement (from the option help texts of `st run`, docs/using/cli.md,*)
(* docs/reference/cli.md, docs/python.rst, the check docstrings, CHANGELOG  *)
(* entries that introduce / change the checks, and RFC 9110 - never from    *)
(* the branches of checks.py or cli/commands/run/checks.py):                *)
(*                                                                         *)
(* (a) a check is executed on a response iff it is selected (named in       *)
(*     `--checks/-c`, or `all` is given there) and not excluded             *)
(*     (`--exclude-checks`, whose documented values include `all`);         *)
(*     exclusion wins.  `--experimental=positive-data-acceptance` selects   *)
(*     positive_data_acceptance.  `max_response_time` runs iff              *)
(*     `--max-response-time` is given; `missing_required_header` runs when  *)
(*     its allowed statuses are given.  The three `...-allowed-statuses`    *)
(*     options set the allowed statuses of their check (status codes or     *)
(*     wildcards 2XX / 2X0 / 20X, X any digit, either case).                *)
(* (b) not_a_server_error fails iff the status is 5xx; max_response_time    *)
(*     fails iff elapsed > limit.                                           *)
(* (c) negative_data_rejection fails iff the case is labelled negative and  *)
(*     the status is not allowed (default 400, 401, 403, 404, 406, 422,     *)
(*     428; a 5xx is not an acceptance), except that a negation consisting  *)
(*     only of additional query / header / cookie parameters is never a     *)
(*     failure (CHANGELOG 3.34.0); never for positive cases.                *)
(* (d) positive_data_acceptance fails iff the case is labelled positive and *)
(*     the status is not allowed (documented default: 2xx); never for       *)
(*     negative cases.                                                      *)
(* (e) missing_required_header applies to coverage cases "required header   *)
(*     removed": fails iff the status is not allowed (`Authorization`:      *)
(*     exactly 401, CHANGELOG 3.39.5).  unsupported_method applies to       *)
(*     coverage cases "HTTP method not in the document": RFC 9110 15.5.6 -  *)
(*     405 with an Allow field passes, 405 without Allow fails, a 2xx       *)
(*     fails; OPTIONS answered 200 passes (CHANGELOG 4.0.0a5).              *)
(* (f) ignored_auth: an operation with an active security requirement fails *)
(*     iff the API answers 2xx to a request without credentials, or with    *)
(*     made-up credentials; with the user's own credentials and a 2xx, the  *)
(*     same request is probed without and with wrong credentials and each   *)
(*     probe must be answered 401 ("401 exactly", CHANGELOG 3.39.0).        *)
(*                                                                         *)
(* Every other situation is "U" (not decided by the documentation): it is   *)
(* exported, counted as skipped_outside_fragment and never judged.          *)
(*                                                                         *)
(* State: sel (the command line: selection + per-check configuration),      *)
(* kase (descriptor of a test case: metadata, phase, mode, what the         *)
(* coverage phase did, which part was negated, security of the operation    *)
(* and where the credentials of the request come from), resp (status,       *)
(* Allow, elapsed ms, how the API answers a request by its credentials).    *)
(* Actions: Generate (a case arrives), Respond (the API answers).           *)
(***************************************************************************)
EXTENDS Integers, Sequences, FiniteSets, TLC, Json

CONSTANT Thorough            \* BOOLEAN: size of the enumerated family

(* ------------------------------------------------------------------ names *)
NASE == "not_a_server_error"
MRT == "max_response_time"
NDR == "negative_data_rejection"
PDA == "positive_data_acceptance"
MRH == "missing_required_header"
UM == "unsupported_method"
IA == "ignored_auth"
SCC == "status_code_conformance"
(* documented "Possible values" of --checks / --exclude-checks, without `all` *)
Registered == {NASE, SCC, "content_type_conformance", "response_headers_conformance", "response_schema_conformance",
               NDR, PDA, "use_after_free", "ensure_resource_availability", IA}
Extras == {MRT, MRH, UM}                     \* not selectable by name
Names == Registered \cup Extras               \* the run set is judged for all of these
Judged == {NASE, MRT, NDR, PDA, MRH, UM, IA}  \* verdicts are judged for these
Range(s) == {s[i] : i \in DOMAIN s}

(* ------------------------------------------------------------------ statuses and wildcards *)
X == -1                                       \* wildcard digit
Pat(a, b, c) == <<a, b, c>>
Digit(st, i) == CASE i = 1 -> st \div 100 [] i = 2 -> (st \div 10) % 10 [] OTHER -> st % 10
Match(p, st) == \A i \in 1..3 : p[i] = X \/ p[i] = Digit(st, i)
Allowed(ps, st) == \E i \in DOMAIN ps : Match(ps[i], st)
Is2xx(st) == st >= 200 /\ st < 300
Is5xx(st) == st >= 500 /\ st < 600

NdrDefault == <<Pat(4, 0, 0), Pat(4, 0, 1), Pat(4, 0, 3), Pat(4, 0, 4), Pat(4, 0, 6), Pat(4, 2, 2), Pat(4, 2, 8)>>
PdaDefault == <<Pat(2, X, X)>>
PdaDefaultUndocumented == <<Pat(4, 0, 1), Pat(4, 0, 3), Pat(4, 0, 4)>>   \* tolerated by the code's default, not by any document
Given(ps) == ps # <<>>

(* ------------------------------------------------------------------ (a) the selection algebra *)
Selected(sel, c) ==          \* "Y" / "N" / "U"
  IF c \in Registered
  THEN IF c = PDA /\ sel.pdaExp THEN "Y"
       ELSE IF sel.checks = <<>>
            (* option help: [default: not_a_server_error]; docs/reference/cli.md: "Default: All checks enabled" *)
            THEN IF c = NASE THEN "Y" ELSE "U"
            ELSE IF "all" \in Range(sel.checks) \/ c \in Range(sel.checks) THEN "Y" ELSE "N"
  ELSE IF c = MRT THEN IF sel.mrt > 0 THEN "Y" ELSE "N"
  ELSE IF c = MRH THEN IF Given(sel.mrhSt) THEN "Y" ELSE "U"
  ELSE "U"                                    \* unsupported_method: experimental, nothing says when it runs
Excluded(sel, c) ==
  IF c \in Range(sel.exclude) THEN "Y"
  ELSE IF "all" \in Range(sel.exclude) THEN IF c \in Registered THEN "Y" ELSE "U"
  ELSE "N"
Run(sel, c) ==
  LET s == Selected(sel, c) e == Excluded(sel, c)
  IN IF e = "Y" \/ s = "N" THEN "N" ELSE IF e = "U" \/ s = "U" THEN "U" ELSE "Y"

(* effective configuration: <<>> = the check's default *)
NdrAllowed(sel) == IF Given(sel.ndrSt) THEN sel.ndrSt ELSE NdrDefault
PdaAllowed(sel) == IF Given(sel.pdaSt) THEN sel.pdaSt ELSE PdaDefault
ConfigOf(sel) == [negative_data_rejection |-> sel.ndrSt, positive_data_acceptance |-> sel.pdaSt,
                  missing_required_header |-> sel.mrhSt, max_response_time |-> sel.mrt]

(* ------------------------------------------------------------------ (b)-(f) verdicts, given that the check runs *)
Labelled(k) == k.meta = "gen"
Negative(k) == Labelled(k) /\ k.mode = "negative"
Positive(k) == Labelled(k) /\ k.mode = "positive"
ExtraOnly(k) == k.neg \in {"query-extra", "header-extra"}       \* the negation is nothing but additional parameters
MethodCase(k) == Labelled(k) /\ k.phase = "coverage" /\ k.cov = "method"
MissingHeaderCase(k) == Labelled(k) /\ k.phase = "coverage" /\ k.cov \in {"missing-header", "missing-auth"}

VNase(r) == IF Is5xx(r.status) THEN "F" ELSE "P"
VMrt(sel, r) == IF sel.mrt = 0 THEN "U" ELSE IF r.elapsed > sel.mrt THEN "F" ELSE "P"
VNdr(sel, k, r) ==
  IF ~Labelled(k) \/ Positive(k) THEN "P"
  ELSE IF MethodCase(k) THEN "U"                                  \* a method is not "data": undocumented
  ELSE IF Allowed(NdrAllowed(sel), r.status) THEN "P"
  ELSE IF ~Given(sel.ndrSt) /\ Is5xx(r.status) THEN "P"           \* a server error is not an acceptance
  ELSE IF ExtraOnly(k) THEN "P"
  ELSE "F"
VPda(sel, k, r) ==
  IF ~Labelled(k) \/ Negative(k) THEN "P"
  ELSE IF Allowed(PdaAllowed(sel), r.status) THEN "P"
  ELSE IF ~Given(sel.pdaSt) /\ Allowed(PdaDefaultUndocumented, r.status) THEN "U"
  ELSE "F"
VMrh(sel, k, r) ==
  IF ~MissingHeaderCase(k) THEN "P"
  ELSE IF k.cov = "missing-auth" THEN IF r.status = 401 THEN "P" ELSE "F"
  ELSE IF ~Given(sel.mrhSt) THEN "U"
  ELSE IF Allowed(sel.mrhSt, r.status) THEN "P" ELSE "F"
VUm(k, r) ==
  IF ~MethodCase(k) THEN "P"
  ELSE IF r.status = 405 THEN IF r.allow THEN "P" ELSE IF k.method = "OPTIONS" THEN "U" ELSE "F"
  ELSE IF k.method = "OPTIONS" THEN IF r.status = 200 THEN "P" ELSE "U"
  ELSE IF Is2xx(r.status) THEN "F" ELSE "U"
(* credentials on the wire of the original request, by their source *)
WireState(k) == CASE k.src = "absent" -> "none" [] k.src = "generated" -> "wrong" [] OTHER -> "valid"
Requires(k) == k.sec # "none" /\ k.decl # "cleared"
ProbeClass(st) == IF Is2xx(st) THEN "F" ELSE IF st = 401 THEN "ok" ELSE IF st = 403 \/ st >= 500 THEN "U" ELSE "F"
VIa(k, r) ==
  IF ~Requires(k) THEN "P"
  ELSE IF MethodCase(k) THEN "U"
  ELSE IF ~Is2xx(r.status) THEN IF r.status \in {401, 403} THEN "P" ELSE "U"
  ELSE IF k.src \in {"absent", "generated"} THEN "F"
  ELSE LET n == ProbeClass(r.api.none) w == ProbeClass(r.api.wrong)
       IN IF n = "F" \/ w = "F" THEN "F" ELSE IF n = "U" \/ w = "U" THEN "U" ELSE "P"
Verdict(sel, k, r, c) ==
  CASE c = NASE -> VNase(r) [] c = MRT -> VMrt(sel, r) [] c = NDR -> VNdr(sel, k, r) [] c = PDA -> VPda(sel, k, r)
    [] c = MRH -> VMrh(sel, k, r) [] c = UM -> VUm(k, r) [] c = IA -> VIa(k, r) [] OTHER -> "U"

Expected(sel, k, r) == [c \in Names |-> [run |-> Run(sel, c), v |-> Verdict(sel, k, r, c)]]
ExpectedRun(sel) == [c \in Names |-> Run(sel, c)]
(* one letter per check: Fail / Pass / Not run / Undecided *)
Letter(e) == IF e.run = "N" THEN "N" ELSE IF e.run = "U" \/ e.v = "U" THEN "U" ELSE e.v
Letters(exp) == [c \in Names |-> Letter(exp[c])]

(* judging an observation o[c] in {"N" not executed, "P" executed without a failure, "F" failure, "E" the check crashed,       *)
(* "X" not reached because an earlier check crashed}: the kinds of disagreement                                                 *)
Disagreement(e, o) ==
  IF o = "X" THEN "-"
  ELSE IF o = "E" THEN "crash"
  ELSE IF e.run = "N" THEN IF o = "N" THEN "-" ELSE "ran-unselected"
  ELSE IF o = "N" THEN IF e.run = "Y" THEN "not-run" ELSE "-"
  ELSE IF e.v = "U" \/ o = e.v THEN "-"
  ELSE IF e.v = "F" THEN "miss" ELSE "false-alarm"
(* configuration handed to the engine: observed entry (patterns / limit) against the command line *)
ConfigDisagrees(sel, c, got) == got # ConfigOf(sel)[c]

(* features a finding signature is built from *)
StatusClass(st) == IF Is2xx(st) THEN "2xx" ELSE IF st < 400 THEN "3xx" ELSE IF st \in {401, 403, 404, 405, 406} THEN ToString(st)
                   ELSE IF st < 500 THEN "4xx" ELSE "5xx"
SelClass(sel) == [checks |-> IF sel.checks = <<>> THEN "default" ELSE IF "all" \in Range(sel.checks) THEN "all" ELSE "named",
                  exclude |-> IF sel.exclude = <<>> THEN "none" ELSE IF "all" \in Range(sel.exclude) THEN "all" ELSE "named",
                  pdaExp |-> sel.pdaExp]
Features(sel, k, r) == [sel |-> SelClass(sel), status |-> StatusClass(r.status),
                        elapsed |-> IF sel.mrt = 0 THEN "-" ELSE IF r.elapsed < sel.mrt THEN "below" ELSE IF r.elapsed = sel.mrt THEN "equal" ELSE "above",
                        none |-> StatusClass(r.api.none), wrong |-> StatusClass(r.api.wrong)]

(* ------------------------------------------------------------------ the family: command lines *)
R5 == <<NASE, NDR, PDA, IA, SCC>>
SubSeqOf(S) == SelectSeq(R5, LAMBDA x : x \in S)
St2 == <<Pat(2, 0, 0), Pat(2, 0, 1)>>
MkSel(slice, checks, rep, exclude, mrt, pdaExp, pdaSt, ndrSt, mrhSt, lowerX) ==
  [slice |-> slice, checks |-> checks, rep |-> rep, exclude |-> exclude, mrt |-> mrt, pdaExp |-> pdaExp,
   pdaSt |-> pdaSt, ndrSt |-> ndrSt, mrhSt |-> mrhSt, lowerX |-> lowerX]
(* slice "sel": the algebra - every subset of five names / all, every small exclusion / all, every on-off combination of the options *)
ChecksOpts == {SubSeqOf(S) : S \in SUBSET Range(R5)} \cup {<<"all">>, <<"all", NASE>>, <<NDR, "all">>}
ExcludeOpts == {SubSeqOf(S) : S \in {T \in SUBSET Range(R5) : Cardinality(T) <= (IF Thorough THEN 2 ELSE 1)}} \cup {<<"all">>}
SelSels == {s \in {MkSel("sel", ch, FALSE, ex, mrt, pe, ps, ns, ms, FALSE) :
                     ch \in ChecksOpts, ex \in ExcludeOpts, mrt \in {0, 1000}, pe \in BOOLEAN,
                     ps \in {<<>>, St2}, ns \in {<<>>, <<Pat(4, X, X)>>}, ms \in {<<>>, <<Pat(4, 0, 6)>>}} :
               Thorough \/ (s.ndrSt = <<>> <=> s.mrhSt = <<>>)}      \* quick tier: these two lists are given together or not at all
           \cup {MkSel("sel", ch, TRUE, ex, 0, FALSE, <<>>, <<>>, <<>>, FALSE) :       \* the option repeated instead of a comma list
              ch \in {<<NASE, NDR>>, <<NDR, "all">>, <<IA, PDA, NASE>>}, ex \in {<<>>, <<NDR, IA>>}}
(* slice "verdict": every check on, one configuration dimension varied at a time *)
Base(ch, ex, mrt, pe, ps, ns, ms, lx) == MkSel("verdict", ch, FALSE, ex, mrt, pe, ps, ns, ms, lx)
M406 == <<Pat(4, 0, 6)>>
VerdictSels ==
  {Base(<<"all">>, <<>>, 1000, FALSE, <<>>, <<>>, M406, FALSE),
   Base(<<"all">>, <<>>, 1000, FALSE, <<>>, <<Pat(4, 0, 0), Pat(4, 2, 2)>>, M406, FALSE),
   Base(<<"all">>, <<>>, 1000, FALSE, <<>>, <<Pat(4, X, X)>>, M406, TRUE),
   Base(<<"all">>, <<>>, 1000, FALSE, <<>>, <<Pat(4, 0, X), Pat(5, X, X)>>, M406, FALSE),
   Base(<<"all">>, <<>>, 1000, FALSE, St2, <<>>, M406, FALSE),
   Base(<<"all">>, <<>>, 1000, TRUE, St2, <<>>, M406, FALSE),
   Base(<<"all">>, <<>>, 1000, TRUE, <<Pat(2, X, 0), Pat(4, 0, 4)>>, <<>>, M406, FALSE),
   Base(<<"all">>, <<>>, 1000, FALSE, <<>>, <<>>, <<Pat(4, X, X)>>, FALSE),
   Base(<<"all">>, <<>>, 1000, FALSE, <<>>, <<>>, <<Pat(4, 0, 0), Pat(4, 0, 1)>>, TRUE),
   Base(<<"all">>, <<>>, 250, FALSE, <<>>, <<>>, M406, FALSE),
   Base(<<"all">>, <<>>, 0, FALSE, <<>>, <<>>, <<>>, FALSE),
   Base(<<NDR>>, <<>>, 0, FALSE, <<>>, <<>>, <<>>, FALSE),
   Base(<<"all">>, <<NDR, NASE>>, 1000, FALSE, <<>>, <<>>, M406, FALSE),
   Base(<<>>, <<>>, 0, TRUE, <<>>, <<>>, <<>>, FALSE)}
  \cup (IF Thorough THEN
   {Base(<<"all">>, <<"all">>, 1000, FALSE, <<>>, <<>>, M406, FALSE),
    Base(<<PDA, NASE>>, <<>>, 0, FALSE, <<Pat(2, 0, X)>>, <<>>, <<>>, TRUE),
    Base(<<"all">>, <<>>, 1000, TRUE, <<Pat(2, X, X), Pat(3, X, X)>>, <<Pat(4, X, X), Pat(5, 0, 1)>>, <<Pat(4, 0, 6), Pat(4, 2, 2)>>, FALSE),
    Base(<<IA, NDR, PDA>>, <<IA>>, 250, FALSE, <<>>, <<Pat(4, 2, X)>>, <<>>, FALSE)} ELSE {})
AuthSels == {MkSel("auth", <<IA, NASE>>, FALSE, <<>>, 0, FALSE, <<>>, <<>>, <<>>, FALSE)}
              \cup (IF Thorough THEN {MkSel("auth", <<"all">>, FALSE, <<>>, 0, FALSE, <<>>, <<>>, <<>>, FALSE)} ELSE {})
Sels == SelSels \cup VerdictSels \cup AuthSels

(* ------------------------------------------------------------------ the family: cases *)
MkCase(meta, phase, mode, cov, method, neg, sec, decl, src) ==
  [meta |-> meta, phase |-> phase, mode |-> mode, cov |-> cov, method |-> method, neg |-> neg, sec |-> sec, decl |-> decl, src |-> src]
Plain(meta, phase, mode, cov, method, neg) == MkCase(meta, phase, mode, cov, method, neg, "none", "op", "absent")
NegKinds == {"body", "path", "query-value", "query-extra", "header-extra", "query-extra+body"}
VerdictCases ==
  {Plain("none", "-", "-", "-", "POST", "-"),                                   \* a case created by hand: no labels at all
   Plain("gen", "explicit", "positive", "-", "POST", "-"),                      \* an example of the document
   Plain("gen", "generate", "positive", "-", "POST", "-"),
   Plain("gen", "coverage", "positive", "value", "POST", "-"),
   Plain("gen", "coverage", "negative", "value", "POST", "body"),
   Plain("gen", "coverage", "negative", "missing-header", "POST", "-"),
   Plain("gen", "coverage", "negative", "missing-auth", "POST", "-"),
   Plain("gen", "coverage", "negative", "missing-query", "POST", "-"),
   Plain("gen", "coverage", "negative", "method", "PATCH", "-"),
   Plain("gen", "coverage", "negative", "method", "OPTIONS", "-")}
  \cup {Plain("gen", "generate", "negative", "-", "POST", n) : n \in NegKinds}
ProbeCases == {Plain("gen", "generate", "negative", "-", "POST", "body"), Plain("gen", "generate", "positive", "-", "POST", "-")}
Secs == {"header", "bearer", "basic", "query", "cookie"}
(* where the credentials of the request come from: nowhere; made up by the generator; the user's own (command line), next to a made-up
   value in the case (the default flow) / with generation of security parameters switched off / header name spelled in lower case /
   given as --set-header *)
SrcsOf(sec) == {"absent", "generated", "explicit"}
                 \cup (IF sec # "query" THEN {"explicit-nogen"} ELSE {})
                 \cup (IF sec \in {"header", "bearer"} THEN {"explicit-lc"} ELSE {})
                 \cup (IF sec = "header" THEN {"explicit-override"} ELSE {})
AllSrcs == {"absent", "generated", "explicit", "explicit-nogen", "explicit-lc", "explicit-override"}
AuthCases == {MkCase("gen", "generate", "positive", "-", "POST", "-", sec, decl, src) :
                sec \in Secs, decl \in {"op", "global", "cleared"}, src \in AllSrcs}
(* slice "sel": the engine configuration of EVERY command line is compared; two probe cases are also executed (all command lines in
   the thorough tier, those without status lists in the quick tier - status lists do not change the run set) *)
CasesOf(sel) == CASE sel.slice = "sel" -> IF Thorough \/ (sel.pdaSt = <<>> /\ sel.ndrSt = <<>>) THEN ProbeCases ELSE {}
                  [] sel.slice = "verdict" -> VerdictCases
                  [] OTHER -> {k \in AuthCases : k.src \in SrcsOf(k.sec)}

(* ------------------------------------------------------------------ the family: answers of the API *)
Statuses == {200, 201, 204, 301, 400, 401, 403, 404, 405, 406, 409, 422, 428, 500, 501, 503}
              \cup (IF Thorough THEN {202, 302, 410, 415, 429, 502, 599} ELSE {})
ElapsedOf(sel) == IF sel.mrt = 0 THEN {100} ELSE {sel.mrt \div 2, sel.mrt, sel.mrt + 1, 2 * sel.mrt}
Uniform(st) == [valid |-> st, none |-> st, wrong |-> st]       \* an API that does not look at credentials
MkResp(st, allow, ms, api) == [status |-> st, allow |-> allow, elapsed |-> ms, api |-> api]
RespsOf(sel, k) ==
  CASE sel.slice = "sel" ->
         IF k.mode = "negative" THEN {MkResp(200, FALSE, IF sel.mrt = 0 THEN 100 ELSE 2 * sel.mrt, Uniform(200))}
         ELSE {MkResp(500, FALSE, IF sel.mrt = 0 THEN 100 ELSE sel.mrt \div 2, Uniform(500))}
    [] sel.slice = "verdict" ->
         {MkResp(st, FALSE, IF sel.mrt = 0 THEN 100 ELSE sel.mrt \div 2, Uniform(st)) : st \in Statuses}
         \cup {MkResp(st, TRUE, IF sel.mrt = 0 THEN 100 ELSE sel.mrt \div 2, Uniform(st)) : st \in {405, 200}}
         \cup {MkResp(st, FALSE, ms, Uniform(st)) : st \in {200, 500}, ms \in ElapsedOf(sel)}
    [] OTHER ->
         {MkResp(api[WireState(k)], FALSE, 100, api) :
            api \in [valid : IF Thorough THEN {200, 204, 404} ELSE {200, 404},
                     none : IF Thorough THEN {200, 401, 403, 404, 500} ELSE {200, 401, 403, 404},
                     wrong : IF Thorough THEN {200, 204, 401, 403, 404} ELSE {200, 401, 403}]}

(* ------------------------------------------------------------------ machine *)
VARIABLES sel, kase, resp, exp
vars == <<sel, kase, resp, exp>>
NoCase == [meta |-> "-"]
NoResp == [status |-> 0]
NoExp == [c \in Names |-> [run |-> "U", v |-> "U"]]
Init == sel \in Sels /\ kase = NoCase /\ resp = NoResp /\ exp = NoExp
Generate == /\ kase = NoCase /\ kase' \in CasesOf(sel) /\ UNCHANGED <<sel, resp, exp>>
Respond == /\ kase # NoCase /\ resp = NoResp /\ resp' \in RespsOf(sel, kase)
           /\ exp' = Expected(sel, kase, resp') /\ UNCHANGED <<sel, kase>>
Next == Generate \/ Respond
Spec == Init /\ [][Next]_vars

Live == resp # NoResp
L(c) == Letter(exp[c])
(* ------------------------------------------------------------------ design invariants *)
TypeOK == Live => \A c \in Names : exp[c].run \in {"Y", "N", "U"} /\ exp[c].v \in {"F", "P", "U"} /\ L(c) \in {"F", "P", "N", "U"}
(* a check that is named nowhere never yields a failure *)
NotSelectedNeverFails ==
  Live => \A c \in Registered :
     (sel.checks # <<>> /\ c \notin Range(sel.checks) /\ "all" \notin Range(sel.checks) /\ ~(c = PDA /\ sel.pdaExp)) => L(c) = "N"
(* exclusion wins over selection, whatever selected the check (`all`, its name, the experimental switch) *)
ExclusionWins == Live => \A c \in Registered : (c \in Range(sel.exclude) \/ "all" \in Range(sel.exclude)) => L(c) = "N"
AllSelectsEverything == Live => \A c \in Registered : ("all" \in Range(sel.checks) /\ sel.exclude = <<>>) => exp[c].run = "Y"
ResponseTimeOnlyWithOption == Live => (L(MRT) # "N" => sel.mrt > 0)
NegativeNeverFailsAcceptance == (Live /\ kase.meta = "gen" /\ kase.mode = "negative") => exp[PDA].v # "F"
PositiveNeverFailsRejection == (Live /\ kase.meta = "gen" /\ kase.mode = "positive") => exp[NDR].v # "F"
UnlabelledNeverFailsModeChecks == (Live /\ kase.meta = "none") => exp[NDR].v = "P" /\ exp[PDA].v = "P" /\ exp[MRH].v = "P" /\ exp[UM].v = "P"
ModeChecksExclusive == Live => ~(exp[NDR].v = "F" /\ exp[PDA].v = "F")
ServerErrorIff5xx == Live => (exp[NASE].v = "F" <=> resp.status >= 500)
ServerErrorIsNotAcceptance == (Live /\ sel.ndrSt = <<>> /\ resp.status >= 500) => exp[NDR].v # "F"
ExtraParametersNeverFail == (Live /\ kase.meta = "gen" /\ kase.neg \in {"query-extra", "header-extra"}) => exp[NDR].v = "P"
CoverageChecksOnlyTheirCases ==
  Live => /\ (exp[MRH].v # "P" => kase.phase = "coverage" /\ kase.cov \in {"missing-header", "missing-auth"})
          /\ (exp[UM].v # "P" => kase.phase = "coverage" /\ kase.cov = "method")
NoRequirementNoIgnoredAuth == (Live /\ (kase.sec = "none" \/ kase.decl = "cleared")) => exp[IA].v = "P"
EnforcingApiNeverAccused ==      \* an API that answers 401 to every request without valid credentials is never accused
  (Live /\ resp.api.none = 401 /\ resp.api.wrong = 401) => exp[IA].v # "F"
OpenApiAlwaysAccused ==          \* with a requirement in force, a 2xx without credentials is always a failure
  (Live /\ Requires(kase) /\ ~MethodCase(kase) /\ Is2xx(resp.status) /\ Is2xx(resp.api.none) /\ kase.src # "generated") => exp[IA].v = "F"
SlowIffAboveLimit == (Live /\ sel.mrt > 0) => (exp[MRT].v = "F" <=> resp.elapsed > sel.mrt)
WildcardsOK == /\ Match(Pat(2, X, X), 204) /\ ~Match(Pat(2, X, X), 301) /\ Match(Pat(2, X, 0), 210) /\ ~Match(Pat(2, X, 0), 204)
               /\ Match(Pat(2, 0, X), 204) /\ ~Match(Pat(2, 0, X), 214) /\ Match(Pat(4, 0, 4), 404) /\ ~Match(Pat(4, 0, 4), 405)
Sanity == /\ TypeOK /\ NotSelectedNeverFails /\ ExclusionWins /\ AllSelectsEverything /\ ResponseTimeOnlyWithOption
          /\ NegativeNeverFailsAcceptance /\ PositiveNeverFailsRejection /\ UnlabelledNeverFailsModeChecks /\ ModeChecksExclusive
          /\ ServerErrorIff5xx /\ ServerErrorIsNotAcceptance /\ ExtraParametersNeverFail /\ CoverageChecksOnlyTheirCases
          /\ NoRequirementNoIgnoredAuth /\ EnforcingApiNeverAccused /\ OpenApiAlwaysAccused /\ SlowIffAboveLimit

(* ------------------------------------------------------------------ export *)
Export == IF kase = NoCase THEN PrintT(<<"SEL", ToJson([sel |-> sel, run |-> ExpectedRun(sel), cfg |-> ConfigOf(sel), feat |-> SelClass(sel)])>>)
          ELSE IF ~Live THEN TRUE
          ELSE PrintT(<<"CASE", ToJson([sel |-> sel, kase |-> kase, resp |-> resp, exp |-> exp, letters |-> [c \in Judged |-> L(c)],
                                        feat |-> Features(sel, kase, resp)])>>)
=============================================================================
