------------------------------- MODULE Reports -------------------------------
(***************************************************************************)
(* C16 (a) - the reporters' bookkeeping as a history machine.              *)
(*                                                                         *)
(* Events delivered by the engine to the CLI: ScenarioFinished(label,      *)
(* phase, shape), NonFatalError(label, phase), EngineFinished.  A shape    *)
(* fixes the scenario status and the recorded cases (response or network   *)
(* error, check results; a check result is 0 = passed or the identity f of *)
(* the failure it raised).  The same failure identity can be raised under  *)
(* either label (a unit-phase operation label and the stateful label test  *)
(* the same operation).                                                    *)
(*                                                                         *)
(* State = what the reporters keep:                                        *)
(*   unique   - first discovery of each failure      {[f, ev, case]}       *)
(*   grouped  - per-label failure groups             {[label, ev, case, f]}*)
(*   junit    - test cases by label: [errors, skipped]                     *)
(*   cassette - delivered exchanges in delivery order                      *)
(* The bookkeeping is TOTAL: a lookup of a label or failure that has no    *)
(* entry yields "nothing to add" - no event the engine can emit is ever    *)
(* disabled (AlwaysEnabled), which is the statement "producing a report    *)
(* never crashes".  `hazards` records, per event, the situations in which  *)
(* a partial lookup would be undefined; they classify findings.            *)
(***************************************************************************)
EXTENDS Integers, Sequences, FiniteSets, TLC, Json

CONSTANTS MaxEvents      \* events before EngineFinished

Labels == {"GET /a", "Stateful tests"}
Phases == 1..3           \* 1 = derived case without metadata, 2 = coverage metadata, 3 = generate (fuzzing) metadata
Failures == {1, 2}
Shapes == {"ok", "f1", "f2", "f12", "neterr", "nochecks", "skip", "empty", "lost"}

Chk(f) == [fail |-> f]
CaseOf(resp, checks) == [sent |-> TRUE, resp |-> resp, checks |-> checks]
(* a recorded case WITHOUT an interaction: sending failed with something that is neither a timeout nor a connection error (truncated
   chunked response, too many redirects, serialization error), or the run stopped there.  It is not an exchange: no reporter shows it,
   and it must not disturb the exchanges around it *)
Unsent == [sent |-> FALSE, resp |-> FALSE, checks |-> <<>>]
CasesOf(sh) == CASE sh = "ok"       -> <<CaseOf(TRUE, <<Chk(0)>>)>>
                 [] sh = "f1"       -> <<CaseOf(TRUE, <<Chk(1)>>)>>
                 [] sh = "f2"       -> <<CaseOf(TRUE, <<Chk(0), Chk(2)>>)>>
                 [] sh = "f12"      -> <<CaseOf(TRUE, <<Chk(1)>>), CaseOf(TRUE, <<Chk(1), Chk(2)>>)>>
                 [] sh = "neterr"   -> <<CaseOf(FALSE, <<>>)>>
                 [] sh = "nochecks" -> <<CaseOf(TRUE, <<>>)>>
                 [] sh = "lost"     -> <<Unsent, CaseOf(TRUE, <<Chk(0)>>), Unsent, CaseOf(TRUE, <<Chk(0)>>), Unsent>>   \* first, middle, last
                 [] OTHER           -> <<>>
StatusOf(sh) == CASE sh \in {"f1", "f2", "f12"} -> "FAILURE"
                  [] sh \in {"neterr", "empty", "lost"} -> "ERROR"
                  [] sh = "skip"                -> "SKIP"
                  [] OTHER                      -> "SUCCESS"
MetaOf(ph) == CASE ph = 1 -> "none" [] ph = 2 -> "coverage" [] OTHER -> "generate"

FailuresIn(c) == {c.checks[j].fail : j \in 1..Len(c.checks)} \ {0}
(* status of one cassette entry (ReportsYaml!ExpStatus states the same rule on projected data) *)
EntryStatus(c) == IF ~c.resp THEN "ERROR"
                  ELSE IF c.checks = <<>> THEN "SKIP"
                  ELSE IF FailuresIn(c) # {} THEN "FAILURE" ELSE "SUCCESS"

VARIABLES hist, unique, grouped, junit, cassette, done, hazards, snaps
vars == <<hist, unique, grouped, junit, cassette, done, hazards, snaps>>

Init == /\ hist = <<>> /\ unique = {} /\ grouped = {} /\ junit = <<>> /\ cassette = <<>>
        /\ done = FALSE /\ hazards = <<>> /\ snaps = <<>>

LastPhase == IF hist = <<>> THEN 1 ELSE hist[Len(hist)].phase
Seen == {u.f : u \in unique}
(* test cases are kept in first-appearance order; lookup by label creates the case when it is missing *)
HasCase(j, l) == \E i \in 1..Len(j) : j[i].label = l
Touch(j, l) == IF HasCase(j, l) THEN j ELSE Append(j, [label |-> l, errors |-> 0, skipped |-> 0])
Bump(j, l, field) == [i \in 1..Len(j) |-> IF j[i].label = l THEN [j[i] EXCEPT ![field] = @ + 1] ELSE j[i]]

(* fin = the event's is_final flag.  The engine sets it on the scenario in which the stateful phase replays the minimal failing
   example (label "Stateful tests", real exchanges in its recorder) and on the empty ERROR scenario that accompanies an operation
   that could not be tested.  It is a hint for the progress display only: the exchanges of a final scenario were sent and
   delivered like any others, so every clause below is independent of fin *)
CanBeFinal(l, sh) == l = "Stateful tests" \/ sh = "empty"
ScenarioFinished(l, ph, sh, fin) ==
    /\ ~done /\ Len(hist) < MaxEvents /\ ph >= LastPhase
    /\ fin => CanBeFinal(l, sh)
    /\ LET k == Len(hist) + 1
           cs == CasesOf(sh)
           new == (UNION {FailuresIn(cs[c]) : c \in 1..Len(cs)}) \ Seen
           firstCase(f) == CHOOSE c \in 1..Len(cs) : f \in FailuresIn(cs[c]) /\ \A b \in 1..(c - 1) : f \notin FailuresIn(cs[b])
           grouped2 == grouped \cup {[label |-> l, ev |-> k, case |-> firstCase(f), f |-> f] : f \in new}
           hz == (IF StatusOf(sh) = "FAILURE" /\ ~\E g \in grouped2 : g.label = l
                  THEN {"failure-scenario-without-group-under-label"} ELSE {})
                 \cup (IF StatusOf(sh) = "FAILURE" /\ new = {} THEN {"all-failures-already-seen"} ELSE {})
                 \cup (IF ph = 1 /\ cs # <<>> THEN {"case-without-metadata"} ELSE {})
                 \cup (IF \E c \in 1..Len(cs) : cs[c].sent /\ ~cs[c].resp THEN {"no-response"} ELSE {})
                 \cup (IF \E c \in 1..Len(cs) : ~cs[c].sent THEN {"case-without-interaction"} ELSE {})
                 \cup (IF \E i \in 1..Len(hist) : hist[i].label = l THEN {"repeated-label"} ELSE {})
                 \cup (IF fin /\ \E c \in 1..Len(cs) : cs[c].sent THEN {"final-replay-with-exchanges"} ELSE {}) IN
       /\ hist' = Append(hist, [kind |-> "SF", label |-> l, phase |-> ph, shape |-> sh, final |-> fin])
       /\ unique' = unique \cup {[f |-> f, ev |-> k, case |-> firstCase(f)] : f \in new}
       /\ grouped' = grouped2
       /\ junit' = IF sh = "skip" THEN Bump(Touch(junit, l), l, "skipped") ELSE Touch(junit, l)
       /\ cassette' = cassette \o SelectSeq([c \in 1..Len(cs) |-> [ev |-> k, case |-> c, sent |-> cs[c].sent, resp |-> cs[c].resp,
                                                                   checks |-> cs[c].checks, meta |-> MetaOf(ph)]],
                                               LAMBDA e : e.sent)
       /\ hazards' = Append(hazards, hz)
       /\ snaps' = Append(snaps, [grouped |-> grouped2, unique |-> unique'])
       /\ UNCHANGED done

NonFatalError(l, ph) ==
    /\ ~done /\ Len(hist) < MaxEvents /\ ph >= LastPhase
    /\ hist' = Append(hist, [kind |-> "NF", label |-> l, phase |-> ph, shape |-> "-", final |-> FALSE])
    /\ junit' = Bump(Touch(junit, l), l, "errors")
    /\ hazards' = Append(hazards, {})
    /\ snaps' = Append(snaps, [grouped |-> grouped, unique |-> unique])
    /\ UNCHANGED <<unique, grouped, cassette, done>>

EngineFinished == /\ ~done /\ done' = TRUE
                  /\ UNCHANGED <<hist, unique, grouped, junit, cassette, hazards, snaps>>

Next == \/ \E l \in Labels, ph \in Phases, sh \in Shapes, fin \in BOOLEAN : ScenarioFinished(l, ph, sh, fin)
        \/ \E l \in Labels, ph \in Phases : NonFatalError(l, ph)
        \/ EngineFinished
Spec == Init /\ [][Next]_vars

---------------------------------------------------------------------------
(* what the reports must show, as functions of the state *)
TitlesOf(l) == {g.f : g \in {x \in grouped : x.label = l}}       \* failures reported in the JUnit test case of label l
Delivered == [i \in 1..Len(cassette) |-> [ev |-> cassette[i].ev, case |-> cassette[i].case, status |-> EntryStatus(cassette[i]),
                                           resp |-> cassette[i].resp, checks |-> cassette[i].checks, meta |-> cassette[i].meta]]

---------------------------------------------------------------------------
(* design invariants, checked by TLC on every reachable history *)
TypeOK == /\ Len(hist) <= MaxEvents /\ Len(hazards) = Len(hist) /\ Len(snaps) = Len(hist)
          /\ \A u \in unique : u.f \in Failures /\ u.ev \in 1..Len(hist)
(* every event the engine can emit next is accepted - no reporter action is disabled by a missing key *)
AlwaysEnabled == (~done /\ Len(hist) < MaxEvents) =>
                    /\ \A l \in Labels, ph \in LastPhase..3, sh \in Shapes, fin \in BOOLEAN : CanBeFinal(l, sh) \/ ~fin => ENABLED ScenarioFinished(l, ph, sh, fin)
                    /\ \A l \in Labels, ph \in LastPhase..3 : ENABLED NonFatalError(l, ph)
FinishEnabled == ~done => ENABLED EngineFinished
(* de-duplication: a failure is recorded exactly once, under the label and case of its first discovery *)
UniqueOnce == \A u, v \in unique : u.f = v.f => u = v
GroupedIsUnique == {[f |-> g.f, ev |-> g.ev, case |-> g.case] : g \in grouped} = unique
                   /\ \A g, h \in grouped : g.f = h.f => g = h
(* no failure is lost: every failure raised in a delivered scenario is known *)
NoFailureLost == \A i \in 1..Len(cassette) : FailuresIn(cassette[i]) \subseteq Seen
(* every delivered exchange appears exactly once, in delivery order *)
ExactlyOnce == /\ \A i, j \in 1..Len(cassette) : (cassette[i].ev = cassette[j].ev /\ cassette[i].case = cassette[j].case) => i = j
               /\ Len(cassette) = LET n[i \in 0..Len(hist)] == IF i = 0 THEN 0
                                                                  ELSE n[i - 1] + Len(SelectSeq(CasesOf(hist[i].shape), LAMBDA c : c.sent))
                                  IN n[Len(hist)]
(* test cases: one per label that occurred, and a reported failure belongs to a label that had a failing scenario *)
JunitByLabel == /\ {junit[i].label : i \in 1..Len(junit)} = {hist[i].label : i \in 1..Len(hist)}
                /\ \A i, j \in 1..Len(junit) : junit[i].label = junit[j].label => i = j
                /\ \A l \in Labels : TitlesOf(l) # {} => \E i \in 1..Len(hist) : hist[i].label = l /\ StatusOf(hist[i].shape) = "FAILURE"

(* export: every finished history with the expected outcome *)
Export == IF ~done THEN TRUE
          ELSE PrintT(<<"HIST", ToJson([events |-> hist, hazards |-> hazards, snaps |-> snaps,
                                         junit |-> [i \in 1..Len(junit) |-> [label |-> junit[i].label, errors |-> junit[i].errors,
                                                                             skipped |-> junit[i].skipped, titles |-> TitlesOf(junit[i].label)]],
                                         entries |-> Delivered])>>)
=============================================================================
