SPECIFICATION Spec
CONSTANT MaxReg = 3
CONSTANT MaxUnreg = 0
CONSTANT MaxLen = 4
CONSTANT MaxGen = 0
CONSTANT Negative = FALSE
CONSTANT Narrow = TRUE
CONSTANT Rich = FALSE
INVARIANT TypeOK
INVARIANT ScopePartition
INVARIANT OracleAgrees
INVARIANT UnfilteredEverywhere
INVARIANT Independent
INVARIANT GenerationsAreInert
INVARIANT Export
CHECK_DEADLOCK FALSE
