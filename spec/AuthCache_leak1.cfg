SPECIFICATION Spec
CONSTANTS
 Threads = {1, 2}
 Keys = {1}
 R = 2
 MaxTime = 2
 MaxCalls = 3
 WriteInLock = TRUE
 MaxFails = 1
 ReleaseOnError = FALSE
 Recheck = TRUE
INVARIANT NoLeak
CHECK_DEADLOCK FALSE
