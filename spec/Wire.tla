-------------------------------- MODULE Wire --------------------------------
(***************************************************************************)
(* C06 - the HTTP request on the wire is exactly the generated test case.  *)
(*                                                                         *)
(* This module contains DECODERS.  They are written from RFC 3986          *)
(* (percent-encoding), RFC 3629 (UTF-8), RFC 8259 (JSON, flat values),     *)
(* the WHATWG application/x-www-form-urlencoded parser ('+' = space), the  *)
(* OpenAPI 3.0 "Style Examples" table (simple, label, matrix, form,        *)
(* spaceDelimited, pipeDelimited, deepObject; RFC 6570 for the path        *)
(* styles) and the Swagger 2.0 collectionFormat table - never from         *)
(* schemathesis' serializers.  Every scanner is a finite automaton         *)
(* advanced by FoldLeft over code points / bytes.                          *)
(*                                                                         *)
(* State: one family element `el` = (kind, parameter definition, value,    *)
(* base-URL variant, path template, body media type).  The family is the   *)
(* set of initial states; TLC checks the design invariants on every        *)
(* element (the decoders are left inverses of the reference encoder that   *)
(* is read off the same table) and exports it with the expected decoding.  *)
(* WireJudge.tla judges recorded requests with the same operators.         *)
(***************************************************************************)
EXTENDS Integers, Sequences, FiniteSets, TLC, Json, SequencesExt

CONSTANTS StrLen,      \* maximal length of the exhaustively enumerated strings (1 or 2)
          Rich         \* TRUE: thorough item sets and length-3 strings for primitive path/query parameters

-----------------------------------------------------------------------------
(* characters *)
cTAB == 9      cSP == 32     cDQ == 34     cPCT == 37    cAMP == 38   cPLUS == 43  cCOMMA == 44  cMINUS == 45
cDOT == 46     cSLASH == 47  cCOLON == 58  cSEMI == 59   cEQ == 61    cLBR == 91   cBS == 92     cRBR == 93
cLCB == 123    cPIPE == 124  cRCB == 125
Name == <<112>>                                   \* every parameter is called "p"
IsHex(c) == c \in 48..57 \/ c \in 65..70 \/ c \in 97..102
HexVal(c) == IF c <= 57 THEN c - 48 ELSE IF c <= 70 THEN c - 55 ELSE c - 87
HexDigit(n) == IF n < 10 THEN 48 + n ELSE 55 + n
Unreserved(b) == b \in 48..57 \/ b \in 65..90 \/ b \in 97..122 \/ b \in {45, 46, 95, 126}

-----------------------------------------------------------------------------
(* RFC 3986 2.1 percent-decoding: automaton over the raw characters.  st = number of hex digits already read after   *)
(* '%'.  A '%' not followed by two hex digits makes the text malformed (`bad`); `form` adds the urlencoded '+' rule.  *)
PD0 == [out |-> <<>>, st |-> 0, h |-> 0, bad |-> FALSE]
PDPlain(s, c, form) == IF c = cPCT THEN [s EXCEPT !.st = 1]
                       ELSE IF form /\ c = cPLUS THEN [s EXCEPT !.out = Append(@, cSP)]
                       ELSE [s EXCEPT !.out = Append(@, c)]
PDStep(s, c, form) ==
    CASE s.st = 0 -> PDPlain(s, c, form)
      [] s.st = 1 -> IF IsHex(c) THEN [s EXCEPT !.st = 2, !.h = c]
                     ELSE PDPlain([s EXCEPT !.out = Append(@, cPCT), !.st = 0, !.bad = TRUE], c, form)
      [] OTHER    -> IF IsHex(c) THEN [s EXCEPT !.out = Append(@, 16 * HexVal(s.h) + HexVal(c)), !.st = 0]
                     ELSE PDPlain([s EXCEPT !.out = @ \o <<cPCT, s.h>>, !.st = 0, !.bad = TRUE], c, form)
PctDecode(raw, form) ==
    LET s == FoldLeft(LAMBDA a, c : PDStep(a, c, form), PD0, raw)
    IN  IF s.st = 0 THEN [out |-> s.out, bad |-> s.bad]
        ELSE [out |-> s.out \o (IF s.st = 1 THEN <<cPCT>> ELSE <<cPCT, s.h>>), bad |-> TRUE]

(* RFC 3986 6.2.2.2: a percent-encoded unreserved character is equivalent to the character itself ("%2E" is "."), so   *)
(* structural parsing of a path segment happens after this normalisation; other triplets are kept as they are.          *)
NUFlush(s) == IF s.st = 0 THEN s.out ELSE IF s.st = 1 THEN Append(s.out, cPCT) ELSE s.out \o <<cPCT, s.h>>
NUStep(s, c) ==
    CASE s.st = 0 -> IF c = cPCT THEN [s EXCEPT !.st = 1] ELSE [s EXCEPT !.out = Append(@, c)]
      [] s.st = 1 -> IF IsHex(c) THEN [s EXCEPT !.st = 2, !.h = c]
                     ELSE IF c = cPCT THEN [s EXCEPT !.out = Append(@, cPCT)]
                     ELSE [s EXCEPT !.out = @ \o <<cPCT, c>>, !.st = 0]
      [] OTHER    -> IF IsHex(c)
                     THEN LET b == 16 * HexVal(s.h) + HexVal(c)
                          IN  [s EXCEPT !.out = IF Unreserved(b) THEN Append(@, b) ELSE @ \o <<cPCT, s.h, c>>, !.st = 0]
                     ELSE IF c = cPCT THEN [s EXCEPT !.out = @ \o <<cPCT, s.h>>, !.st = 1]
                     ELSE [s EXCEPT !.out = @ \o <<cPCT, s.h, c>>, !.st = 0]
NormUnreserved(raw) == NUFlush(FoldLeft(NUStep, [out |-> <<>>, st |-> 0, h |-> 0], raw))

(* percent-triplets with upper-case hex digits ("%a1" and "%A1" are the same triplet, RFC 3986 6.2.2.1) *)
PctUpper(raw) == LET r == FoldLeft(LAMBDA s, c : IF c = cPCT THEN [out |-> Append(s.out, c), k |-> 2]
                                                 ELSE IF s.k > 0 THEN [out |-> Append(s.out, IF c \in 97..102 THEN c - 32 ELSE c), k |-> s.k - 1]
                                                 ELSE [out |-> Append(s.out, c), k |-> 0],
                                   [out |-> <<>>, k |-> 0], raw)
                 IN  r.out

(* RFC 3629 UTF-8 decoding: automaton over bytes.  need = continuation bytes still expected. *)
UD0 == [out |-> <<>>, need |-> 0, cp |-> 0, bad |-> FALSE]
UDStart(s, b) == IF b < 128 THEN [s EXCEPT !.out = Append(@, b)]
                 ELSE IF b \in 194..223 THEN [s EXCEPT !.need = 1, !.cp = b - 192]
                 ELSE IF b \in 224..239 THEN [s EXCEPT !.need = 2, !.cp = b - 224]
                 ELSE IF b \in 240..244 THEN [s EXCEPT !.need = 3, !.cp = b - 240]
                 ELSE [s EXCEPT !.out = Append(@, 65533), !.bad = TRUE]
UDStep(s, b) == IF s.need = 0 THEN UDStart(s, b)
                ELSE IF b \in 128..191
                     THEN LET cp == s.cp * 64 + (b - 128)
                          IN  IF s.need = 1 THEN [s EXCEPT !.out = Append(@, cp), !.need = 0, !.cp = 0]
                              ELSE [s EXCEPT !.need = @ - 1, !.cp = cp]
                     ELSE UDStart([s EXCEPT !.out = Append(@, 65533), !.need = 0, !.cp = 0, !.bad = TRUE], b)
Utf8Decode(bytes) == LET s == FoldLeft(UDStep, UD0, bytes)
                     IN  [t |-> IF s.need = 0 THEN s.out ELSE Append(s.out, 65533),
                          bad |-> s.bad \/ s.need # 0 \/ \E i \in 1..Len(bytes) : bytes[i] > 255]
Utf8Enc1(cp) == IF cp < 128 THEN <<cp>>
                ELSE IF cp < 2048 THEN <<192 + (cp \div 64), 128 + (cp % 64)>>
                ELSE IF cp < 65536 THEN <<224 + (cp \div 4096), 128 + ((cp \div 64) % 64), 128 + (cp % 64)>>
                ELSE <<240 + (cp \div 262144), 128 + ((cp \div 4096) % 64), 128 + ((cp \div 64) % 64), 128 + (cp % 64)>>
Utf8Encode(t) == FoldLeft(LAMBDA a, cp : a \o Utf8Enc1(cp), <<>>, t)
PctEncode(t) == FoldLeft(LAMBDA a, b : IF Unreserved(b) THEN Append(a, b)
                                       ELSE a \o <<cPCT, HexDigit(b \div 16), HexDigit(b % 16)>>, <<>>, Utf8Encode(t))

(* Text of a raw wire fragment under a decoding mode:                                                             *)
(*   "pct"  RFC 3986 percent-decoding then UTF-8          (path segments, RFC 3986 query reading)                 *)
(*   "form" the same with '+' = space                      (query strings and urlencoded bodies)                   *)
(*   "dec"  UTF-8 only: the gateway already percent-decoded the bytes (WSGI PATH_INFO)                             *)
(*   "raw"  no decoding at all                             (header and cookie values)                              *)
Txt(raw, mode) ==
    CASE mode = "raw" -> [t |-> raw, bad |-> FALSE]
      [] mode = "dec" -> Utf8Decode(raw)
      [] OTHER        -> LET p == PctDecode(raw, mode = "form")
                             u == Utf8Decode(p.out)
                         IN  [t |-> u.t, bad |-> p.bad \/ u.bad]

-----------------------------------------------------------------------------
(* splitting automata *)
Split(seq, d) == LET r == FoldLeft(LAMBDA s, c : IF c = d THEN [parts |-> Append(s.parts, s.cur), cur |-> <<>>]
                                                  ELSE [s EXCEPT !.cur = Append(@, c)],
                                   [parts |-> <<>>, cur |-> <<>>], seq)
                 IN  Append(r.parts, r.cur)
SplitFirst(seq, d) == FoldLeft(LAMBDA s, c : IF ~s.f /\ c = d THEN [s EXCEPT !.f = TRUE]
                                             ELSE IF s.f THEN [s EXCEPT !.b = Append(@, c)]
                                             ELSE [s EXCEPT !.a = Append(@, c)],
                               [a |-> <<>>, b |-> <<>>, f |-> FALSE], seq)
NonEmpty(parts) == SelectSeq(parts, LAMBDA p : p # <<>>)
StripLeft(seq) == LET r == FoldLeft(LAMBDA s, c : IF ~s.on /\ c \in {cSP, cTAB} THEN s
                                                  ELSE [on |-> TRUE, out |-> Append(s.out, c)],
                                    [on |-> FALSE, out |-> <<>>], seq)
                  IN  r.out
Join(parts, sep) == FoldLeft(LAMBDA a, i : IF i = 1 THEN parts[i] ELSE a \o sep \o parts[i], <<>>,
                             [i \in 1..Len(parts) |-> i])
Has(t, chars) == \E i \in 1..Len(t) : t[i] \in chars

-----------------------------------------------------------------------------
(* values.  Primitive: uniform record; value: kind + items (+ keys for objects). *)
PStr(s)  == [t |-> "str", s |-> s, n |-> 0]
PInt(n)  == [t |-> "int", s |-> <<>>, n |-> n]
PBool(b) == [t |-> "bool", s |-> <<>>, n |-> IF b THEN 1 ELSE 0]
PNull    == [t |-> "null", s |-> <<>>, n |-> 0]
VPrim(p)      == [k |-> "prim", items |-> <<p>>, keys |-> <<>>]
VArr(items)   == [k |-> "arr", items |-> items, keys |-> <<>>]
VObj(ks, its) == [k |-> "obj", items |-> its, keys |-> ks]

RECURSIVE Digits(_)
Digits(n) == IF n < 10 THEN <<48 + n>> ELSE Append(Digits(n \div 10), 48 + (n % 10))
DecText(n) == IF n < 0 THEN <<cMINUS>> \o Digits(0 - n) ELSE Digits(n)
(* string coercion of a primitive: numbers -> decimal text, true / false / null *)
Coerce(p) == CASE p.t = "str"  -> p.s
               [] p.t = "int"  -> DecText(p.n)
               [] p.t = "bool" -> IF p.n = 1 THEN <<116, 114, 117, 101>> ELSE <<102, 97, 108, 115, 101>>
               [] OTHER        -> <<110, 117, 108, 108>>
(* what a style decoder must recover for value v: kind, coerced items, keys *)
Expected(v) == [k |-> v.k, items |-> [i \in 1..Len(v.items) |-> Coerce(v.items[i])], keys |-> v.keys]
Pairs(d) == {<<d.keys[i], d.items[i]>> : i \in 1..Len(d.items)}
Same(a, b) == /\ a.k = b.k /\ Len(a.items) = Len(b.items)
              /\ IF a.k = "obj" THEN Len(a.keys) = Len(a.items) /\ Len(b.keys) = Len(b.items) /\ Pairs(a) = Pairs(b)
                 ELSE a.items = b.items
In(S, e) == \E d \in S : Same(d, e)

-----------------------------------------------------------------------------
(* RFC 8259 JSON, flat values (primitive, or array / object of primitives), as an automaton over code points.       *)
(* m: V value expected, S in string, E after backslash, U in \uXXXX, L in literal / number, A after a member,         *)
(* K key expected, C colon expected, D done.                                                                          *)
J0 == [m |-> "V", top |-> "none", items |-> <<>>, keys |-> <<>>, cur |-> <<>>, isKey |-> FALSE, fresh |-> FALSE,
       u |-> 0, ucp |-> 0, bad |-> FALSE]
JWs(c) == c \in {32, 9, 10, 13}
JBad(s) == [s EXCEPT !.bad = TRUE]
JEmit(s, p) == IF s.top = "none" THEN [s EXCEPT !.top = "prim", !.items = <<p>>, !.m = "D", !.cur = <<>>]
               ELSE IF s.isKey THEN (IF p.t = "str" THEN [s EXCEPT !.keys = Append(@, p.s), !.m = "C", !.cur = <<>>, !.isKey = FALSE]
                                     ELSE JBad(s))
               ELSE [s EXCEPT !.items = Append(@, p), !.m = "A", !.cur = <<>>, !.fresh = FALSE]
IsIntText(t) == /\ t # <<>>
                /\ LET d == IF Head(t) = cMINUS THEN Tail(t) ELSE t
                   IN  /\ d # <<>> /\ Len(d) <= 9 /\ \A i \in 1..Len(d) : d[i] \in 48..57
                       /\ (Len(d) = 1 \/ d[1] # 48)
ToInt(t) == LET d == IF Head(t) = cMINUS THEN Tail(t) ELSE t
                n == FoldLeft(LAMBDA a, c : 10 * a + (c - 48), 0, d)
            IN  IF Head(t) = cMINUS THEN 0 - n ELSE n
JEmitLit(s) == CASE s.cur = <<116, 114, 117, 101>>      -> JEmit(s, PBool(TRUE))
                 [] s.cur = <<102, 97, 108, 115, 101>>  -> JEmit(s, PBool(FALSE))
                 [] s.cur = <<110, 117, 108, 108>>      -> JEmit(s, PNull)
                 [] OTHER -> IF IsIntText(s.cur) THEN JEmit(s, PInt(ToInt(s.cur))) ELSE JBad(s)
JStruct(s, c) ==
    IF JWs(c) THEN s
    ELSE CASE s.m = "V" ->
                IF c = cDQ THEN [s EXCEPT !.m = "S", !.cur = <<>>]
                ELSE IF c = cLBR THEN (IF s.top = "none" THEN [s EXCEPT !.top = "arr", !.fresh = TRUE] ELSE JBad(s))
                ELSE IF c = cLCB THEN (IF s.top = "none" THEN [s EXCEPT !.top = "obj", !.m = "K", !.fresh = TRUE] ELSE JBad(s))
                ELSE IF c = cRBR THEN (IF s.top = "arr" /\ s.fresh THEN [s EXCEPT !.m = "D"] ELSE JBad(s))
                ELSE IF c = cMINUS \/ c \in 48..57 \/ c \in 97..122 THEN [s EXCEPT !.m = "L", !.cur = <<c>>]
                ELSE JBad(s)
           [] s.m = "K" ->
                IF c = cDQ THEN [s EXCEPT !.m = "S", !.cur = <<>>, !.isKey = TRUE]
                ELSE IF c = cRCB /\ s.fresh THEN [s EXCEPT !.m = "D"]
                ELSE JBad(s)
           [] s.m = "C" -> IF c = cCOLON THEN [s EXCEPT !.m = "V"] ELSE JBad(s)
           [] s.m = "A" ->
                IF c = cCOMMA THEN [s EXCEPT !.m = IF s.top = "arr" THEN "V" ELSE "K"]
                ELSE IF (c = cRBR /\ s.top = "arr") \/ (c = cRCB /\ s.top = "obj") THEN [s EXCEPT !.m = "D"]
                ELSE JBad(s)
           [] OTHER -> JBad(s)
JStep(s, c) ==
    IF s.bad THEN s
    ELSE CASE s.m = "S" -> IF c = cDQ THEN JEmit(s, PStr(s.cur))
                           ELSE IF c = cBS THEN [s EXCEPT !.m = "E"]
                           ELSE IF c < 32 THEN JBad(s)
                           ELSE [s EXCEPT !.cur = Append(@, c)]
           [] s.m = "E" -> IF c \in {cDQ, cBS, cSLASH} THEN [s EXCEPT !.m = "S", !.cur = Append(@, c)]
                           ELSE IF c = 98 THEN [s EXCEPT !.m = "S", !.cur = Append(@, 8)]
                           ELSE IF c = 102 THEN [s EXCEPT !.m = "S", !.cur = Append(@, 12)]
                           ELSE IF c = 110 THEN [s EXCEPT !.m = "S", !.cur = Append(@, 10)]
                           ELSE IF c = 114 THEN [s EXCEPT !.m = "S", !.cur = Append(@, 13)]
                           ELSE IF c = 116 THEN [s EXCEPT !.m = "S", !.cur = Append(@, 9)]
                           ELSE IF c = 117 THEN [s EXCEPT !.m = "U", !.u = 4, !.ucp = 0]
                           ELSE JBad(s)
           [] s.m = "U" -> IF ~IsHex(c) THEN JBad(s)
                           ELSE LET cp == 16 * s.ucp + HexVal(c)
                                IN  IF s.u > 1 THEN [s EXCEPT !.u = @ - 1, !.ucp = cp]
                                    ELSE IF cp \in 55296..57343 THEN JBad(s)      \* surrogate halves: outside the fragment
                                    ELSE [s EXCEPT !.m = "S", !.u = 0, !.ucp = 0, !.cur = Append(@, cp)]
           [] s.m = "L" -> IF JWs(c) \/ c \in {cCOMMA, cRBR, cRCB}
                           THEN LET s1 == JEmitLit(s) IN IF s1.bad THEN s1 ELSE JStruct(s1, c)
                           ELSE [s EXCEPT !.cur = Append(@, c)]
           [] OTHER -> JStruct(s, c)
JsonParse(text) == LET s0 == FoldLeft(JStep, J0, text)
                       s  == IF ~s0.bad /\ s0.m = "L" THEN JEmitLit(s0) ELSE s0
                   IN  [ok |-> ~s.bad /\ s.m = "D", val |-> [k |-> s.top, items |-> s.items, keys |-> s.keys]]
(* JSON text of a flat value (reference encoder; non-ASCII is written raw) *)
JsonStr(t) == <<cDQ>> \o FoldLeft(LAMBDA a, c : IF c \in {cDQ, cBS} THEN a \o <<cBS, c>>
                                                  ELSE IF c < 32 THEN a \o <<cBS, 117, 48, 48, HexDigit(c \div 16), HexDigit(c % 16)>>
                                                  ELSE Append(a, c), <<>>, t) \o <<cDQ>>
JsonPrim(p) == IF p.t = "str" THEN JsonStr(p.s) ELSE Coerce(p)
JsonText(v) == CASE v.k = "prim" -> JsonPrim(v.items[1])
                 [] v.k = "arr"  -> <<cLBR>> \o Join([i \in 1..Len(v.items) |-> JsonPrim(v.items[i])], <<cCOMMA>>) \o <<cRBR>>
                 [] OTHER        -> <<cLCB>> \o Join([i \in 1..Len(v.items) |-> JsonStr(v.keys[i]) \o <<cCOLON>> \o JsonPrim(v.items[i])],
                                                     <<cCOMMA>>) \o <<cRCB>>
SameTyped(a, b) == /\ a.k = b.k /\ Len(a.items) = Len(b.items)
                   /\ IF a.k = "obj" THEN Len(a.keys) = Len(a.items) /\ Len(b.keys) = Len(b.items) /\ Pairs(a) = Pairs(b)
                      ELSE a.items = b.items

-----------------------------------------------------------------------------
(* parameter definitions *)
Style(d) == IF d.style = "default" THEN (IF d.loc \in {"query", "cookie"} THEN "form" ELSE "simple") ELSE d.style
Explode(d) == IF d.explode = "default" THEN Style(d) = "form" ELSE d.explode = "true"
Delim(fmt) == CASE fmt \in {"default", "csv"} -> cCOMMA [] fmt = "ssv" -> cSP [] fmt = "tsv" -> cTAB [] OTHER -> cPIPE

(* building blocks: sets of candidate decodings (empty set = this reading does not parse) *)
Dec(parts, mode) == LET r == [i \in 1..Len(parts) |-> Txt(parts[i], mode)]
                    IN  IF \E i \in 1..Len(parts) : r[i].bad THEN {} ELSE {[i \in 1..Len(parts) |-> r[i].t]}
RawSplit(raw, d, mode) == Dec(Split(raw, d), mode)               \* delimiter is literal, items are decoded afterwards
DecSplit(raw, d, mode) == LET t == Txt(raw, mode) IN IF t.bad THEN {} ELSE {Split(t.t, d)}   \* decode, then split
AsPrim(S) == {[k |-> "prim", items |-> <<t>>, keys |-> <<>>] : t \in S}
AsArr(S)  == {[k |-> "arr", items |-> p, keys |-> <<>>] : p \in S}
PairUp(p) == IF Len(p) > 0 /\ Len(p) % 2 = 0
             THEN {[k |-> "obj", keys |-> [i \in 1..(Len(p) \div 2) |-> p[2 * i - 1]], items |-> [i \in 1..(Len(p) \div 2) |-> p[2 * i]]]}
             ELSE {}
AsObj(S) == UNION {PairUp(p) : p \in S}
RawKV(raw, d, mode) == LET parts == Split(raw, d)
                           kv == [i \in 1..Len(parts) |-> SplitFirst(parts[i], cEQ)]
                       IN  IF \E i \in 1..Len(parts) : ~kv[i].f THEN {}
                           ELSE {[k |-> "obj", keys |-> x, items |-> y] :
                                   x \in Dec([i \in 1..Len(parts) |-> kv[i].a], mode), y \in Dec([i \in 1..Len(parts) |-> kv[i].b], mode)}
DecKV(raw, d, mode) == LET t == Txt(raw, mode) IN IF t.bad THEN {} ELSE RawKV(t.t, d, "raw")
Text1(raw, mode) == LET t == Txt(raw, mode) IN IF t.bad THEN {} ELSE {t.t}
(* strict: readings every conforming decoder makes; lenient: readings some decoders make (a match there is "U") *)
None == [strict |-> {}, lenient |-> {}]
SL(s, l) == [strict |-> s, lenient |-> l]

(* ---- path: one segment `seg`; mode "pct" (raw request-target) or "dec" (WSGI PATH_INFO).  RFC 6570: delimiters are   *)
(* literal, data characters are percent-encoded ("strict").  Reading the segment after percent-decoding it recovers the *)
(* value of the comma / '=' separated lists too; servers commonly do that ("lenient" => verdict U, not T).              *)
PathSimple(d, seg, mode) ==
    CASE d.type = "prim"  -> SL(AsPrim(Text1(seg, mode)), {})
      [] d.type = "array" -> SL(AsArr(RawSplit(seg, cCOMMA, mode)), AsArr(DecSplit(seg, cCOMMA, mode)))
      [] OTHER -> IF Explode(d) THEN SL(RawKV(seg, cCOMMA, mode), DecKV(seg, cCOMMA, mode))
                  ELSE SL(AsObj(RawSplit(seg, cCOMMA, mode)), AsObj(DecSplit(seg, cCOMMA, mode)))
(* label: OpenAPI 3.0.0-3.0.3 print '.' between the items for explode=false, RFC 6570 / 3.0.4 / 3.1 print ','. Both accepted. *)
PathLabel(d, seg, mode) ==
    IF seg = <<>> \/ Head(seg) # cDOT THEN None
    ELSE LET rest == Tail(seg) IN
         CASE d.type = "prim"  -> SL(AsPrim(Text1(rest, mode)), {})
           [] d.type = "array" -> IF Explode(d) THEN SL(AsArr(RawSplit(rest, cDOT, mode)), {})
                                  ELSE SL(AsArr(RawSplit(rest, cDOT, mode) \cup RawSplit(rest, cCOMMA, mode)), AsArr(DecSplit(rest, cCOMMA, mode)))
           [] OTHER -> IF Explode(d) THEN SL(RawKV(rest, cDOT, mode), DecKV(rest, cDOT, mode))
                       ELSE SL(AsObj(RawSplit(rest, cDOT, mode) \cup RawSplit(rest, cCOMMA, mode)), AsObj(DecSplit(rest, cCOMMA, mode)))
(* matrix: ';' and the "name=" prefix are the syntax that identifies the parameter - they must be literal *)
PathMatrix(d, seg, mode) ==
    IF seg = <<>> \/ Head(seg) # cSEMI THEN None
    ELSE LET rest == Tail(seg)
             nv   == SplitFirst(rest, cEQ)
         IN
         CASE d.type = "prim"  -> IF nv.a = Name THEN SL(AsPrim(Text1(nv.b, mode)), {}) ELSE None
           [] d.type = "array" ->
                IF Explode(d)
                THEN LET parts == Split(rest, cSEMI)
                         kv == [i \in 1..Len(parts) |-> SplitFirst(parts[i], cEQ)]
                     IN  IF \A i \in 1..Len(parts) : kv[i].a = Name
                         THEN SL(AsArr(Dec([i \in 1..Len(parts) |-> kv[i].b], mode)), {}) ELSE None
                ELSE IF nv.a = Name /\ nv.f THEN SL(AsArr(RawSplit(nv.b, cCOMMA, mode)), AsArr(DecSplit(nv.b, cCOMMA, mode))) ELSE None
           [] OTHER -> IF Explode(d) THEN SL(RawKV(rest, cSEMI, mode), {})
                       ELSE IF nv.a = Name /\ nv.f THEN SL(AsObj(RawSplit(nv.b, cCOMMA, mode)), AsObj(DecSplit(nv.b, cCOMMA, mode))) ELSE None
(* Swagger 2.0 collectionFormat in a path: csv as simple; space, tab and '|' cannot be literal in a URI, so they are necessarily encoded *)
PathSwagger(d, seg, mode) ==
    IF d.type = "prim" THEN SL(AsPrim(Text1(seg, mode)), {})
    ELSE LET dl == Delim(d.style)
         IN  IF dl = cCOMMA THEN SL(AsArr(RawSplit(seg, dl, mode)), AsArr(DecSplit(seg, dl, mode)))
             ELSE SL(AsArr(RawSplit(seg, dl, mode) \cup DecSplit(seg, dl, mode)), {})
PathDecode(d, seg0, mode) ==
    LET seg == IF mode = "pct" THEN NormUnreserved(seg0) ELSE seg0 IN
    CASE d.dialect = "swagger2"  -> PathSwagger(d, seg, mode)
      [] Style(d) = "simple"     -> PathSimple(d, seg, mode)
      [] Style(d) = "label"      -> PathLabel(d, seg, mode)
      [] Style(d) = "matrix"     -> PathMatrix(d, seg, mode)
      [] OTHER                   -> None

(* ---- query string: name=value pairs separated by '&'; names and values decoded with `mode` ("form" or "pct") *)
QParts(q) == LET parts == NonEmpty(Split(q, cAMP)) IN [i \in 1..Len(parts) |-> SplitFirst(parts[i], cEQ)]
QueryRead(d, q, mode) ==
    LET kv == QParts(q)
        n  == Len(kv)
        ns == Dec([i \in 1..n |-> kv[i].a], mode)
        vs == Dec([i \in 1..n |-> kv[i].b], mode)
        one == n = 1 /\ ns = {<<Name>>}
        st == Style(d)
        dl == IF d.dialect = "swagger2" THEN Delim(d.style)
              ELSE IF st = "spaceDelimited" THEN cSP ELSE IF st = "pipeDelimited" THEN cPIPE ELSE cCOMMA
        multi == IF d.dialect = "swagger2" THEN d.style = "multi" ELSE st = "form" /\ Explode(d)
        list == IF one THEN RawSplit(kv[1].b, dl, mode) \cup DecSplit(kv[1].b, dl, mode) ELSE {}
    IN  IF ns = {} \/ vs = {} THEN {}
        ELSE CASE d.type = "prim" -> IF one THEN AsPrim({v[1] : v \in vs}) ELSE {}
               [] st = "deepObject" /\ d.dialect = "oas3" ->
                    LET nm == CHOOSE x \in ns : TRUE
                        okName(t) == Len(t) >= 3 /\ t[1] = Name[1] /\ t[2] = cLBR /\ t[Len(t)] = cRBR
                    IN  IF n >= 1 /\ d.type = "object" /\ \A i \in 1..n : okName(nm[i])
                        THEN {[k |-> "obj", keys |-> [i \in 1..n |-> SubSeq(nm[i], 3, Len(nm[i]) - 1)], items |-> v] : v \in vs}
                        ELSE {}
               [] d.type = "array" -> IF multi THEN (IF n >= 1 /\ \A x \in ns : \A i \in 1..n : x[i] = Name THEN AsArr(vs) ELSE {})
                                      ELSE AsArr(list)
               [] OTHER -> IF multi THEN (IF n >= 1 THEN {[k |-> "obj", keys |-> x, items |-> y] : x \in ns, y \in vs} ELSE {})
                           ELSE AsObj(list)
(* strict: the urlencoded reading ('+' = space); a value only the RFC 3986 reading ('+' literal) recovers is ambiguous *)
QueryDecode(d, q) == SL(QueryRead(d, q, "form"), QueryRead(d, q, "pct"))

(* ---- header: the field value, never percent-decoded *)
HeaderDecode(d, present, h) ==
    IF ~present THEN None
    ELSE LET dl == IF d.dialect = "swagger2" THEN Delim(d.style) ELSE cCOMMA
         IN  CASE d.type = "prim"  -> SL(AsPrim({h}), {})
               [] d.type = "array" -> SL(AsArr({Split(h, dl)}), {})
               [] OTHER -> IF Explode(d) THEN SL(RawKV(h, cCOMMA, "raw"), {}) ELSE SL(AsObj({Split(h, cCOMMA)}), {})

(* ---- cookie: RFC 6265 cookie-string "name=value; name=value"; OpenAPI does not say whether values are percent-encoded: both readings *)
CookiePairs(c) == LET parts == NonEmpty([i \in 1..Len(Split(c, cSEMI)) |-> StripLeft(Split(c, cSEMI)[i])])
                  IN  [i \in 1..Len(parts) |-> SplitFirst(parts[i], cEQ)]
CookieValue(present, c) == IF ~present THEN [ok |-> FALSE, v |-> <<>>]
                           ELSE LET kv == CookiePairs(c)
                                IN  IF Len(kv) = 1 /\ kv[1].a = Name /\ kv[1].f THEN [ok |-> TRUE, v |-> kv[1].b] ELSE [ok |-> FALSE, v |-> <<>>]
CookieDecode(d, present, c) ==
    LET cv == CookieValue(present, c)
        lists == RawSplit(cv.v, cCOMMA, "raw") \cup RawSplit(cv.v, cCOMMA, "pct") \cup DecSplit(cv.v, cCOMMA, "pct")
    IN  IF ~cv.ok THEN None
        ELSE CASE d.type = "prim"  -> SL(AsPrim(Text1(cv.v, "raw") \cup Text1(cv.v, "pct")), {})
               [] d.type = "array" -> SL(AsArr(lists), {})
               [] OTHER            -> SL(AsObj(lists), {})

(* ---- parameters with `content: application/json`: the text of the location is a JSON document (typed comparison) *)
Atom(d, w) ==  \* candidate texts carrying the whole parameter
    CASE d.loc = "path"   -> Text1(w.seg, w.pmode)
      [] d.loc = "query"  -> LET kv == QParts(w.query)
                             IN  IF Len(kv) = 1 /\ Text1(kv[1].a, "form") = {Name} THEN Text1(kv[1].b, "form") ELSE {}
      [] d.loc = "header" -> IF w.hpresent THEN {w.hval} ELSE {}
      [] OTHER            -> LET cv == CookieValue(w.cpresent, w.cookie)
                             IN  IF cv.ok THEN Text1(cv.v, "raw") \cup Text1(cv.v, "pct") ELSE {}
ContentOK(d, v, w) == \E t \in Atom(d, w) : LET j == JsonParse(t) IN j.ok /\ SameTyped(j.val, v)

(* w = the recorded wire fragments: seg, pmode, query, hpresent, hval, cpresent, cookie *)
Decode(d, w) == CASE d.loc = "path"   -> PathDecode(d, w.seg, w.pmode)
                  [] d.loc = "query"  -> QueryDecode(d, w.query)
                  [] d.loc = "header" -> HeaderDecode(d, w.hpresent, w.hval)
                  [] OTHER            -> CookieDecode(d, w.cpresent, w.cookie)

-----------------------------------------------------------------------------
(* Reference encoder, read off the same table (RFC 6570 flavour: data percent-encoded, delimiters literal). Used only  *)
(* for the design invariant RoundTrip and exported for information; recorded requests are judged by Decode alone.      *)
EncItems(v, raw) == [i \in 1..Len(v.items) |-> IF raw THEN Coerce(v.items[i]) ELSE PctEncode(Coerce(v.items[i]))]
EncKeys(v, raw) == [i \in 1..Len(v.keys) |-> IF raw THEN v.keys[i] ELSE PctEncode(v.keys[i])]
Flat(v, raw) == LET ks == EncKeys(v, raw) its == EncItems(v, raw)
                IN  FoldLeft(LAMBDA a, i : a \o <<ks[i], its[i]>>, <<>>, [i \in 1..Len(its) |-> i])
KVs(v, raw) == LET ks == EncKeys(v, raw) its == EncItems(v, raw) IN [i \in 1..Len(its) |-> ks[i] \o <<cEQ>> \o its[i]]
List(d, v, raw, explodeSep, sep) ==        \* the comma (or style) separated body of a composite
    CASE v.k = "prim" -> EncItems(v, raw)[1]
      [] v.k = "arr"  -> Join(EncItems(v, raw), sep)
      [] OTHER        -> IF Explode(d) THEN Join(KVs(v, raw), explodeSep) ELSE Join(Flat(v, raw), sep)
RefEncode(d, v) ==
    IF d.style = "json"
    THEN LET j == JsonText(v)
         IN  CASE d.loc = "path" -> PctEncode(j) [] d.loc = "query" -> Name \o <<cEQ>> \o PctEncode(j)
               [] d.loc = "header" -> j [] OTHER -> Name \o <<cEQ>> \o j
    ELSE IF d.dialect = "swagger2"
    THEN LET raw == d.loc = "header"
             dl  == Delim(d.style)
             sep == IF raw \/ dl = cCOMMA \/ (dl = cPIPE /\ d.loc = "query") THEN <<dl>> ELSE PctEncode(<<dl>>)
             body == IF v.k = "prim" THEN EncItems(v, raw)[1] ELSE Join(EncItems(v, raw), sep)
         IN  IF d.loc = "query"
             THEN (IF d.style = "multi" THEN Join([i \in 1..Len(v.items) |-> Name \o <<cEQ>> \o EncItems(v, FALSE)[i]], <<cAMP>>)
                   ELSE Name \o <<cEQ>> \o body)
             ELSE body
    ELSE CASE d.loc = "path" ->
                CASE Style(d) = "simple" -> List(d, v, FALSE, <<cCOMMA>>, <<cCOMMA>>)
                  [] Style(d) = "label"  -> <<cDOT>> \o (IF v.k = "arr" /\ Explode(d) THEN Join(EncItems(v, FALSE), <<cDOT>>)
                                                       ELSE List(d, v, FALSE, <<cDOT>>, <<cCOMMA>>))
                  [] OTHER -> IF v.k = "prim" THEN (IF Coerce(v.items[1]) = <<>> THEN <<cSEMI>> \o Name
                                                     ELSE <<cSEMI>> \o Name \o <<cEQ>> \o EncItems(v, FALSE)[1])
                              ELSE IF v.k = "arr" /\ Explode(d)
                                   THEN Join([i \in 1..Len(v.items) |-> <<cSEMI>> \o Name \o <<cEQ>> \o EncItems(v, FALSE)[i]], <<>>)
                              ELSE IF v.k = "obj" /\ Explode(d) THEN <<cSEMI>> \o Join(KVs(v, FALSE), <<cSEMI>>)
                              ELSE <<cSEMI>> \o Name \o <<cEQ>> \o Join(IF v.k = "arr" THEN EncItems(v, FALSE) ELSE Flat(v, FALSE), <<cCOMMA>>)
           [] d.loc = "query" ->
                CASE Style(d) = "deepObject" -> Join([i \in 1..Len(v.items) |-> Name \o <<cLBR>> \o EncKeys(v, FALSE)[i] \o <<cRBR, cEQ>> \o EncItems(v, FALSE)[i]], <<cAMP>>)
                  [] Style(d) = "spaceDelimited" -> Name \o <<cEQ>> \o Join(EncItems(v, FALSE), <<cPCT, 50, 48>>)
                  [] Style(d) = "pipeDelimited"  -> Name \o <<cEQ>> \o Join(EncItems(v, FALSE), <<cPIPE>>)
                  [] OTHER -> IF v.k = "arr" /\ Explode(d) THEN Join([i \in 1..Len(v.items) |-> Name \o <<cEQ>> \o EncItems(v, FALSE)[i]], <<cAMP>>)
                              ELSE IF v.k = "obj" /\ Explode(d) THEN Join(KVs(v, FALSE), <<cAMP>>)
                              ELSE Name \o <<cEQ>> \o List(d, v, FALSE, <<cCOMMA>>, <<cCOMMA>>)
           [] d.loc = "header" -> List(d, v, TRUE, <<cCOMMA>>, <<cCOMMA>>)
           [] OTHER -> Name \o <<cEQ>> \o List(d, v, TRUE, <<cCOMMA>>, <<cCOMMA>>)
RefWire(d, v) == LET e == RefEncode(d, v)
                 IN  [seg |-> IF d.loc = "path" THEN e ELSE <<>>, pmode |-> "pct",
                      query |-> IF d.loc = "query" THEN e ELSE <<>>,
                      hpresent |-> d.loc = "header", hval |-> IF d.loc = "header" THEN e ELSE <<>>,
                      cpresent |-> d.loc = "cookie", cookie |-> IF d.loc = "cookie" THEN e ELSE <<>>]

(* Which (definition, value) pairs have a defined, unambiguous decoding ("T"); everything else is outside the fragment. *)
Texts(v) == {Coerce(v.items[i]) : i \in 1..Len(v.items)} \cup {v.keys[i] : i \in 1..Len(v.keys)}
DelimsOf(d) ==
    IF d.dialect = "swagger2" THEN (IF d.type = "array" /\ d.style # "multi" THEN {Delim(d.style)} ELSE {})
    ELSE IF d.type = "prim" THEN {}
    ELSE CASE d.loc = "path" /\ Style(d) = "simple" -> {cCOMMA, cEQ}
           [] d.loc = "path" /\ Style(d) = "label"  -> {cDOT, cCOMMA, cEQ}
           [] d.loc = "path"                        -> {cSEMI, cCOMMA, cEQ}
           [] d.loc = "query" /\ Style(d) = "spaceDelimited" -> {cSP}
           [] d.loc = "query" /\ Style(d) = "pipeDelimited"  -> {cPIPE}
           [] d.loc = "query" /\ Style(d) = "deepObject"     -> {cLBR, cRBR}
           [] d.loc = "query" -> IF Explode(d) THEN {} ELSE {cCOMMA}
           [] OTHER -> {cCOMMA, cEQ}
DotSegs == {<<cDOT>>, <<cDOT, cDOT>>}
CookieOctet(c) == c = 33 \/ c \in 35..43 \/ c \in 45..58 \/ c \in 60..91 \/ c \in 93..126
(* A path value containing '/', '{' or '}' is representable on a raw request line (%2F ...), so a pipeline that percent-encodes  *)
(* must get it through; it is not where the case holds the raw text (explicit cases: the template is filled by str.format and     *)
(* the text is re-parsed) nor where the gateway hands over an already decoded path (WSGI PATH_INFO cannot tell %2F from '/').     *)
FragmentAt(d, v, explicit, pmode) ==
    LET ts == Texts(v) IN
    CASE d.loc = "path" /\ (explicit \/ pmode = "dec") /\ \E t \in ts : Has(t, {cSLASH, cLCB, cRCB}) -> "unsendable-path-value"
      [] d.style = "json" -> IF d.loc \in {"header", "cookie"} /\ \E t \in Texts(v) : \E i \in 1..Len(t) : t[i] > 126 \/ t[i] < 32
                             THEN "non-ascii-field" ELSE IF d.loc = "cookie" THEN "cookie-octet" ELSE "T"
      [] v.k # "prim" /\ Len(v.items) = 0 -> "empty-composite"
      [] d.dialect = "oas3" /\ d.loc = "cookie" /\ d.type # "prim" /\ Explode(d) -> "style-without-decoding"
      [] d.dialect = "oas3" /\ d.loc = "query" /\ Style(d) = "deepObject" /\ d.type # "object" -> "style-without-decoding"
      [] d.dialect = "oas3" /\ d.loc = "query" /\ Style(d) \in {"spaceDelimited", "pipeDelimited"} /\ (d.type # "array" \/ Explode(d)) -> "style-without-decoding"
      [] \E t \in ts : Has(t, DelimsOf(d)) -> "item-contains-delimiter"
      \* the segment would be empty, or the style's own syntax (not the value) would make it a dot segment that RFC 3986 5.2.4 removes
      [] d.loc = "path" /\ (RefEncode(d, v) = <<>> \/ (RefEncode(d, v) \in DotSegs /\ ts \cap DotSegs = {})) -> "unsendable-path-value"
      [] d.loc \in {"header", "cookie"} /\ \E t \in ts : \E i \in 1..Len(t) : t[i] > 126 \/ (t[i] < 32 /\ t[i] # cTAB) -> "non-ascii-field"
      [] d.loc = "header" /\ \E t \in ts : t # <<>> /\ (t[1] \in {cSP, cTAB} \/ t[Len(t)] \in {cSP, cTAB}) -> "field-whitespace"
      [] d.loc = "header" /\ d.dialect = "swagger2" /\ d.type = "array" /\ d.style \in {"ssv", "tsv"} /\ \E t \in ts : t = <<>> -> "field-whitespace"
      [] d.loc = "cookie" /\ \E t \in ts : \E i \in 1..Len(t) : ~CookieOctet(t[i]) /\ t[i] # cPCT -> "cookie-octet"
      [] OTHER -> "T"
Fragment(d, v) == FragmentAt(d, v, FALSE, "pct")

-----------------------------------------------------------------------------
(* verdict of the parameter part of a request: "T" recovered, "F" not recovered, "U" outside the fragment / ambiguous *)
ParamVerdict(d, v, w, alsoDecoded) ==
    LET fr == FragmentAt(d, v, alsoDecoded, w.pmode)
        want == Expected(v)
        \* explicit cases may hold already percent-encoded path text: its single percent-decoding is accepted too (DESIGN App. D)
        alt == IF alsoDecoded /\ d.loc = "path"
               THEN LET r == [i \in 1..Len(want.items) |-> Txt(want.items[i], "pct")]
                    IN  IF \E i \in 1..Len(want.items) : r[i].bad THEN want
                        ELSE [want EXCEPT !.items = [i \in 1..Len(want.items) |-> r[i].t]]
               ELSE want
        \* ... and so is the case text appearing verbatim on the wire (the user wrote the percent-encoding himself)
        verbatim == /\ alsoDecoded /\ d.loc = "path" /\ v.k = "prim"
                    /\ IF w.pmode = "pct" THEN PctUpper(w.seg) = PctUpper(want.items[1])
                       ELSE LET p == PctDecode(Utf8Encode(want.items[1]), FALSE) IN ~p.bad /\ p.out = w.seg
        \* an explicit text whose percent-triplets denote bytes that are not UTF-8 has no value to recover (a gateway may replace the bytes)
        notText == /\ alsoDecoded /\ d.loc = "path" /\ v.k = "prim"
                   /\ LET p == PctDecode(Utf8Encode(want.items[1]), FALSE) IN ~p.bad /\ Utf8Decode(p.out).bad
    IN  IF fr # "T" THEN [v |-> "U", why |-> fr]
        ELSE IF verbatim THEN [v |-> "T", why |-> ""]
        ELSE IF notText THEN [v |-> "U", why |-> "explicit-text-not-utf8"]
        ELSE IF d.style = "json" THEN (IF ContentOK(d, v, w) THEN [v |-> "T", why |-> ""] ELSE [v |-> "F", why |-> "json"])
        ELSE IF d.loc = "cookie" /\ CookieValue(w.cpresent, w.cookie).ok /\ CookieValue(w.cpresent, w.cookie).v # <<>>
                /\ Head(CookieValue(w.cpresent, w.cookie).v) = cDQ THEN [v |-> "U", why |-> "quoted-cookie-value"]
        ELSE LET dd == Decode(d, w)
             IN  IF In(dd.strict, want) \/ In(dd.strict, alt) THEN [v |-> "T", why |-> ""]
                 ELSE IF In(dd.lenient, want) \/ In(dd.lenient, alt) THEN [v |-> "U", why |-> "only-lenient-reading"]
                 ELSE [v |-> "F", why |-> IF dd.strict = {} /\ dd.lenient = {} THEN "no-parse" ELSE "other-value"]

-----------------------------------------------------------------------------
(* The bounded family.  Alphabet: a 1 space % + / . & = , ; e-acute *)
Alphabet == {97, 49, 32, 37, 43, 47, 46, 38, 61, 44, 59, 233}
(* The family operators take the bounds as parameters so that TLC evaluates them only where they are used (Init);    *)
(* WireJudge extends this module and must not pay for the enumeration.                                                  *)
Strs(n) == UNION {[1..k -> Alphabet] : k \in 0..n}
Extra == {<<46, 46>>, <<97, 32, 97>>, <<37, 52, 49>>, <<37, 50, 48>>, <<97, 43, 97>>, <<49, 44, 49>>, <<233, 49>>, <<97, 38, 97, 61, 49>>,
          <<97, 37>>, <<116, 114, 117, 101>>, <<124>>, <<91>>, <<9>>}
Specials == {PInt(0), PInt(1), PInt(12), PBool(TRUE), PBool(FALSE), PNull}
PrimVals(n) == {PStr(s) : s \in Strs(n) \cup Extra} \cup Specials
(* The item classes are the same in both tiers (so that the same value features are judged for the same definitions);   *)
(* the thorough tier adds the full product of pairs.                                                                     *)
ItemsA == {PStr(s) : s \in Strs(1)} \cup (Specials \ {PInt(12)})
             \cup {PStr(s) : s \in {<<97, 32, 97>>, <<37, 52, 49>>, <<97, 43, 97>>, <<46, 46>>, <<233, 49>>, <<124>>, <<9>>}}
ItemsB == {PStr(s) : s \in Strs(1)} \cup {PBool(FALSE), PNull, PInt(0)}
Second == {PStr(<<>>), PBool(TRUE), PNull, PInt(0)}
pA == PStr(<<97>>)
ItemPairs(r) == IF r THEN {<<x, y>> : x \in ItemsA, y \in ItemsB}
            ELSE {<<x, pA>> : x \in ItemsA} \cup {<<pA, y>> : y \in Second}
KeysA == {<<32>>, <<61>>, <<233>>, <<37>>, <<38>>, <<44>>, <<46>>, <<93>>}
kA == <<97>>   kB == <<98>>
ArrVals(r) == {VArr(<<>>)} \cup {VArr(<<x>>) : x \in ItemsA} \cup {VArr(p) : p \in ItemPairs(r)}
ObjVals(r) == {VObj(<<>>, <<>>)} \cup {VObj(<<kA>>, <<x>>) : x \in ItemsA} \cup {VObj(<<k>>, <<pA>>) : k \in KeysA}
                 \cup {VObj(<<kA, kB>>, p) : p \in ItemPairs(r)}
ValsOf(type, n, r) == CASE type = "prim" -> {VPrim(p) : p \in PrimVals(n)} [] type = "array" -> ArrVals(r) [] OTHER -> ObjVals(r)
Long(r) == IF r THEN {VPrim(PStr(s)) : s \in [1..3 -> Alphabet]} ELSE {}

Types == {"prim", "array", "object"}
Ex3 == {"default", "true", "false"}
D3(loc, style, explode, type) == [dialect |-> "oas3", loc |-> loc, style |-> style, explode |-> explode, type |-> type]
D2(loc, fmt, type) == [dialect |-> "swagger2", loc |-> loc, style |-> fmt, explode |-> "default", type |-> type]
Defs ==
    {D3("path", s, e, t) : s \in {"default", "simple", "label", "matrix"}, e \in Ex3, t \in Types}
    \cup {D3("query", s, e, t) : s \in {"default", "form"}, e \in Ex3, t \in Types}
    \cup {D3("query", s, e, "array") : s \in {"spaceDelimited", "pipeDelimited"}, e \in {"default", "false"}}
    \cup {D3("query", "deepObject", e, "object") : e \in {"default", "true"}}
    \cup {D3("header", s, e, t) : s \in {"default", "simple"}, e \in Ex3, t \in Types}
    \cup {D3("cookie", s, e, t) : s \in {"default", "form"}, e \in Ex3, t \in Types}
    \cup {D3(l, "json", "default", t) : l \in {"path", "query", "header", "cookie"}, t \in Types}
    \cup {D2(l, "default", "prim") : l \in {"path", "query", "header"}}
    \cup {D2(l, f, "array") : l \in {"path", "query", "header"}, f \in {"default", "csv", "ssv", "tsv", "pipes"}}
    \cup {D2("query", "multi", "array")}
NoDef == D3("none", "default", "default", "prim")

(* element kinds: "param" one parameter; "url" base URL x template x primitive path value (+ configured header);   *)
(* "body" media type x value                                                                                           *)
Bases == 1..8       \* concretised by the driver: "", "/", "/api", "/api/", "/api/v1", servers-derived "/srv", call-time base_url,
                    \* and a host-less base URL "/api" of an in-process (WSGI / ASGI) application
Tmpls == 1..3       \* "/x/{p}", "/x/{p}/y", "/{p}"
UrlVals == {VPrim(p) : p \in {PStr(s) : s \in Strs(1) \cup Extra} \cup {PInt(0)}} \ {VPrim(PStr(<<>>))}
JsonVals(r) == {VPrim(p) : p \in {PStr(s) : s \in Strs(1) \cup Extra} \cup Specials} \cup ArrVals(r) \cup ObjVals(r)
TextVals(n) == {VPrim(p) : p \in {PStr(s) : s \in Strs(n) \cup Extra} \cup {PInt(0), PInt(12)}}
El(kind, d, v, b, t, m) == [kind |-> kind, def |-> d, val |-> v, base |-> b, tmpl |-> t, media |-> m]
ParamEls(n, r) == UNION {{El("param", d, v, 3, IF d.loc = "path" THEN 2 ELSE 0, "none") : v \in ValsOf(d.type, n, r)} : d \in Defs}
LongEls(r) == {El("param", d, v, 3, IF d.loc = "path" THEN 2 ELSE 0, "none") :
                 d \in {D3("path", "simple", "default", "prim"), D3("path", "label", "false", "prim"), D3("path", "matrix", "false", "prim"),
                        D3("query", "form", "default", "prim"), D2("path", "default", "prim"), D2("query", "default", "prim")},
                 v \in Long(r)}
PathPrim == D3("path", "simple", "default", "prim")
UrlEls == {El("url", PathPrim, v, b, t, "none") : v \in UrlVals, b \in Bases, t \in Tmpls}
(* multipart/form-data: small text-only forms over the declared properties a, b (and the same with `a` declared as a binary /  *)
(* file-like field).  The Content-Type's media type and the decoded parts (MultipartVerdict below) are judged for them.          *)
AllStr(v) == \A i \in 1..Len(v.items) : v.items[i].t = "str"
MultipartVals(r) == {v \in {VObj(<<kA>>, <<x>>) : x \in ItemsA} \cup {VObj(<<kA, kB>>, p) : p \in ItemPairs(r)} : AllStr(v)}
(* ... and forms whose field `a` is ARRAY-valued ("multipart-array": the pairs with the repeated key a are the items of the one field a, *)
(* the driver presents <<a: x, a: y, b: z>> as {a: [x, y], b: z}): one item, two items, two items next to the scalar field b.           *)
MultipartArrVals(r) == {v \in {VObj(<<kA>>, <<x>>) : x \in ItemsA} \cup {VObj(<<kA, kA>>, p) : p \in ItemPairs(r)}
                                \cup {VObj(<<kA, kA, kB>>, p \o <<pA>>) : p \in ItemPairs(r)} : AllStr(v)}
(* Media types whose payload encoding is outside the fragment (YAML, XML, binary, a non-object value sent as multipart): only the   *)
(* Content-Type clause is judged for them.  A structured-syntax suffix (+json) is JSON; a form may be generated as a list of          *)
(* one-pair objects ("form-list": the driver presents {a: x, b: y} as [{a: x}, {b: y}]) and must arrive as the same pairs.             *)
CtypeOnlyMedia == {"yaml", "xml", "binary", "multipart-raw"}
SmallVals == {VPrim(PStr(s)) : s \in {<<97>>, <<97, 32, 97>>, <<233, 49>>}} \cup {VObj(<<kA>>, <<PStr(s)>>) : s \in {<<97>>, <<97, 32, 97>>}}
BodyEls(n, r) == {El("body", NoDef, v, 3, 0, "json") : v \in JsonVals(r)}
                    \cup {El("body", NoDef, v, 3, 0, "json-suffix") : v \in {w \in JsonVals(r) : Len(w.items) <= 1}}
                    \cup {El("body", NoDef, v, 3, 0, m) : v \in SmallVals, m \in {"yaml", "xml"}}
                    \cup {El("body", NoDef, v, 3, 0, m) : v \in {w \in SmallVals : w.k = "prim"}, m \in {"binary", "multipart-raw"}}
                    \cup {El("body", NoDef, VObj(<<kA, kB>>, p), 3, 0, "form-list") : p \in {q \in ItemPairs(r) : q[1].t \in {"str", "int"} /\ q[2].t \in {"str", "int"}}}
                    \cup {El("body", NoDef, v, 3, 0, m) : v \in MultipartVals(r), m \in {"multipart", "multipart-file"}}
                    \cup {El("body", NoDef, v, 3, 0, "multipart-array") : v \in MultipartArrVals(r)}
                    \cup {El("body", NoDef, v, 3, 0, "form") : v \in ObjVals(r)}
                    \cup {El("body", NoDef, v, 3, 0, "text") : v \in TextVals(n)}
(* ---- history of sends.  ONE case (query q = the value, cookie c = 1, header X-H = h) is sent two or three times; a send may carry    *)
(* call-level extras (case.call(params= / headers= / cookies=)).  Every request must be the case plus THAT call's extras - nothing     *)
(* from an earlier call - and sending must leave the case's own containers as they were.  `tmpl` encodes the history: 100 * length +    *)
(* the base-4 number of its steps.                                                                                                      *)
StepKinds == <<"plain", "params", "headers", "cookies">>
Pow4(k) == IF k = 0 THEN 1 ELSE IF k = 1 THEN 4 ELSE 16
HistOf(code) == [j \in 1..(code \div 100) |-> StepKinds[(((code % 100) \div Pow4(j - 1)) % 4) + 1]]
HistCodes == {200 + c : c \in 0..15} \cup {300 + c : c \in 0..63}
HistVals == {VPrim(PStr(s)) : s \in {<<97>>, <<97, 32, 97, 38, 97, 61, 49>>}}                  \* "a", "a a&a=1"
HistEls == {El("hist", NoDef, v, 3, c, "none") : v \in HistVals, c \in HistCodes}
tQ == <<113>>   tC == <<99>>   tD == <<100>>   t1 == <<49>>   t2 == <<50>>   tLimit == <<108, 105, 109, 105, 116>>   t10 == <<49, 48>>
tH == <<104>>   tE == <<101>>
WantQueryPairs(v, step) == {<<tQ, Coerce(v.items[1])>>} \cup (IF step = "params" THEN {<<tLimit, t10>>} ELSE {})
WantCookiePairs(step) == {<<tC, t1>>} \cup (IF step = "cookies" THEN {<<tD, t2>>} ELSE {})
WantOwnHeaders(step) == {<<"x-h", tH>>} \cup (IF step = "headers" THEN {<<"x-e", tE>>} ELSE {})
Elements(n, r) == ParamEls(n, r) \cup LongEls(r) \cup UrlEls \cup BodyEls(n, r) \cup HistEls

VARIABLE el
Init == el \in Elements(StrLen, Rich)
Next == UNCHANGED el
Spec == Init /\ [][Next]_el

-----------------------------------------------------------------------------
(* design invariants, checked on every element *)
(* media type of a Content-Type field value: the part before the parameters, blanks trimmed, case-insensitive (RFC 7231 3.1.1.1) *)
LowerCase(t) == [i \in 1..Len(t) |-> IF t[i] \in 65..90 THEN t[i] + 32 ELSE t[i]]
MediaTypeOf(t) == LowerCase(Reverse(StripLeft(Reverse(StripLeft(SplitFirst(t, cSEMI).a)))))

-----------------------------------------------------------------------------
(* multipart/form-data (RFC 7578) in the multipart syntax of RFC 2046 5.1.1:                                                         *)
(*   body := [preamble CRLF] "--" boundary CRLF part *(CRLF "--" boundary CRLF part) CRLF "--" boundary "--" [CRLF epilogue]          *)
(*   part := header fields, an empty line, the content (a part without an empty line has header fields only and empty content)       *)
(* the boundary is the `boundary` parameter of the Content-Type; the field a part belongs to is the `name` parameter of its           *)
(* Content-Disposition (RFC 7578 4.2); `filename` and a part's own Content-Type do not change which field / what content it is.       *)
(* RFC 7578 4.3 and OpenAPI 3.0 ("Special Considerations for multipart Content"): a field with several values (an array) is sent as  *)
(* ONE PART PER VALUE, all with the field's name, in the order of the values.  Field names of the family are plain tokens.            *)
cCR == 13      cLF == 10
CRLF == <<cCR, cLF>>
DashDash == <<cMINUS, cMINUS>>
StartsWith(s, p) == Len(s) >= Len(p) /\ SubSeq(s, 1, Len(p)) = p
SplitSeq(s, d) ==      \* split on every (leftmost, non-overlapping) occurrence of the non-empty sequence d
    LET n == Len(d)
        r == FoldLeft(LAMBDA st, i : IF st.skip > 0 THEN [st EXCEPT !.skip = @ - 1]
                                     ELSE IF i + n - 1 <= Len(s) /\ SubSeq(s, i, i + n - 1) = d
                                          THEN [parts |-> Append(st.parts, st.cur), cur |-> <<>>, skip |-> n - 1]
                                          ELSE [st EXCEPT !.cur = Append(@, s[i])],
                      [parts |-> <<>>, cur |-> <<>>, skip |-> 0], [i \in 1..Len(s) |-> i])
    IN  Append(r.parts, r.cur)
Trim(t) == Reverse(StripLeft(Reverse(StripLeft(t))))
Unquote(t) == IF Len(t) >= 2 /\ t[1] = cDQ /\ t[Len(t)] = cDQ THEN SubSeq(t, 2, Len(t) - 1) ELSE t
(* parameter `name` of a field value `token *( ";" name "=" ( token / quoted-string ) )` (RFC 7231 3.1.1.1, RFC 6266 4.1) *)
ParamOf(field, name) ==
    LET ps == Tail(Split(field, cSEMI))
        kv == [j \in 1..Len(ps) |-> SplitFirst(ps[j], cEQ)]
        hit == {j \in 1..Len(ps) : kv[j].f /\ LowerCase(Trim(kv[j].a)) = name}
    IN  IF hit = {} THEN [ok |-> FALSE, v |-> <<>>]
        ELSE [ok |-> TRUE, v |-> Unquote(Trim(kv[CHOOSE j \in hit : \A k \in hit : j <= k].b))]
tBoundary == <<98, 111, 117, 110, 100, 97, 114, 121>>                                                            \* "boundary"
tName == <<110, 97, 109, 101>>                                                                                   \* "name"
tContentDisposition == <<99, 111, 110, 116, 101, 110, 116, 45, 100, 105, 115, 112, 111, 115, 105, 116, 105, 111, 110>>   \* "content-disposition"
PartOf(p) ==
    LET sp == SplitSeq(p, CRLF \o CRLF)
        hc == IF StartsWith(p, CRLF) THEN [h |-> <<>>, c |-> SubSeq(p, 3, Len(p))]       \* no header fields at all
              ELSE [h |-> sp[1], c |-> Join(Tail(sp), CRLF \o CRLF)]
        lines == SplitSeq(hc.h, CRLF)
        fld == [j \in 1..Len(lines) |-> SplitFirst(lines[j], cCOLON)]
        cd == {j \in 1..Len(lines) : fld[j].f /\ LowerCase(Trim(fld[j].a)) = tContentDisposition}
        nm == IF cd = {} THEN [ok |-> FALSE, v |-> <<>>] ELSE ParamOf(fld[CHOOSE j \in cd : \A k \in cd : j <= k].b, tName)
    IN  [ok |-> nm.ok, n |-> nm.v, c |-> hc.c]
MultipartParse(ct, body) ==
    LET bd == ParamOf(ct, tBoundary)
        pieces == SplitSeq(CRLF \o body, CRLF \o DashDash \o bd.v)          \* [preamble, CRLF part, ..., "--" epilogue]
        n == Len(pieces)
        ok == /\ bd.ok /\ bd.v # <<>> /\ n >= 2
              /\ StartsWith(pieces[n], DashDash)
              /\ \A j \in 2..(n - 1) : StartsWith(pieces[j], CRLF)
        parts == [j \in 1..(n - 2) |-> PartOf(SubSeq(pieces[j + 1], 3, Len(pieces[j + 1])))]
    IN  IF ok /\ \A j \in 1..(n - 2) : parts[j].ok THEN [ok |-> TRUE, parts |-> parts] ELSE [ok |-> FALSE, parts |-> <<>>]
MultipartMedia == {"multipart", "multipart-file", "multipart-array"}
WantParts(v) == [j \in 1..Len(v.items) |-> [n |-> v.keys[j], t |-> Coerce(v.items[j])]]
ValuesOf(parts, name) == LET sel == SelectSeq(parts, LAMBDA p : p.n = name) IN [j \in 1..Len(sel) |-> sel[j].t]
(* "T": the body is a multipart message under the Content-Type's boundary whose parts are, field by field, the values of the case *)
MultipartVerdict(v, ct, body) ==
    LET m == MultipartParse(ct, body)
        dn == [j \in 1..Len(m.parts) |-> Utf8Decode(m.parts[j].n)]
        dc == [j \in 1..Len(m.parts) |-> Utf8Decode(m.parts[j].c)]
        got == [j \in 1..Len(m.parts) |-> [n |-> dn[j].t, t |-> dc[j].t]]
        want == WantParts(v)
        names == {got[j].n : j \in 1..Len(got)} \cup {want[j].n : j \in 1..Len(want)}
    IN  IF /\ m.ok /\ \A j \in 1..Len(m.parts) : ~dn[j].bad /\ ~dc[j].bad
           /\ \A x \in names : ValuesOf(got, x) = ValuesOf(want, x)
        THEN "T" ELSE "F"
(* reference encoding read off the same grammar (boundary "x"), and what a serializer that flattens an array field would send *)
tCD == <<67, 111, 110, 116, 101, 110, 116, 45, 68, 105, 115, 112, 111, 115, 105, 116, 105, 111, 110, 58, 32,
         102, 111, 114, 109, 45, 100, 97, 116, 97, 59, 32, 110, 97, 109, 101, 61, 34>>                 \* `Content-Disposition: form-data; name="`
RefMultipart(parts, b) == FoldLeft(LAMBDA a, p : a \o DashDash \o b \o CRLF \o tCD \o Utf8Encode(p.n) \o <<cDQ>> \o CRLF \o CRLF
                                                   \o Utf8Encode(p.t) \o CRLF, <<>>, parts) \o DashDash \o b \o DashDash \o CRLF
RefCtype(b) == <<109, 117, 108, 116, 105, 112, 97, 114, 116, 47, 102, 111, 114, 109, 45, 100, 97, 116, 97, 59, 32>> \o tBoundary \o <<cEQ>> \o b
Flattened(v) == LET w == WantParts(v)
                    xs == ValuesOf(w, kA)
                IN  <<[n |-> kA, t |-> Join(xs, <<cCOMMA>>)]>> \o SelectSeq(w, LAMBDA p : p.n # kA)
(* the decoder is a left inverse of the reference encoder on the family; a flattened array field (two items in one part) is rejected *)
MultipartRoundTrip == (el.kind = "body" /\ el.media \in MultipartMedia) =>
    /\ MultipartVerdict(el.val, RefCtype(<<120>>), RefMultipart(WantParts(el.val), <<120>>)) = "T"
    /\ Len(ValuesOf(WantParts(el.val), kA)) >= 2
          => MultipartVerdict(el.val, RefCtype(<<120>>), RefMultipart(Flattened(el.val), <<120>>)) = "F"

TypeOK == el.kind \in {"param", "url", "body", "hist"} /\ el.val.k \in {"prim", "arr", "obj"}
(* the decoders are left inverses of the table's encoder on the fragment *)
RoundTrip == (el.kind \in {"param", "url"} /\ Fragment(el.def, el.val) = "T")
                => ParamVerdict(el.def, el.val, RefWire(el.def, el.val), FALSE).v = "T"
(* percent-encoding and UTF-8 are inverse on every text of the family *)
CodecRoundTrip == \A t \in Texts(el.val) : /\ Txt(PctEncode(t), "pct") = [t |-> t, bad |-> FALSE]
                                           /\ Txt(PctEncode(t), "form") = [t |-> t, bad |-> FALSE]
                                           /\ Utf8Decode(Utf8Encode(t)) = [t |-> t, bad |-> FALSE]
(* JSON text of every value parses back to the same typed value *)
MediaTypeSane == MediaTypeOf(<<77, 117, 108, 116, 105, 47, 88, cSP, cSEMI, cSP, 98, cEQ, 49>>) = <<109, 117, 108, 116, 105, 47, 120>>   \* "Multi/X ; b=1"
JsonRoundTrip == LET j == JsonParse(JsonText(el.val)) IN j.ok /\ SameTyped(j.val, el.val)
(* coercion never confuses a boolean / null with Python's spelling *)
CoerceJsonLike == \A i \in 1..Len(el.val.items) : el.val.items[i].t = "bool" => Coerce(el.val.items[i]) \in {<<116, 114, 117, 101>>, <<102, 97, 108, 115, 101>>}

Export == PrintT(<<"CASE", ToJson([kind |-> el.kind, def |-> el.def, val |-> el.val, base |-> el.base, tmpl |-> el.tmpl, media |-> el.media,
                                   hist |-> IF el.kind = "hist" THEN HistOf(el.tmpl) ELSE <<>>,
                                   fragment |-> IF el.kind \in {"param", "url"} THEN Fragment(el.def, el.val) ELSE "T",
                                   want |-> Expected(el.val),
                                   ref |-> IF el.kind = "param" THEN RefEncode(el.def, el.val) ELSE <<>>])>>)
(* every history has 2 or 3 steps, each one of the four kinds *)
HistSane == el.kind = "hist" => LET h == HistOf(el.tmpl) IN Len(h) \in {2, 3} /\ \A j \in 1..Len(h) : h[j] \in {"plain", "params", "headers", "cookies"}
=============================================================================
