------------------------------ MODULE Examples ------------------------------
(***************************************************************************)
(* C17 - every example of the API document is sent, verbatim, in the       *)
(* examples phase.                                                         *)
(*                                                                         *)
(* State: `op`, the descriptor of one documented operation: its parameters *)
(* and request bodies, each with a schema and the examples the document    *)
(* attaches to it (WHERE - parameter / media-type object or inside the     *)
(* schema at a path through properties, items, anyOf/oneOf/allOf branches; *)
(* HOW - `example`, `examples` map, referenced example, JSON-Schema        *)
(* `examples` list, the OpenAPI 2.0 `x-` forms).  The abstract machine of  *)
(* the phase is Extract (AllExamples) -> Combine (any family of            *)
(* combinations in which every example occurs; RoundRobin is the intended  *)
(* one and is model-checked to be such a family) -> Fill -> Send.          *)
(*                                                                         *)
(* The requirement (Judge) is stated on what was SENT for the operation:   *)
(*   - every example occurs unchanged at its place in >= 1 request, or the *)
(*     operation is reported as an error and really has an example that    *)
(*     cannot be put on the wire;                                          *)
(*   - required inputs are never missing, inputs without examples are      *)
(*     schema-valid (OasSchema!Valid / CoercedV / CoercedD, "F" only);     *)
(*   - no examples => nothing sent and reported as skipped.                *)
(***************************************************************************)
EXTENDS OasSchema, Json

CONSTANT Thorough

MinOf(S) == CHOOSE i \in S : \A j \in S : i <= j
Cp(k) == 48 + k
PName(k) == <<112, Cp(k)>>                                      \* p1, p2, p3
MTJson == <<97, 112, 112, 108, 105, 99, 97, 116, 105, 111, 110, 47, 106, 115, 111, 110>>      \* application/json
MTTextJson == <<116, 101, 120, 116, 47, 106, 115, 111, 110>>                                  \* text/json
MTForm == <<97, 112, 112, 108, 105, 99, 97, 116, 105, 111, 110, 47, 120, 45, 119, 119, 119, 45, 102, 111, 114, 109, 45, 117, 114, 108, 101, 110, 99, 111, 100, 101, 100>>
MTUnknown == <<97, 112, 112, 108, 105, 99, 97, 116, 105, 111, 110, 47, 120, 45, 118, 101, 114, 105, 102>>       \* application/x-verif
AnyMT == <<42>>
Tid == <<105, 100>>
Tname == <<110, 97, 109, 101>>
Ta == <<97>>
Tb == <<98>>
Tc == <<99>>
Td == <<100>>
To == <<111>>
IntV(n) == [t |-> "int", v |-> n]
StrV(s) == [t |-> "str", v |-> s]
ExVal(ty, k, j) == IF ty = "integer" THEN IntV(10 * k + j)                                         \* 11, 12, ..
                   ELSE IF ty = "boolean" THEN [t |-> "bool", v |-> TRUE]
                   ELSE IF ty = "text" THEN StrV(<<115, 38, 61, 32, 233, 37, 43, Cp(k), Cp(j)>>)      \* "s&= e'%+11": needs escaping on the wire
                   ELSE StrV(<<115, Cp(k), Cp(j)>>)                                                   \* "s11", ..
TyOf(ty) == IF ty = "text" THEN "string" ELSE ty
Leaf(ty) == [sk |-> "schema", type |-> <<ty>>]
Empty == [sk |-> "schema"]

(* ------------------------------------------------------------------ extraction *)
(* ex entry: [level : "outer" | "schema", at : Seq(step), form, vals]; step = [k |-> "prop", name] | [k |-> "item"]   *)
(* | [k |-> "branch", kw, i].  A branch does not change WHERE in the value the example lives.                           *)
Where(at) == SelectSeq(at, LAMBDA s : s.k # "branch")
ExOf(kind, name, exs) ==
  UNION {{[kind |-> kind, name |-> name, path |-> Where(exs[i].at), v |-> exs[i].vals[j]] : j \in DOMAIN exs[i].vals} : i \in DOMAIN exs}
BodyPart(op, b) == IF op.dialect = "2.0" THEN AnyMT ELSE b.mt     \* 2.0: the body parameter is not tied to a media type
AllExamples(op) ==
  UNION {ExOf(op.params[i].loc, op.params[i].name, op.params[i].ex) : i \in DOMAIN op.params}
  \cup UNION {ExOf("body", BodyPart(op, op.bodies[i]), op.bodies[i].ex) : i \in DOMAIN op.bodies}
(* an example that HTTP cannot carry: a header value with a control character or outside latin-1 (RFC 7230 3.2.6) *)
BadHeaderText(v) == v.t = "str" /\ \E i \in DOMAIN v.v : v.v[i] < 32 \/ v.v[i] = 127 \/ v.v[i] > 255
BadExample(e) == e.kind \in {"header", "cookie"} /\ BadHeaderText(e.v)
Unsendable(op) == \E e \in AllExamples(op) : BadExample(e)
(* Beside an unsendable example: the other examples of the SAME parameter can all be sent and must be.  Examples of other  *)
(* parts may have been combined with the unsendable one (which combination carries which example is not fixed by the      *)
(* property), so they are not demanded - they are counted as undecided by the harness.                                     *)
(* Media types for which a JSON-like example value has a defined serialisation (JSON, RFC 1866 forms); an example (or a   *)
(* required body without example) for any other media type cannot be put on the wire.                                    *)
IsForm(mt) == LowerTxt(mt) = MTForm
KnownMT(mt) == LowerTxt(mt) \in {MTJson, MTTextJson, MTForm}
Unserializable(op) == \E i \in DOMAIN op.bodies : ~KnownMT(op.bodies[i].mt)
(* a required input without example whose schema no value satisfies (minimum > maximum), or a required body that has no  *)
(* serialisable media type at all: no request with all required inputs valid exists                                       *)
Unsatisfiable(s) == s.sk = "schema" /\ Has(s, "minimum") /\ Has(s, "maximum") /\ s.minimum > s.maximum
Unfillable(op) == \/ \E i \in DOMAIN op.params : op.params[i].required /\ op.params[i].ex = <<>> /\ Unsatisfiable(op.params[i].schema)
                  \/ /\ \E i \in DOMAIN op.bodies : op.bodies[i].required
                     /\ \A i \in DOMAIN op.bodies : ~KnownMT(op.bodies[i].mt) /\ op.bodies[i].ex = <<>>
ErrorJustified(op) == Unsendable(op) \/ Unserializable(op) \/ Unfillable(op)
Demanded(op) == IF Unfillable(op) THEN {}
                ELSE IF Unsendable(op)
                THEN {e \in AllExamples(op) : ~BadExample(e) /\ \E b \in AllExamples(op) : BadExample(b) /\ b.kind = e.kind /\ b.name = e.name}
                ELSE IF Unserializable(op)      \* bodies of the serialisable media types are separate combinations: still sent
                THEN {e \in AllExamples(op) : e.kind = "body" /\ e.name # AnyMT /\ KnownMT(e.name)}
                ELSE AllExamples(op)

(* ------------------------------------------------------------------ combination (design level) *)
(* Pools: the examples of each part that has some.  RoundRobin: combination number c takes, from every pool, the       *)
(* example number ((c - 1) mod size) + 1, for c = 1 .. the largest pool.  Covers: every example is in some combination. *)
PoolSizes(op) == [i \in DOMAIN op.params |-> Cardinality(ExOf("x", <<>>, op.params[i].ex))]
RoundRobin(sizes) == LET m == IF sizes = <<>> THEN 0 ELSE CHOOSE x \in {sizes[i] : i \in DOMAIN sizes} : \A i \in DOMAIN sizes : sizes[i] <= x
                     IN [c \in 1..m |-> [i \in DOMAIN sizes |-> IF sizes[i] = 0 THEN 0 ELSE ((c - 1) % sizes[i]) + 1]]
Covers(sizes, combos) == \A i \in DOMAIN sizes : \A j \in 1..sizes[i] : \E c \in DOMAIN combos : combos[c][i] = j

(* ------------------------------------------------------------------ what was sent *)
(* request = [parts : Seq([kind, name, v])]; mode "case": v is the value in the generated Case; mode "wire": values of  *)
(* non-body parts are the TEXT decoded from the request line / header section, bodies are the parsed JSON.              *)
BoolText(b) == IF b THEN <<116, 114, 117, 101>> ELSE <<102, 97, 108, 115, 101>>
SentText(v) == CASE v.t = "str" -> v.v [] v.t = "int" -> DigitsOf(v.v) [] v.t = "bool" -> BoolText(v.v) [] OTHER -> <<0>>
AsText(e, v) == v.t = "str" /\ e.t \in {"str", "int", "bool"} /\ v.v = SentText(e)
(* a Case may hold a non-body value already in the text form it is sent as (headers and cookies always are) *)
(* kind "form": a leaf of a form-urlencoded body - text on the wire like a query value *)
Leaf1(e, v, mode) == IF mode = "wire" THEN AsText(e, v) ELSE Eq3(e, v) = "T" \/ AsText(e, v)
Same(e, v, kind, mode) == IF kind = "body" THEN Eq3(e, v) = "T"
                          ELSE IF kind = "form" /\ e.t = "obj"          \* a whole form: the same fields, each with the same text
                          THEN /\ v.t = "obj" /\ ~DupKeys(e) /\ ~DupKeys(v) /\ Len(e.k) = Len(v.k)
                               /\ \A i \in DOMAIN e.k : ObjHas(v, e.k[i]) /\ Leaf1(e.v[i], ObjGet(v, e.k[i]), mode)
                          ELSE Leaf1(e, v, mode)
RECURSIVE At(_, _, _, _, _)
At(v, path, e, kind, mode) ==
  IF path = <<>> THEN Same(e, v, kind, mode)
  ELSE LET s == Head(path) IN
       IF s.k = "prop" THEN v.t = "obj" /\ ObjHas(v, s.name) /\ At(ObjGet(v, s.name), Tail(path), e, kind, mode)
       ELSE v.t = "arr" /\ \E i \in DOMAIN v.v : At(v.v[i], Tail(path), e, kind, mode)
PartMatch(p, kind, name) == p.kind = kind /\ (name = AnyMT \/ LowerTxt(p.name) = LowerTxt(name))
(* an OpenAPI 2.0 `in: formData` parameter is the field of that name in the form body *)
Occurs(e, r, mode) ==
  IF e.kind = "formData"
  THEN \E i \in DOMAIN r.parts : r.parts[i].kind = "body" /\ At(r.parts[i].v, <<[k |-> "prop", name |-> e.name]>> \o e.path, e.v, "form", mode)
  ELSE \E i \in DOMAIN r.parts : /\ PartMatch(r.parts[i], e.kind, e.name)
                                 /\ At(r.parts[i].v, e.path, e.v, IF e.kind = "body" /\ IsForm(r.parts[i].name) THEN "form" ELSE e.kind, mode)
Dropped(op, sent, mode) == {e \in AllExamples(op) : ~\E i \in DOMAIN sent : Occurs(e, sent[i], mode)}
Has2(r, kind, name) == IF kind = "formData"
                       THEN \E i \in DOMAIN r.parts : r.parts[i].kind = "body" /\ r.parts[i].v.t = "obj" /\ ObjHas(r.parts[i].v, name)
                       ELSE \E i \in DOMAIN r.parts : PartMatch(r.parts[i], kind, name)
MissingRequired(op, r) ==
  {op.params[i].name : i \in {j \in DOMAIN op.params : op.params[j].required /\ ~Has2(r, op.params[j].loc, op.params[j].name)}}
  \cup (IF (\E i \in DOMAIN op.bodies : op.bodies[i].required) /\ ~\E i \in DOMAIN r.parts : r.parts[i].kind = "body"
        THEN {<<98, 111, 100, 121>>} ELSE {})
NoDefs1 == NoDefs
FillVerdict(op, p, mode) ==       \* validity of one sent part against the documented schema; "T" when that is not asked
  IF p.kind = "body"
  THEN LET idx == {i \in DOMAIN op.bodies : LowerTxt(op.bodies[i].mt) = LowerTxt(p.name)}
       IN IF idx = {} THEN "U"
          ELSE LET b == op.bodies[MinOf(idx)] IN
               IF \E i \in DOMAIN b.ex : Where(b.ex[i].at) = <<>> THEN "T"   \* the body IS one of its examples: judged by Dropped
               ELSE IF IsForm(b.mt)                                       \* form fields are texts: only presence of required fields is judged
               THEN (IF p.v.t = "obj" /\ Has(b.schema, "required") /\ \E j \in DOMAIN b.schema.required : ~ObjHas(p.v, b.schema.required[j])
                     THEN "F" ELSE "T")
               ELSE Valid(NoDefs1, b.schema, p.v, "request")             \* generated, or assembled around property examples
  ELSE LET idx == {i \in DOMAIN op.params : op.params[i].loc = p.kind /\ LowerTxt(op.params[i].name) = LowerTxt(p.name)}
       IN IF idx = {} THEN "T"
          ELSE LET q == op.params[MinOf(idx)] IN
               IF q.ex # <<>> THEN "T"                       \* carries one of its examples: judged by Dropped, not here
               ELSE IF mode = "wire" THEN CoercedD(NoDefs1, p.v.v, q.schema, "request")
               ELSE CoercedV(NoDefs1, p.v, q.schema, "request")
InvalidFill(op, r, mode) == {i \in DOMAIN r.parts : FillVerdict(op, r.parts[i], mode) = "F"}

(* verdict for one operation: the set of complaints (empty = the requirement holds) *)
Complaints(op, obs) ==
  LET all == AllExamples(op) IN
  IF obs.status \notin {"ok", "error", "skipped"} THEN {"crash"}
  ELSE IF all = {} THEN (IF obs.sent # <<>> THEN {"sent-without-examples"} ELSE {}) \cup (IF obs.status # "skipped" THEN {"not-reported-skipped"} ELSE {})
  ELSE IF obs.status = "error" /\ ~ErrorJustified(op) THEN {"error-for-sendable-examples"}
  ELSE IF obs.status = "error" THEN        \* the unsendable example is reported; every sendable one beside it is still sent
       (IF \E e \in Demanded(op) : ~\E i \in DOMAIN obs.sent : Occurs(e, obs.sent[i], obs.mode) THEN {"dropped"} ELSE {})
       \cup (IF \E i \in DOMAIN obs.sent : MissingRequired(op, obs.sent[i]) # {} THEN {"missing-required"} ELSE {})
       \cup (IF \E i \in DOMAIN obs.sent : InvalidFill(op, obs.sent[i], obs.mode) # {} THEN {"invalid-fill"} ELSE {})
  ELSE (IF Dropped(op, obs.sent, obs.mode) # {} THEN {"dropped"} ELSE {})
       \cup (IF \E i \in DOMAIN obs.sent : MissingRequired(op, obs.sent[i]) # {} THEN {"missing-required"} ELSE {})
       \cup (IF \E i \in DOMAIN obs.sent : InvalidFill(op, obs.sent[i], obs.mode) # {} THEN {"invalid-fill"} ELSE {})
       \cup (IF obs.status = "skipped" THEN {"skipped-with-examples"} ELSE {})

(* ------------------------------------------------------------------ the family *)
Outer(form, vals) == <<[level |-> "outer", at |-> <<>>, form |-> form, vals |-> vals]>>
InSchema(at, form, vals) == [level |-> "schema", at |-> at, form |-> form, vals |-> vals]
Branch(kw, i) == [k |-> "branch", kw |-> kw, i |-> i]
Prop(n) == [k |-> "prop", name |-> n]
Item == [k |-> "item"]
Branches(kw, n, s) == [sk |-> "schema"] @@ (kw :> [j \in 1..n |-> s])
BothOf(na, no, s) == [sk |-> "schema", anyOf |-> [j \in 1..na |-> s], oneOf |-> [j \in 1..no |-> s]]   \* `anyOf` and `oneOf` side by side

(* (base schema, values) -> [schema, ex] for a placement at the top of a parameter / media type *)
Place(place, n, s, vals) ==
  CASE place = "none" -> [schema |-> s, ex |-> <<>>]
    [] place \in {"example", "x-example", "examples", "x-examples", "examples-ref", "examples-external"} -> [schema |-> s, ex |-> Outer(place, vals)]
    [] place = "example+schema-example" ->      \* two carriers at once: the Parameter / Media Type Object and the schema
         [schema |-> s, ex |-> Outer("example", <<vals[1]>>) \o <<InSchema(<<>>, "example", <<vals[2]>>)>>]
    [] place = "example-noschema" -> [schema |-> s, ex |-> Outer("example", vals)]       \* Media Type Object without `schema`
    [] place = "examples-noschema" -> [schema |-> s, ex |-> Outer("examples", vals)]
    [] place = "allOf-list" ->            \* a later allOf branch carries a JSON-Schema `examples` list
         [schema |-> [sk |-> "schema", allOf |-> <<s, Empty>>],
          ex |-> <<InSchema(<<Branch("allOf", 1)>>, "example", <<vals[1]>>),
                   InSchema(<<Branch("allOf", 2)>>, "examples-list", SubSeq(vals, 2, n))>>]
    [] place = "schema-example" -> [schema |-> s, ex |-> <<InSchema(<<>>, "example", vals)>>]
    [] place = "schema-examples" -> [schema |-> s, ex |-> <<InSchema(<<>>, "examples-list", vals)>>]
    [] place \in {"anyOf", "oneOf"} -> [schema |-> Branches(place, n, s),
                                         ex |-> [j \in 1..n |-> InSchema(<<Branch(place, j)>>, "example", <<vals[j]>>)]]
    [] place = "anyOf+oneOf" ->          \* combinator co-occurrence: ONE schema has both keywords, each branch has its example
         [schema |-> BothOf(1, n - 1, s),
          ex |-> <<InSchema(<<Branch("anyOf", 1)>>, "example", <<vals[1]>>)>>
                 \o [j \in 1..(n - 1) |-> InSchema(<<Branch("oneOf", j)>>, "example", <<vals[j + 1]>>)]]
    [] place = "allOf" -> [schema |-> [sk |-> "schema", allOf |-> IF n = 1 THEN <<s>> ELSE <<s, Empty>>],
                           ex |-> [j \in 1..n |-> InSchema(<<Branch("allOf", j)>>, "example", <<vals[j]>>)]]
PlaceCounts(place) == CASE place = "none" -> {0} [] place \in {"example", "x-example", "schema-example"} -> {1}
                        [] place \in {"examples", "x-examples", "schema-examples"} -> {1, 2, 3}
                        [] place \in {"examples-external", "examples-noschema"} -> {1, 2} [] place = "example-noschema" -> {1}
                        [] place = "allOf-list" -> {2, 3} [] place = "example+schema-example" -> {2}
                        [] place = "examples-ref" -> {1, 2} [] place = "anyOf" -> {2} [] place = "oneOf" -> {2, 3} [] place = "allOf" -> {1, 2}
                        [] place = "anyOf+oneOf" -> {2, 3}
ParamPlaces3 == {"none", "example", "examples", "examples-ref", "schema-example", "schema-examples", "anyOf", "oneOf", "allOf", "allOf-list", "anyOf+oneOf"}
ParamPlaces2 == {"none", "example", "x-example", "x-examples"}
PO(places) == {x \in places \X (0..3) : x[2] \in PlaceCounts(x[1])}

Param(k, loc, req, ty, po) ==
  LET pl == Place(po[1], po[2], Leaf(TyOf(ty)), [j \in 1..po[2] |-> ExVal(ty, k, j)])
  IN [name |-> PName(k), loc |-> loc, required |-> req \/ loc = "path", schema |-> pl.schema, ex |-> pl.ex, place |-> po[1]]
BadHeaderParam(k) == [name |-> PName(k), loc |-> "header", required |-> FALSE, schema |-> Leaf("string"),
                      ex |-> Outer("example", <<StrV(<<98, 10, 100>>)>>), place |-> "example"]        \* "b\nd"

BadTexts == {<<98, 10, 100>>, <<109, 9731>>}                                                       \* "b\nd" (line feed), "m" + U+2603 (not latin-1)
(* the value alphabet beyond ordinary values: what cannot be sent, and the FALSY value of every JSON type *)
Falsy == <<IntV(0), [t |-> "bool", v |-> FALSE], StrV(<<>>), [t |-> "arr", v |-> <<>>], [t |-> "obj", k |-> <<>>, v |-> <<>>]>>
ScalarFalsy == {Falsy[1], Falsy[2], Falsy[3]}
TypeFor(v) == CASE v.t = "int" -> "integer" [] v.t = "bool" -> "boolean" [] OTHER -> "string"
(* a parameter with n examples of which number `pos` is the special value sv *)
ParamWithSpecial(k, loc, req, po, pos, sv) ==
  LET ty == TypeFor(sv)
      pl == Place(po[1], po[2], Leaf(ty), [j \in 1..po[2] |-> IF j = pos THEN sv ELSE ExVal(ty, k, j)])
  IN [name |-> PName(k), loc |-> loc, required |-> req, schema |-> pl.schema, ex |-> pl.ex, place |-> po[1]]
ParamWithBad(k, loc, req, po, pos, bad) == ParamWithSpecial(k, loc, req, po, pos, StrV(bad))
ObjSchema == [sk |-> "schema", type |-> <<"object">>, required |-> <<Tid>>,
              props |-> [k |-> <<Tid, Tname>>, v |-> <<Leaf("integer"), Leaf("string")>>]]
ObjEx(b, j) == [t |-> "obj", k |-> <<Tid>>, v |-> <<IntV(100 * b + j)>>]
PropSchema(sa) == [sk |-> "schema", type |-> <<"object">>, required |-> <<Ta, Tc>>,
                   props |-> [k |-> <<Ta, Tb, Tc>>, v |-> <<sa, Leaf("string"), Leaf("string")>>]]
BodyPlaces3a == ParamPlaces3 \cup {"property", "property-nested", "items-property", "property-branch", "branch-property", "property-anyOf+oneOf"}
BodyPlaces2 == {"none", "x-example", "x-examples", "example", "schema-example", "property"}
BodyCounts(place) == IF place \in {"property", "property-nested", "items-property", "allOf-properties", "property-allOf"} THEN {1, 2, 3}
                     ELSE IF place \in {"property-branch", "branch-property"} THEN {2}
                     ELSE IF place = "property-anyOf+oneOf" THEN {2, 3} ELSE PlaceCounts(place)
BO(places) == {x \in places \X (0..3) : x[2] \in BodyCounts(x[1])}
BodyPlaces3 == BodyPlaces3a \cup {"allOf-properties", "property-allOf", "examples-external", "example-noschema", "examples-noschema"}
Req(names) == IF names = <<>> THEN [x \in {} |-> 0] ELSE [required |-> names]
ObjBranch(names, schemas, required) == [sk |-> "schema", type |-> <<"object">>, props |-> [k |-> names, v |-> schemas]] @@ Req(required)
(* allOf of object branches: `a` (example) and `c` (required, NO example) in the first branch, `b` (example) in the second, *)
(* `d` (required, no example) in a third; variant 1: only the first branch has `required`, 2: first and second, 3: all three *)
AllOfObject(variant) ==
  [sk |-> "schema",
   allOf |-> <<ObjBranch(<<Ta, Tc>>, <<Leaf("integer"), Leaf("string")>>, <<Tc>>),
               ObjBranch(<<Tb>>, <<Leaf("string")>>, IF variant >= 2 THEN <<Tb>> ELSE <<>>)>>
             \o (IF variant = 3 THEN <<ObjBranch(<<Td>>, <<Leaf("integer")>>, <<Td>>)>> ELSE <<>>)]
BodyS(b, mt, req, bo, pos, sv) ==        \* pos = 0: no special value; else example number pos is the special value sv
  LET place == bo[1]
      n == bo[2]
      avals == [j \in 1..n |-> IF j = pos /\ sv.t = "int" THEN sv ELSE IntV(100 * b + 70 + j)]
      bval == IF pos # 0 /\ sv.t = "str" THEN sv ELSE StrV(<<115, 98, Cp(b)>>)
      pl == CASE place \in {"property", "property-nested", "items-property"} ->
                   LET exa == IF n = 1 THEN "example" ELSE "examples-list" IN
                   (CASE place = "property" ->
                           [schema |-> PropSchema(Leaf("integer")),
                            ex |-> <<InSchema(<<Prop(Ta)>>, exa, avals), InSchema(<<Prop(Tb)>>, "example", <<bval>>)>>]
                      [] place = "property-nested" ->
                           [schema |-> [sk |-> "schema", type |-> <<"object">>, required |-> <<To>>,
                                        props |-> [k |-> <<To>>, v |-> <<PropSchema(Leaf("integer"))>>]],
                            ex |-> <<InSchema(<<Prop(To), Prop(Ta)>>, exa, avals)>>]
                      [] place = "items-property" ->
                           [schema |-> [sk |-> "schema", type |-> <<"array">>, items |-> PropSchema(Leaf("integer"))],
                            ex |-> <<InSchema(<<Item, Prop(Ta)>>, exa, avals)>>])
             [] place = "property-branch" ->
                   [schema |-> PropSchema(Branches("anyOf", 2, Leaf("integer"))),
                    ex |-> [j \in 1..2 |-> InSchema(<<Prop(Ta), Branch("anyOf", j)>>, "example", <<avals[j]>>)]]
             [] place = "property-anyOf+oneOf" ->     \* the property's schema has n - 1 anyOf branches AND one oneOf branch, an example in each
                   [schema |-> PropSchema(BothOf(n - 1, 1, Leaf("integer"))),
                    ex |-> [j \in 1..(n - 1) |-> InSchema(<<Prop(Ta), Branch("anyOf", j)>>, "example", <<avals[j]>>)]
                           \o <<InSchema(<<Prop(Ta), Branch("oneOf", 1)>>, "example", <<avals[n]>>)>>]
             [] place = "branch-property" ->
                   [schema |-> Branches("anyOf", 2, PropSchema(Leaf("integer"))),
                    ex |-> [j \in 1..2 |-> InSchema(<<Branch("anyOf", j), Prop(Ta)>>, "example", <<avals[j]>>)]]
             [] place = "allOf-properties" ->      \* n = variant of where `required` is declared
                   [schema |-> AllOfObject(n),
                    ex |-> <<InSchema(<<Branch("allOf", 1), Prop(Ta)>>, "example", <<IntV(100 * b + 71)>>),
                             InSchema(<<Branch("allOf", 2), Prop(Tb)>>, "example", <<bval>>)>>]
             [] place = "property-allOf" ->
                   [schema |-> [sk |-> "schema", type |-> <<"object">>, required |-> <<To>>, props |-> [k |-> <<To>>, v |-> <<AllOfObject(n)>>]],
                    ex |-> <<InSchema(<<Prop(To), Branch("allOf", 1), Prop(Ta)>>, "example", <<IntV(100 * b + 71)>>),
                             InSchema(<<Prop(To), Branch("allOf", 2), Prop(Tb)>>, "example", <<bval>>)>>]
             [] OTHER -> Place(place, n, ObjSchema, [j \in 1..n |-> IF j = pos THEN sv ELSE ObjEx(b, j)])
  IN [mt |-> mt, required |-> req, schema |-> pl.schema, ex |-> pl.ex, place |-> place]
Body(b, mt, req, bo) == BodyS(b, mt, req, bo, 0, IntV(0))

(* ---- twins: values that are DIFFERENT in JSON although a host language may call them equal (1 / true, 0 / false), ---- *)
(* ---- bare or nested; two examples that are twins of each other are two examples.  (1 and 1.0 are the same JSON    ---- *)
(* ---- number - Appendix D - and are therefore not twins.)                                                            ---- *)
BoolV(b) == [t |-> "bool", v |-> b]
Tenabled == <<101, 110, 97, 98, 108, 101, 100>>
Twins == << <<IntV(1), BoolV(TRUE)>>, <<IntV(0), BoolV(FALSE)>> >>
Nested(kind, v) == CASE kind = "scalar" -> v [] kind = "object" -> [t |-> "obj", k |-> <<Tenabled>>, v |-> <<v>>]
                     [] kind = "array" -> [t |-> "arr", v |-> <<v>>]
TwinVals(i, firstIsNumber, kind, n, filler) ==
  LET a == Nested(kind, Twins[i][IF firstIsNumber THEN 1 ELSE 2])
      b == Nested(kind, Twins[i][IF firstIsNumber THEN 2 ELSE 1])
  IN IF n = 2 THEN <<a, b>> ELSE <<a, filler, b>>
TwinPlaces3 == {x \in (ParamPlaces3 \cup {"example+schema-example"}) \X {2, 3} : x[2] \in PlaceCounts(x[1])}
TwinPlaces2 == {<<"x-examples", 2>>, <<"x-examples", 3>>}
ParamWithValues(k, loc, req, po, vals) ==
  LET pl == Place(po[1], po[2], Empty, vals)
  IN [name |-> PName(k), loc |-> loc, required |-> req, schema |-> pl.schema, ex |-> pl.ex, place |-> po[1]]
BodyWithValues(b, mt, req, po, vals) ==
  LET pl == IF po[1] = "property"
            THEN [schema |-> PropSchema(Empty), ex |-> <<InSchema(<<Prop(Ta)>>, "examples-list", vals)>>]
            ELSE Place(po[1], po[2], Empty, vals)
  IN [mt |-> mt, required |-> req, schema |-> pl.schema, ex |-> pl.ex, place |-> po[1]]

Second(tag, req) == IF tag = "absent" THEN <<>> ELSE <<Body(2, MTTextJson, req, IF tag = "none" THEN <<"none", 0>> ELSE <<"examples", 2>>)>>
(* cfg: what the run is configured with besides the document - "none", or "header": an unrelated request header (-H) *)
(* flags: how the same inputs are WRITTEN in the document - parameter objects / the request body behind `$ref`, parameters *)
(* declared on the path item, and a 2xx response example whose field is named like the first parameter (a source of extra,  *)
(* inferred values that must not displace the explicit examples)                                                           *)
NoFlags == [refParam |-> FALSE, refBody |-> FALSE, pathLevel |-> FALSE, resp |-> FALSE]
OpF(d, ps, bs, slice, cfg, flags) == [dialect |-> d, params |-> ps, bodies |-> bs, slice |-> slice, cfg |-> cfg, flags |-> flags]
OpC(d, ps, bs, slice, cfg) == OpF(d, ps, bs, slice, cfg, NoFlags)
(* an object-valued query parameter (style deepObject) with examples on its properties *)
ObjectParam(k, req, n) == [name |-> PName(k), loc |-> "query", required |-> req, style |-> "deepObject", place |-> "object-property",
                           schema |-> PropSchema(Leaf("integer")),
                           ex |-> <<InSchema(<<Prop(Ta)>>, IF n = 1 THEN "example" ELSE "examples-list", [j \in 1..n |-> IntV(10 * k + 70 + j)])>>]
(* a parameter described with `content` (one media type) instead of `schema`; its examples stay on the Parameter Object *)
ContentParam(k, req, po) == Param(k, "query", req, "integer", po) @@ [viaContent |-> TRUE]
UnsatParam(k, loc) == [name |-> PName(k), loc |-> loc, required |-> TRUE, place |-> "none", ex |-> <<>>,
                       schema |-> [sk |-> "schema", type |-> <<"integer">>, minimum |-> 5, maximum |-> 1]]
Op(d, ps, bs, slice) == OpC(d, ps, bs, slice, "none")
Few3 == {<<"none", 0>>, <<"examples", 3>>, <<"schema-example", 1>>, <<"oneOf", 2>>}
VARIABLE op
(* the family, as the initial states (one disjunct per slice) *)
InitA == \E a \in PO(ParamPlaces3),
            b \in (IF Thorough THEN PO(ParamPlaces3) ELSE PO(ParamPlaces3) \ {<<"examples", 1>>, <<"schema-examples", 1>>, <<"oneOf", 3>>}) :
           \* two parameters, every placement x every placement
           op = Op("3.0", <<Param(1, "query", FALSE, "integer", a), Param(2, "query", TRUE, "string", b)>>, <<>>, "two-params")
Cfgs == {"none", "header"}
InitB == \E n1 \in 0..3, n2 \in 0..3, n3 \in 0..3, pl \in (IF Thorough THEN {"examples", "schema-examples"} ELSE {"examples"}), cfg \in Cfgs :
           \* three parameters: the arithmetic of combining pools of different sizes
           op = OpC("3.0", <<Param(1, "query", FALSE, "integer", <<IF n1 = 0 THEN "none" ELSE pl, n1>>),
                            Param(2, "query", TRUE, "string", <<IF n2 = 0 THEN "none" ELSE "examples", n2>>),
                            Param(3, "header", TRUE, "string", <<IF n3 = 0 THEN "none" ELSE "schema-examples", n3>>)>>, <<>>, "three-params", cfg)
InitC == \E loc \in {"query", "header", "path", "cookie"}, req \in BOOLEAN, ty \in {"integer", "string", "text"},
            po \in {<<"none", 0>>, <<"example", 1>>, <<"examples", 2>>, <<"schema-example", 1>>, <<"anyOf", 2>>}, cfg \in Cfgs :
           \* locations and types
           op = OpC("3.0", <<Param(1, loc, req, ty, po)>>, <<>>, "locations", cfg)
ParamSets == {<<>>, <<Param(1, "query", FALSE, "integer", <<"examples", 3>>)>>, <<Param(1, "query", TRUE, "string", <<"none", 0>>)>>}
             \cup (IF Thorough THEN {<<Param(1, "query", FALSE, "integer", <<"example", 1>>), Param(2, "header", TRUE, "string", <<"none", 0>>)>>} ELSE {})
InitD == \E bo \in BO(BodyPlaces3), req \in BOOLEAN, b2 \in {"absent", "examples", "none"}, ps \in ParamSets :
           \* bodies: every placement, alone / with a second media type / with parameters
           op = Op("3.0", ps, <<Body(1, MTJson, req, bo)>> \o Second(b2, req), "bodies")
InitE == \/ \E a \in PO(ParamPlaces2), b \in PO(ParamPlaces2), cfg \in Cfgs :           \* OpenAPI 2.0
              op = OpC("2.0", <<Param(1, "query", FALSE, "integer", a), Param(2, "header", TRUE, "string", b)>>, <<>>, "swagger-params", cfg)
         \/ \E bo \in BO(BodyPlaces2), req \in BOOLEAN,
               ps \in {<<>>, <<Param(1, "query", TRUE, "string", <<"x-examples", 2>>)>>, <<Param(1, "query", TRUE, "string", <<"none", 0>>)>>} :
              op = Op("2.0", ps, <<Body(1, MTJson, req, bo)>>, "swagger-body")
InitF == \E ps \in {<<>>, <<Param(2, "query", TRUE, "integer", <<"examples", 2>>)>>} :      \* an example that cannot be sent
           op = Op("3.0", <<BadHeaderParam(1)>> \o ps, <<>>, "unsendable")
InitG == /\ Thorough                                  \* three parameters with mixed placements x bodies
         /\ \E a \in Few3, b \in Few3, c \in Few3,
               bs \in {<<>>, <<Body(1, MTJson, TRUE, <<"property", 2>>)>>,
                       <<Body(1, MTJson, FALSE, <<"examples", 2>>), Body(2, MTTextJson, FALSE, <<"example", 1>>)>>} :
              op = Op("3.0", <<Param(1, "query", FALSE, "integer", a), Param(2, "path", TRUE, "string", b), Param(3, "header", FALSE, "string", c)>>,
                      bs, "mixed")
InitH == /\ Thorough                                  \* three parameters, every placement of each
         /\ \E a \in PO(ParamPlaces3), b \in PO(ParamPlaces3), c \in PO(ParamPlaces3) :
              op = Op("3.0", <<Param(1, "query", FALSE, "integer", a), Param(2, "query", TRUE, "string", b), Param(3, "header", FALSE, "string", c)>>,
                      <<>>, "three-mixed")
InitI == /\ Thorough                                  \* every placement of a path parameter x a cookie x a body with property examples
         /\ \E a \in PO(ParamPlaces3) \ {<<"none", 0>>}, b \in Few3, ty \in {"integer", "text"},
               bs \in {<<Body(1, MTJson, TRUE, <<"property", 3>>)>>, <<Body(1, MTJson, FALSE, <<"items-property", 2>>), Body(2, MTTextJson, FALSE, <<"schema-example", 1>>)>>} :
              op = Op("3.0", <<Param(1, "path", TRUE, ty, a), Param(2, "cookie", FALSE, "string", b)>>, bs, "path-cookie-body")
InitJ == \E loc \in {"header", "cookie"}, req \in BOOLEAN, bad \in BadTexts,
            po \in {<<"examples", 2>>, <<"examples", 3>>, <<"schema-examples", 3>>, <<"oneOf", 3>>, <<"examples-ref", 2>>},
            pos \in 1..3, other \in {"none", "query", "body", "header"} :
           \* an unsendable example at any position among the examples of a header / cookie parameter
           /\ pos <= po[2]
           /\ op = Op("3.0", <<ParamWithBad(1, loc, req, po, pos, bad)>>
                             \o (IF other = "query" THEN <<Param(2, "query", TRUE, "integer", <<"examples", 3>>)>>
                                 ELSE IF other = "header" THEN <<Param(2, "header", FALSE, "string", <<"examples", 2>>)>> ELSE <<>>),
                      IF other = "body" THEN <<Body(1, MTJson, TRUE, <<"examples", 2>>)>> ELSE <<>>, "unsendable-among")
WholePlaces3 == ParamPlaces3 \ {"none"}
InitK == \/ \E loc \in {"query", "header", "cookie"}, sv \in ScalarFalsy, po \in PO(WholePlaces3), pos \in 1..3,
               other \in (IF Thorough THEN {"none", "query"} ELSE {"none"}) :
              \* the falsy value of every scalar type, at every position, in every parameter-example carrier
              /\ pos <= po[2]
              /\ op = Op("3.0", <<ParamWithSpecial(1, loc, FALSE, po, pos, sv)>>
                                \o (IF other = "query" THEN <<Param(2, "query", TRUE, "integer", <<"examples", 2>>)>> ELSE <<>>), <<>>, "falsy-params")
         \/ \E loc \in {"query", "header"}, sv \in ScalarFalsy, po \in PO(ParamPlaces2 \ {"none"}), pos \in 1..3 :
              /\ pos <= po[2]
              /\ op = Op("2.0", <<ParamWithSpecial(1, loc, TRUE, po, pos, sv)>>, <<>>, "falsy-params")
InitL == \/ \E i \in DOMAIN Falsy, bo \in BO(WholePlaces3), pos \in 1..3, withQuery \in (IF Thorough THEN BOOLEAN ELSE {FALSE}) :
              \* falsy request bodies of every JSON type, in every body-example carrier
              /\ pos <= bo[2]
              /\ op = Op("3.0", IF withQuery THEN <<Param(1, "query", TRUE, "integer", <<"examples", 2>>)>> ELSE <<>>,
                         <<BodyS(1, MTJson, TRUE, bo, pos, Falsy[i])>>, "falsy-bodies")
         \/ \E i \in {1, 3}, bo \in BO({"property", "property-nested", "items-property", "allOf-properties"}), pos \in 1..3 :
              /\ pos <= bo[2]                                         \* 0 / "" as property examples
              /\ op = Op("3.0", <<>>, <<BodyS(1, MTJson, TRUE, bo, pos, Falsy[i])>>, "falsy-bodies")
         \/ \E i \in DOMAIN Falsy, bo \in BO({"x-example", "x-examples", "example", "schema-example"}), pos \in 1..3 :
              /\ pos <= bo[2]
              /\ op = Op("2.0", <<>>, <<BodyS(1, MTJson, TRUE, bo, pos, Falsy[i])>>, "falsy-bodies")
FlagSets == {[NoFlags EXCEPT !.refParam = TRUE], [NoFlags EXCEPT !.pathLevel = TRUE], [NoFlags EXCEPT !.refBody = TRUE],
             [NoFlags EXCEPT !.resp = TRUE], [refParam |-> TRUE, refBody |-> TRUE, pathLevel |-> TRUE, resp |-> TRUE]}
InitM == \/ \E fl \in FlagSets, a \in {<<"examples", 2>>, <<"examples-ref", 2>>, <<"schema-example", 1>>, <<"none", 0>>},
               bo \in {<<"examples", 2>>, <<"examples-ref", 1>>, <<"property", 2>>, <<"none", 0>>}, d \in {"3.0", "3.1"} :
              \* the same inputs written with $ref'd parameter / requestBody objects, path-level parameters, response examples
              op = OpF(d, <<Param(1, "query", FALSE, "integer", a), Param(2, "header", TRUE, "string", <<"examples", 2>>)>>,
                       <<Body(1, MTJson, TRUE, bo)>>, "document-structure", "none", fl)
         \/ \E fl \in {[NoFlags EXCEPT !.refParam = TRUE], [NoFlags EXCEPT !.pathLevel = TRUE], [NoFlags EXCEPT !.refBody = TRUE]},
               a \in {<<"x-examples", 2>>, <<"x-example", 1>>}, bo \in {<<"x-examples", 2>>, <<"schema-example", 1>>} :
              op = OpF("2.0", <<Param(1, "query", FALSE, "integer", a)>>, <<Body(1, MTJson, TRUE, bo)>>, "document-structure", "none", fl)
InitN == \/ \E bo \in {<<"example", 1>>, <<"examples", 2>>, <<"schema-example", 1>>, <<"property", 2>>, <<"none", 0>>},
               ps \in {<<>>, <<Param(1, "query", TRUE, "integer", <<"examples", 2>>)>>}, d \in {"3.0", "3.1"} :
              \* media types: a form-urlencoded body (examples, or generated next to parameter examples)
              op = Op(d, ps, <<Body(1, MTForm, TRUE, bo)>>, "media-types")
         \/ \E bo \in {<<"example", 1>>, <<"examples", 2>>, <<"none", 0>>}, second \in {"absent", "examples", "none"},
               ps \in {<<>>, <<Param(1, "query", TRUE, "integer", <<"examples", 2>>)>>} :
              \* a media type without a defined serialisation: alone, or next to a JSON one (with / without examples)
              op = Op("3.0", ps, <<Body(1, MTUnknown, TRUE, bo)>>
                                 \o (IF second = "absent" THEN <<>> ELSE <<Body(2, MTJson, TRUE, IF second = "none" THEN <<"none", 0>> ELSE <<"examples", 2>>)>>),
                      "media-types")
InitO == \/ \E loc \in {"query", "header"}, a \in {<<"examples", 2>>, <<"schema-example", 1>>}, withBody \in BOOLEAN :
              \* a required input that no value satisfies next to examples: must end as an error, never silently
              op = Op("3.0", <<Param(1, "query", FALSE, "integer", a), UnsatParam(2, loc)>>,
                      IF withBody THEN <<Body(1, MTJson, TRUE, <<"examples", 2>>)>> ELSE <<>>, "unfillable")
         \/ \E n \in 1..3, req \in BOOLEAN, other \in {"none", "query", "body"} :
              \* an object-valued parameter with examples on its properties
              op = Op("3.0", <<ObjectParam(1, req, n)>> \o (IF other = "query" THEN <<Param(2, "query", TRUE, "string", <<"examples", 2>>)>> ELSE <<>>),
                      IF other = "body" THEN <<Body(1, MTJson, TRUE, <<"property", 2>>)>> ELSE <<>>, "object-parameter")
InitQ == \/ \E a \in PO(ParamPlaces2), b \in {<<"none", 0>>, <<"x-examples", 2>>, <<"x-example", 1>>}, q \in BOOLEAN :
              \* OpenAPI 2.0 form fields (`in: formData`) with examples
              op = Op("2.0", <<Param(1, "formData", FALSE, "integer", a), Param(2, "formData", TRUE, "string", b)>>
                             \o (IF q THEN <<Param(3, "query", FALSE, "integer", <<"x-examples", 2>>)>> ELSE <<>>), <<>>, "form-fields")
         \/ \E a \in {<<"example", 1>>, <<"examples", 2>>, <<"examples", 3>>, <<"examples-ref", 2>>, <<"none", 0>>}, req \in BOOLEAN,
               b \in {<<"none", 0>>, <<"examples", 2>>} :
              op = Op("3.0", <<ContentParam(1, req, a), Param(2, "query", TRUE, "string", b)>>, <<>>, "content-parameter")
InitP == \/ \E a \in PO(ParamPlaces3), b \in Few3 :                       \* OpenAPI 3.1
              op = Op("3.1", <<Param(1, "query", FALSE, "integer", a), Param(2, "header", TRUE, "string", b)>>, <<>>, "openapi31")
         \/ \E bo \in BO(BodyPlaces3), ps \in {<<>>, <<Param(1, "query", TRUE, "string", <<"none", 0>>)>>} :
              op = Op("3.1", ps, <<Body(1, MTJson, TRUE, bo)>>, "openapi31")
InitR == \/ \E loc \in {"query", "header", "cookie"}, i \in DOMAIN Twins, num1 \in BOOLEAN, po \in TwinPlaces3 :
              \* twins as examples of one parameter, in both orders, in every carrier that holds several examples
              op = Op("3.0", <<ParamWithValues(1, loc, FALSE, po, TwinVals(i, num1, "scalar", po[2], StrV(<<115, 49>>)))>>, <<>>, "twins")
         \/ \E loc \in {"query", "header"}, i \in DOMAIN Twins, num1 \in BOOLEAN, po \in TwinPlaces2 :
              op = Op("2.0", <<ParamWithValues(1, loc, TRUE, po, TwinVals(i, num1, "scalar", po[2], StrV(<<115, 49>>)))>>, <<>>, "twins")
         \/ \E kind \in {"scalar", "object", "array"}, i \in DOMAIN Twins, num1 \in BOOLEAN,
               po \in TwinPlaces3 \cup {<<"property", 2>>, <<"property", 3>>} :
              \* twins as request bodies (bare, inside an object, inside an array) and as examples of one property
              op = Op("3.0", <<>>, <<BodyWithValues(1, MTJson, TRUE, po, TwinVals(i, num1, kind, po[2], ObjEx(1, 9)))>>, "twins")
         \/ \E kind \in {"scalar", "object"}, i \in DOMAIN Twins, num1 \in BOOLEAN, po \in TwinPlaces2 :
              op = Op("2.0", <<>>, <<BodyWithValues(1, MTJson, TRUE, po, TwinVals(i, num1, kind, po[2], ObjEx(1, 9)))>>, "twins")
Init == InitR \/ InitQ \/ InitM \/ InitN \/ InitO \/ InitP \/ InitK \/ InitL \/ InitJ \/ InitI \/ InitA \/ InitB \/ InitC \/ InitD \/ InitE \/ InitF \/ InitG \/ InitH
Next == UNCHANGED op
Spec == Init /\ [][Next]_op

(* design-level sanity *)
TypeOK == /\ Len(op.params) <= 3 /\ Len(op.bodies) <= 2
          /\ \A i \in DOMAIN op.params : \A j \in DOMAIN op.params[i].ex : Len(op.params[i].ex[j].vals) >= 1
DistinctExamples == \A i \in DOMAIN op.params : Cardinality(ExOf("x", <<>>, op.params[i].ex)) <= 3
RoundRobinCovers == LET s == PoolSizes(op) IN Covers(s, RoundRobin(s))
RoundRobinMinimal == LET s == PoolSizes(op) IN \A i \in DOMAIN s : Len(RoundRobin(s)) >= s[i]
(* a faithful execution of the abstract phase is accepted by the judge: send, per combination, each part's chosen example *)
Sanity == TypeOK /\ DistinctExamples /\ RoundRobinCovers /\ RoundRobinMinimal

Export == PrintT(<<"CASE", ToJson([op |-> op, n |-> Cardinality(AllExamples(op)), unsendable |-> Unsendable(op),
                                        errorJustified |-> ErrorJustified(op), demanded |-> Cardinality(Demanded(op))])>>)
=============================================================================
