SPECIFICATION Spec
CONSTANT Design = "publish-then-fill"
CONSTANT Threads = {1, 2}
INVARIANT VerdictsRight
CHECK_DEADLOCK FALSE
