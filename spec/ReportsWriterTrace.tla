------------------------- MODULE ReportsWriterTrace -------------------------
(***************************************************************************)
(* Code -> spec for C16 (c).  A trace is the totally ordered log of one     *)
(* real CassetteWriter run on a slow sink: "Start", "Enq", "PutFin"         *)
(* (shutdown called), "JoinTimeout" / "Joined" (shutdown returned with the  *)
(* worker alive / ended), "W" (one write() of the writer thread reached the *)
(* file), "Done" / "Died" (writer thread ended normally / by an exception), *)
(* "CloseMain" (the file was closed by another thread than the writer) and  *)
(* "Exit" (driver closes the file after the writer ended = process exit).   *)
(* Take is not observable and may happen silently.  A trace is accepted iff *)
(* some behaviour of ReportsWriter (HandlerCloses = FALSE) matches all its  *)
(* events and ends exited with the observed file complete and well-formed.  *)
(***************************************************************************)
EXTENDS ReportsWriter, Json, IOUtils
Obs == JsonDeserialize(IOEnv.OBS_FILE)
TraceLog == Obs.traces      \* [events : <<[e, k]>>, n, entries : <<ints>>, wellFormed]; k = item a write belongs to (0 = header)
VARIABLES i, idx
tvars == <<wvars, i, idx>>
T == TraceLog[i]
TInit == i \in 1..Len(TraceLog) /\ idx = 0 /\ WInit
Matches(ev) == LET e == ev.e IN
              CASE e = "Start"       -> Start
                [] e = "Enq"         -> Enqueue
                [] e = "PutFin"      -> PutFinalize
                [] e = "Joined"      -> Joined
                [] e = "JoinTimeout" -> JoinTimesOut
                [] e = "W"           -> cur = ev.k /\ \E last \in BOOLEAN : Write(last)
                [] e = "Done"        -> w = "done" /\ UNCHANGED wvars
                [] e = "Exit"        -> Exit
                [] OTHER             -> FALSE          \* "Died", "CloseMain": no action of the specification does that
TNext == /\ UNCHANGED i
         /\ \/ Take /\ UNCHANGED idx
            \/ idx < Len(T.events) /\ Matches(T.events[idx + 1]) /\ idx' = idx + 1
TSpec == TInit /\ [][TNext]_tvars
FinalOK == /\ pc = "exited" /\ w = "done" /\ delivered = T.n
           /\ T.wellFormed /\ T.entries = [j \in 1..delivered |-> j]
Report == PrintT(<<"AT", ToJson([i |-> i, idx |-> idx, fin |-> (idx = Len(T.events) /\ FinalOK)])>>)
=============================================================================
