SPECIFICATION TSpec
CONSTANT MaxIncl = 2
CONSTANT MaxExcl = 2
CONSTANT MaxTotal = 3
CONSTANT LazyTotal = 2
CONSTANT TreeNodes = 3
CONSTANT TreeWide = FALSE
INVARIANT TTypeOK
INVARIANT OwnPathOnly
INVARIANT ChildOfExcludeShrinks
INVARIANT RootSelectsAll
INVARIANT TExport
CHECK_DEADLOCK FALSE
