---------------------------- MODULE GenDataJudge ----------------------------
(* Code -> spec: observations recorded from the real generators are judged with GenData's operators.                 *)
(* The observation file is one JSON object [schemas, ops, obs]:                                                       *)
(*   schemas[si] = [defs, schema, dia]            declared schema (encode.py: bundle of the real document's schema)    *)
(*   ops[opi]    = [params : Seq([loc, name, required, schema]), bodies : Seq([media, schema, required]), cfg, defs,   *)
(*                  dia, methods : Seq(STRING) documented for the path]                                                  *)
(*   obs[i]      = [kind |-> "value", si, value, mode, steps, exempt]                         C03 value level          *)
(*               | [kind |-> "case", prop, opi, c : [labels, parts, alt, hasBody, body, media, dup, method,            *)
(*                                                   exempt]]                                  C01 / C02 / C03 cases   *)
(*               | [kind |-> "outcome", prop, opi, outcome, negOnly]                           C01 / C02 outcome rule  *)
(* One state per observation.  Prints <<"DISAGREE", json [i, rule, detail]>> for every observation that breaks its   *)
(* rule and <<"UNDECIDED", json [i]>> when the oracle had no definite verdict at all (outside the fragment).           *)
EXTENDS GenData, IOUtils
Doc == JsonDeserialize(IOEnv.OBS_FILE)
Obs == Doc.obs
(* Two-level fan-out so that all TLC workers judge in parallel: the root state has NB block states as successors, each block
   state has the observations j with j % NB = blk - 1 as successors; the reporting invariant is evaluated by the worker that
   generates the successor.  (Initial states would all be evaluated by TLC's single start-up thread.) *)
NB == 64
VARIABLES i, blk
jvars == <<i, blk, desc, outcome>>
JInit == i = 0 /\ blk = 0 /\ desc = [kind |-> "obs"] /\ outcome = "judged"
JNext == /\ i = 0 /\ UNCHANGED <<desc, outcome>>
         /\ \/ blk = 0 /\ blk' \in 1..NB /\ i' = 0
            \/ blk > 0 /\ blk' = blk /\ i' \in {j \in 1..Len(Obs) : j % NB = blk - 1}
JSpec == JInit /\ [][JNext]_jvars
ValueObs(o) == LET sc == Doc.schemas[o.si] IN
               [defs |-> sc.defs, schema |-> sc.schema, dia |-> sc.dia, value |-> o.value, mode |-> o.mode, steps |-> o.steps, exempt |-> o.exempt]
NoVs == [p \in Parts |-> "U"]
Vs(o) == IF o.kind = "case" THEN [p \in Parts |-> Verdict(Doc.ops[o.opi], o.c, p)] ELSE NoVs
ValidOf(o) == LET sc == Doc.schemas[o.si] IN ValidD(sc.defs, sc.schema, o.value, "request", sc.dia)
One(r) == IF r = "ok" THEN {} ELSE {r}
Rule(o, vs) ==          \* the set of rules the observation breaks
  CASE o.kind = "value" -> One(C03_Value(ValueObs(o)))
    [] o.kind = "case" /\ o.prop = "C03" -> One(C03_Case(Doc.ops[o.opi], o.c, vs))
    [] o.kind = "case" /\ o.prop = "C01" -> One(C01_Case(Doc.ops[o.opi], o.c, vs))
    [] o.kind = "case" /\ o.prop = "C02" -> C02_Case(Doc.ops[o.opi], o.c, vs)
    [] o.kind = "outcome" /\ o.prop = "C01" -> One(C01_Outcome(Doc.ops[o.opi], o.outcome))
    [] o.kind = "outcome" /\ o.prop = "C02" -> One(C02_Outcome(Doc.ops[o.opi], o.outcome, o.negOnly))
    [] OTHER -> {"unknown-observation"}
(* which keywords of the declared schema reject the value on their own (for the finding signature) *)
ViolatedKw(o) == LET sc == Doc.schemas[o.si]
                     d == Deref(sc.defs, sc.schema) IN
                 IF d.sk # "schema" THEN {}
                 ELSE {k \in DOMAIN d \ {"sk", "nullable", "exclMin", "exclMax"} :
                         ValidD(sc.defs, RestrictTo(d, KwKeys(k) \cup {k}), o.value, "request", sc.dia) = "F"}
(* where the configured string restrictions are broken: <<"txt", part, "nul" | "codec">> *)
PartText(c, p) == IF p = "body" THEN (IF c.hasBody THEN AllText(c.body) ELSE {}) ELSE AllText(c.parts[p])
OutsideCodec(op, x) == \/ (op.cfg.codec = "ascii" /\ x > 127)
                       \/ (op.cfg.codec = "latin-1" /\ x > 255)
                       \/ (op.cfg.codec = "utf-8" /\ x >= 55296 /\ x <= 57343)
TextDetail(op, c) == {<<"txt", p, "nul">> : p \in {p \in Parts : ~op.cfg.allow_x00 /\ 0 \in PartText(c, p)}}
                     \cup {<<"txt", p, "codec">> : p \in {p \in Parts : \E x \in PartText(c, p) : OutsideCodec(op, x)}}
NoWitness(o) == LET sc == Doc.schemas[o.si] IN        \* no value of the bounded universe satisfies the declared schema
                ~BodySat([defs |-> sc.defs, dia |-> sc.dia], [schema |-> sc.schema])
(* which keywords of a declared parameter / body schema reject the observed value on their own: <<"kw", part, keyword>> *)
KwOfParam(op, c, q) ==
  LET sch == Deref(op.defs, q.schema)
      val == ObjGet(c.parts[q.loc], q.name) IN
  IF sch.sk # "schema" THEN {}
  ELSE {k \in DOMAIN sch \ {"sk", "type", "nullable", "exclMin", "exclMax"} :
          CoercedV(op.defs, val, RestrictTo(sch, KwKeys(k) \cup {k, "type", "nullable"}), "request") = "F"}
       \cup (IF Has(sch, "type") /\ CoercedV(op.defs, val, RestrictTo(sch, {"type", "nullable"}), "request") = "F" THEN {"type"} ELSE {})
KwOfBody(op, c) ==
  UNION {LET sch == Deref(op.defs, op.bodies[j].schema) IN
         IF sch.sk # "schema" THEN {}
         ELSE {k \in DOMAIN sch \ {"sk", "nullable", "exclMin", "exclMax"} :
                 ValidD(op.defs, RestrictTo(sch, KwKeys(k) \cup {k}), c.body, "request", op.dia) = "F"}
         : j \in {j \in DOMAIN op.bodies : c.hasBody /\ op.bodies[j].media = c.media}}
KwDetail(op, c, vs) ==
  UNION {{<<"kw", op.params[j].loc, k>> : k \in KwOfParam(op, c, op.params[j])} :
           j \in {j \in DOMAIN op.params : vs[op.params[j].loc] = "F" /\ c.parts[op.params[j].loc].t = "obj"
                                             /\ ObjHas(c.parts[op.params[j].loc], op.params[j].name)}}
  \cup {<<"kw", "body", k>> : k \in (IF vs["body"] = "F" THEN KwOfBody(op, c) ELSE {})}
Detail(o, vs) ==
  CASE o.kind = "value" -> ViolatedKw(o) \cup (IF NoWitness(o) THEN {"no-witness"} ELSE {})
    [] o.kind = "case" -> {<<p, vs[p], o.c.labels[p]>> : p \in {p \in Parts : Present(o.c, p) \/ o.c.labels[p] # "none" \/ vs[p] = "F"}}
                          \cup {<<"case", "-", o.c.labels.case>>}
                          \cup (IF o.prop = "C03" THEN {} ELSE KwDetail(Doc.ops[o.opi], o.c, vs))
                          \cup (IF o.prop = "C01" THEN TextDetail(Doc.ops[o.opi], o.c) ELSE {})
    [] OTHER -> {}
Definite(o, vs) ==
  CASE o.kind = "value" -> o.exempt \/ ValidOf(o) # "U"
    [] o.kind = "case" -> \E p \in Parts : Present(o.c, p) /\ vs[p] # "U"
    [] OTHER -> TRUE
Report == i = 0 \/
          LET o == Obs[i]
              vs == Vs(o)
              r == Rule(o, vs) IN
          /\ IF r = {} THEN TRUE ELSE PrintT(<<"DISAGREE", ToJson([i |-> i, rules |-> r, detail |-> Detail(o, vs)])>>)
          /\ IF Definite(o, vs) THEN TRUE ELSE PrintT(<<"UNDECIDED", ToJson([i |-> i])>>)
=============================================================================
