SPECIFICATION Spec
CONSTANTS
  W = 2
  NOps = 2
  K = 1
  MaxFail = 1
  NPhases = 1
  FixDrain = TRUE
  FixWorkerErr = TRUE
  AllowStop = TRUE
  AllowFault = TRUE
  AliveCheck = TRUE
  PhaseOn = {1, 2, 3, 4, 5}
  AllowCtrlC = FALSE
  MaxNFE = 1
  AllowInvalid = FALSE
CHECK_DEADLOCK FALSE
