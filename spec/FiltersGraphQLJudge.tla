------------------------- MODULE FiltersGraphQLJudge -------------------------
(* Code -> spec: [door, incl, excl, err (1: building / iterating / measuring raised), vec, sel, total] per GraphQL element. *)
EXTENDS FiltersGraphQL, IOUtils
Obs == JsonDeserialize(IOEnv.OBS_FILE)
VARIABLE i
ToSet(s) == {s[k] : k \in 1..Len(s)}
JInit == i \in 1..Len(Obs) /\ gdoor = Obs[i].door /\ gincl = ToSet(Obs[i].incl) /\ gexcl = ToSet(Obs[i].excl)
JNext == UNCHANGED <<i, gvars>>
JSpec == JInit /\ [][JNext]_<<i, gvars>>
Report ==
  IF Obs[i].err # 0 THEN PrintT(<<"DISAGREE", i, 0, "raised">>)
  ELSE LET ex == GExpect(gincl, gexcl) IN
       /\ \A o \in 1..GN : IF ex[o] = -1 \/ Obs[i].vec[o] = ex[o] THEN TRUE
                            ELSE PrintT(<<"DISAGREE", i, o, IF Obs[i].vec[o] = 1 THEN "leak" ELSE "dropped">>)
       /\ IF Obs[i].sel = GSelected(gincl, gexcl) THEN TRUE ELSE PrintT(<<"DISAGREE", i, 0, "ops-selected">>)
       /\ IF Obs[i].total = GN THEN TRUE ELSE PrintT(<<"DISAGREE", i, 0, "ops-total">>)
=============================================================================
