SPECIFICATION Spec
CONSTANT Threads = {1, 2, 3}
CONSTANT Shared = TRUE
INVARIANT ResolvesOwnFile
CHECK_DEADLOCK FALSE
