SPECIFICATION Spec
CONSTANT MaxEvents = 3
INVARIANT TypeOK
INVARIANT AlwaysEnabled
INVARIANT FinishEnabled
INVARIANT UniqueOnce
INVARIANT GroupedIsUnique
INVARIANT NoFailureLost
INVARIANT ExactlyOnce
INVARIANT JunitByLabel
INVARIANT Export
CHECK_DEADLOCK FALSE
