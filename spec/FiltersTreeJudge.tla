-------------------------- MODULE FiltersTreeJudge --------------------------
(* Code -> spec: after all derivations of a history were made, what every node (root first) offers and reports.               *)
(* Observation = [door, nodes, err (number of the derivation that raised, 0: none), vecs : one 0/1 vector per node,           *)
(*                stats : one [sel, total, lsel, ltotal] per node]                                                             *)
EXTENDS FiltersTree, IOUtils
Obs == JsonDeserialize(IOEnv.OBS_FILE)
VARIABLE i
JInit == /\ i \in 1..Len(Obs) /\ door = Obs[i].door /\ base = 1 /\ incl = {} /\ excl = {} /\ tree = Obs[i].nodes
JNext == UNCHANGED <<i, tvars>>
JSpec == JInit /\ [][JNext]_<<i, tvars>>
Field(n, name, got, want) == IF want = -1 \/ got = want THEN TRUE ELSE PrintT(<<"DISAGREE", i, n, 0, name>>)
NodeReport(n) ==
  LET ex == NodeExpect(door, tree, n)
      st == NodeStat(door, tree, n)
      v == Obs[i].vecs[n + 1]
      s == Obs[i].stats[n + 1]
  IN /\ \A o \in 1..NOps :
          IF ex[o] = -1 \/ v[o] = ex[o] THEN TRUE
          ELSE PrintT(<<"DISAGREE", i, n, o, IF v[o] = 1 THEN "leak" ELSE "dropped">>)
     /\ Field(n, "ops-selected", s.sel, st.sel) /\ Field(n, "ops-total", s.total, st.total)
     /\ Field(n, "links-selected", s.lsel, st.lsel) /\ Field(n, "links-total", s.ltotal, st.ltotal)
Report == IF Obs[i].err # 0 THEN PrintT(<<"DISAGREE", i, Obs[i].err, 0, "raised">>)
          ELSE \A n \in 0..Len(tree) : NodeReport(n)
=============================================================================
