------------------------------- MODULE Hooks -------------------------------
(***************************************************************************)
(* C19 - extensions apply exactly where their own filters say.             *)
(*                                                                         *)
(* State: one hook registry per scope (global / schema / test), the filter *)
(* of every hook ever registered, and the history of API calls that        *)
(* produced them.  One action per user-visible call:                       *)
(*                                                                         *)
(*   Register(r, f, c)  a hook function is registered through registrar r  *)
(*        r = "global"        schemathesis.hook                            *)
(*            "schema"        schema.hook            (schema A)            *)
(*            "schema_hooks"  schema.hooks.register  (schema A)            *)
(*            "test"          HookDispatcher.add_dispatcher(test).register *)
(*        f = "bare"        @reg                     def <hook name>(...)  *)
(*            "named"       @reg("<hook name>")      def f(...)            *)
(*            "filt_bare"   @reg.<chain>             def <hook name>(...)  *)
(*            "filt_named"  @reg.<chain>("<name>")   def f(...)            *)
(*            "named_filt"  @reg("<name>").<chain>   def f(...)            *)
(*            "apply"       @schema.hooks.apply(f, name="<name>") on test  *)
(*            "apply_own"   @schema.hooks.apply(<hook name>) on test       *)
(*        c = the chain of apply_to(...) / skip_for(...) calls written in  *)
(*            THAT registration ("-" = none)                               *)
(*   Unregister(s, h)   dispatcher-of-scope-s.unregister(function of h)    *)
(*   Generate(w)        a case is generated for every operation of both    *)
(*                      schemas, on the SAME schema / operation objects as *)
(*                      every other generation of the history;             *)
(*                      w = "with_test": as_strategy(hooks=<test           *)
(*                      dispatcher>) for schema A, "without_test": no test *)
(*                      dispatcher, "with_test_explicit": as with_test,    *)
(*                      part of the data given explicitly (the rest is     *)
(*                      generated), "with_test_negative": as with_test,    *)
(*                      data that violates the schema is generated.        *)
(*                      Every history ends with an implicit                *)
(*                      Generate("with_test").                             *)
(*                                                                         *)
(* The oracle (AppliedAt) is written from the property text: at EVERY      *)
(* generation a hook is applied to exactly the operations selected by the  *)
(* filter given in its own registration, provided it is registered at that *)
(* moment and its scope covers the generation (global: every schema;       *)
(* schema: its schema; test: generations made for that test).  Nothing     *)
(* else matters - not other registrations, not earlier generations, not    *)
(* the order in which the two schemas are used.                            *)
(* The hook kind of the k-th registration is plan.names[k]; plan.order is  *)
(* the order in which the two schemas are used at every generation ("A":   *)
(* only schema A is used in the process).                                  *)
(***************************************************************************)
EXTENDS HooksCatalogue, TLC, Json

CONSTANTS MaxReg,      \* maximal number of registrations in a history
          MaxUnreg,    \* maximal number of unregistrations
          MaxGen,      \* maximal number of intermediate generations
          MaxLen,      \* maximal number of events
          Negative,    \* TRUE: generations of schema-violating data are part of the histories (expensive to generate)
          Narrow       \* TRUE: forms bare / filt_bare / apply and chains C1 (C1, C2 when MaxLen > 3) only (histories with intermediate generations)
(* Rich (declared in HooksCatalogue) = TRUE: thorough catalogue - 4th registrar, 4th chain, other plans, foreign-scope unregister *)

---------------------------------------------------------------------------
Scopes == {"global", "schema", "test"}
Registrars == IF Rich THEN {"global", "schema", "schema_hooks", "test"} ELSE {"global", "schema", "test"}
ScopeOf(r) == IF r = "schema_hooks" THEN "schema" ELSE r
FilteredForms == IF Narrow THEN {"filt_bare"} ELSE {"filt_bare", "filt_named", "named_filt"}
PlainForms == IF Narrow THEN {"bare"} ELSE {"bare", "named"}
ApplyForms == IF Narrow THEN {"apply_own"} ELSE IF Rich THEN {"apply", "apply_own"} ELSE {"apply"}
GenModes == {"with_test", "without_test", "with_test_explicit"} \cup (IF Negative THEN {"with_test_negative"} ELSE {})
UsedChains == IF Narrow THEN (IF MaxLen > 3 THEN {"C1", "C2"} ELSE {"C1"})
              ELSE IF Rich THEN {"C1", "C3", "C4"}
              ELSE {"C2", "C3"}                 \* exclude-only (by tag) and include + exclude

(* plans: hook name of the k-th registration, and the order in which the schemas are used *)
Plan(names, order) == [names |-> names, order |-> order]
PlansPairs == { Plan(<<"map_query", "map_query">>, "AB"),
                Plan(<<"flatmap_body", "map_case">>, "BA"),
                Plan(<<"before_generate_body", "before_init_operation">>, "A") }
PlansTriples == { Plan(<<"map_query", "map_query", "filter_query">>, "BA"),
                  Plan(<<"before_generate_body", "flatmap_case", "map_case">>, "A"),
                  Plan(<<"filter_case", "before_generate_case", "flatmap_query">>, "AB") }
PlansRich == { Plan(<<"map_headers", "filter_cookies">>, "AB"),
               Plan(<<"before_generate_path_parameters", "flatmap_case">>, "BA") }
PlansGen == { Plan(<<"map_query", "filter_query">>, "AB"),
              Plan(<<"before_init_operation", "before_generate_query">>, "BA") }

(* several hooks of the SAME name on the dispatchers, with different filters, in every order: data hooks and dispatched hooks *)
PlansSame == { Plan(<<"map_query", "map_query", "map_query">>, "AB"),
               Plan(<<"before_init_operation", "before_init_operation", "before_init_operation">>, "BA"),
               Plan(<<"filter_body", "filter_body", "filter_body">>, "A"),
               Plan(<<"before_generate_headers", "before_generate_headers", "before_generate_headers">>, "A") }
Plans == IF MaxGen > 0 THEN PlansGen ELSE IF Narrow THEN PlansSame ELSE IF Rich THEN PlansRich ELSE IF MaxReg <= 2 THEN PlansPairs ELSE PlansTriples

---------------------------------------------------------------------------
(* the oracle, as a function of the history alone *)
RegEvent(r, f, c, n) == [ev |-> "reg", r |-> r, f |-> f, c |-> c, n |-> n, t |-> 0]
UnregEvent(s, h)     == [ev |-> "unreg", r |-> s, f |-> "-", c |-> "-", n |-> "-", t |-> h]
GenEvent(w)          == [ev |-> "gen", r |-> "-", f |-> w, c |-> "-", n |-> "-", t |-> 0]
RegPositions(hs) == {k \in 1..Len(hs) : hs[k].ev = "reg"}
(* hook ids are the ordinal numbers of the registrations *)
PosOf(hs, h) == CHOOSE k \in RegPositions(hs) : Cardinality({j \in RegPositions(hs) : j <= k}) = h
NRegs(hs) == Cardinality(RegPositions(hs))
NRegsUpTo(hs, k) == Cardinality({j \in RegPositions(hs) : j <= k})
(* unregister removes exactly the given hook, and only from the dispatcher it is called on; LiveAt: after the first k events *)
LiveAt(hs, k, h) == LET p == PosOf(hs, h) IN
                      /\ p <= k
                      /\ ~\E j \in (p + 1)..k : hs[j].ev = "unreg" /\ hs[j].t = h /\ hs[j].r = ScopeOf(hs[p].r)
(* SelTable[c][o]: is operation o selected by the filter written as chain c (a constant, evaluated once by TLC) *)
SelTable == [c \in ChainIds \cup {"-"} |-> [o \in 1..NOps |-> Selected(Ops[o], FilterSetOf(c))]]
(* does the scope of a hook cover a generation for operation o made with / without the test dispatcher *)
Covers(scope, o, w) == \/ scope = "global"
                       \/ Ops[o].schema = "A" /\ (scope = "schema" \/ (scope = "test" /\ w # "without_test"))
(* plan.order: "AB" / "BA" - both schemas are used at every generation, in that order; "A" - schema B is never used in the     *)
(* process, so nothing is generated for (or applied to) its operations                                                         *)
Used(ord, o) == ord # "A" \/ Ops[o].schema = "A"
(* applied at a generation made after the first k events *)
AppliedAt(hs, k, w, h, o) == /\ LiveAt(hs, k, h) /\ SelTable[hs[PosOf(hs, h)].c][o]
                             /\ Covers(ScopeOf(hs[PosOf(hs, h)].r), o, w)
(* the generations of a history: every Generate event and the implicit final one; <<number of events before it, mode>> *)
GenPoints(hs) == {<<k - 1, hs[k].f>> : k \in {j \in 1..Len(hs) : hs[j].ev = "gen"}} \cup {<<Len(hs), "with_test">>}
Applied(hs, h, o) == AppliedAt(hs, Len(hs), "with_test", h, o)
MatrixAt(hs, k, w) == [h \in 1..NRegsUpTo(hs, k) |-> [o \in 1..NOps |-> IF AppliedAt(hs, k, w, h, o) THEN 1 ELSE 0]]
MatrixUsed(hs, k, w, ord) == [h \in 1..NRegsUpTo(hs, k) |-> [o \in 1..NOps |-> IF Used(ord, o) /\ AppliedAt(hs, k, w, h, o) THEN 1 ELSE 0]]

---------------------------------------------------------------------------
VARIABLES hist,       \* sequence of events
          plan,       \* hook-kind plan and schema order of this history
          registry,   \* scope -> sequence of hook ids registered there, in order
          filterOf    \* hook id -> the filter given at ITS registration (as the chain id; FilterSetOf denotes the filter set)
vars == <<hist, plan, registry, filterOf>>

nreg == Len(filterOf)
nunreg == Cardinality({k \in 1..Len(hist) : hist[k].ev = "unreg"})
ngen == Cardinality({k \in 1..Len(hist) : hist[k].ev = "gen"})

Init == /\ hist = << >> /\ plan \in Plans
        /\ registry = [s \in Scopes |-> << >>] /\ filterOf = << >>

Register(r, f, c) ==
  /\ nreg < MaxReg /\ nreg < Len(plan.names) /\ Len(hist) < MaxLen
  /\ (f \in PlainForms \/ f \in ApplyForms) <=> c = "-"
  /\ f \in ApplyForms => r = "test"
  /\ hist' = Append(hist, RegEvent(r, f, c, plan.names[nreg + 1]))
  /\ registry' = [registry EXCEPT ![ScopeOf(r)] = Append(@, nreg + 1)]
  /\ filterOf' = Append(filterOf, c)
  /\ UNCHANGED plan

InRegistry(s, h) == \E i \in 1..Len(registry[s]) : registry[s][i] = h
Unregister(s, h) ==
  /\ nunreg < MaxUnreg /\ Len(hist) < MaxLen
  /\ h \in 1..nreg
  /\ Rich \/ InRegistry(s, h)          \* thorough: also calls on a dispatcher that does not hold the hook (a no-op)
  /\ \E s2 \in Scopes : InRegistry(s2, h)
  /\ hist' = Append(hist, UnregEvent(s, h))
  /\ registry' = [registry EXCEPT ![s] = SelectSeq(@, LAMBDA x : x # h)]
  /\ UNCHANGED <<plan, filterOf>>

(* generating data never changes what is registered *)
Generate(w) ==
  /\ ngen < MaxGen /\ Len(hist) < MaxLen
  /\ hist' = Append(hist, GenEvent(w))
  /\ UNCHANGED <<plan, registry, filterOf>>

Next == \/ \E r \in Registrars, f \in PlainForms \cup FilteredForms \cup ApplyForms, c \in UsedChains \cup {"-"} : Register(r, f, c)
        \/ \E s \in Scopes, h \in 1..MaxReg : Unregister(s, h)
        \/ \E w \in GenModes : Generate(w)
Spec == Init /\ [][Next]_vars

---------------------------------------------------------------------------
(* design invariants, checked on every enumerated history *)
StateApplied(h, o) == /\ \E s \in Scopes : InRegistry(s, h) /\ Covers(s, o, "with_test")
                      /\ SelTable[filterOf[h]][o]
TypeOK == /\ nreg <= MaxReg /\ Len(hist) <= MaxLen /\ NRegs(hist) = nreg
          /\ \A s \in Scopes : \A i \in 1..Len(registry[s]) : registry[s][i] \in 1..nreg
(* every hook lives in at most one registry, the one of the scope it was registered on *)
ScopePartition == \A h \in 1..nreg : \A s \in Scopes :
                     InRegistry(s, h) => s = ScopeOf(hist[PosOf(hist, h)].r)
(* the state kept by the actions and the history-only oracle agree *)
OracleAgrees == \A h \in 1..nreg : \A o \in 1..NOps : StateApplied(h, o) = Applied(hist, h, o)
(* an unfiltered hook applies to everything its scope covers while registered *)
UnfilteredEverywhere == \A h \in 1..nreg : (hist[PosOf(hist, h)].c = "-" /\ LiveAt(hist, Len(hist), h)) =>
                           \A o \in 1..NOps : Covers(ScopeOf(hist[PosOf(hist, h)].r), o, "with_test") => Applied(hist, h, o)
(* independence: what a hook applies to at a generation is what it would apply to were its registration the only event before it *)
Independent == \A g \in GenPoints(hist) : \A h \in 1..NRegsUpTo(hist, g[1]) : \A o \in 1..NOps :
                 AppliedAt(hist, g[1], g[2], h, o) =
                   (LiveAt(hist, g[1], h) /\ AppliedAt(<< hist[PosOf(hist, h)] >>, 1, g[2], 1, o))
(* generating never changes a later expectation: dropping the Generate events gives the same final matrix *)
GenerationsAreInert == LET noGen == SelectSeq(hist, LAMBDA e : e.ev # "gen")
                       IN MatrixAt(noGen, Len(noGen), "with_test") = MatrixAt(hist, Len(hist), "with_test")
(* same label, different schema: the catalogue contains chains that tell the twins apart *)
Twins(o, q) == q # o /\ Ops[q].method = Ops[o].method /\ Ops[q].path = Ops[o].path
ASSUME \E c \in UsedChains : \E o, q \in 1..NOps : Twins(o, q) /\ SelTable[c][o] # SelTable[c][q]
(* every chain of the catalogue is decided by the property text (no "U") and discriminates *)
ChainsDecided == \A c \in ChainIds : \A o \in 1..NOps : SelectedVerdict(Ops[o], FilterSetOf(c)) # "U"
ChainsDiscriminate == \A c \in ChainIds : /\ \E o \in 1..NOps : Selected(Ops[o], FilterSetOf(c))
                                          /\ \E o \in 1..NOps : ~Selected(Ops[o], FilterSetOf(c))
ASSUME ChainsDecided /\ ChainsDiscriminate

(* export: the catalogue once, then every non-empty history with the expected applied-matrix of each of its generations *)
Bit(b) == IF b THEN 1 ELSE 0
GenSeq(hs) == LET inner == SelectSeq([k \in 1..Len(hs) |-> <<k - 1, hs[k].f, hs[k].ev>>], LAMBDA x : x[3] = "gen")
              IN [j \in 1..(Len(inner) + 1) |-> IF j <= Len(inner) THEN <<inner[j][1], inner[j][2]>> ELSE <<Len(hs), "with_test">>]
Export ==
  IF hist = << >>
  THEN IF plan = CHOOSE p \in Plans : TRUE
       THEN PrintT(<<"CATALOGUE", ToJson([ops |-> Ops, chains |-> [c \in ChainIds |-> ChainDef[c]]])>>)
       ELSE TRUE
  ELSE PrintT(<<"CASE", ToJson([events |-> hist, order |-> plan.order,
                                 expect |-> [j \in 1..Len(GenSeq(hist)) |-> MatrixUsed(hist, GenSeq(hist)[j][1], GenSeq(hist)[j][2], plan.order)]])>>)
=============================================================================
