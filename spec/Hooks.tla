------------------------------- MODULE Hooks -------------------------------
(***************************************************************************)
(* C19 - extensions apply exactly where their own filters say.             *)
(*                                                                         *)
(* State: one hook registry per scope (global / schema / test), the filter *)
(* of every hook ever registered, and the history of API calls that        *)
(* produced them.  One action per user-visible call:                       *)
(*                                                                         *)
(*   Register(r, f, c)  a hook function is registered through registrar r  *)
(*        r = "global"        schemathesis.hook                            *)
(*            "schema"        schema.hook                                  *)
(*            "schema_hooks"  schema.hooks.register                        *)
(*            "test"          HookDispatcher.add_dispatcher(test).register *)
(*        f = "bare"        @reg                     def <hook name>(...)  *)
(*            "named"       @reg("<hook name>")      def f(...)            *)
(*            "filt_bare"   @reg.<chain>             def <hook name>(...)  *)
(*            "filt_named"  @reg.<chain>("<name>")   def f(...)            *)
(*            "named_filt"  @reg("<name>").<chain>   def f(...)            *)
(*            "apply"       @schema.hooks.apply(f, name="<name>") on test  *)
(*        c = the chain of apply_to(...) / skip_for(...) calls written in  *)
(*            THAT registration ("-" = none)                               *)
(*   Unregister(s, h)   dispatcher-of-scope-s.unregister(function of h)    *)
(*                                                                         *)
(* The oracle (Applied) is written from the property text: a hook is       *)
(* applied to exactly the operations selected by the filter given in its   *)
(* own registration, as long as it is registered; nothing else matters.    *)
(* The hook kind of the k-th registration is plan[k]; the plan is chosen   *)
(* from a catalogue so that all of map / filter / flatmap / before_generate*)
(* on query, body, case (and headers, cookies, path_parameters) occur.     *)
(***************************************************************************)
EXTENDS HooksCatalogue, TLC, Json

CONSTANTS MaxReg,      \* maximal number of registrations in a history
          MaxUnreg,    \* maximal number of unregistrations
          MaxLen       \* maximal number of events
(* Rich (declared in HooksCatalogue) = TRUE: thorough catalogue - 4th registrar, 4th chain, other plans, foreign-scope unregister *)

---------------------------------------------------------------------------
Scopes == {"global", "schema", "test"}
Registrars == IF Rich THEN {"global", "schema", "schema_hooks", "test"} ELSE {"global", "schema", "test"}
ScopeOf(r) == IF r = "schema_hooks" THEN "schema" ELSE r
FilteredForms == {"filt_bare", "filt_named", "named_filt"}
PlainForms == {"bare", "named"}

(* hook-kind plans: plan[k] is the hook name of the k-th registration *)
PlansPairs == { <<"map_query", "map_query">>,
                <<"filter_query", "flatmap_body">>,
                <<"before_generate_body", "map_case">>,
                <<"flatmap_case", "before_generate_query">> }
PlansTriples == { <<"map_query", "map_query", "filter_query">>,
                  <<"before_generate_body", "flatmap_case", "map_case">>,
                  <<"filter_case", "before_generate_case", "flatmap_query">> }
PlansRich == { <<"map_headers", "filter_cookies">>,
               <<"before_generate_path_parameters", "flatmap_headers">>,
               <<"map_body", "before_generate_query">>,
               <<"flatmap_body", "filter_body">> }
Plans == IF Rich THEN PlansRich ELSE IF MaxReg <= 2 THEN PlansPairs ELSE PlansTriples

---------------------------------------------------------------------------
(* the oracle, as a function of the history alone *)
RegEvent(r, f, c, n) == [ev |-> "reg", r |-> r, f |-> f, c |-> c, n |-> n, t |-> 0]
UnregEvent(s, h)     == [ev |-> "unreg", r |-> s, f |-> "-", c |-> "-", n |-> "-", t |-> h]
RegPositions(hs) == {k \in 1..Len(hs) : hs[k].ev = "reg"}
(* hook ids are the ordinal numbers of the registrations *)
PosOf(hs, h) == CHOOSE k \in RegPositions(hs) : Cardinality({j \in RegPositions(hs) : j <= k}) = h
NRegs(hs) == Cardinality(RegPositions(hs))
(* unregister removes exactly the given hook, and only from the dispatcher it is called on *)
Live(hs, h) == LET k == PosOf(hs, h) IN
                 ~\E j \in (k + 1)..Len(hs) : hs[j].ev = "unreg" /\ hs[j].t = h /\ hs[j].r = ScopeOf(hs[k].r)
(* SelTable[c][o]: is operation o selected by the filter written as chain c (a constant, evaluated once by TLC) *)
SelTable == [c \in ChainIds \cup {"-"} |-> [o \in 1..NOps |-> Selected(Ops[o], FilterSetOf(c))]]
Applied(hs, h, o) == Live(hs, h) /\ SelTable[hs[PosOf(hs, h)].c][o]

---------------------------------------------------------------------------
VARIABLES hist,       \* sequence of events
          plan,       \* hook-kind plan of this history
          registry,   \* scope -> sequence of hook ids registered there, in order
          filterOf    \* hook id -> the filter given at ITS registration (as the chain id; FilterSetOf denotes the filter set)
vars == <<hist, plan, registry, filterOf>>

nreg == Len(filterOf)
nunreg == Cardinality({k \in 1..Len(hist) : hist[k].ev = "unreg"})

Init == /\ hist = << >> /\ plan \in Plans
        /\ registry = [s \in Scopes |-> << >>] /\ filterOf = << >>

Register(r, f, c) ==
  /\ nreg < MaxReg /\ nreg < Len(plan) /\ Len(hist) < MaxLen
  /\ (f \in PlainForms \/ f = "apply") <=> c = "-"
  /\ f = "apply" => r = "test"
  /\ hist' = Append(hist, RegEvent(r, f, c, plan[nreg + 1]))
  /\ registry' = [registry EXCEPT ![ScopeOf(r)] = Append(@, nreg + 1)]
  /\ filterOf' = Append(filterOf, c)
  /\ UNCHANGED plan

InRegistry(s, h) == \E i \in 1..Len(registry[s]) : registry[s][i] = h
Unregister(s, h) ==
  /\ nunreg < MaxUnreg /\ Len(hist) < MaxLen
  /\ h \in 1..nreg
  /\ Rich \/ InRegistry(s, h)          \* thorough: also calls on a dispatcher that does not hold the hook (a no-op)
  /\ \E s2 \in Scopes : InRegistry(s2, h)
  /\ hist' = Append(hist, UnregEvent(s, h))
  /\ registry' = [registry EXCEPT ![s] = SelectSeq(@, LAMBDA x : x # h)]
  /\ UNCHANGED <<plan, filterOf>>

Next == \/ \E r \in Registrars, f \in PlainForms \cup FilteredForms \cup {"apply"}, c \in ChainIds \cup {"-"} : Register(r, f, c)
        \/ \E s \in Scopes, h \in 1..MaxReg : Unregister(s, h)
Spec == Init /\ [][Next]_vars

---------------------------------------------------------------------------
(* design invariants, checked on every enumerated history *)
StateApplied(h, o) == (\E s \in Scopes : InRegistry(s, h)) /\ SelTable[filterOf[h]][o]
TypeOK == /\ nreg <= MaxReg /\ Len(hist) <= MaxLen /\ NRegs(hist) = nreg
          /\ \A s \in Scopes : \A i \in 1..Len(registry[s]) : registry[s][i] \in 1..nreg
(* every hook lives in at most one registry, the one of the scope it was registered on *)
ScopePartition == \A h \in 1..nreg : \A s \in Scopes :
                     InRegistry(s, h) => s = ScopeOf(hist[PosOf(hist, h)].r)
(* the state kept by the actions and the history-only oracle agree *)
OracleAgrees == \A h \in 1..nreg : \A o \in 1..NOps : StateApplied(h, o) = Applied(hist, h, o)
(* an unfiltered hook applies everywhere while registered *)
UnfilteredEverywhere == \A h \in 1..nreg : (hist[PosOf(hist, h)].c = "-" /\ Live(hist, h)) =>
                           \A o \in 1..NOps : Applied(hist, h, o)
(* independence: what a registered hook applies to is what it would apply to were it the only registration, whatever its form *)
Independent == \A h \in 1..nreg : \A o \in 1..NOps :
                 Applied(hist, h, o) =
                   (Live(hist, h) /\ Applied(<< RegEvent("schema", "filt_bare", hist[PosOf(hist, h)].c, "map_query") >>, 1, o))
(* every chain of the catalogue is decided by the property text (no "U") and discriminates *)
ChainsDecided == \A c \in ChainIds : \A o \in 1..NOps : SelectedVerdict(Ops[o], FilterSetOf(c)) # "U"
ChainsDiscriminate == \A c \in ChainIds : /\ \E o \in 1..NOps : Selected(Ops[o], FilterSetOf(c))
                                          /\ \E o \in 1..NOps : ~Selected(Ops[o], FilterSetOf(c))
ASSUME ChainsDecided /\ ChainsDiscriminate

(* export: the catalogue once, then every non-empty history with the expected applied-matrix *)
Bit(b) == IF b THEN 1 ELSE 0
Export ==
  IF hist = << >>
  THEN IF plan = CHOOSE p \in Plans : TRUE
       THEN PrintT(<<"CATALOGUE", ToJson([ops |-> Ops, chains |-> [c \in ChainIds |-> ChainDef[c]]])>>)
       ELSE TRUE
  ELSE PrintT(<<"CASE", ToJson([events |-> hist,
                                 expect |-> [h \in 1..nreg |-> [o \in 1..NOps |-> Bit(Applied(hist, h, o))]]])>>)
=============================================================================
