SPECIFICATION WSpec
CONSTANT N = 2
CONSTANT MaxWrites = 2
CONSTANT HandlerCloses = FALSE
INVARIANT TimeoutReachable
CHECK_DEADLOCK FALSE
