SPECIFICATION TSpec
CONSTANT N = 1000
CONSTANT MaxWrites = 100000
CONSTANT HandlerCloses = FALSE
INVARIANT Report
CHECK_DEADLOCK FALSE
