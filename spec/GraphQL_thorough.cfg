SPECIFICATION Spec
CONSTANT Thorough = TRUE
INVARIANT TableClosed
INVARIANT HookYieldsTypes
INVARIANT OfferedSane
INVARIANT NameClashDistinct
INVARIANT CanonAccepted
INVARIANT MutantsRejected
INVARIANT Export
CHECK_DEADLOCK FALSE
