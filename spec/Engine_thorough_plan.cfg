SPECIFICATION Spec
CONSTANTS
  W = 2
  NOps = 2
  K = 1
  MaxFail = 1
  NPhases = 3
  FixDrain = TRUE
  FixWorkerErr = TRUE
  AllowStop = TRUE
  AllowFault = FALSE
  AliveCheck = TRUE
  PhaseOn = {1, 3}
  AllowCtrlC = TRUE
  MaxNFE = 1
  AllowInvalid = FALSE
INVARIANT ProtocolOK
INVARIANT ClosedAtEnd
INVARIANT NoProblemLost
INVARIANT ZeroMeansClean
INVARIANT AtMostOneAfterStop
INVARIANT MaxFailuresRespected
INVARIANT LaterPhasesSkipped
CHECK_DEADLOCK FALSE
