SPECIFICATION Spec
CONSTANTS
  StepCount = 2
  MaxScen = 3
  MaxSuites = 2
  MaxFail = 0
  FixDrain = TRUE
  FixCtrlC = TRUE
  FixDrainExec = TRUE
  FixSetup = TRUE
  FixWorst = TRUE
  AllowStop = TRUE
  AllowCtrlC = TRUE
  AllowError = TRUE
  AliveCheck = TRUE
  NKinds = 1
INVARIANT ProtocolOK
INVARIANT ClosedAtEnd
INVARIANT NoProblemLost
INVARIANT AtMostOneRequestAfterStop
INVARIANT AtMostOneScenarioAfterStop
INVARIANT StepsBounded
INVARIANT FailureLimit
CHECK_DEADLOCK FALSE
