------------------------------- MODULE Repro -------------------------------
(***************************************************************************)
(* C13 - a fixed seed reproduces the same requests.                        *)
(*                                                                         *)
(* TRACE VALIDATION ONLY: the space (seeds x schemas x configurations) is   *)
(* driven from outside; TLC cannot enumerate it.  The module states what   *)
(* two request logs of the same configuration must have in common and      *)
(* consumes recorded logs (the log of the API under test is the ground     *)
(* truth) in lock-step.                                                    *)
(*                                                                         *)
(* A log is the sequence of requests one run sent in ONE phase, each       *)
(* request projected to digests (small integers assigned by first          *)
(* occurrence, equal integer <=> equal content): operation, method, URL,   *)
(* headers (without the per-case id header and the Host of the harness's   *)
(* own server), body; plus the set of failures the run reported in that    *)
(* phase.  A unit pairs two logs of the same phase:                        *)
(*   same = TRUE : same seed, schema, configuration, deterministic API     *)
(*   wa, wb      : worker counts of the two runs                           *)
(*   stateless   : the API's answers depend on the request only            *)
(*   how         : what differs between the two runs (fresh processes with *)
(*                 different / equal string-hash seeds, second run in a    *)
(*                 warm process, worker count, the seed) - attribution only*)
(*   hist        : what run b's process tested BEFORE run b (a history of  *)
(*                 the family of ReproHistory.tla: "self" = the same       *)
(*                 schema, "twin" = another schema with the same operation *)
(*                 labels and different parameter / body schemas); run a   *)
(*                 is always the first run of a fresh process.  The        *)
(*                 property names seed, schema and configuration only, so  *)
(*                 NO clause below reads hist: a unit is constrained       *)
(*                 whatever was tested earlier in the process              *)
(*                 (HistoryFree of ReproHistory.tla, on real traffic).     *)
(* Actions: Line consumes one position of both logs when they agree;       *)
(* Finish closes a unit whose logs are exhausted and whose failure sets    *)
(* agree; BagOp / BagFinish do the same per operation for the multiset     *)
(* property; Free closes a unit the property does not constrain.           *)
(***************************************************************************)
EXTENDS Integers, Sequences, SequencesExt, FiniteSets, TLC, Json, IOUtils

Data == JsonDeserialize(IOEnv.OBS_FILE)
Logs == Data.logs          \* << [lines |-> << [op, m, u, h, b] >>, fails |-> << Int >>] >>
Units == Data.units        \* << [a, b (indices into Logs), ph, same, wa, wb, stateless, limited, how, hist] >>
HistKinds == {"self", "twin"}
WellFormed(u) == \A i \in 1..Len(u.hist) : u.hist[i] \in HistKinds

Phases == {"examples", "coverage", "fuzzing", "stateful"}
SeqConstrained(u) == u.same /\ u.wa = 1 /\ u.wb = 1                           \* one worker: same sequence, same failures
BagConstrained(u) == u.same /\ (u.wa > 1 \/ u.wb > 1) /\ u.stateless          \* several workers: same multiset per operation
                     /\ u.ph \in {"examples", "coverage", "fuzzing"}

VARIABLES t, l, done
vars == <<t, l, done>>
A == Logs[Units[t].a].lines
B == Logs[Units[t].b].lines
SetOf(s) == {s[i] : i \in 1..Len(s)}

Init == t \in 1..Len(Units) /\ l = 1 /\ done = FALSE /\ Assert(WellFormed(Units[t]), <<"unit with an unknown history", t>>)

(* ---- single worker: position-wise equality, then equal failure sets ---- *)
Line == /\ ~done /\ SeqConstrained(Units[t])
        /\ l <= Len(A) /\ l <= Len(B)
        /\ A[l] = B[l]
        /\ l' = l + 1 /\ UNCHANGED <<t, done>>
(* limited = a failure limit (max_failures) is configured.  The limit is counted by the thread that consumes the events while the     *)
(* worker already proceeds, so a run that reaches its limit is CUT SHORT at a scheduling-dependent moment: at most InFlight requests  *)
(* of the work already started may or may not still go out.  Such logs must agree position-wise on the common prefix and may differ   *)
(* only by that tail; the reported failures must still be the same.                                                                   *)
InFlight == 1
MinOf(x, y) == IF x <= y THEN x ELSE y
MaxOf(x, y) == IF x >= y THEN x ELSE y
Finish == /\ ~done /\ SeqConstrained(Units[t])
          /\ IF Units[t].limited
             THEN l = MinOf(Len(A), Len(B)) + 1 /\ MaxOf(Len(A), Len(B)) - MinOf(Len(A), Len(B)) <= InFlight
             ELSE l = Len(A) + 1 /\ l = Len(B) + 1
          /\ SetOf(Logs[Units[t].a].fails) = SetOf(Logs[Units[t].b].fails)
          /\ done' = TRUE /\ UNCHANGED <<t, l>>

(* ---- several workers, stateless API: per-operation bag equality with the single-worker run ---- *)
OpsOf(s) == {s[i].op : i \in 1..Len(s)}
Keys == SetToSortSeq(OpsOf(A) \cup OpsOf(B), LAMBDA x, y : x < y)
Sel(s, op) == SelectSeq(s, LAMBDA x : x.op = op)
Count(s, x) == Cardinality({i \in 1..Len(s) : s[i] = x})
BagEq(s1, s2) == Len(s1) = Len(s2) /\ \A i \in 1..Len(s1) : Count(s1, s1[i]) = Count(s2, s1[i])
BagOp == /\ ~done /\ BagConstrained(Units[t])
         /\ l <= Len(Keys)
         /\ BagEq(Sel(A, Keys[l]), Sel(B, Keys[l]))
         /\ l' = l + 1 /\ UNCHANGED <<t, done>>
BagFinish == /\ ~done /\ BagConstrained(Units[t])
             /\ l = Len(Keys) + 1
             /\ done' = TRUE /\ UNCHANGED <<t, l>>

(* ---- everything else (different seeds; several workers in the stateful phase or with a stateful API) is unconstrained ---- *)
Free == /\ ~done /\ ~SeqConstrained(Units[t]) /\ ~BagConstrained(Units[t])
        /\ done' = TRUE /\ UNCHANGED <<t, l>>

Next == Line \/ Finish \/ BagOp \/ BagFinish \/ Free
Spec == Init /\ [][Next]_vars

(* ---- reporting ---- *)
FirstDiff(x, y) == IF x.op # y.op THEN "operation" ELSE IF x.m # y.m THEN "method" ELSE IF x.u # y.u THEN "url"
                   ELSE IF x.h # y.h THEN "headers" ELSE "body"
Why == IF BagConstrained(Units[t]) THEN "bag"
       ELSE IF l > Len(A) /\ l > Len(B) THEN "failures"
       ELSE IF Units[t].limited /\ (l > Len(A) \/ l > Len(B)) /\ MaxOf(Len(A), Len(B)) - MinOf(Len(A), Len(B)) <= InFlight THEN "failures"
       ELSE IF l > Len(A) \/ l > Len(B) THEN "length"
       ELSE FirstDiff(A[l], B[l])
(* sanity: the harness is not vacuous - over all units comparing DIFFERENT seeds at least one pair of logs differs *)
DiffUnits == {i \in 1..Len(Units) : ~Units[i].same}
NonVacuous == DiffUnits = {} \/ \E i \in DiffUnits : Logs[Units[i].a].lines # Logs[Units[i].b].lines
ReproTrace ==
    /\ IF done THEN PrintT(<<"ACCEPT", t>>)
       ELSE IF ~ENABLED Next THEN PrintT(<<"STUCK", t, l, Why>>) ELSE TRUE
    /\ IF t = 1 /\ l = 1 /\ ~done /\ ~NonVacuous THEN PrintT(<<"VACUOUS", Cardinality(DiffUnits)>>) ELSE TRUE
=============================================================================
