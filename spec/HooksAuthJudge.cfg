SPECIFICATION JSpec
CONSTANT MaxAuth = 3
CONSTANT MaxLen = 4
CONSTANT Rich = TRUE
INVARIANT Report
CHECK_DEADLOCK FALSE
