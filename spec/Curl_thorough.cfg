SPECIFICATION Spec
CONSTANT MaxLen = 3
CONSTANT LongLen = 4
INVARIANT TypeOK
INVARIANT QuoteRoundTrip
INVARIANT RefFaithful
INVARIANT NaivePitfalls
INVARIANT DefaultCTOnlyWithData
INVARIANT StaleRefuted
INVARIANT Export
CHECK_DEADLOCK FALSE
