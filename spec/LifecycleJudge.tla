--------------------------- MODULE LifecycleJudge ---------------------------
(* Code -> spec: observations recorded from the real checks are judged against Lifecycle's operators. *)
EXTENDS Lifecycle, IOUtils
Obs == JsonDeserialize(IOEnv.OBS_FILE)   \* sequence of [tree, link, obsUaf, obsRna]
VARIABLE i
JInit == i \in 1..Len(Obs) /\ tree = Obs[i].tree /\ link = Obs[i].link /\ extra = Obs[i].extra
JNext == UNCHANGED <<i, tree, link, extra>>
JSpec == JInit /\ [][JNext]_<<i, tree, link, extra>>
UafAgrees == Obs[i].obsUaf = UAF(tree, Len(tree))
RnaSound == Obs[i].obsRna => RNAAllowed(tree, Len(tree), link, extra)
Report == /\ IF UafAgrees THEN TRUE ELSE PrintT(<<"DISAGREE", i, "uaf", IF Obs[i].obsUaf THEN "unsound" ELSE "incomplete">>)
          /\ IF RnaSound THEN TRUE ELSE PrintT(<<"DISAGREE", i, "rna", "unsound">>)
=============================================================================
