----------------------------- MODULE Responses -----------------------------
(***************************************************************************)
(* C04 - response conformance verdicts agree with the documentation.       *)
(*                                                                         *)
(* State: `defn` (the documented responses of one operation: dialect,      *)
(* response keys in document order, media types, per key and media type a  *)
(* schema, documented headers, reference tables) and `resp` (one received  *)
(* response: status, Content-Type text, header texts, body bytes).  Pick   *)
(* = the API answers a request of the documented operation.                *)
(*                                                                         *)
(* Expected(defn, resp) is written from the OpenAPI 2.0 / 3.0.3 Responses, *)
(* Response, Media Type and Header Objects, RFC 7231 3.1.1.1 (media type   *)
(* syntax, parameters, case-insensitivity) and RFC 8259, never from        *)
(* schemathesis' checks.  It is three-valued PER FAILURE KIND:             *)
(*   "T" the kind must be reported, "F" it must not, "U" not decided.      *)
(* Body validity = OasSchema!Valid(defs, schema documented for the         *)
(* governing key and the matching media type, body, "response").           *)
(***************************************************************************)
EXTENDS OasSchema, Json

CONSTANT Thorough            \* BOOLEAN: size of the enumerated family

(* ------------------------------------------------------------------ text constants (code points) *)
K200 == <<50, 48, 48>>
K201 == <<50, 48, 49>>
K2XX == <<50, 88, 88>>
K4XX == <<52, 88, 88>>
K404 == <<52, 48, 52>>
KDefault == <<100, 101, 102, 97, 117, 108, 116>>
MTJson == <<97, 112, 112, 108, 105, 99, 97, 116, 105, 111, 110, 47, 106, 115, 111, 110>>                       \* application/json
MTPJson == <<97, 112, 112, 108, 105, 99, 97, 116, 105, 111, 110, 47, 112, 114, 111, 98, 108, 101, 109, 43, 106, 115, 111, 110>>  \* application/problem+json
MTText == <<116, 101, 120, 116, 47, 112, 108, 97, 105, 110>>                                                   \* text/plain
MTXml == <<97, 112, 112, 108, 105, 99, 97, 116, 105, 111, 110, 47, 120, 109, 108>>                             \* application/xml
TBadMT == <<106, 115, 111, 110>>                                                                               \* json  (no "/")
TCharset == <<59, 32, 99, 104, 97, 114, 115, 101, 116, 61, 117, 116, 102, 45, 56>>                             \* ; charset=utf-8
TApplication == <<97, 112, 112, 108, 105, 99, 97, 116, 105, 111, 110>>
TJson == <<106, 115, 111, 110>>
TPlusJson == <<43, 106, 115, 111, 110>>
NRate == <<88, 45, 82, 97, 116, 101>>        \* X-Rate
NTag == <<88, 45, 84, 97, 103>>              \* X-Tag
NFlag == <<88, 45, 70, 108, 97, 103>>        \* X-Flag
Tid == <<105, 100>>
Tname == <<110, 97, 109, 101>>
Tpw == <<112, 119>>
Ta == <<97>>
Tp1 == <<112, 49>>
Tp2 == <<112, 50>>
V5 == <<53>>
V50 == <<53, 48>>
Vabc == <<97, 98, 99>>
Vab == <<97, 98>>
Vabcd == <<97, 98, 99, 100>>
Vtrue == <<116, 114, 117, 101>>
Vmaybe == <<109, 97, 121, 98, 101>>
Vyes == <<121, 101, 115>>
TBrokenJson == <<123, 34, 105, 100, 34, 58>>  \* {"id":

MinOf(S) == CHOOSE i \in S : \A j \in S : i <= j
MaxOf(S) == CHOOSE i \in S : \A j \in S : i >= j

(* ------------------------------------------------------------------ status keys *)
(* OAS 3.0.3 Responses Object: an explicit code takes precedence over a range ("2XX", uppercase X in the text of the  *)
(* standard; a lower-case x is read the same way here), `default` covers what no other key covers.                    *)
IsX(c) == c \in {88, 120}
IsWild(k) == Len(k) = 3 /\ \E i \in 1..3 : IsX(k[i])
KeyMatch(k, st) == Len(k) = 3 /\ \A i \in 1..3 : IsX(k[i]) \/ k[i] = DigitsOf(st)[i]
Governing(rs, st) ==          \* index of the response object that documents status st; 0 = undocumented
  LET ex == {i \in DOMAIN rs : rs[i].key = DigitsOf(st)}
      wi == {i \in DOMAIN rs : IsWild(rs[i].key) /\ KeyMatch(rs[i].key, st)}
      df == {i \in DOMAIN rs : rs[i].key = KDefault}
  IN IF ex # {} THEN MinOf(ex) ELSE IF wi # {} THEN MinOf(wi) ELSE IF df # {} THEN MinOf(df) ELSE 0

(* ------------------------------------------------------------------ media types (RFC 7231 3.1.1.1) *)
IsWs(c) == c \in {32, 9}
Trim(t) == LET idx == {i \in DOMAIN t : ~IsWs(t[i])} IN IF idx = {} THEN <<>> ELSE SubSeq(t, MinOf(idx), MaxOf(idx))
ParseMT(t) ==                 \* type "/" subtype, parameters after ";" ignored, case-insensitive
  LET semis == {i \in DOMAIN t : t[i] = 59}
      head == Trim(IF semis = {} THEN t ELSE SubSeq(t, 1, MinOf(semis) - 1))
      sl == {i \in DOMAIN head : head[i] = 47}
  IN IF Cardinality(sl) # 1 THEN [ok |-> FALSE]
     ELSE LET p == MinOf(sl) IN
          IF p = 1 \/ p = Len(head) THEN [ok |-> FALSE]
          ELSE [ok |-> TRUE, main |-> LowerTxt(SubSeq(head, 1, p - 1)), sub |-> LowerTxt(SubSeq(head, p + 1, Len(head)))]
EndsWith(t, suf) == Len(t) >= Len(suf) /\ SubSeq(t, Len(t) - Len(suf) + 1, Len(t)) = suf
IsJsonMT(m) == m.ok /\ m.main = TApplication /\ (m.sub = TJson \/ EndsWith(m.sub, TPlusJson))      \* RFC 6839 +json
MTMatch(d, r) == d.ok /\ r.ok /\ (d.main = <<42>> \/ d.main = r.main) /\ (d.sub = <<42>> \/ d.sub = r.sub)
Specificity(d) == (IF d.main = <<42>> THEN 0 ELSE 2) + (IF d.sub = <<42>> THEN 0 ELSE 1)

(* ------------------------------------------------------------------ expectation *)
Kinds == {"UndefinedStatusCode", "MissingContentType", "UndefinedContentType", "MalformedMediaType",
          "MissingHeaders", "HeaderSchema", "MalformedJson", "JsonSchemaError"}
Neg3(v) == IF v = "T" THEN "F" ELSE IF v = "F" THEN "T" ELSE "U"
HeaderValue(resp, name) ==    \* first value of the (case-insensitively) named header, or "absent"
  LET idx == {i \in DOMAIN resp.hdrs : LowerTxt(resp.hdrs[i].name) = LowerTxt(name)}
  IN IF idx = {} THEN [present |-> FALSE] ELSE [present |-> TRUE, txt |-> resp.hdrs[MinOf(idx)].value]

(* YAML-1.1-style spellings of booleans that lenient readers accept in header text; OpenAPI itself only has true/false *)
LooseBooleans == {<<121>>, <<121, 101, 115>>, <<110>>, <<110, 111>>, <<111, 110>>, <<111, 102, 102>>, <<116>>, <<102>>, <<49>>, <<48>>}
RECURSIVE Ascending(_)
Ascending(S) == IF S = {} THEN <<>> ELSE <<MinOf(S)>> \o Ascending(S \ {MinOf(S)})
SplitComma(txt) == LET b == Ascending({i \in DOMAIN txt : txt[i] = 44} \cup {0, Len(txt) + 1})
                   IN [k \in 1..(Len(b) - 1) |-> SubSeq(txt, b[k] + 1, b[k + 1] - 1)]
(* Header Objects follow the `simple` style (OAS 3.0.3 Header Object; 2.0: collectionFormat csv): an array is its items     *)
(* separated by commas                                                                                                     *)
HeaderVerdict(defs, txt, s) ==
  IF s.sk = "schema" /\ Has(s, "type") /\ s.type = <<"array">>
  THEN LET parts == SplitComma(txt) IN CoercedV(defs, [t |-> "arr", v |-> [k \in DOMAIN parts |-> [t |-> "str", v |-> parts[k]]]], s, "response")
  ELSE
  LET v == CoercedD(defs, txt, s, "response")
  IN IF v = "F" /\ s.sk = "schema" /\ Has(s, "type") /\ s.type = <<"boolean">> /\ LowerTxt(txt) \in LooseBooleans THEN "U" ELSE v

Expected(defn, defs, resp) ==
  LET g == Governing(defn.resps, resp.status)
      (* documented media types: 3.0 - keys of `content` of the governing response; 2.0 - `produces` of the OPERATION, *)
      (* which holds for every response of the operation, documented status or not                                    *)
      mts == IF g = 0 /\ defn.dialect # "2.0" THEN <<>> ELSE defn.mts
      ct == IF resp.ct.present THEN ParseMT(resp.ct.txt) ELSE [ok |-> FALSE]
      matched == {j \in DOMAIN mts : MTMatch(ParseMT(mts[j]), ct)}
      best == IF matched = {} THEN 0
              ELSE CHOOSE j \in matched : \A k \in matched : Specificity(ParseMT(mts[j])) >= Specificity(ParseMT(mts[k]))
      anySchema == g # 0 /\ \E j \in DOMAIN defn.resps[g].schemas : defn.resps[g].schemas[j].has
      (* ---- Content-Type *)
      docBad == \E j \in DOMAIN mts : ~ParseMT(mts[j]).ok          \* the documentation itself is malformed: nothing is decided
      cMissing == IF resp.ct.present THEN "F" ELSE IF mts # <<>> THEN "T"
                  ELSE IF anySchema THEN "U" ELSE "F"          \* a body is documented, but no media type: not decided
      cMalformed == IF ~resp.ct.present THEN "F" ELSE IF docBad THEN "U" ELSE IF ct.ok THEN "F" ELSE IF mts # <<>> THEN "T" ELSE "U"
      cUndefined == IF mts = <<>> \/ ~resp.ct.present THEN "F"
                    ELSE IF ~ct.ok \/ docBad THEN "U"   \* reported as malformed; whether also as undocumented is open
                    ELSE IF matched = {} THEN "T" ELSE "F"
      none == [k \in Kinds |-> "F"]
  IN IF g = 0 THEN [none EXCEPT !["UndefinedStatusCode"] = "T", !["MissingContentType"] = cMissing,
                                !["UndefinedContentType"] = cUndefined, !["MalformedMediaType"] = cMalformed]
  ELSE
  LET r == defn.resps[g]
      nSchemas == Cardinality({j \in DOMAIN r.schemas : r.schemas[j].has})
      (* ---- headers of the governing response *)
      hv(i) == HeaderValue(resp, r.headers[i].name)
      hMissing == IF \E i \in DOMAIN r.headers : r.headers[i].required /\ ~hv(i).present THEN "T" ELSE "F"
      hver(i) == IF ~hv(i).present \/ ~r.headers[i].schema.has THEN "T"
                 ELSE HeaderVerdict(defs, hv(i).txt, r.headers[i].schema.s)
      hSchema == IF \E i \in DOMAIN r.headers : hver(i) = "F" THEN "T"
                 ELSE IF \E i \in DOMAIN r.headers : hver(i) = "U" THEN "U" ELSE "F"
      (* ---- body: the schema documented for THIS key and THIS media type *)
      sch == IF defn.dialect = "2.0" THEN r.schemas[1]               \* 2.0: one schema per response, whatever the media type
             ELSE IF best # 0 THEN r.schemas[best] ELSE [has |-> FALSE]
      decidable == \/ defn.dialect = "2.0" /\ (resp.ct.present /\ ct.ok) /\ ~docBad
                   \/ defn.dialect # "2.0" /\ best # 0 /\ ~docBad
      verdict == IF resp.body.kind = "json" THEN Valid(defs, sch.s, resp.body.v, "response") ELSE "U"
      bJson == IF nSchemas = 0 THEN "F"                               \* nothing documented about the body
               ELSE IF ~decidable THEN "U"                            \* which schema applies is not determined
               ELSE IF ~sch.has THEN "F"
               ELSE IF ~IsJsonMT(ct) THEN "U"                         \* the property speaks about JSON bodies only
               ELSE IF resp.body.kind = "json" THEN Neg3(verdict) ELSE "U"
      bMalformed == IF nSchemas = 0 THEN "F"
                    ELSE IF ~decidable THEN "U"
                    ELSE IF ~sch.has \/ ~IsJsonMT(ct) THEN "F"
                    ELSE IF resp.body.kind = "json" THEN "F"
                    ELSE IF resp.body.kind = "malformed" THEN "T"
                    ELSE IF resp.status = 204 THEN "U" ELSE "T"       \* empty text is no JSON text (RFC 8259); 204 never has a body
  IN [UndefinedStatusCode |-> "F", MissingContentType |-> cMissing, UndefinedContentType |-> cUndefined,
      MalformedMediaType |-> cMalformed, MissingHeaders |-> hMissing, HeaderSchema |-> hSchema,
      MalformedJson |-> bMalformed, JsonSchemaError |-> bJson]

(* features of a pair that a finding signature is built from (DESIGN Appendix E) *)
Features(defn, resp) ==
  LET g == Governing(defn.resps, resp.status)
      ct == IF resp.ct.present THEN ParseMT(resp.ct.txt) ELSE [ok |-> FALSE]
      matched == {j \in DOMAIN defn.mts : MTMatch(ParseMT(defn.mts[j]), ct)}
      pos == IF matched = {} THEN 0 ELSE MinOf(matched)
      spos == IF defn.dialect = "2.0" THEN 1 ELSE pos
  IN [gov |-> IF g = 0 THEN "none" ELSE IF defn.resps[g].key = KDefault THEN "default"
              ELSE IF IsWild(defn.resps[g].key) THEN "NXX" ELSE "exact",
      mt |-> pos,
      ct |-> IF ~resp.ct.present THEN "absent" ELSE IF ~ct.ok THEN "malformed" ELSE IF matched = {} THEN "undocumented" ELSE "documented",
      schema |-> IF g # 0 /\ spos # 0 /\ spos <= Len(defn.resps[g].schemas) THEN defn.resps[g].schemas[spos].name ELSE "-"]

(* observed = set of kinds (as a sequence of strings); anything outside Kinds (a crash) is never expected *)
Miss(exp, obs) == {k \in Kinds : exp[k] = "T" /\ ~\E i \in DOMAIN obs : obs[i] = k}
FalseAlarm(exp, obs) == {k \in Kinds : exp[k] = "F" /\ \E i \in DOMAIN obs : obs[i] = k}
Foreign(obs) == {i \in DOMAIN obs : obs[i] \notin Kinds}
Agree(exp, obs) == Miss(exp, obs) = {} /\ FalseAlarm(exp, obs) = {} /\ Foreign(obs) = {}

(* ------------------------------------------------------------------ the family: schemas, bodies, headers *)
TInt == [sk |-> "schema", type |-> <<"integer">>]
TStr == [sk |-> "schema", type |-> <<"string">>]
PObjId == [sk |-> "schema", type |-> <<"object">>, required |-> <<Tid>>, props |-> [k |-> <<Tid>>, v |-> <<TInt>>]]
PObjName == [sk |-> "schema", type |-> <<"object">>, required |-> <<Tname>>, props |-> [k |-> <<Tname>>, v |-> <<TStr>>]]
PNullInt == [sk |-> "schema", type |-> <<"integer">>, nullable |-> TRUE]
PObjWO == [sk |-> "schema", type |-> <<"object">>, required |-> <<Tid>>,
           props |-> [k |-> <<Tid, Tpw>>, v |-> <<TInt, [sk |-> "schema", type |-> <<"string">>, writeOnly |-> TRUE]>>]]
PObjWO2 == [sk |-> "schema", type |-> <<"object">>,
            props |-> [k |-> <<Tid, Tp1, Tp2>>, v |-> <<TInt, [sk |-> "schema", type |-> <<"string">>, writeOnly |-> TRUE],
                                                       [sk |-> "schema", type |-> <<"string">>, writeOnly |-> TRUE]>>]]
RefTo(dialect, name) == [sk |-> "schema", ref |-> IF dialect = "2.0" THEN "#/definitions/" \o name ELSE "#/components/schemas/" \o name]
Sub(dialect, byRef, name, s) == IF byRef THEN RefTo(dialect, name) ELSE s
PObjNullProp(d, rs) == [sk |-> "schema", type |-> <<"object">>, required |-> <<Ta>>,
                        props |-> [k |-> <<Ta>>, v |-> <<Sub(d, rs, "NullInt", PNullInt)>>]]
PArr(d, rs) == [sk |-> "schema", type |-> <<"array">>, items |-> Sub(d, rs, "ObjId", PObjId)]
Tnext == <<110, 101, 120, 116>>
WOStr == [sk |-> "schema", type |-> <<"string">>, writeOnly |-> TRUE]
PObjWOReq == [sk |-> "schema", type |-> <<"object">>, required |-> <<Tid, Tpw>>,            \* a REQUIRED writeOnly property
              props |-> [k |-> <<Tid, Tpw>>, v |-> <<TInt, WOStr>>]]
PObjOnlyWO == [sk |-> "schema", type |-> <<"object">>, props |-> [k |-> <<Tpw>>, v |-> <<WOStr>>]]   \* nothing but writeOnly
PStrPat == [sk |-> "schema", type |-> <<"string">>, minLength |-> 2, maxLength |-> 3,          \* ^[a-z]+$ with length bounds
            pattern |-> [k |-> "cat", as |-> TRUE, ae |-> TRUE, atoms |-> <<[cls |-> <<<<97, 122>>>>, neg |-> FALSE, min |-> 1, max |-> -1]>>]]
PNode(d) == [sk |-> "schema", type |-> <<"object">>, required |-> <<Tid>>,                     \* recursive through an optional property
             props |-> [k |-> <<Tid, Tnext>>, v |-> <<TInt, RefTo(d, "Node")>>]]
(* 3.1 treats writeOnly as an annotation of JSON Schema 2020-12: the writeOnly schemas are left out there *)
Names(d) == IF d = "3.0" THEN <<"ObjId", "ObjName", "NullInt", "ObjWO", "Str", "ObjNullProp", "ObjWO2", "Arr", "ObjWOReq", "StrPat", "ObjOnlyWO", "Node", "None">>
            ELSE <<"ObjId", "ObjName", "NullInt", "Str", "ObjNullProp", "Arr", "StrPat", "Node", "None">>
ByName(d, rs, n) == CASE n = "ObjId" -> PObjId [] n = "ObjName" -> PObjName [] n = "NullInt" -> PNullInt
                      [] n = "ObjWO" -> PObjWO [] n = "Str" -> TStr [] n = "ObjNullProp" -> PObjNullProp(d, rs)
                      [] n = "ObjWO2" -> PObjWO2 [] n = "Arr" -> PArr(d, rs)
                      [] n = "ObjWOReq" -> PObjWOReq [] n = "ObjOnlyWO" -> PObjOnlyWO [] n = "StrPat" -> PStrPat [] n = "Node" -> PNode(d)
                      [] n = "None" -> [sk |-> "true"]
DefsOf(d, rs) == LET ns == Names(d) IN
  [x \in {RefTo(d, ns[i]).ref : i \in DOMAIN ns} \cup {"nodefs"} |->
     IF x = "nodefs" THEN [sk |-> "opaque"] ELSE ByName(d, rs, ns[CHOOSE i \in DOMAIN ns : RefTo(d, ns[i]).ref = x])]
(* schema of (key position i, media position j): rotation through the pool, so different keys / media types differ *)
SchemaAt(d, rs, base, i, j) == LET ns == Names(d) n == ns[((base + 2 * (i - 1) + (j - 1)) % Len(ns)) + 1]
                               IN IF n = "None" THEN [has |-> FALSE, name |-> "-"]      \* no schema documented here
                                  ELSE [has |-> TRUE, name |-> n, s |-> Sub(d, rs, n, ByName(d, rs, n))]

Str1(t) == [t |-> "str", v |-> t]
Int1(n) == [t |-> "int", v |-> n]
Obj(ks, vs) == [t |-> "obj", k |-> ks, v |-> vs]
BodyValues == << Obj(<<Tid>>, <<Int1(1)>>), Obj(<<Tname>>, <<Str1(Ta)>>), Obj(<<Tid>>, <<Str1(Ta)>>), [t |-> "null"], Int1(3),
                 Obj(<<Tid, Tpw>>, <<Int1(1), Str1(Ta)>>), Str1(Ta), Obj(<<Ta>>, <<[t |-> "null"]>>),
                 Obj(<<Tid, Tp1>>, <<Int1(1), Str1(Ta)>>), [t |-> "arr", v |-> <<Obj(<<Tid>>, <<Int1(1)>>)>>],
                 [t |-> "arr", v |-> <<Obj(<<Tid>>, <<Str1(Ta)>>)>>], Obj(<<>>, <<>>),
                 Str1(Vab), Str1(Vabcd), Obj(<<Tpw>>, <<Str1(Ta)>>),
                 Obj(<<Tid, Tnext>>, <<Int1(1), Obj(<<Tid>>, <<Int1(2)>>)>>), Obj(<<Tid, Tnext>>, <<Int1(1), Obj(<<Tid>>, <<Str1(Ta)>>)>>) >>
Bodies == {[kind |-> "json", v |-> BodyValues[i]] : i \in DOMAIN BodyValues}
            \cup {[kind |-> "malformed", txt |-> TBrokenJson], [kind |-> "empty"]}
(* quick: the slices about keys and media types keep to the first 12 JSON bodies; the schema-rotation slice uses all *)
BodiesOf(sl) == IF Thorough \/ sl \notin {"keys", "media"} THEN Bodies
                ELSE {[kind |-> "json", v |-> BodyValues[i]] : i \in 1..12} \cup {[kind |-> "malformed", txt |-> TBrokenJson], [kind |-> "empty"]}
FewBodies == {[kind |-> "json", v |-> BodyValues[1]], [kind |-> "empty"]}

HRate == [name |-> NRate, required |-> TRUE,
          schema |-> [has |-> TRUE, s |-> [sk |-> "schema", type |-> <<"integer">>, maximum |-> 10]]]
HTag == [name |-> NTag, required |-> FALSE,
         schema |-> [has |-> TRUE, s |-> [sk |-> "schema", type |-> <<"string">>, maxLength |-> 3]]]
HFlag == [name |-> NFlag, required |-> TRUE, schema |-> [has |-> TRUE, s |-> [sk |-> "schema", type |-> <<"boolean">>]]]
NNum == <<88, 45, 78, 117, 109>>        \* X-Num
NAny == <<88, 45, 65, 110, 121>>        \* X-Any
NIds == <<88, 45, 73, 100, 115>>        \* X-Ids
HNum == [name |-> NNum, required |-> FALSE, schema |-> [has |-> TRUE, s |-> [sk |-> "schema", type |-> <<"number">>, maximum |-> 10]]]
HAny == [name |-> NAny, required |-> FALSE, schema |-> [has |-> TRUE, s |-> [sk |-> "schema", maxLength |-> 3]]]          \* no `type`
HIds == [name |-> NIds, required |-> TRUE,
         schema |-> [has |-> TRUE, s |-> [sk |-> "schema", type |-> <<"array">>, items |-> [sk |-> "schema", type |-> <<"integer">>]]]]
HeaderCfgs == << <<>>, <<HRate>>, <<HRate, HTag>>, <<HFlag>>, <<HTag>>, <<HNum>>, <<HIds>>, <<HAny>> >>
V5p5 == <<53, 46, 53>>
V1c2 == <<49, 44, 50>>                  \* 1,2
V1cx == <<49, 44, 120>>                 \* 1,x
ValuesOf(h) == IF h.name = NRate THEN {V5, V50, Vabc} ELSE IF h.name = NTag THEN {Vab, Vabcd}
               ELSE IF h.name = NNum THEN {V5, V50, Vabc, V5p5} ELSE IF h.name = NAny THEN {Vab, Vabcd}
               ELSE IF h.name = NIds THEN {V1c2, V1cx, V5} ELSE {Vtrue, Vmaybe, Vyes}
(* Swagger 2.0 Header Objects have no `required` *)
HeadersFor(d, cfg) == [i \in DOMAIN cfg |-> IF d = "2.0" THEN [cfg[i] EXCEPT !.required = FALSE] ELSE cfg[i]]
LowerFirst(t) == [i \in DOMAIN t |-> Lower(t[i])]
HeaderSendings(hs) ==        \* every way of sending / omitting each documented header (name case varied)
  IF Len(hs) = 0 THEN {<<>>}
  ELSE IF Len(hs) = 1 THEN {<<>>} \cup {<<[name |-> LowerFirst(hs[1].name), value |-> v]>> : v \in ValuesOf(hs[1])}
  ELSE {<<>>} \cup {<<[name |-> hs[1].name, value |-> v]>> : v \in ValuesOf(hs[1])}
              \cup {<<[name |-> hs[2].name, value |-> v]>> : v \in ValuesOf(hs[2])}
              \cup {<<[name |-> hs[1].name, value |-> v], [name |-> hs[2].name, value |-> w]>> : v \in ValuesOf(hs[1]), w \in ValuesOf(hs[2])}

KeyPool == <<K200, K201, K2XX, K4XX, K404, KDefault>>
KeySets == {S \in SUBSET (1..6) : Cardinality(S) >= 1 /\ Cardinality(S) <= 3}
RECURSIVE SortedSeq(_)
SortedSeq(S) == IF S = {} THEN <<>> ELSE <<MinOf(S)>> \o SortedSeq(S \ {MinOf(S)})
KeysOf(S, lowerX, rev) ==
  LET idx == SortedSeq(S)
      ks == [i \in DOMAIN idx |-> IF lowerX THEN LowerTxt(KeyPool[idx[i]]) ELSE KeyPool[idx[i]]]
  IN IF rev THEN [i \in DOMAIN ks |-> ks[Len(ks) + 1 - i]] ELSE ks
MTAppAny == <<97, 112, 112, 108, 105, 99, 97, 116, 105, 111, 110, 47, 42>>       \* application/*
MTAny == <<42, 47, 42>>                                                        \* */*
MtCfgs == << <<>>, <<MTJson>>, <<MTJson, MTPJson>>, <<MTText, MTJson>>, <<MTJson, MTText>>, <<MTPJson, MTJson>>,
             <<MTAppAny>>, <<MTAny>>, <<MTAny, MTJson>>, <<TBadMT>> >>

(* one definition descriptor; `id` identifies it in the export *)
Mk(d, S, lowerX, rev, m, base, h, refResp, refSchema, refHeader, slice) ==
  LET keys == KeysOf(S, lowerX, rev)
      mts == MtCfgs[m]
      nm == IF d = "2.0" THEN 1 ELSE Len(mts)
  IN [id |-> <<d, SortedSeq(S), lowerX, rev, m, base, h, refResp, refSchema, refHeader, slice>>,
      dialect |-> d, mts |-> mts, refResp |-> refResp, refSchema |-> refSchema, refHeader |-> refHeader /\ d # "2.0",
      slice |-> slice,
      resps |-> [i \in DOMAIN keys |->
                   [key |-> keys[i],
                    schemas |-> [j \in 1..nm |-> SchemaAt(d, refSchema, base, i, j)],
                    headers |-> HeadersFor(d, HeaderCfgs[h])]]]

Dialects == {"3.0", "2.0"}
Dialects3 == {"3.0", "2.0", "3.1"}

(* ---- formats: a documented `format` the oracle decides is enforced wherever it is documented - headers AND bodies ---- *)
UuidGood == <<49, 50, 51, 101, 52, 53, 54, 55, 45, 101, 56, 57, 98, 45, 49, 50, 100, 51, 45, 97, 52, 53, 54, 45, 52, 50, 54, 54, 49, 52, 49, 55, 52, 48, 48, 48>>
UuidBad == <<110, 111, 116, 45, 97, 45, 117, 117, 105, 100>>                 \* not-a-uuid
DateGood == <<50, 48, 50, 49, 45, 48, 50, 45, 48, 51>>                        \* 2021-02-03
DateBad == <<50, 48, 50, 49, 45, 49, 51, 45, 52, 53>>                         \* 2021-13-45
DtGood == <<50, 48, 50, 49, 45, 48, 50, 45, 48, 51, 84, 48, 52, 58, 48, 53, 58, 48, 54, 90>>   \* 2021-02-03T04:05:06Z
DtBad == <<50, 48, 50, 49, 45, 48, 50, 45, 48, 51, 32, 50, 53, 104>>          \* 2021-02-03 25h
Ip4Good == <<49, 46, 50, 46, 51, 46, 52>>                                     \* 1.2.3.4
Ip4Bad == <<49, 46, 50, 46, 51, 46, 57, 57, 57>>                              \* 1.2.3.999
NFmt == <<88, 45, 70, 109, 116>>                                             \* X-Fmt
Formats == {"uuid", "date", "date-time", "ipv4"}
FmtTexts(f) == CASE f = "uuid" -> {UuidGood, UuidBad} [] f = "date" -> {DateGood, DateBad}
                 [] f = "date-time" -> {DtGood, DtBad} [] f = "ipv4" -> {Ip4Good, Ip4Bad}
FmtSchema(f) == [sk |-> "schema", type |-> <<"string">>, format |-> f]
FmtName(f) == "Fmt-" \o f
MkFmt(d, S, f, rs) ==
  LET keys == KeysOf(S, FALSE, FALSE)
  IN [id |-> <<d, SortedSeq(S), f, rs, "formats">>, dialect |-> d, mts |-> <<MTJson>>, refResp |-> FALSE, refSchema |-> rs, refHeader |-> FALSE,
      slice |-> "formats", fmt |-> f,
      resps |-> [i \in DOMAIN keys |->
                   [key |-> keys[i],
                    schemas |-> <<[has |-> TRUE, name |-> FmtName(f), s |-> Sub(d, rs, FmtName(f), FmtSchema(f))]>>,
                    headers |-> <<[name |-> NFmt, required |-> FALSE, schema |-> [has |-> TRUE, s |-> FmtSchema(f)]]>>]]]

(* ---- a description split over files: the response of each operation is a reference into ITS file, and every file has ---- *)
(* ---- its own `#/definitions/Item` (a different type in each): a local reference belongs to the file it is written in ---- *)
Tgate == <<103, 97, 116, 101>>
Titem == <<105, 116, 101, 109>>
Files == <<"a", "b", "c">>
ItemType(f) == CASE f = "a" -> "integer" [] f = "b" -> "string" [] f = "c" -> "boolean"
MultiSchema == [sk |-> "schema", type |-> <<"object">>, required |-> <<Tgate, Titem>>,
                props |-> [k |-> <<Tgate, Titem>>, v |-> <<[sk |-> "schema", type |-> <<"string">>, format |-> "verif-gate"],
                                                           [sk |-> "schema", ref |-> "#/definitions/Item"]>>]]
(* layout "response": the response object is referenced into the file; "pathitem": the PATH ITEM is referenced and the      *)
(* response is written inline in that file, with references local to that file in the body schema and in a header schema;  *)
(* the root document defines the same pointer with other content                                                          *)
NItem == <<88, 45, 73, 116, 101, 109>>       \* X-Item
MkMulti(d, f, layout) ==
  [id |-> <<d, f, layout, "multifile">>, dialect |-> d, mts |-> <<MTJson>>, refResp |-> layout = "response", refSchema |-> FALSE, refHeader |-> FALSE,
   slice |-> "multifile", file |-> f, layout |-> layout,
   resps |-> <<[key |-> K200, schemas |-> <<[has |-> TRUE, name |-> "Multi", s |-> MultiSchema]>>,
                headers |-> IF layout = "pathitem" /\ d = "3.0"           \* a 2.0 Header Object cannot hold a reference
                            THEN <<[name |-> NItem, required |-> FALSE, schema |-> [has |-> TRUE, s |-> [sk |-> "schema", ref |-> "#/definitions/Item"]]]>>
                            ELSE <<>>]>>]
MultiBodies == {[kind |-> "json", v |-> Obj(<<Tgate, Titem>>, <<Str1(Ta), Int1(1)>>)],
                [kind |-> "json", v |-> Obj(<<Tgate, Titem>>, <<Str1(Ta), Str1(Ta)>>)],
                [kind |-> "json", v |-> Obj(<<Tgate, Titem>>, <<Str1(Ta), [t |-> "bool", v |-> TRUE]>>)]}
Defns ==
  {MkFmt(d, S, f, rs) : d \in Dialects3, S \in {{1}, {3, 6}}, f \in Formats, rs \in BOOLEAN}
  \cup {MkMulti(d, Files[i], l) : d \in Dialects3, i \in DOMAIN Files, l \in {"response", "pathitem"}} \cup
  (* keys: every key set, two media types with different schemas (3.0) / one schema (2.0) *)
  {Mk(d, S, FALSE, FALSE, IF d = "2.0" THEN 2 ELSE 3, 0, 1, FALSE, FALSE, FALSE, "keys") :
       d \in Dialects, S \in {T \in KeySets : Thorough \/ Cardinality(T) <= 2 \/ 6 \in T \/ 3 \in T}}
  \cup {Mk(d, S, lx, rv, 3, 0, 1, FALSE, FALSE, FALSE, "keys") :
       d \in Dialects, lx \in BOOLEAN, rv \in BOOLEAN, S \in {{3}, {1, 3}, {3, 6}, {1, 3, 6}, {4, 5, 6}}}
  (* media types *)
  \cup {Mk(d, S, FALSE, FALSE, m, b, 1, FALSE, FALSE, FALSE, "media") :
       d \in Dialects, S \in {{1}, {3, 6}}, m \in 1..6, b \in IF Thorough THEN {0, 3, 6, 9, 12} ELSE {0, 3}}
  \cup {Mk(d, S, FALSE, FALSE, m, b, 1, FALSE, FALSE, FALSE, "media") :          \* wildcard ranges, a malformed documented media type
       d \in Dialects, S \in {{1}, {3, 6}}, m \in 7..10, b \in IF Thorough THEN {0, 3, 6, 9, 12} ELSE {0}}
  (* schema rotation (nullable, writeOnly, nested references) and references *)
  \cup {Mk(d, S, FALSE, FALSE, IF d = "2.0" THEN 2 ELSE 3, b, 1, rr, rs, FALSE, "refs") :
       d \in Dialects3, S \in IF Thorough THEN {{1}, {1, 6}, {3}, {2, 3, 6}} ELSE {{1, 6}, {3}},
       b \in IF Thorough THEN {0, 1, 2, 3, 4, 6, 8, 10, 12} ELSE {0, 2, 4, 6, 8, 10, 12}, rr \in BOOLEAN, rs \in BOOLEAN}
  (* headers *)
  \cup {D \in {Mk(d, S, FALSE, FALSE, 2, 0, h, rr, FALSE, rh, "headers") :
                d \in Dialects, S \in IF Thorough THEN {{1}, {3}, {6}, {1, 3, 6}, {4, 5}} ELSE {{1}, {3}, {1, 3, 6}},
                h \in 2..8, rr \in IF Thorough THEN BOOLEAN ELSE {FALSE}, rh \in BOOLEAN} :
          \* a Swagger 2.0 Header Object must have a `type`
          ~(D.dialect = "2.0" /\ \E i \in DOMAIN D.resps[1].headers : ~Has(D.resps[1].headers[i].schema.s, "type"))}

Statuses == {200, 201, 204, 404, 500}
CtOptions == {"absent", "doc1", "doc2", "undoc", "malformed", "params", "upper", "quoted", "json"}
TQuoted == <<59, 32, 112, 114, 111, 102, 105, 108, 101, 61, 34, 97, 59, 98, 34>>         \* ; profile="a;b"  (a quoted-string with a semicolon)
Upper(c) == IF c >= 97 /\ c <= 122 THEN c - 32 ELSE c
CtText(defn, o) ==
  LET m1 == IF Len(defn.mts) >= 1 THEN defn.mts[1] ELSE MTJson
      m2 == IF Len(defn.mts) >= 2 THEN defn.mts[2] ELSE MTPJson
  IN CASE o = "absent" -> [present |-> FALSE]
       [] o = "doc1" -> [present |-> TRUE, txt |-> m1]
       [] o = "doc2" -> [present |-> TRUE, txt |-> m2]
       [] o = "undoc" -> [present |-> TRUE, txt |-> MTXml]
       [] o = "malformed" -> [present |-> TRUE, txt |-> TBadMT]
       [] o = "params" -> [present |-> TRUE, txt |-> m1 \o TCharset]
       [] o = "quoted" -> [present |-> TRUE, txt |-> m1 \o TQuoted]
       [] o = "json" -> [present |-> TRUE, txt |-> MTJson]
       [] o = "upper" -> [present |-> TRUE, txt |-> [i \in DOMAIN m2 |-> Upper(m2[i])] \o TCharset]
StatusesOf(sl) == IF sl \in {"keys", "headers"} \/ (Thorough /\ sl = "media") THEN Statuses
                  ELSE IF sl = "media" THEN {200, 404} ELSE IF Thorough THEN {200, 404, 500} ELSE {200, 500}
CtOptionsOf(sl) == IF Thorough \/ sl = "media" THEN CtOptions ELSE {"doc1", "doc2"}
Resps(d) ==
  IF d.slice = "formats"
  THEN {[status |-> s, ct |-> CtText(d, "doc1"), hdrs |-> hs, body |-> [kind |-> "json", v |-> Str1(b)]] :
          s \in {200, 404}, b \in FmtTexts(d.fmt), hs \in {<<>>} \cup {<<[name |-> NFmt, value |-> v]>> : v \in FmtTexts(d.fmt)}}
  ELSE IF d.slice = "multifile"
  THEN {[status |-> 200, ct |-> CtText(d, "doc1"), hdrs |-> hs, body |-> b] : b \in MultiBodies,
          hs \in {<<>>} \cup (IF d.layout = "pathitem" /\ d.dialect = "3.0" THEN {<<[name |-> NItem, value |-> V5]>>, <<[name |-> NItem, value |-> Vabc]>>} ELSE {})}
  ELSE IF d.slice = "headers"
  THEN {[status |-> s, ct |-> CtText(d, o), hdrs |-> hs, body |-> b] :
          s \in Statuses, o \in {"doc1", "absent"}, b \in FewBodies, hs \in HeaderSendings(d.resps[1].headers)}
  ELSE {[status |-> s, ct |-> CtText(d, o), hdrs |-> <<>>, body |-> b] :
          s \in StatusesOf(d.slice), o \in CtOptionsOf(d.slice), b \in BodiesOf(d.slice)}

(* ------------------------------------------------------------------ machine *)
VARIABLES defn, resp, exp
vars == <<defn, resp, exp>>
NoResp == [status |-> 0]
Defs(d) == IF d.slice = "multifile"
           THEN [x \in {"#/definitions/Item", "nodefs"} |-> IF x = "nodefs" THEN [sk |-> "opaque"] ELSE [sk |-> "schema", type |-> <<ItemType(d.file)>>]]
           ELSE IF d.slice = "formats"
           THEN [x \in {RefTo(d.dialect, FmtName(d.fmt)).ref, "nodefs"} |-> IF x = "nodefs" THEN [sk |-> "opaque"] ELSE FmtSchema(d.fmt)]
           ELSE DefsOf(d.dialect, d.refSchema)
Init == defn \in Defns /\ resp = NoResp /\ exp = [k \in Kinds |-> "F"]
Pick == /\ resp = NoResp /\ resp' \in Resps(defn) /\ UNCHANGED defn
        /\ exp' = Expected(defn, Defs(defn), resp')
Next == Pick
Spec == Init /\ [][Next]_vars

Live == resp # NoResp
(* design-level sanity of the expectation, checked on every enumerated pair *)
TypeOK == Live => \A k \in Kinds : exp[k] \in {"T", "F", "U"}
UndefinedIffNoKey == Live => (exp["UndefinedStatusCode"] = "T" <=> Governing(defn.resps, resp.status) = 0)
DefaultCoversAll == (Live /\ \E i \in DOMAIN defn.resps : defn.resps[i].key = KDefault) => exp["UndefinedStatusCode"] = "F"
ExactBeatsWildcard == Live => LET g == Governing(defn.resps, resp.status) IN
                        (\E i \in DOMAIN defn.resps : defn.resps[i].key = DigitsOf(resp.status)) => defn.resps[g].key = DigitsOf(resp.status)
WildcardBeatsDefault == Live => LET g == Governing(defn.resps, resp.status) IN
                        (g # 0 /\ defn.resps[g].key = KDefault) =>
                           ~\E i \in DOMAIN defn.resps : IsWild(defn.resps[i].key) /\ KeyMatch(defn.resps[i].key, resp.status)
UndocumentedStatusOnlyThat == (Live /\ exp["UndefinedStatusCode"] = "T") =>
                                 \A k \in {"MissingHeaders", "HeaderSchema", "MalformedJson", "JsonSchemaError"} : exp[k] = "F"
ContentTypeKindsExclusive == Live => Cardinality({k \in {"MissingContentType", "UndefinedContentType", "MalformedMediaType"} : exp[k] = "T"}) <= 1
ParamsIgnored == ParseMT(MTJson \o TCharset) = ParseMT(MTJson)
Sanity == /\ TypeOK /\ UndefinedIffNoKey /\ DefaultCoversAll /\ ExactBeatsWildcard /\ WildcardBeatsDefault
          /\ UndocumentedStatusOnlyThat /\ ContentTypeKindsExclusive

Export == IF ~Live THEN PrintT(<<"DEF", ToJson([d |-> defn, defs |-> Defs(defn)])>>)
          ELSE PrintT(<<"CASE", ToJson([d |-> defn.id, resp |-> resp, exp |-> exp, feat |-> Features(defn, resp)])>>)
=============================================================================
