SPECIFICATION Spec
CONSTANTS
  W = 2
  NOps = 2
  K = 2
  MaxFail = 1
  NPhases = 1
  FixDrain = TRUE
  FixWorkerErr = TRUE
  AllowStop = FALSE
  AllowFault = TRUE
  AliveCheck = TRUE
  PhaseOn = {1, 2, 3, 4, 5}
  AllowCtrlC = FALSE
  MaxNFE = 1
  AllowInvalid = TRUE
INVARIANT ProtocolOK
INVARIANT ClosedAtEnd
INVARIANT NoProblemLost
INVARIANT ZeroMeansClean
INVARIANT AtMostOneAfterStop
INVARIANT MaxFailuresRespected
INVARIANT LaterPhasesSkipped
CHECK_DEADLOCK FALSE
