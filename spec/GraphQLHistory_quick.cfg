SPECIFICATION HSpec
CONSTANT Thorough = FALSE
CONSTANT MaxSteps = 3
INVARIANT HStateIsHistory
INVARIANT HDrawUsesCurrent
INVARIANT HObligationFollowsOwnStep
INVARIANT HExport
CHECK_DEADLOCK FALSE
