---------------------------- MODULE FiltersJudge ----------------------------
(* Code -> spec: what the real schema objects / pytest / the engine offered for a filter set, judged against Filters!Expect. *)
(* Observation = [door, base, incl, excl,                                                                                    *)
(*                vecs  : sequence of [site, exact, vec]   (vec[o] = 1: operation o was offered / requested at that site)    *)
(*                stats : sequence of [site, sel, total, lsel, ltotal]  (-1 = not reported at that site)                     *)
(*                pairs : sequence of <<source, target>> of the state machine's link transitions, foreign : number of        *)
(*                offered things that are not operations of the document]                                                    *)
EXTENDS Filters, IOUtils
Obs == JsonDeserialize(IOEnv.OBS_FILE)
VARIABLE i
ToSet(s) == {s[k] : k \in 1..Len(s)}
JInit == /\ i \in 1..Len(Obs)
         /\ door = Obs[i].door /\ base = Obs[i].base /\ incl = ToSet(Obs[i].incl) /\ excl = ToSet(Obs[i].excl)
JNext == UNCHANGED <<i, vars>>
JSpec == JInit /\ [][JNext]_<<i, vars>>
VecReport(ex, v) == \A o \in 1..NOps :
   IF ex[o] = -1 THEN TRUE
   ELSE IF v.vec[o] = 1 /\ ex[o] = 0 THEN PrintT(<<"DISAGREE", i, v.site, o, "leak">>)
   ELSE IF v.exact /\ v.vec[o] = 0 /\ ex[o] = 1 THEN PrintT(<<"DISAGREE", i, v.site, o, "dropped">>)
   ELSE TRUE
Field(site, name, got, want) == IF got = -1 \/ want = -1 \/ got = want THEN TRUE ELSE PrintT(<<"DISAGREE", i, site, 0, name>>)
StatReport(st, s) == /\ Field(s.site, "ops-selected", s.sel, st.sel) /\ Field(s.site, "ops-total", s.total, st.total)
                     /\ Field(s.site, "links-selected", s.lsel, st.lsel) /\ Field(s.site, "links-total", s.ltotal, st.ltotal)
PairReport(ex, p) == /\ IF ex[p[1]] = 0 THEN PrintT(<<"DISAGREE", i, "sm", p[1], "leak-source">>) ELSE TRUE
                     /\ IF ex[p[2]] = 0 THEN PrintT(<<"DISAGREE", i, "sm", p[2], "leak-target">>) ELSE TRUE
(* the reported number of selected links equals the number of link transitions actually offered *)
OfferedReport == IF Obs[i].smok /\ Obs[i].stats[1].lsel # Len(Obs[i].pairs)
                 THEN PrintT(<<"DISAGREE", i, "sm", 0, "links-offered-vs-reported">>) ELSE TRUE
Report == LET ex == Expect(door, base, incl, excl)
              lundec == \E l \in 1..NLinks : ex[Links[l].src] = -1 \/ ex[Links[l].tgt] = -1
              st == [sel |-> IF \E o \in 1..NOps : ex[o] = -1 THEN -1 ELSE Cardinality({o \in 1..NOps : ex[o] = 1}),
                     total |-> NOps,
                     lsel |-> IF lundec THEN -1 ELSE Cardinality({l \in 1..NLinks : ex[Links[l].src] = 1 /\ ex[Links[l].tgt] = 1}),
                     ltotal |-> NLinks]
          IN /\ st = ExpectStat(door, base, incl, excl)      \* the judge's own arithmetic is the spec's
             /\ \A k \in 1..Len(Obs[i].vecs) : VecReport(ex, Obs[i].vecs[k])
             /\ \A k \in 1..Len(Obs[i].stats) : StatReport(st, Obs[i].stats[k])
             /\ \A k \in 1..Len(Obs[i].pairs) : PairReport(ex, Obs[i].pairs[k])
             /\ OfferedReport
             /\ IF Obs[i].foreign > 0 THEN PrintT(<<"DISAGREE", i, "iter", 0, "foreign">>) ELSE TRUE
=============================================================================
