SPECIFICATION CSpec
CONSTANT Shared = FALSE
CONSTANT Rich = FALSE
INVARIANT OwnOperation
INVARIANT OwnFilter
INVARIANT CExport
CHECK_DEADLOCK FALSE
