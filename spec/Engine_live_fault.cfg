SPECIFICATION FairSpec
CONSTANTS
  W = 2
  NOps = 2
  K = 1
  MaxFail = 0
  NPhases = 1
  FixDrain = TRUE
  FixWorkerErr = TRUE
  AllowStop = FALSE
  AllowFault = TRUE
  AliveCheck = TRUE
  PhaseOn = {1, 2, 3, 4, 5}
  AllowCtrlC = FALSE
  MaxNFE = 0
  AllowInvalid = TRUE
INVARIANT ProtocolOK
PROPERTY Termination
CHECK_DEADLOCK FALSE
