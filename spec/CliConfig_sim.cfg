SPECIFICATION Spec
CONSTANT MaxGiven = 8
CONSTANT Combo = "all"
INVARIANT TypeOK
INVARIANT Total
INVARIANT GivenReaches
INVARIANT DefaultsKept
INVARIANT InvalidRefused
INVARIANT HypConsistent
INVARIANT Export
CHECK_DEADLOCK FALSE
