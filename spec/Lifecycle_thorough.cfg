SPECIFICATION Spec
CONSTANT MaxN = 3
CONSTANT Small = FALSE
CONSTANT Rich = TRUE
INVARIANT TypeOK
INVARIANT UAFNeedsDelete
INVARIANT UAFNever404
INVARIANT RNAOnly4xxChildOfPost
INVARIANT DeleteSeparates
INVARIANT Export
CHECK_DEADLOCK FALSE
