SPECIFICATION Spec
CONSTANT MaxDev = 3
CONSTANT Diag = TRUE
CONSTANT MaxLen = 4
INVARIANT TypeOK
INVARIANT CacheCoherent
INVARIANT SingleOwner
INVARIANT RoutesAgree
INVARIANT ExactlyOneOutcome
INVARIANT MergeLaw
INVARIANT PairKeyed
INVARIANT DistinctOps
INVARIANT Export
CHECK_DEADLOCK FALSE
