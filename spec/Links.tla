------------------------------- MODULE Links -------------------------------
(***************************************************************************)
(* C10 - stateful links pass exactly the data their expressions denote.    *)
(*                                                                         *)
(* Three things are specified here, all from the OpenAPI 3.0 standard      *)
(* (Link Object, Runtime Expressions ABNF, Responses Object), RFC 6901     *)
(* and the property text - never from the implementation:                  *)
(*  * LinkMatches(key, status, allKeys): when a response may feed a link;  *)
(*  * Eval(expr, exchange): a reference evaluator for runtime expressions  *)
(*    over code-point sequences (scanners are FoldLeft automata): bare     *)
(*    expressions, embedded "text{expr}text", JSON pointers with ~0 ~1 and *)
(*    strict array indices, case-insensitive headers, the regex extractor  *)
(*    extension for a catalogue of patterns; the result is three-valued    *)
(*    plus structure: val(v) / unres / malformed / badptr / U;             *)
(*  * Derived(link, exchange): what a link-derived request must carry.     *)
(* The system: a source exchange has happened; Evaluate is what following  *)
(* a link does with one expression, MatchStatuses is the routing decision  *)
(* for one link key among the documented keys of the source operation.     *)
(***************************************************************************)
EXTENDS Integers, Sequences, FiniteSets, TLC, Json, SequencesExt

CONSTANTS PtrLen,      \* JSON pointers with up to PtrLen reference tokens
          Rich         \* TRUE: the larger base set for the edit-distance-1 neighbourhood

(* ------------------------------ text ------------------------------------ *)
sUrl == <<36, 117, 114, 108>>                                          \* "$url"
sMethod == <<36, 109, 101, 116, 104, 111, 100>>                        \* "$method"
sStatus == <<36, 115, 116, 97, 116, 117, 115, 67, 111, 100, 101>>      \* "$statusCode"
sRequest == <<36, 114, 101, 113, 117, 101, 115, 116, 46>>              \* "$request."
sResponse == <<36, 114, 101, 115, 112, 111, 110, 115, 101, 46>>        \* "$response."
sPath == <<112, 97, 116, 104, 46>>                                     \* "path."
sQuery == <<113, 117, 101, 114, 121, 46>>                              \* "query."
sHeader == <<104, 101, 97, 100, 101, 114, 46>>                         \* "header."
sBody == <<98, 111, 100, 121>>                                         \* "body"
sRegex == <<35, 114, 101, 103, 101, 120, 58>>                          \* "#regex:"
nId == <<105, 100>>                                                    \* "id"
nQ == <<113>>                                                          \* "q"
nDotted == <<97, 46, 98>>                                              \* "a.b"
nMissing == <<122, 122>>                                               \* "zz"
hXId == <<88, 45, 73, 100>>                                            \* "X-Id"
hxid == <<120, 45, 105, 100>>                                          \* "x-id"
hLocation == <<76, 111, 99, 97, 116, 105, 111, 110>>                   \* "Location"
rxUsers == <<117, 47, 40, 46, 43, 41>>                                 \* "u/(.+)"
rxAll == <<40, 46, 43, 41>>                                            \* "(.+)"
rxPath == <<47, 117, 115, 101, 114, 115, 47, 40, 46, 43, 41>>                  \* "/users/(.+)"
tAb == <<97, 98>>                                                      \* "ab"
bogus == <<36, 98, 111, 103, 117, 115>>                                \* "$bogus"
cHash == 35  cDollar == 36  cSlash == 47  cTilde == 126  cLB == 123  cRB == 125
Has(s, c) == \E i \in 1..Len(s) : s[i] = c
Find(s, c) == IF Has(s, c) THEN CHOOSE i \in 1..Len(s) : s[i] = c /\ \A j \in 1..(i - 1) : s[j] # c ELSE 0
StartsWith(s, p) == Len(s) >= Len(p) /\ SubSeq(s, 1, Len(p)) = p
Drop(s, n) == SubSeq(s, n + 1, Len(s))
Lower(c) == IF c \in 65..90 THEN c + 32 ELSE c
LowerSeq(s) == [i \in 1..Len(s) |-> Lower(s[i])]
IsDigit(c) == c \in 48..57
IsTChar(c) == c \in 48..57 \/ c \in 65..90 \/ c \in 97..122 \/ c \in {33, 35, 36, 37, 38, 39, 42, 43, 45, 46, 94, 95, 96, 124, 126}
RECURSIVE Dec(_)
Dec(n) == IF n < 0 THEN <<45>> \o Dec(0 - n) ELSE IF n < 10 THEN <<48 + n>> ELSE Dec(n \div 10) \o <<48 + (n % 10)>>

(* ---------------------------- JSON values ------------------------------- *)
Str(s) == [t |-> "str", s |-> s]
IntV(n) == [t |-> "int", n |-> n]
Bool(b) == [t |-> "bool", b |-> b]
Null == [t |-> "null"]
Arr(a) == [t |-> "arr", a |-> a]
Obj(k, a) == [t |-> "obj", k |-> k, a |-> a]
NoBody == [t |-> "none"]
Unres == [t |-> "unres"]

(* ------------------- RFC 6901 JSON pointer ------------------------------ *)
SplitStep(st, c) == IF c = cSlash THEN [toks |-> Append(st.toks, st.cur), cur |-> <<>>] ELSE [st EXCEPT !.cur = Append(@, c)]
Tokens(p) == LET st == FoldLeft(SplitStep, [toks |-> <<>>, cur |-> <<>>], Drop(p, 1)) IN Append(st.toks, st.cur)
(* "~1" is "/", "~0" is "~"; one left-to-right pass (so "~01" is "~1"); "~" followed by anything else is an error *)
UnescStep(st, c) == IF st.bad THEN st
                    ELSE IF st.tilde THEN (IF c = 48 THEN [out |-> Append(st.out, cTilde), tilde |-> FALSE, bad |-> FALSE]
                                           ELSE IF c = 49 THEN [out |-> Append(st.out, cSlash), tilde |-> FALSE, bad |-> FALSE]
                                           ELSE [st EXCEPT !.bad = TRUE])
                    ELSE IF c = cTilde THEN [st EXCEPT !.tilde = TRUE]
                    ELSE [st EXCEPT !.out = Append(@, c)]
Unesc(tok) == LET st == FoldLeft(UnescStep, [out |-> <<>>, tilde |-> FALSE, bad |-> FALSE], tok)
              IN [ok |-> ~st.bad /\ ~st.tilde, s |-> st.out]
ValidPtr(p) == p = <<>> \/ (p[1] = cSlash /\ \A i \in 1..Len(Tokens(p)) : Unesc(Tokens(p)[i]).ok)
(* array index: "0" or a digit string without leading zero; "-" (the element after the last) and anything else never resolves *)
IsIndex(tok) == tok # <<>> /\ (\A i \in 1..Len(tok) : IsDigit(tok[i])) /\ (Len(tok) = 1 \/ tok[1] # 48)
IndexStep(acc, c) == acc * 10 + (c - 48)
IndexVal(tok) == FoldLeft(IndexStep, 0, tok)
Child(v, tok) == IF v.t = "obj" THEN (IF \E i \in 1..Len(v.k) : v.k[i] = tok
                                       THEN v.a[CHOOSE i \in 1..Len(v.k) : v.k[i] = tok /\ \A j \in 1..(i - 1) : v.k[j] # tok] ELSE Unres)
                 ELSE IF v.t = "arr" THEN (IF IsIndex(tok) /\ IndexVal(tok) < Len(v.a) THEN v.a[IndexVal(tok) + 1] ELSE Unres)
                 ELSE Unres
ResolveStep(v, rawtok) == IF v.t = "unres" THEN v ELSE Child(v, Unesc(rawtok).s)
Resolve(doc, p) == IF p = <<>> THEN doc ELSE FoldLeft(ResolveStep, doc, Tokens(p))

(* --------------------------- results ------------------------------------ *)
Val(v) == [k |-> "val", v |-> v]
RUnres == [k |-> "unres", v |-> NoBody]           \* a well-formed expression that denotes nothing in this exchange
RMal == [k |-> "malformed", v |-> NoBody]         \* not an expression under any reading: must be rejected
RBadPtr == [k |-> "badptr", v |-> NoBody]         \* syntactically invalid JSON pointer: rejected or unresolvable, never a value
RU == [k |-> "U", v |-> NoBody]                   \* the standard is silent or ambiguous: not judged
LitOrRej(s) == [k |-> "litorrej", v |-> Str(s)]   \* braces but no "$" at all: a constant with literal braces, or refused - nothing else

(* ------------------- bare expressions (the ABNF) ------------------------ *)
Catalogue == {rxUsers, rxAll, rxPath}
(* an extractor must be a regular expression with exactly one capturing group; these are none: they can never denote a value *)
rxNoGroup == <<117, 47, 46, 43>>                                                   \* "u/.+"
rxTwoGroups == <<40, 46, 41, 40, 46, 43, 41>>                                     \* "(.)(.+)"
rxBroken == <<40, 46, 43>>                                                      \* "(.+"
BadCatalogue == {rxNoGroup, rxTwoGroups, rxBroken}                     \* regex extractors "<literal>(.+)"
Node(k) == [k |-> k, loc |-> "", name |-> <<>>, hasRx |-> FALSE, rx |-> <<>>, ptr |-> <<>>]
RefNode(k, loc, rest, isHeader) ==
    LET h == Find(rest, cHash)
        name == IF h = 0 THEN rest ELSE SubSeq(rest, 1, h - 1)
        ext == IF h = 0 THEN <<>> ELSE Drop(rest, h - 1)
    IN IF name = <<>> \/ Has(name, cDollar) \/ name[1] = 46 \/ name[Len(name)] = 46 THEN Node("U")
          \* name = *CHAR admits the empty name, "$" and a leading / trailing "." (indistinguishable from a doubled separator): not judged
       ELSE IF isHeader /\ \E i \in 1..Len(name) : ~IsTChar(name[i]) THEN Node("malformed")    \* token = 1*tchar
       ELSE IF h = 0 THEN [Node(k) EXCEPT !.loc = loc, !.name = name]
       ELSE IF StartsWith(ext, sRegex) /\ Drop(ext, Len(sRegex)) \in Catalogue
            THEN [Node(k) EXCEPT !.loc = loc, !.name = name, !.hasRx = TRUE, !.rx = Drop(ext, Len(sRegex))]
       ELSE IF StartsWith(ext, sRegex) /\ Drop(ext, Len(sRegex)) \in BadCatalogue THEN Node("badrx")
       ELSE Node("U")                   \* "#" in a name: ABNF-valid, clashes with the extractor extension / pattern outside the catalogue
BodyNode(k, rest) ==
    IF rest = <<>> THEN Node(k)
    ELSE IF rest[1] # cHash THEN Node("malformed")
    ELSE LET p == Drop(rest, 1) IN IF Has(p, cLB) \/ Has(p, cRB) THEN Node("U") ELSE [Node(k) EXCEPT !.loc = "ptr", !.ptr = p]
Bare(s) ==
    IF s = sUrl THEN Node("url") ELSE IF s = sMethod THEN Node("method") ELSE IF s = sStatus THEN Node("status")
    ELSE IF StartsWith(s, sRequest) THEN
         LET r == Drop(s, Len(sRequest)) IN
           IF StartsWith(r, sPath) THEN RefNode("reqparam", "path", Drop(r, Len(sPath)), FALSE)
           ELSE IF StartsWith(r, sQuery) THEN RefNode("reqparam", "query", Drop(r, Len(sQuery)), FALSE)
           ELSE IF StartsWith(r, sHeader) THEN RefNode("reqparam", "header", Drop(r, Len(sHeader)), TRUE)
           ELSE IF StartsWith(r, sBody) THEN BodyNode("reqbody", Drop(r, Len(sBody)))
           ELSE Node("malformed")
    ELSE IF StartsWith(s, sResponse) THEN
         LET r == Drop(s, Len(sResponse)) IN
           IF StartsWith(r, sHeader) THEN RefNode("resphdr", "header", Drop(r, Len(sHeader)), TRUE)
           ELSE IF StartsWith(r, sBody) THEN BodyNode("respbody", Drop(r, Len(sBody)))
           ELSE IF StartsWith(r, sPath) \/ StartsWith(r, sQuery) THEN Node("U")      \* grammatical, but a response has neither
           ELSE Node("malformed")
    ELSE Node("malformed")

(* --------------------------- evaluation --------------------------------- *)
Lookup(pairs, name, ci) ==
    LET eq(a) == IF ci THEN LowerSeq(a) = LowerSeq(name) ELSE a = name
    IN IF \E i \in 1..Len(pairs) : eq(pairs[i].n)
       THEN Val(pairs[CHOOSE i \in 1..Len(pairs) : eq(pairs[i].n) /\ \A j \in 1..(i - 1) : ~eq(pairs[j].n)].v)
       ELSE RUnres
(* "<literal>(.+)" with search semantics: the rest of the text after the first occurrence of the literal, at least one character *)
RxExtract(rx, s) ==
    LET lit == SubSeq(rx, 1, Len(rx) - 4)
        hits == {i \in 1..(Len(s) - Len(lit)) : SubSeq(s, i, i + Len(lit) - 1) = lit}
    IN IF hits = {} THEN RUnres
       ELSE LET i == CHOOSE m \in hits : \A o \in hits : m <= o IN Val(Str(Drop(s, i + Len(lit) - 1)))
ApplyRx(n, r) == IF r.k # "val" \/ ~n.hasRx THEN r ELSE IF r.v.t # "str" THEN RU ELSE RxExtract(n.rx, r.v.s)
PtrValue(doc, p) == IF doc.t = "none" THEN RU
                    ELSE IF doc.t = "text" THEN RUnres                  \* a payload that is not JSON has no members
                    ELSE IF ~ValidPtr(p) THEN RBadPtr
                    ELSE LET r == Resolve(doc, p) IN IF r.t = "unres" THEN RUnres ELSE Val(r)
EvalNode(n, x) ==
    CASE n.k = "url" -> Val(Str(x.url))
      [] n.k = "method" -> Val(Str(x.method))
      [] n.k = "status" -> Val(Str(Dec(x.status)))
      [] n.k = "reqparam" -> ApplyRx(n, Lookup(IF n.loc = "path" THEN x.path ELSE IF n.loc = "query" THEN x.query ELSE x.headers,
                                               n.name, n.loc = "header"))
      [] n.k = "resphdr" -> ApplyRx(n, Lookup(x.rheaders, n.name, TRUE))
      [] n.k = "reqbody" -> PtrValue(x.body, n.ptr)
      [] n.k = "respbody" -> PtrValue(x.rbody, n.ptr)
      [] n.k = "badrx" -> RBadPtr                       \* invalid extractor: refused or nothing, never a value
      [] OTHER -> RU

(* embedded form: text and {expression} groups; braces balanced, not nested, not empty.  A "}" right after the group that
   closed a "#..." part, or a "{" inside such a part, can be read as pointer text as well -> U; "$" in text -> U *)
ScanStep(st, c) ==
    IF st.bad THEN st
    ELSE IF st.mode = "text" THEN
         IF c = cLB THEN [st EXCEPT !.mode = "expr", !.cur = <<>>, !.inPtr = FALSE, !.closedPtr = FALSE,
                                    !.parts = IF st.cur = <<>> THEN @ ELSE Append(@, [lit |-> TRUE, s |-> st.cur])]
         ELSE IF c = cRB THEN (IF st.closedPtr THEN [st EXCEPT !.u = TRUE] ELSE [st EXCEPT !.bad = TRUE])
         ELSE [st EXCEPT !.cur = Append(@, c), !.closedPtr = FALSE, !.u = @ \/ c = cDollar]
    ELSE IF c = cLB THEN (IF st.inPtr THEN [st EXCEPT !.u = TRUE] ELSE [st EXCEPT !.bad = TRUE])
    ELSE IF c = cRB THEN (IF st.cur = <<>> THEN [st EXCEPT !.bad = TRUE]
                          ELSE [st EXCEPT !.mode = "text", !.cur = <<>>, !.closedPtr = st.inPtr,
                                          !.parts = Append(@, [lit |-> FALSE, s |-> st.cur])])
    ELSE [st EXCEPT !.cur = Append(@, c), !.inPtr = @ \/ c = cHash]
Scan(s) == LET st == FoldLeft(ScanStep, [mode |-> "text", cur |-> <<>>, parts |-> <<>>, bad |-> FALSE, u |-> FALSE,
                                          inPtr |-> FALSE, closedPtr |-> FALSE], s)
           IN [bad |-> st.bad \/ st.mode = "expr", u |-> st.u,
               parts |-> IF st.mode = "text" /\ st.cur # <<>> THEN Append(st.parts, [lit |-> TRUE, s |-> st.cur]) ELSE st.parts]
TextOf(r) == IF r.v.t = "str" THEN r.v.s ELSE Dec(r.v.n)
Glue(acc, r) == acc \o TextOf(r)
Eval(s, x) ==
    IF ~Has(s, cLB) /\ ~Has(s, cRB)
    THEN IF s = <<>> THEN Val(Str(<<>>))
         ELSE IF s[1] = cDollar THEN (LET n == Bare(s) IN IF n.k \in {"malformed", "U"} THEN RU ELSE EvalNode(n, x))
              \* a "$..." string that is no expression may be meant as a constant: not judged
         ELSE IF Has(s, cDollar) THEN RU ELSE Val(Str(s))            \* a constant
    ELSE IF ~Has(s, cDollar) THEN LitOrRej(s)
    ELSE LET sc == Scan(s)
             n == Len(sc.parts)
             \* a group that does not start with "$" may be literal text in braces next to real expressions: not judged
             node == [i \in 1..n |-> IF sc.parts[i].lit THEN Node("lit")
                                     ELSE IF sc.parts[i].s[1] # cDollar THEN Node("U") ELSE Bare(sc.parts[i].s)]
             val == [i \in 1..n |-> IF sc.parts[i].lit THEN Val(Str(sc.parts[i].s))
                                    ELSE IF node[i].k \in {"malformed", "U"} THEN RU ELSE EvalNode(node[i], x)]
         IN IF sc.u THEN RU
            ELSE IF sc.bad \/ \E i \in 1..n : node[i].k = "malformed" THEN RMal
            ELSE IF \E i \in 1..n : node[i].k = "U" \/ val[i].k = "U" THEN RU
            ELSE IF \E i \in 1..n : val[i].k = "badptr" THEN RBadPtr
            ELSE IF \E i \in 1..n : val[i].k = "unres" THEN RUnres
            ELSE IF n = 1 THEN (IF val[1].v.t = "str" THEN val[1] ELSE RU)     \* "{expr}" alone: typed value or its text? not judged
            ELSE IF \E i \in 1..n : val[i].v.t \notin {"str", "int"} THEN RU    \* how to print other values is not defined
            ELSE Val(Str(FoldLeft(Glue, <<>>, val)))

(* ------------------------- status matching ------------------------------ *)
KeyU == {"200", "201", "404", "2XX", "4XX", "5XX", "2xx", "default"}
Pat(k) == CASE k = "200" -> <<2, 0, 0>> [] k = "201" -> <<2, 0, 1>> [] k = "404" -> <<4, 0, 4>>
            [] k = "2XX" -> <<2, -1, -1>> [] k = "2xx" -> <<2, -1, -1>> [] k = "4XX" -> <<4, -1, -1>> [] k = "5XX" -> <<5, -1, -1>>
            [] OTHER -> <<-2, -2, -2>>
DigitsOf(s) == <<s \div 100, (s \div 10) % 10, s % 10>>
DigitsMatch(k, s) == \A i \in 1..3 : Pat(k)[i] = -1 \/ Pat(k)[i] = DigitsOf(s)[i]
(* exact code, NXX wildcard, or "default" = matched by no other documented key of the operation *)
LinkMatches(key, s, all) == IF key = "default" THEN ~\E k \in all \ {"default"} : DigitsMatch(k, s) ELSE DigitsMatch(key, s)
Statuses == 100..599
KeySets == {ks \in SUBSET KeyU : Cardinality(ks) \in 1..3}

(* what a request derived through `link` from exchange x must carry for parameter n (C10_Derived):
   the value the expression denotes; nothing of the link if it denotes nothing *)
Derived(expr, x) == LET r == Eval(expr, x) IN IF r.k = "val" THEN [sent |-> TRUE, v |-> r.v] ELSE [sent |-> FALSE, v |-> NoBody]

(* a link's requestBody (or a parameter value) may be any JSON tree: every string in it, at any depth, through objects AND
   arrays, is an expression or a constant; if one of them denotes nothing the whole value denotes nothing *)
RECURSIVE EvalTree(_, _)
EvalTree(d, x) == IF d.t = "str" THEN (LET r == Eval(d.s, x) IN IF r.k = "val" THEN r.v ELSE Unres)
                  ELSE IF d.t \in {"arr", "obj"}
                       THEN LET items == [n \in 1..Len(d.a) |-> EvalTree(d.a[n], x)] IN
                              IF \E n \in 1..Len(items) : items[n].t = "unres" THEN Unres
                              ELSE IF d.t = "arr" THEN Arr(items) ELSE Obj(d.k, items)
                  ELSE d
TreeResult(d, x) == LET r == EvalTree(d, x) IN IF r.t = "unres" THEN RUnres ELSE Val(r)

(* ------------------------------ exchanges ------------------------------- *)
P(n, v) == [n |-> n, v |-> v]
X1 == [method |-> <<80, 79, 83, 84>>,                                                                   \* POST
       url |-> <<104, 116, 116, 112, 58, 47, 47, 49, 50, 55, 46, 48, 46, 48, 46, 49, 47, 97, 112, 105, 47, 117, 115, 101, 114, 115, 47, 55, 63, 113, 61, 120, 38, 97, 46, 98, 61, 100>>,
            \* http://127.0.0.1/api/users/7?q=x&a.b=d
       status |-> 201,
       path |-> <<P(nId, Str(<<55>>))>>, query |-> <<P(nQ, Str(<<120>>)), P(nDotted, Str(<<100>>))>>,    \* id=7 ; q=x, a.b=d
       headers |-> <<P(hXId, Str(<<104, 49>>))>>,                                                        \* X-Id: h1
       body |-> Obj(<<<<97>>, nId, <<98, 47, 99>>, <<109, 126, 110>>, <<126, 49>>, <<>>, <<48>>, <<48, 49>>, <<110>>, <<49>>>>,
                    <<Obj(<<<<98>>>>, <<Arr(<<IntV(10), IntV(20)>>)>>), IntV(7), Str(<<115>>), Str(<<116>>), Str(<<117>>), Str(<<101>>),
                      Str(<<122, 101, 114, 111>>), Str(<<122, 49>>), Null, Bool(TRUE)>>),
            \* {"a": {"b": [10, 20]}, "id": 7, "b/c": "s", "m~n": "t", "~1": "u", "": "e", "0": "zero", "01": "z1", "n": null, "1": true}
       rheaders |-> <<P(LowerSeq(hLocation), Str(<<117, 47, 52, 50>>)), P(hxid, Str(<<114, 49>>))>>,    \* location: u/42 ; x-id: r1
       rbody |-> Obj(<<nId, <<97>>, <<98>>, <<98, 47, 99>>, <<109, 126, 110>>, <<126, 49>>, <<>>>>,
                     <<IntV(42), Arr(<<Obj(<<<<98>>>>, <<Str(<<120>>)>>), Str(<<121>>)>>),
                       Obj(<<<<48>>, <<48, 49>>, <<45, 49>>, <<45>>>>, <<Str(<<107, 48>>), Str(<<107, 48, 49>>), Str(<<107, 109, 49>>), Str(<<107, 100>>)>>),
                       IntV(1), IntV(2), IntV(3), Obj(<<<<97>>>>, <<Str(<<100, 101, 101, 112>>)>>)>>)]
            \* {"id": 42, "a": [{"b": "x"}, "y"], "b": {"0": "k0", "01": "k01", "-1": "km1", "-": "kd"}, "b/c": 1, "m~n": 2, "~1": 3, "": {"a": "deep"}}
X2 == [method |-> <<71, 69, 84>>,                                                                       \* GET
       url |-> <<104, 116, 116, 112, 58, 47, 47, 49, 50, 55, 46, 48, 46, 48, 46, 49, 47, 97, 112, 105, 47, 117, 115, 101,
                 114, 115, 47, 57>>,                                                                    \* http://127.0.0.1/api/users/9
       status |-> 404,
       path |-> <<P(nId, Str(<<57>>))>>, query |-> <<>>, headers |-> <<>>, body |-> NoBody,
       rheaders |-> <<>>,
       rbody |-> Arr(<<Str(<<112>>), Arr(<<Str(<<113, 113>>), Obj(<<nId>>, <<IntV(9)>>)>>)>>)]           \* ["p", ["qq", {"id": 9}]]
(* X3: every source is PRESENT with a falsy value - 0, false, "", [] and {} are values, not absences *)
Falsy == Obj(<<nId, <<97>>, <<98>>, <<110>>, <<48>>>>, <<IntV(0), Bool(FALSE), Str(<<>>), Arr(<<>>), Obj(<<>>, <<>>)>>)
         \* {"id": 0, "a": false, "b": "", "n": [], "0": {}}
X3 == [method |-> <<80, 79, 83, 84>>,                                                                   \* POST
       url |-> <<104, 116, 116, 112, 58, 47, 47, 49, 50, 55, 46, 48, 46, 48, 46, 49, 47, 97, 112, 105, 47, 117, 115, 101, 114, 115, 47, 48, 63, 113, 61, 38, 97, 46, 98, 61, 48>>,
            \* http://127.0.0.1/api/users/0?q=&a.b=0
       status |-> 200,
       path |-> <<P(nId, IntV(0))>>, query |-> <<P(nQ, Str(<<>>)), P(nDotted, IntV(0))>>,                \* id=0 ; q="", a.b=0
       headers |-> <<P(hXId, Str(<<>>))>>,                                                               \* X-Id: (empty)
       body |-> Falsy,
       rheaders |-> <<P(LowerSeq(hLocation), Str(<<>>)), P(hxid, Str(<<48>>))>>,                        \* location: (empty) ; x-id: 0
       rbody |-> Falsy]
X(id) == IF id = "X1" THEN X1 ELSE IF id = "X2" THEN X2 ELSE X3

(* ------------------------- expression family ---------------------------- *)
RT == {<<97>>, <<98>>, nId, <<98, 126, 49, 99>>, <<109, 126, 48, 110>>, <<126, 48, 49>>, <<>>, <<48>>, <<49>>, <<50>>, <<48, 49>>,
       <<45, 49>>, <<45>>, <<32, 49>>, <<126>>, <<126, 50>>, <<110>>}
      \* a b id b~1c m~0n ~01 "" 0 1 2 01 -1 - " 1" ~ ~2 n
RECURSIVE PtrsOf(_)
PtrsOf(n) == IF n = 0 THEN {<<>>} ELSE LET shorter == PtrsOf(n - 1) IN shorter \cup {p \o <<cSlash>> \o t : p \in shorter, t \in RT}
Ptrs == PtrsOf(PtrLen) \cup {<<97>>, <<97, 47, 98>>}                     \* plus two pointers that do not start with "/"
PtrExprs == {h \o sBody \o <<cHash>> \o p : h \in {sRequest, sResponse}, p \in Ptrs}
Rx(e, rx) == e \o sRegex \o rx
G(e) == <<cLB>> \o e \o <<cRB>>
BareWF == {sUrl, sMethod, sStatus, sRequest \o sPath \o nId, sRequest \o sQuery \o nQ, sRequest \o sQuery \o nDotted,
           sRequest \o sQuery \o nMissing, sRequest \o sHeader \o hXId, sRequest \o sHeader \o hxid, sRequest \o sBody,
           sResponse \o sBody, sResponse \o sHeader \o hLocation, sResponse \o sHeader \o hxid, sResponse \o sHeader \o nMissing,
           Rx(sResponse \o sHeader \o hLocation, rxUsers), Rx(sResponse \o sHeader \o hLocation, rxAll),
           Rx(sRequest \o sPath \o nId, rxAll), Rx(sRequest \o sQuery \o nQ, rxUsers),
           Rx(sResponse \o sHeader \o hLocation, rxNoGroup), Rx(sResponse \o sHeader \o hLocation, rxTwoGroups),
           Rx(sResponse \o sHeader \o hLocation, rxBroken), G(Rx(sResponse \o sHeader \o hLocation, rxNoGroup))}
RespId == sResponse \o sBody \o <<cHash, cSlash>> \o nId                                    \* $response.body#/id
RespAB == sResponse \o sBody \o <<cHash, cSlash, 97, cSlash, 48, cSlash, 98>>               \* $response.body#/a/0/b
RespZZ == sResponse \o sBody \o <<cHash, cSlash>> \o nMissing                               \* $response.body#/zz
Inner == {sUrl, sStatus, sRequest \o sPath \o nId, RespId, RespAB, RespZZ, Rx(sResponse \o sHeader \o hLocation, rxUsers),
          bogus, sRequest \o sPath, sResponse \o sBody \o <<cHash, 97>>, sResponse \o sBody \o <<cHash, cSlash, 97>>}
Templates == {G(e) : e \in Inner} \cup {tAb \o G(e) : e \in Inner} \cup {G(e) \o tAb : e \in Inner}
             \cup {tAb \o G(e) \o <<45>> \o G(f) : e \in Inner, f \in {sStatus, RespId}}
             \cup {G(e) \o G(f) : e \in Inner, f \in {sStatus, RespId}}
             \cup {tAb, <<>>, <<97, 46, 98>>, <<97, 35, 98>>, <<97, 32, 98>>}                  \* constants: ab "" a.b a#b "a b"
(* every string within one edit (delete / insert / substitute one of the structural characters) of the base set *)
EditChars == {cDollar, 46, cLB, cRB, cHash, cSlash, cTilde, 32}
MutBase == IF Rich THEN {sUrl, sStatus, sRequest \o sPath \o nId, sRequest \o sHeader \o hXId, sRequest \o sBody, RespId, RespAB,
                         sResponse \o sHeader \o hLocation, Rx(sResponse \o sHeader \o hLocation, rxUsers),
                         G(RespId), tAb \o G(sUrl), tAb \o G(RespAB) \o <<45>> \o G(sStatus), G(sRequest \o sPath \o nId) \o G(RespId),
                         sResponse \o sBody \o <<cHash, cSlash, 98, 126, 49, 99>>, G(sResponse \o sBody \o <<cHash, cSlash, 109, 126, 48, 110>>)}
           ELSE {sUrl, sRequest \o sPath \o nId, RespId, G(RespId), tAb \o G(RespAB) \o <<45>> \o G(sStatus),
                 sResponse \o sBody \o <<cHash, cSlash, 98, 126, 49, 99>>}
Edits(s) == {SubSeq(s, 1, i - 1) \o SubSeq(s, i + 1, Len(s)) : i \in 1..Len(s)}
            \cup {SubSeq(s, 1, i) \o <<c>> \o SubSeq(s, i + 1, Len(s)) : i \in 0..Len(s), c \in EditChars}
            \cup {[s EXCEPT ![i] = c] : i \in 1..Len(s), c \in EditChars}
Family == BareWF \cup Inner \cup MutBase \cup PtrExprs \cup Templates \cup UNION {Edits(s) : s \in MutBase}

(* ----------------------------- value trees ------------------------------ *)
kItems == <<105, 116, 101, 109, 115>>                                  \* "items"
kSku == <<115, 107, 117>>                                              \* "sku"
Leaves == {Str(RespId), Str(RespAB), Str(RespZZ), Str(tAb), IntV(5)}   \* int / string / nothing (on X1) ; a constant ; a number
Shapes(l, m) == {l, Obj(<<<<97>>>>, <<l>>), Arr(<<l, m>>),
                 Obj(<<kItems>>, <<Arr(<<Obj(<<kSku>>, <<l>>)>>)>>),                         \* {"items": [{"sku": l}]}
                 Arr(<<Arr(<<l>>), m>>),                                                    \* [[l], m]
                 Obj(<<kItems, <<97>>>>, <<Arr(<<m, Obj(<<kSku>>, <<Arr(<<l>>)>>)>>), m>>),  \* {"items": [m, {"sku": [l]}], "a": m}
                 Arr(<<Obj(<<<<97>>>>, <<Obj(<<kSku>>, <<l>>)>>)>>)}                         \* [{"a": {"sku": l}}]
Trees == UNION {Shapes(l, m) : l \in Leaves, m \in Leaves}

(* ------------------------- link well-formedness ------------------------- *)
(* a link names its target by operationId or operationRef and its parameters either as "{in}.{name}" or just "{name}";
   a bare name is placed where the TARGET declares it.  A link whose target does not exist, or whose bare parameter name
   the target does not declare, cannot be followed: it must be refused when the links are read.  An explicit location with a
   name the target does not declare: the standard is silent *)
LinkShapes == [target : {"id", "ref", "unknown-id", "unknown-ref"}, pname : {"id", "path.id", "nope", "query.nope"}]
LinkVerdict(l) == IF l.target \in {"unknown-id", "unknown-ref"} \/ l.pname = "nope" THEN "rejected"
                  ELSE IF l.pname = "query.nope" THEN "U" ELSE "accepted"
NoLink == [target |-> "", pname |-> ""]

(* ------------------------------ the system ------------------------------ *)
VARIABLES fam, e, tree, lnk, xid, key, keys, out
vars == <<fam, e, tree, lnk, xid, key, keys, out>>
Pending == [k |-> "pending"]
Init == /\ out = Pending
        /\ \/ fam = "expr" /\ e \in Family /\ tree = Null /\ lnk = NoLink /\ xid \in {"X1", "X2"} /\ key = "" /\ keys = {}
           \/ fam = "expr" /\ e \in BareWF \cup Inner \cup PtrExprs \cup Templates /\ tree = Null /\ lnk = NoLink /\ xid = "X3"
              /\ key = "" /\ keys = {}
           \/ fam = "tree" /\ e = <<>> /\ tree \in Trees /\ lnk = NoLink /\ xid \in {"X1", "X2"} /\ key = "" /\ keys = {}
           \/ fam = "link" /\ e = <<>> /\ tree = Null /\ lnk \in LinkShapes /\ xid = "" /\ key = "" /\ keys = {}
           \/ fam = "status" /\ e = <<>> /\ tree = Null /\ lnk = NoLink /\ xid = "" /\ keys \in KeySets /\ key \in keys
(* following a link evaluates its expression on the source exchange *)
Evaluate == /\ fam = "expr" /\ out = Pending /\ out' = Eval(e, X(xid)) /\ UNCHANGED <<fam, e, tree, lnk, xid, key, keys>>
(* ... and its requestBody / a structured parameter value as a whole tree *)
EvaluateTree == /\ fam = "tree" /\ out = Pending /\ out' = TreeResult(tree, X(xid)) /\ UNCHANGED <<fam, e, tree, lnk, xid, key, keys>>
(* routing a response: the statuses from which the link under `key` may be followed *)
MatchStatuses == /\ fam = "status" /\ out = Pending
                 /\ out' = [k |-> "statuses", v |-> {s \in Statuses : LinkMatches(key, s, keys)}]
                 /\ UNCHANGED <<fam, e, tree, lnk, xid, key, keys>>
(* reading the links of the document when the state machine is built *)
ReadLink == /\ fam = "link" /\ out = Pending /\ out' = [k |-> "link", v |-> LinkVerdict(lnk)]
            /\ UNCHANGED <<fam, e, tree, lnk, xid, key, keys>>
Next == Evaluate \/ EvaluateTree \/ ReadLink \/ MatchStatuses
Spec == Init /\ [][Next]_vars

(* --------------------------- design invariants -------------------------- *)
Kinds == {"pending", "statuses", "link", "val", "unres", "malformed", "badptr", "litorrej", "U"}
TypeOK == out.k \in Kinds /\ (fam = "status" => out.k \in {"pending", "statuses"}) /\ (fam = "expr" => out.k \notin {"statuses", "link"})
          /\ (fam = "tree" => out.k \in {"pending", "val", "unres"})
(* a tree denotes nothing iff one of its strings does; otherwise it keeps its shape *)
RECURSIVE Strings(_)
Strings(d) == IF d.t = "str" THEN {d.s} ELSE IF d.t \in {"arr", "obj"} THEN UNION {Strings(d.a[n]) : n \in 1..Len(d.a)} ELSE {}
TreeAllOrNothing == (fam = "tree" /\ out.k # "pending") =>
                        /\ (out.k = "unres") <=> \E t \in Strings(tree) : Eval(t, X(xid)).k # "val"
                        /\ (out.k = "val" /\ tree.t \in {"arr", "obj"}) => out.v.t = tree.t /\ Len(out.v.a) = Len(tree.a)
(* every status is claimed by an explicit key or by default, never by both; exact and wildcard keys never exclude each other *)
DefaultIsTheRest == (fam = "status" /\ out.k = "statuses" /\ key = "default") =>
                        \A s \in Statuses : (s \in out.v) <=> ~\E k \in keys \ {"default"} : DigitsMatch(k, s)
ExplicitIgnoresOthers == (fam = "status" /\ out.k = "statuses" /\ key # "default") =>
                            out.v = {s \in Statuses : DigitsMatch(key, s)}
(* anything with braces evaluates to text (or to nothing); a constant evaluates to itself *)
EmbeddedIsText == (fam = "expr" /\ out.k = "val" /\ (Has(e, cLB) \/ Has(e, cRB))) => out.v.t = "str"
ConstantIsItself == (fam = "expr" /\ out.k # "pending" /\ ~Has(e, cDollar)) =>
                        out = IF Has(e, cLB) \/ Has(e, cRB) THEN LitOrRej(e) ELSE Val(Str(e))
(* nothing that is sent can come from a malformed or unresolvable expression *)
NeverSendsNothing == (fam = "expr" /\ out.k \in {"unres", "malformed", "badptr"}) => ~Derived(e, X(xid)).sent
(* a source that is present denotes its value even when that value is 0, false, "" , [] or {} *)
FalsyIsAValue == /\ Eval(sRequest \o sPath \o nId, X3) = Val(IntV(0)) /\ Eval(sRequest \o sQuery \o nQ, X3) = Val(Str(<<>>))
                 /\ Eval(sRequest \o sHeader \o hXId, X3) = Val(Str(<<>>)) /\ Eval(sResponse \o sHeader \o hLocation, X3) = Val(Str(<<>>))
                 /\ Eval(sResponse \o sBody \o <<cHash, cSlash, 97>>, X3) = Val(Bool(FALSE))
                 /\ Eval(sRequest \o sBody \o <<cHash, cSlash, 110>>, X3) = Val(Arr(<<>>))
                 /\ Eval(sRequest \o sQuery \o nMissing, X3) = RUnres
(* RFC 6901: the empty pointer is the whole document; escapes decode as the RFC's examples *)
PointerLaws == /\ Resolve(X1.rbody, <<>>) = X1.rbody
               /\ Unesc(<<126, 48, 49>>).s = <<126, 49>> /\ Unesc(<<98, 126, 49, 99>>).s = <<98, 47, 99>> /\ ~Unesc(<<126>>).ok
               /\ Resolve(X1.rbody, <<47, 98, 126, 49, 99>>) = IntV(1) /\ Resolve(X1.rbody, <<47, 109, 126, 48, 110>>) = IntV(2)
               /\ Resolve(X1.rbody, <<47, 126, 48, 49>>) = IntV(3) /\ Resolve(X1.rbody, <<47, 97, 47, 48, 49>>) = Unres
               /\ Resolve(X1.rbody, <<47, 98, 47, 48, 49>>) = Str(<<107, 48, 49>>) /\ Resolve(X1.rbody, <<47, 97, 47, 45>>) = Unres

(* ------------------------------- export --------------------------------- *)
ASSUME PrintT(<<"EXCHANGE", ToJson([X1 |-> X1, X2 |-> X2, X3 |-> X3])>>)
Export == IF out = Pending THEN TRUE
          ELSE IF fam = "expr" THEN PrintT(<<"CASE", ToJson([e |-> e, x |-> xid, exp |-> out])>>)
          ELSE IF fam = "link" THEN PrintT(<<"LINK", ToJson([link |-> lnk, exp |-> out.v])>>)
          ELSE IF fam = "tree" THEN PrintT(<<"TREE", ToJson([tree |-> tree, x |-> xid, exp |-> out])>>)
          ELSE PrintT(<<"STATUS", ToJson([key |-> key, keys |-> keys, matched |-> out.v])>>)
=============================================================================
