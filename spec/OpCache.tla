------------------------------ MODULE OpCache ------------------------------
(***************************************************************************)
(* C08 - every documented operation is offered with its effective inputs,  *)
(* or reported; all lookup routes agree; nothing depends on access order,  *)
(* serialisation or file layout.                                           *)
(*                                                                         *)
(* State: an API document descriptor `doc` (three operations: M = POST     *)
(* /m/{id}, O = GET /m/{id} sharing M's path item, Z = POST /z), its       *)
(* serialisation `ser` and file layout `lay`, the access history `hist`    *)
(* (the thing the property quantifies over under "histories"), and an      *)
(* abstract model of the lookup cache: ONE list of materialised operations *)
(* `ops` and three indices into it (`byKey`, `byId`, `byRef`).  One action *)
(* per public access: Iterate = get_all_operations(), LookupPath =         *)
(* schema[path][method], LookupId = get_operation_by_id, LookupRef =       *)
(* get_operation_by_reference.  `ret` is what each access handed back.     *)
(*                                                                         *)
(* `Effective`, `Outcome` are written from the property text and the       *)
(* OpenAPI standard (Path Item Object: "parameters ... can be overridden   *)
(* at the operation level"; a parameter is identified by name + in), not   *)
(* from the implementation.                                                *)
(***************************************************************************)
EXTENDS Integers, Sequences, FiniteSets, TLC, Json

CONSTANTS MaxDev,      \* documents differ from the base document in at most MaxDev features
          Diag,        \* TRUE: documents with exactly MaxDev deviations are written as json/single-file and yaml/multi-file only
          MaxLen       \* access histories up to this length for the base document, one shorter per deviation

Targets == {"M", "O", "Z"}             \* the operations every lookup route is tried on
AllOps == Targets \cup {"W"}            \* W: a sibling of Z whose path is what a WRONG pointer decoding of Z's path yields
(* Z's path may contain "~" literally, next to "0" / "1" and to "/": as a JSON pointer token "/f/~1" is "~1f~1~01" and must decode
   back to "/f/~1" ("~1" first, then "~0"), not to "/f//" *)
ZPaths == {"/z", "/f/~1", "/f/~0", "/f/~01", "/f/~10"}
HasW(d) == d.zpath \in {"/f/~1", "/f/~10"}
PathOf(d, t) == CASE t = "Z" -> d.zpath
                  [] t = "W" -> (IF d.zpath = "/f/~1" THEN "/f//" ELSE "/f//0")
                  [] OTHER -> "/m/{id}"
MethodOf(t) == IF t = "O" THEN "get" ELSE "post"
IdOf(t) == CASE t = "M" -> "opM" [] t = "O" -> "opO" [] t = "W" -> "opW" [] OTHER -> "opZ"
Ops(d) == IF HasW(d) THEN AllOps ELSE Targets
Routes == {"path", "id", "ref"}

(* ------------------------------- documents ------------------------------ *)
Bodies == {"none", "one", "two", "ref", "form"}    \* "form": a form payload (3.x: urlencoded media type; 2.0: formData parameters)
Secs == {"none", "hdr", "qry", "basic", "off", "ref", "refall", "clash"}   \* "refall": the whole securitySchemes map is a $ref;   \* "clash": apiKey named like the declared parameter (p, query)
Bads == {"none", "paramref", "noin", "itemref", "hdrname", "noschema"}
        \* unresolvable parameter $ref / no "in" / unresolvable path item / header name that is no token / neither schema nor content
Vers == {"3.0", "3.1", "2.0"}
DocSpace == [plK1 : BOOLEAN, plK2 : BOOLEAN,                 \* path-level parameter (p, query) / (p, header) present
             olK1 : BOOLEAN, olK2 : BOOLEAN, olK3 : BOOLEAN, \* M's own parameter (p, query) / (p, header) / (q, query)
             orient : {"pT", "oT"},                          \* which level says required: true (the other says false)
             pdepth : 0..2, odepth : 0..2,                   \* parameters inline / $ref / $ref to $ref
             pathRef : BOOLEAN,                              \* the path item of M and O sits behind a $ref
             body : Bodies, rec : BOOLEAN,                   \* request body alternatives; JSON body schema recursive
             cross : {"none", "fwd", "mirror"},              \* "fwd": path-level (c, query); M declares (c, header) AND (d, query):
                                                             \*   one shares only the name, the other only the location - nothing is overridden
                                                             \* "mirror": path-level (c, header) and (d, query); M declares (c, query)
             zpath : ZPaths,                                 \* Z's path (with W next to it when a wrong decoding would alias to another path)
             collide : BOOLEAN,                              \* the document holding M's path item and the root document each define
                                                             \*   a parameter under the SAME local pointer text with different content:
                                                             \*   M / O use their own document's (lim, tag 13), Z the root's (lim, tag 12)
             ver : Vers,                                     \* OpenAPI 3.0.x / 3.1.x / Swagger 2.0 rendering of the same API
             qcontent : BOOLEAN,                             \* Z's own parameter is described by "content" instead of "schema" (3.x)
             secgen : BOOLEAN,                               \* FALSE: the user switched security parameters off in the configuration
             oNoId : BOOLEAN,                                \* O has no operationId
             numkeys : BOOLEAN,                              \* key spelling: the JSON body schema ALSO has properties whose names a YAML 1.1
                                                             \*   reader takes for floats ("1.0", "1.10", "1e3", ".5") or nulls ("null", "~") when
                                                             \*   written plain; as mapping keys they are text, exactly as in the JSON rendering
             mbroken : BOOLEAN,                              \* M uses a definition from the shared file whose own NESTED $ref is dangling
                                                             \*   (M must be reported); O and Z then use the root-local pointer "Lim", which
                                                             \*   the shared file defines too, with other content: they get the ROOT's (tag 12)
             sec : Secs,                                     \* security scheme kind ("off": global, disabled on M)
             bad : Bads]                                     \* malformed entry in Z
Base == [plK1 |-> TRUE, plK2 |-> FALSE, olK1 |-> TRUE, olK2 |-> FALSE, olK3 |-> FALSE, orient |-> "pT",
         pdepth |-> 1, odepth |-> 0, pathRef |-> FALSE, body |-> "two", rec |-> FALSE, cross |-> "none", zpath |-> "/z", collide |-> FALSE,
         ver |-> "3.0", qcontent |-> FALSE, secgen |-> TRUE, oNoId |-> FALSE, mbroken |-> FALSE,
         numkeys |-> FALSE, sec |-> "hdr", bad |-> "none"]
B2N(b) == IF b THEN 1 ELSE 0
Weight(d) == B2N(d.plK1 # Base.plK1) + B2N(d.plK2 # Base.plK2) + B2N(d.olK1 # Base.olK1) + B2N(d.olK2 # Base.olK2)
           + B2N(d.olK3 # Base.olK3) + B2N(d.orient # Base.orient) + B2N(d.pdepth # Base.pdepth)
           + B2N(d.odepth # Base.odepth) + B2N(d.pathRef # Base.pathRef /\ ~d.collide) + B2N(d.body # Base.body)
           \* (a second document with colliding pointers IS a path item behind a $ref: one deviation, not two)
           + B2N(d.rec # Base.rec) + B2N(d.sec # Base.sec) + B2N(d.bad # Base.bad) + B2N(d.cross # Base.cross)
           + B2N(d.zpath # Base.zpath) + B2N(d.collide # Base.collide) + B2N(d.ver # Base.ver)
           + B2N(d.qcontent # Base.qcontent) + B2N(d.secgen # Base.secgen) + B2N(d.oNoId # Base.oNoId)
           + B2N(d.mbroken # Base.mbroken) + B2N(d.numkeys # Base.numkeys)
WF(d) == /\ (d.rec => d.body # "none")
         /\ ((~d.olK1 /\ ~d.olK2 /\ ~d.olK3 /\ d.cross = "none") => d.odepth = 0)
         /\ (d.collide => d.pathRef)                  \* two documents are needed for two definitions under one pointer text
         /\ (d.ver = "2.0" => ~d.qcontent /\ d.bad # "noschema" /\ d.sec \notin {"ref", "refall"})   \* 2.0 has no "content", no parameter "schema", no $ref there
         /\ (d.qcontent => d.bad = "none")
         /\ (d.rec => d.body # "form")
         /\ (d.mbroken => ~d.pathRef /\ ~d.collide)
         /\ (d.numkeys => d.body \notin {"none", "form"})     \* the oddly spelled names are properties of the JSON body schema
(* all documents within MaxDev single-feature changes of Base (built by changing one feature at a time) *)
Variants(d) == {[d EXCEPT !.plK1 = b] : b \in BOOLEAN} \cup {[d EXCEPT !.plK2 = b] : b \in BOOLEAN}
          \cup {[d EXCEPT !.olK1 = b] : b \in BOOLEAN} \cup {[d EXCEPT !.olK2 = b] : b \in BOOLEAN}
          \cup {[d EXCEPT !.olK3 = b] : b \in BOOLEAN} \cup {[d EXCEPT !.orient = x] : x \in {"pT", "oT"}}
          \cup {[d EXCEPT !.pdepth = n] : n \in 0..2} \cup {[d EXCEPT !.odepth = n] : n \in 0..2}
          \cup {[d EXCEPT !.pathRef = b] : b \in BOOLEAN} \cup {[d EXCEPT !.body = x] : x \in Bodies}
          \cup {[d EXCEPT !.rec = b] : b \in BOOLEAN} \cup {[d EXCEPT !.sec = x] : x \in Secs}
          \cup {[d EXCEPT !.bad = x] : x \in Bads} \cup {[d EXCEPT !.cross = x] : x \in {"none", "fwd", "mirror"}}
          \cup {[d EXCEPT !.ver = x] : x \in Vers} \cup {[d EXCEPT !.qcontent = b] : b \in BOOLEAN}
          \cup {[d EXCEPT !.secgen = b] : b \in BOOLEAN} \cup {[d EXCEPT !.mbroken = b] : b \in BOOLEAN} \cup {[d EXCEPT !.oNoId = b] : b \in BOOLEAN}
          \cup {[d EXCEPT !.numkeys = b] : b \in BOOLEAN}
          \cup {[d EXCEPT !.zpath = x] : x \in ZPaths} \cup {[d EXCEPT !.collide = TRUE, !.pathRef = TRUE], [d EXCEPT !.collide = FALSE]}
RECURSIVE Within(_, _)
Within(S, n) == IF n = 0 THEN S ELSE Within(S \cup UNION {Variants(d) : d \in S}, n - 1)
Docs == {d \in Within({Base}, MaxDev) : WF(d)}

(* ------------------ expected outcome (the oracle) ----------------------- *)
KName(k) == IF k = "K3" THEN "q" ELSE "p"
KLoc(k) == IF k = "K2" THEN "header" ELSE "query"
PLKeys(d) == {k \in {"K1", "K2"} : (k = "K1" /\ d.plK1) \/ (k = "K2" /\ d.plK2)}
OLKeys(d) == {k \in {"K1", "K2", "K3"} : (k = "K1" /\ d.olK1) \/ (k = "K2" /\ d.olK2) \/ (k = "K3" /\ d.olK3)}
Param(n, l, r, g) == [name |-> n, loc |-> l, req |-> r, tag |-> g]
(* parameters declared on the path item of t / on the operation t itself; tag identifies the definition *)
PathLevel(d, t) == IF t \in {"Z", "W"} THEN {}
                   ELSE {Param("id", "path", TRUE, 3)} \cup {Param(KName(k), KLoc(k), d.orient = "pT", 1) : k \in PLKeys(d)}
                        \cup (IF d.cross = "fwd" THEN {Param("c", "query", d.orient = "pT", 6)}
                              ELSE IF d.cross = "mirror" THEN {Param("c", "header", d.orient = "pT", 6), Param("d", "query", d.orient = "pT", 8)}
                              ELSE {})
                        \cup (IF d.collide THEN {Param("lim", "query", d.orient = "pT", 13)} ELSE {})
OpLevel(d, t) == CASE t = "M" -> {Param(KName(k), KLoc(k), d.orient = "oT", 2) : k \in OLKeys(d)}
                                  \cup (IF d.cross = "fwd" THEN {Param("c", "header", d.orient = "oT", 7), Param("d", "query", d.orient = "oT", 9)}
                                        ELSE IF d.cross = "mirror" THEN {Param("c", "query", d.orient = "oT", 7)}
                                        ELSE {})
                   [] t = "Z" -> {Param("q", "query", FALSE, 4)} \cup (IF d.collide \/ d.mbroken THEN {Param("lim", "query", FALSE, 12)} ELSE {})
                   [] t = "O" -> IF d.mbroken THEN {Param("lim", "query", FALSE, 12)} ELSE {}
                   [] t = "W" -> {Param("w", "query", FALSE, 11)}
                   [] OTHER   -> {}
(* THE merge rule of the property: path-level parameters overridden by operation-level ones of the same name and location *)
Effective(pathParams, opParams) ==
    opParams \cup {p \in pathParams : ~\E o \in opParams : o.name = p.name /\ o.loc = p.loc}
SecActive(d, t) == d.sec # "none" /\ ~(d.sec = "off" /\ t = "M") /\ d.secgen
SecParams(d, t) == IF ~SecActive(d, t) THEN {}
                   ELSE IF d.sec = "qry" THEN {Param("k", "query", TRUE, 0)}
                   ELSE IF d.sec = "clash" THEN {Param("p", "query", TRUE, 0)}
                   ELSE IF d.sec = "basic" THEN {Param("Authorization", "header", TRUE, 90)}
                   ELSE {Param("X-Key", "header", TRUE, 0)}
Alt(m, r, g) == [media |-> m, req |-> r, tag |-> g]
JsonTag(d) == IF d.rec THEN 77 ELSE 5
(* 3.x: one schema per media type of requestBody.content; 2.0: ONE body parameter, offered under every media type of "consumes" *)
BodiesOf(d, t) == IF t # "M" THEN {}
                  ELSE LET other(g) == IF d.ver = "2.0" THEN JsonTag(d) ELSE g IN
                       CASE d.body = "none" -> {}
                         [] d.body = "one" -> {Alt("application/json", FALSE, JsonTag(d))}
                         [] d.body = "two" -> {Alt("application/json", TRUE, JsonTag(d)), Alt("text/plain", TRUE, other(7))}
                         [] d.body = "form" -> {Alt(IF d.ver = "2.0" THEN "multipart/form-data" ELSE "application/x-www-form-urlencoded", TRUE, 6)}
                                               \* 2.0 without "consumes": formData is sent as multipart/form-data
                         [] OTHER -> {Alt("application/json", TRUE, JsonTag(d)), Alt("text/plain", TRUE, other(7)),
                                      Alt("application/xml", TRUE, other(8))}
                                     \cup (IF d.ver = "2.0" THEN {} ELSE {Alt("multipart/form-data", TRUE, 9)})
(* mapping keys and date-like scalars are text, whatever the serialisation *)
RespKeys(t) == IF t = "M" THEN {"200", "404", "default"} ELSE {"200"}
(* YAML 1.1 would resolve these plain scalars to bool / float / null; a mapping KEY is text in JSON, so the same document written
   as YAML must yield the same names - and distinct spellings ("1.0" / "1.10", "null" / "~") stay distinct properties *)
FloatLike == {"1.0", "1.10", "1e3", ".5"}
NullLike == {"null", "~"}
PropNames(d) == {"no", "on", "v"} \cup (IF d.numkeys THEN FloatLike \cup NullLike ELSE {})
DateScalar == "2020-01-01"
Malformed(d, t) == (t = "Z" /\ d.bad # "none") \/ (t = "M" /\ d.mbroken)
HasJsonBody(d, t) == t = "M" /\ d.body \notin {"none", "form"}
(* the JSON reference of an operation: "#/paths/" + RFC 6901 escape of the path ("~" -> "~0", "/" -> "~1") + "/" + method *)
Esc(path) == CASE path = "/m/{id}" -> "~1m~1{id}" [] path = "/z" -> "~1z" [] path = "/f/~1" -> "~1f~1~01" [] path = "/f/~0" -> "~1f~1~00"
               [] path = "/f/~01" -> "~1f~1~001" [] path = "/f/~10" -> "~1f~1~010" [] path = "/f//" -> "~1f~1~1" [] OTHER -> "~1f~1~10"
(* a security parameter with the (name, in) of a declared parameter: the operation still has exactly ONE parameter under that key;
   which of the two definitions describes it is not decided by the standard -> the key is judged, the definition is not *)
Declared(d, t) == Effective(PathLevel(d, t), OpLevel(d, t))
Clash(d, t) == {[name |-> p.name, loc |-> p.loc] : p \in {p \in SecParams(d, t) : \E q \in Declared(d, t) : q.name = p.name /\ q.loc = p.loc}}
Outcome(d, t) ==
    IF Malformed(d, t)
    THEN [ok |-> FALSE, path |-> PathOf(d, t), method |-> "", esc |-> "", params |-> {}, free |-> {}, bodies |-> {}, resp |-> {}, props |-> {}, date |-> ""]
    ELSE [ok |-> TRUE, path |-> PathOf(d, t), method |-> MethodOf(t), esc |-> Esc(PathOf(d, t)),
          params |-> {p \in Declared(d, t) \cup SecParams(d, t) : [name |-> p.name, loc |-> p.loc] \notin Clash(d, t)},
          free |-> Clash(d, t),
          bodies |-> BodiesOf(d, t), resp |-> RespKeys(t),
          props |-> IF HasJsonBody(d, t) THEN PropNames(d) ELSE {},        \* property names of the JSON body schema
          date |-> IF HasJsonBody(d, t) THEN DateScalar ELSE ""]        \* its date-like default value
(* a JSON reference "#/paths/<path>/<method>" into a path item that is itself a $ref: the standard does not say whether
   the pointer continues through the reference -> such an access is made but not judged *)
Judged(d, a) == ~(a.k = "ref" /\ a.t # "Z" /\ d.pathRef)
(* looking up an operationId that no operation carries must fail *)
NoSuchId(d, a) == a.k = "id" /\ a.t = "O" /\ d.oNoId

(* ----------------------------- the system ------------------------------- *)
VARIABLES doc, ser, lay, hist, ops, byKey, byId, byRef, ret
vars == <<doc, ser, lay, hist, ops, byKey, byId, byRef, ret>>
None == [t \in AllOps |-> 0]
(* "stream": the single document handed over as an open file (no location, content sniffed) instead of a path - the other front door *)
Init == /\ doc \in Docs /\ ser \in {"json", "yaml"} /\ lay \in {"single", "multi", "stream"}
        /\ (lay = "stream" => Weight(doc) <= 1)
        /\ ((Diag /\ Weight(doc) = MaxDev /\ lay # "stream") => ((ser = "json") <=> (lay = "single")))
        /\ hist = <<>> /\ ops = <<>> /\ ret = <<>>
        /\ byKey = None /\ byId = None /\ byRef = None
Bound == MaxLen - Weight(doc)          \* the base document gets the longest histories, one access less per deviation
CanStep == Len(hist) < Bound - (IF lay = "stream" THEN 1 ELSE 0)
Access(k, t) == [k |-> k, t |-> t]
(* what an access hands back: the set of targets it yields an outcome for, as materialised *)
Iterate == /\ CanStep
           /\ hist' = Append(hist, Access("iter", "M"))
           /\ ret' = Append(ret, Ops(doc))             \* fresh operations, exactly one outcome per documented operation
           /\ UNCHANGED <<doc, ser, lay, ops, byKey, byId, byRef>>
Materialise(t, key, id, ref) ==
    LET idx == Len(ops) + 1 IN
      /\ ops' = Append(ops, t)
      /\ byKey' = [byKey EXCEPT ![t] = idx]
      /\ byId' = IF id /\ ~(t = "O" /\ doc.oNoId) THEN [byId EXCEPT ![t] = idx] ELSE byId
      /\ byRef' = IF ref THEN [byRef EXCEPT ![t] = idx] ELSE byRef
Lookup(k, t) ==
    /\ CanStep
    /\ hist' = Append(hist, Access(k, t))
    /\ UNCHANGED <<doc, ser, lay>>
    /\ IF Malformed(doc, t) \/ NoSuchId(doc, Access(k, t))
       THEN ret' = Append(ret, {t}) /\ UNCHANGED <<ops, byKey, byId, byRef>>       \* an error, nothing cached
       ELSE LET own == CASE k = "path" -> 0 [] k = "id" -> byId[t] [] OTHER -> byRef[t]
                hit == IF own # 0 THEN own ELSE byKey[t]
            IN IF hit # 0
               THEN ret' = Append(ret, {ops[hit]}) /\ UNCHANGED <<ops, byKey, byId, byRef>>
               ELSE ret' = Append(ret, {t}) /\ Materialise(t, TRUE, k # "ref", k = "ref")
LookupPath(t) == Lookup("path", t)
LookupId(t) == Lookup("id", t)
LookupRef(t) == Lookup("ref", t)
Next == Iterate \/ (\E t \in Targets : LookupPath(t) \/ LookupId(t) \/ LookupRef(t)) \/ (HasW(doc) /\ LookupPath("W"))
Spec == Init /\ [][Next]_vars

(* --------------------------- design invariants -------------------------- *)
TypeOK == /\ doc \in Docs /\ Len(hist) = Len(ret) /\ Len(hist) <= MaxLen
          /\ \A t \in AllOps : byKey[t] \in 0..Len(ops) /\ byId[t] \in 0..Len(ops) /\ byRef[t] \in 0..Len(ops)
(* three indices over one list: every index entry of t points at t, and t is owned once *)
CacheCoherent == \A t \in AllOps :
                    /\ byKey[t] # 0 => ops[byKey[t]] = t
                    /\ byId[t] # 0 => ops[byId[t]] = t /\ byId[t] = byKey[t]
                    /\ byRef[t] # 0 => ops[byRef[t]] = t /\ byRef[t] = byKey[t]
SingleOwner == \A i, j \in 1..Len(ops) : ops[i] = ops[j] => i = j
(* every access returns its own target, i.e. all routes and all histories give Outcome(doc, target) *)
RoutesAgree == \A i \in 1..Len(hist) : ret[i] = IF hist[i].k = "iter" THEN Ops(doc) ELSE {hist[i].t}
(* every documented operation yields exactly one outcome, which is Ok(effective inputs) or Err(path) *)
ExactlyOneOutcome == \A t \in Ops(doc) : LET o == Outcome(doc, t) IN
                        /\ o.path = PathOf(doc, t)
                        /\ (o.ok <=> ~Malformed(doc, t))
                        /\ o.ok => \A p, q \in o.params : (p.name = q.name /\ p.loc = q.loc) => p = q
(* operation level wins on the same (name, in); everything else of both levels is kept *)
MergeLaw == \A t \in Ops(doc) : LET e == Effective(PathLevel(doc, t), OpLevel(doc, t)) IN
               /\ OpLevel(doc, t) \subseteq e
               /\ \A p \in PathLevel(doc, t) : p \in e \/ \E o \in OpLevel(doc, t) : o.name = p.name /\ o.loc = p.loc
               /\ e \subseteq PathLevel(doc, t) \cup OpLevel(doc, t)

(* the override is keyed by the PAIR (name, in): sharing only the name with one operation-level parameter and only the
   location with another one overrides nothing *)
(* different operations have different (path, method): a reference or a path can never denote two of them *)
DistinctOps == \A t, u \in Ops(doc) : (PathOf(doc, t) = PathOf(doc, u) /\ MethodOf(t) = MethodOf(u)) => t = u
PairKeyed == \A t \in Ops(doc) : \A p \in PathLevel(doc, t) :
                (~\E o \in OpLevel(doc, t) : o.name = p.name /\ o.loc = p.loc) => p \in Outcome(doc, t).params \/ [name |-> p.name, loc |-> p.loc] \in Outcome(doc, t).free \/ Malformed(doc, t)

(* ------------------------------- export --------------------------------- *)
(* every reachable state is one family element; the expected outcomes depend on the document only and are printed once per
   document (with its first one-access history), every other line carries the descriptor, the history and which accesses are judged *)
First == Len(hist) = 1 /\ hist[1].k = "iter" /\ ser = "json" /\ lay = "single"
SIdx(x, seq) == CHOOSE n \in 1..Len(seq) : seq[n] = x
DocId(d) == 1 * B2N(d.plK1)
          + 2 * B2N(d.plK2)
          + 4 * B2N(d.olK1)
          + 8 * B2N(d.olK2)
          + 16 * B2N(d.olK3)
          + 32 * (SIdx(d.orient, <<"pT", "oT">>) - 1)
          + 64 * d.pdepth
          + 192 * d.odepth
          + 576 * B2N(d.pathRef)
          + 1152 * B2N(d.rec)
          + 2304 * (SIdx(d.body, <<"none", "one", "two", "ref", "form">>) - 1)
          + 11520 * (SIdx(d.sec, <<"none", "hdr", "qry", "basic", "off", "ref", "refall", "clash">>) - 1)
          + 92160 * (SIdx(d.bad, <<"none", "paramref", "noin", "itemref", "hdrname", "noschema">>) - 1)
          + 552960 * (SIdx(d.cross, <<"none", "fwd", "mirror">>) - 1)
          + 1658880 * (SIdx(d.zpath, <<"/z", "/f/~1", "/f/~0", "/f/~01", "/f/~10">>) - 1)
          + 8294400 * B2N(d.collide)
          + 16588800 * (SIdx(d.ver, <<"3.0", "3.1", "2.0">>) - 1)
          + 49766400 * B2N(d.qcontent)
          + 99532800 * B2N(d.secgen)
          + 199065600 * B2N(d.oNoId)
          + 398131200 * B2N(d.mbroken)
          + 796262400 * B2N(d.numkeys)          \* (largest id 1592524799 < 2^31)
Export == IF hist = <<>> THEN TRUE
          ELSE IF First
          THEN PrintT(<<"CASE", ToJson([id |-> DocId(doc), d |-> doc, w |-> Weight(doc), ser |-> ser, lay |-> lay, h |-> hist,
                                        judged |-> [i \in 1..Len(hist) |-> Judged(doc, hist[i])],
                                        exp |-> [t \in Ops(doc) |-> Outcome(doc, t)]])>>)
          ELSE PrintT(<<"CASE", ToJson([id |-> DocId(doc), ser |-> ser, lay |-> lay, h |-> hist,
                                        judged |-> [i \in 1..Len(hist) |-> Judged(doc, hist[i])]])>>)
=============================================================================
