---------------------------- MODULE ReproHistory ----------------------------
(***************************************************************************)
(* C13, process-history clause: "a fixed seed reproduces the same          *)
(* requests" speaks about (seed, schema, configuration) only, so WHAT WAS  *)
(* TESTED EARLIER IN THE SAME PROCESS must not matter: the traffic for a   *)
(* schema equals the traffic a fresh process sends for it.                 *)
(*                                                                         *)
(* Tiny design model of a long-lived process with a process-wide memo      *)
(* (validators, split keywords, compiled strategies ...).  A schema is a   *)
(* pair <<label, version>>: `label` is what names its operations           *)
(* (`GET /items`), `version` is the content of the parameter schemas.      *)
(* Test(s) derives the generation data of s through the memo and sends     *)
(* traffic that is a function of that data.  ByContent = TRUE: the memo    *)
(* key distinguishes contents; ByContent = FALSE: the key is the label     *)
(* only.  HistoryFree (the data used for the schema tested last is its     *)
(* own) holds for content keys and is refuted by TLC for label keys - the  *)
(* counterexample is the history the driver forces on the real engine:     *)
(* another schema with the SAME labels and DIFFERENT contents first.       *)
(*                                                                         *)
(* The reachable histories are also the FAMILY the driver concretises:     *)
(* every state is exported as the history relative to the schema tested    *)
(* last ("self" = the same schema, "twin" = same labels, other contents)   *)
(* with the expected outcome computed here: Expect = "as-fresh".           *)
(***************************************************************************)
EXTENDS Integers, Sequences, TLC, Json
CONSTANTS Labels, Versions, ByContent, MaxHist
VARIABLES hist, memo, used
vars == <<hist, memo, used>>
Schemas == Labels \X Versions
None == <<0, 0>>
KeyOf(s) == IF ByContent THEN s ELSE <<s[1], 0>>
Keys == {KeyOf(s) : s \in Schemas}
Fresh(s) == s                                   \* the data a fresh process derives for s: a function of s alone
Init == hist = <<>> /\ memo = [k \in Keys |-> None] /\ used = None
Test(s) == /\ Len(hist) < MaxHist
           /\ LET d == IF memo[KeyOf(s)] # None THEN memo[KeyOf(s)] ELSE Fresh(s)
              IN /\ used' = d
                 /\ memo' = [memo EXCEPT ![KeyOf(s)] = d]
           /\ hist' = Append(hist, s)
Next == \E s \in Schemas : Test(s)
Spec == Init /\ [][Next]_vars

Last == hist[Len(hist)]
HistoryFree == hist # <<>> => used = Fresh(Last)

(* ---- the family: histories relative to the schema tested last ---- *)
Rel(s) == IF s = Last THEN "self" ELSE IF s[1] = Last[1] THEN "twin" ELSE "other"
View == [hist |-> [i \in 1..Len(hist) |-> Rel(hist[i])], expect |-> "as-fresh"]
Export == IF hist # <<>> THEN PrintT(<<"CASE", ToJson(View)>>) ELSE TRUE
=============================================================================
