--------------------------- MODULE CliConfigJudge ---------------------------
(* Code -> spec: what the real `schemathesis run` command did with a command line, judged against CliConfig!Verdict,           *)
(* CliConfig!FieldValue and CliConfig!HypValue.                                                                                *)
(* Observation = [door, cmd : sequence of <<option, value class>>,                                                              *)
(*                outcome : "ACCEPT" (a run configuration reached the engine) | "REJECT" (usage error, nothing was run) |       *)
(*                          "ERROR" (anything else),                                                                            *)
(*                fields : sequence of <<field, site, value>>  (the configuration as seen at each site it reaches),             *)
(*                hyp    : sequence of <<phase, setting, value>> (Hypothesis settings the engine phase really used)]            *)
(* Values are the abstract strings of the specification ($NAME for scratch paths / URLs).                                      *)
EXTENDS CliConfig, IOUtils
Obs == JsonDeserialize(IOEnv.OBS_FILE)
VARIABLE i
CmdOf(ob) == [o \in Opts |-> IF \E k \in 1..Len(ob.cmd) : ob.cmd[k][1] = o
                             THEN ob.cmd[CHOOSE k \in 1..Len(ob.cmd) : ob.cmd[k][1] = o][2] ELSE "absent"]
JInit == /\ i \in 1..Len(Obs)
         /\ door = Obs[i].door /\ cmd = CmdOf(Obs[i])
JNext == UNCHANGED <<i, vars>>
JSpec == JInit /\ [][JNext]_<<i, vars>>
FieldReport(e) == IF Match(FieldValue(door, cmd, e[1]), e[3]) THEN TRUE ELSE PrintT(<<"DISAGREE", i, e[1], e[2]>>)
HypReport(e) == IF Match(HypValue(door, cmd, e[1], e[2]), e[3]) THEN TRUE ELSE PrintT(<<"DISAGREE", i, e[2], e[1]>>)
Report ==
  LET ob == Obs[i]
      v == Verdict(door, cmd)
  IN IF v = "U" THEN TRUE                                                    \* the documentation does not decide: not judged
     ELSE IF ob.outcome # v THEN PrintT(<<"DISAGREE", i, "verdict", "cli">>)
     ELSE IF v = "REJECT" THEN TRUE
     ELSE /\ \A k \in 1..Len(ob.fields) : FieldReport(ob.fields[k])
          /\ \A k \in 1..Len(ob.hyp) : HypReport(ob.hyp[k])
=============================================================================
