------------------------------- MODULE Engine -------------------------------
(***************************************************************************)
(* Design model of the schemathesis engine run (C05, C11, C12): plan loop  *)
(* (engine/core.py), unit phases with W worker threads + consumer          *)
(* (engine/phases/unit), failure counting / stop flag (engine/control.py)  *)
(* and the CLI exit-code rule (cli/commands/run/context.py).               *)
(* One action per critical section between two hook points of the code     *)
(* (DESIGN Appendix A).  Hypothesis is a nondeterministic source of cases. *)
(*                                                                         *)
(* Flags name deliberate deviations of the code from the ideal design so   *)
(* that TLC can show both that the defect exists in the design of the old  *)
(* code and that the repaired design is free of it:                        *)
(*   FixDrain      consumer leaves only when workers are dead AND the      *)
(*                 queue is empty (unit/__init__.py alive check)           *)
(*   FixWorkerErr  an unexpected exception while building a test is        *)
(*                 reported (NonFatalError + ERROR scenario) instead of    *)
(*                 killing the worker thread silently                      *)
(* PhaseOn = the enabled phases (a disabled phase is announced and closed  *)
(* as skipped); AllowCtrlC = a KeyboardInterrupt may arrive while the      *)
(* consumer waits in get().  Hypothesis is abstracted as follows: for one  *)
(* operation it runs between 0 and K cases; a failed check or an error     *)
(* does not end the test at once (Hypothesis goes on: more examples,       *)
(* shrinking, the final replay) - the scenario's status is the worst       *)
(* outcome seen; a test that ran no case ends as success or skip; an       *)
(* errored test reports 0..MaxNFE NonFatalError events before it closes.   *)
(*   AliveCheck    (TRUE = the code) the consumer polls the workers'       *)
(*                 liveness after a queue timeout; FALSE = a consumer that *)
(*                 only waits for events (refuted by Termination)          *)
(***************************************************************************)
EXTENDS EventProtocol, Sequences, TLC
CONSTANTS W, NOps, K, MaxFail, NPhases, FixDrain, FixWorkerErr, AllowStop, AllowFault, AliveCheck, PhaseOn, AllowCtrlC, MaxNFE, AllowInvalid
NoLimit == 0
Workers == 1..W
Ops == 1..NOps
PhaseIds == 1..NPhases
Ev(k, ph, sc, st) == [k |-> k, ph |-> ph, su |-> ph, sc |-> sc, st |-> st]
ScId(ph, op) == ph * 100 + op
VARIABLES
  pi,        \* plan: current phase index (0 = not started, NPhases+1 = after phases)
  ppc,       \* plan/consumer program counter
  nextOp,    \* TaskProducer iterator position
  q,         \* events queue of the current unit phase
  wpc, wop, wcase, wout,   \* worker state
  stop,      \* ExecutionControl.stop_event
  fails, limit,            \* failure counter / has_reached_the_failure_limit
  pstatus, executed,       \* consumer locals: status, is_executed
  cur,       \* event just dequeued by the consumer (or <<>>)
  mon,       \* EventProtocol monitor state
  exit,      \* ExecutionContext.exit_code
  problem,   \* ghost: set of <<phase, op>> where a check failed / an error occurred
  reported,  \* ghost: <<phase, op>> -> status delivered to the stream consumer
  sentAfterStop, \* ghost per worker
  stopped,   \* ghost: stop was requested by the environment
  faulted    \* ghost: a fault has been injected (at most one)

vars == <<pi, ppc, nextOp, q, wpc, wop, wcase, wout, stop, fails, limit, pstatus, executed, cur, mon, exit,
          problem, reported, sentAfterStop, stopped, faulted>>

HasToStop == stop \/ limit
CRank(s) == CASE s = "none" -> 0 [] s = "success" -> 1 [] s = "failure" -> 2 [] s = "error" -> 3 [] s = "interrupted" -> 4 [] s = "skip" -> 5

---------------------------------------------------------------------------
(* The stream consumer (CLI) sees event e: monitor + exit-code rule of ExecutionContext.on_event. *)
Emit(e) ==
  /\ mon' = Observe(mon, e, MaxFail, stop)
  /\ exit' = IF e.k = "NFE" \/ (e.k = "PF" /\ e.st \in {"failure", "error"}) THEN 1 ELSE exit
  /\ reported' = IF e.k = "ScF" THEN reported @@ (<<e.ph, e.sc % 100>> :> e.st) ELSE reported
NoEmit == UNCHANGED <<mon, exit, reported>>

---------------------------------------------------------------------------
NoEv == Ev("", 0, 0, "")
Init ==
  /\ pi = 0 /\ ppc = "start" /\ nextOp = 1 /\ q = <<>>
  /\ wpc = [w \in Workers |-> "idle"] /\ wop = [w \in Workers |-> 0] /\ wcase = [w \in Workers |-> 0]
  /\ wout = [w \in Workers |-> "none"]
  /\ stop = FALSE /\ fails = 0 /\ limit = FALSE /\ pstatus = "none" /\ executed = FALSE /\ cur = NoEv
  /\ mon = MonInit /\ exit = 0 /\ problem = {} /\ reported = <<>>
  /\ sentAfterStop = [w \in Workers |-> 0] /\ stopped = FALSE /\ faulted = FALSE

WUnch == UNCHANGED <<wpc, wop, wcase, wout, nextOp, sentAfterStop>>
CUnch == UNCHANGED <<pi, ppc, pstatus, executed, cur, fails, limit>>

\* plan loop (core.py)
P_Start == /\ ppc = "start" /\ Emit(Ev("ES", 0, 0, "")) /\ ppc' = (IF stop THEN "finish" ELSE "phase") /\ pi' = 1   \* core.py: interrupted before the first phase
           /\ UNCHANGED <<nextOp, q, wpc, wop, wcase, wout, stop, fails, limit, pstatus, executed, cur, problem, sentAfterStop, stopped, faulted>>
P_PhaseStarted ==
  /\ ppc = "phase" /\ pi <= NPhases
  /\ Emit(Ev("PS", pi, 0, ""))
  /\ ppc' = IF HasToStop \/ pi \notin PhaseOn THEN "skipphase" ELSE "suite"
  /\ UNCHANGED <<pi, nextOp, q, wpc, wop, wcase, wout, stop, fails, limit, pstatus, executed, cur, problem, sentAfterStop, stopped, faulted>>
P_Skip == /\ ppc = "skipphase" /\ Emit(Ev("PF", pi, 0, "skip"))
          /\ IF stop THEN ppc' = "finish" /\ pi' = pi ELSE ppc' = "phase" /\ pi' = pi + 1
          /\ UNCHANGED <<nextOp, q, wpc, wop, wcase, wout, stop, fails, limit, pstatus, executed, cur, problem, sentAfterStop, stopped, faulted>>
P_Finish == /\ ((ppc = "phase" /\ pi > NPhases) \/ ppc = "finish") /\ Emit(Ev("EF", 0, 0, "")) /\ ppc' = "end"
            /\ UNCHANGED <<pi, nextOp, q, wpc, wop, wcase, wout, stop, fails, limit, pstatus, executed, cur, problem, sentAfterStop, stopped, faulted>>

\* unit phase: consumer
U_SuiteStart ==
  /\ ppc = "suite" /\ Emit(Ev("SS", pi, 0, ""))
  /\ ppc' = "get" /\ nextOp' = 1 /\ q' = <<>> /\ pstatus' = "none" /\ executed' = FALSE
  /\ wpc' = [w \in Workers |-> "loop"]       \* WorkerPool.start
  /\ UNCHANGED <<pi, wop, wcase, wout, stop, fails, limit, cur, problem, sentAfterStop, stopped, faulted>>
C_Get == /\ ppc = "get" /\ q # <<>> /\ cur' = Head(q) /\ q' = Tail(q) /\ executed' = TRUE
         /\ ppc' = IF stop THEN "ctrlc" ELSE "yield"
         /\ NoEmit /\ WUnch /\ UNCHANGED <<pi, stop, fails, limit, pstatus, problem, stopped, faulted>>
C_Timeout == /\ ppc = "get" /\ q = <<>> /\ ppc' = "alive"
             /\ NoEmit /\ WUnch /\ UNCHANGED <<pi, q, stop, fails, limit, pstatus, executed, cur, problem, stopped, faulted>>
AllDead == \A w \in Workers : wpc[w] = "dead"
C_Alive == /\ ppc = "alive"
           /\ ppc' = IF AliveCheck /\ AllDead /\ (~FixDrain \/ q = <<>>) THEN "join" ELSE "get"
           /\ NoEmit /\ WUnch /\ UNCHANGED <<pi, q, stop, fails, limit, pstatus, executed, cur, problem, stopped, faulted>>
C_Yield ==
  /\ ppc = "yield" /\ Emit(cur)
  /\ LET k == cur.k
         st == IF k = "ScF" THEN cur.st ELSE "none"
         bad == st \in {"failure", "error"}
         nf == IF bad /\ MaxFail # NoLimit THEN fails + 1 ELSE fails
         nl == limit \/ (bad /\ MaxFail # NoLimit /\ nf >= MaxFail)
         s1 == IF k = "NFE" THEN "error"
               ELSE IF k = "ScF" /\ st # "skip" /\ (pstatus = "none" \/ CRank(pstatus) < CRank(st)) THEN st ELSE pstatus
         s2 == IF k = "INT" \/ stop THEN "interrupted" ELSE s1
     IN /\ fails' = nf /\ limit' = nl /\ pstatus' = s2
        /\ stop' = (stop \/ k = "INT")
        /\ ppc' = IF nl \/ stop' THEN "join" ELSE "get"
  /\ cur' = NoEv
  /\ WUnch /\ UNCHANGED <<pi, q, executed, problem, stopped, faulted>>
C_CtrlC == /\ ppc = "ctrlc" /\ Emit(Ev("INT", pi, 0, "")) /\ pstatus' = "interrupted" /\ ppc' = "join" /\ cur' = NoEv
           /\ WUnch /\ UNCHANGED <<pi, q, stop, fails, limit, executed, problem, stopped, faulted>>
(* KeyboardInterrupt raised inside events_queue.get(): the handler stops the engine and reports the interruption *)
C_CtrlCGet == /\ AllowCtrlC /\ ppc \in {"get", "alive"} /\ ~stopped      \* ... or while it polls the workers' liveness after a timeout
              /\ stop' = TRUE /\ stopped' = TRUE /\ Emit(Ev("INT", pi, 0, "")) /\ pstatus' = "interrupted" /\ ppc' = "join"
              /\ WUnch /\ UNCHANGED <<pi, q, fails, limit, executed, cur, problem, faulted>>
C_Join == /\ ppc = "join" /\ AllDead
          /\ ppc' = "sf"
          /\ pstatus' = IF ~executed THEN "skip" ELSE IF pstatus = "none" THEN "skip" ELSE pstatus
          /\ NoEmit /\ WUnch /\ UNCHANGED <<pi, q, stop, fails, limit, executed, cur, problem, stopped, faulted>>
U_SuiteFinish == /\ ppc = "sf" /\ Emit(Ev("SF", pi, 0, pstatus)) /\ ppc' = "pf"
                 /\ WUnch /\ UNCHANGED <<pi, q, stop, fails, limit, pstatus, executed, cur, problem, stopped, faulted>>
U_PhaseFinish == /\ ppc = "pf" /\ Emit(Ev("PF", pi, 0, pstatus))
                 /\ IF stop THEN ppc' = "finish" /\ pi' = pi ELSE ppc' = "phase" /\ pi' = pi + 1
                 /\ wpc' = [w \in Workers |-> "idle"]
                 /\ UNCHANGED <<nextOp, q, wop, wcase, wout, stop, fails, limit, pstatus, executed, cur, problem, sentAfterStop, stopped, faulted>>

\* unit phase: workers
Put(e) == q' = Append(q, e)
W_Loop(w) ==           \* `while not ctx.has_to_stop:` - the read of the flags ...
  /\ wpc[w] = "loop"
  /\ wpc' = [wpc EXCEPT ![w] = IF HasToStop THEN "dead" ELSE "take"]
  /\ NoEmit /\ CUnch /\ UNCHANGED <<nextOp, wop, q, wcase, wout, stop, problem, sentAfterStop, stopped, faulted>>
W_Take(w) ==           \* ... and `producer.next_operation()` are two steps: a stop request in between still lets the worker take one operation
  /\ wpc[w] = "take"
  /\ IF nextOp > NOps
     THEN wpc' = [wpc EXCEPT ![w] = "dead"] /\ UNCHANGED <<nextOp, wop>>
     ELSE wop' = [wop EXCEPT ![w] = nextOp] /\ nextOp' = nextOp + 1 /\ wpc' = [wpc EXCEPT ![w] = "create"]
  /\ NoEmit /\ CUnch /\ UNCHANGED <<q, wcase, wout, stop, problem, sentAfterStop, stopped, faulted>>
W_Create(w) ==
  /\ wpc[w] = "create"
  /\ \/ /\ wpc' = [wpc EXCEPT ![w] = "started"] /\ UNCHANGED <<problem, faulted, wout>>
     \/ /\ AllowInvalid                  \* the operation's definition cannot be turned into a test (invalid schema): reported, not fatal
        /\ problem' = problem \cup {<<pi, wop[w]>>} /\ UNCHANGED faulted
        /\ wpc' = [wpc EXCEPT ![w] = "err1"] /\ wout' = [wout EXCEPT ![w] = "error"]
     \/ /\ AllowFault /\ ~faulted /\ faulted' = TRUE
        /\ problem' = problem \cup {<<pi, wop[w]>>}
        /\ IF FixWorkerErr
           THEN wpc' = [wpc EXCEPT ![w] = "err1"] /\ wout' = [wout EXCEPT ![w] = "error"]
           ELSE wpc' = [wpc EXCEPT ![w] = "dead"] /\ UNCHANGED wout        \* thread dies silently
  /\ NoEmit /\ CUnch /\ UNCHANGED <<nextOp, q, wop, wcase, stop, sentAfterStop, stopped>>
W_Err1(w) == /\ wpc[w] = "err1" /\ Put(Ev("ScS", pi, ScId(pi, wop[w]), "")) /\ wpc' = [wpc EXCEPT ![w] = "err2"]
             /\ NoEmit /\ CUnch /\ UNCHANGED <<nextOp, wop, wcase, wout, stop, problem, sentAfterStop, stopped, faulted>>
W_Err2(w) == /\ wpc[w] = "err2" /\ Put(Ev("NFE", pi, ScId(pi, wop[w]), "")) /\ wpc' = [wpc EXCEPT ![w] = "finish"]
             /\ NoEmit /\ CUnch /\ UNCHANGED <<nextOp, wop, wcase, wout, stop, problem, sentAfterStop, stopped, faulted>>
W_Started(w) == /\ wpc[w] = "started" /\ Put(Ev("ScS", pi, ScId(pi, wop[w]), ""))
                /\ wpc' = [wpc EXCEPT ![w] = "check"] /\ wcase' = [wcase EXCEPT ![w] = 0] /\ wout' = [wout EXCEPT ![w] = "none"]
                /\ NoEmit /\ CUnch /\ UNCHANGED <<nextOp, wop, stop, problem, sentAfterStop, stopped, faulted>>
Worse(a, b) == IF CRank(a) >= CRank(b) THEN a ELSE b
W_CaseCheck(w) ==      \* cached_test_func, at the start of every case: `if ctx.has_to_stop: raise KeyboardInterrupt`
  /\ wpc[w] = "check"
  /\ IF HasToStop
     THEN /\ wpc' = [wpc EXCEPT ![w] = "finish"]
          /\ \/ wout' = [wout EXCEPT ![w] = "interrupted"]
             \/ wout[w] \in {"failure", "error"} /\ UNCHANGED wout     \* interrupted while replaying / shrinking: Hypothesis reports what it found
     ELSE wcase[w] < K /\ wpc' = [wpc EXCEPT ![w] = "send"] /\ UNCHANGED wout
  /\ NoEmit /\ CUnch /\ UNCHANGED <<nextOp, q, wop, wcase, stop, problem, sentAfterStop, stopped, faulted>>
W_Done(w) ==           \* Hypothesis is done with the operation (no further case, hence no further stop check)
  /\ wpc[w] = "check" /\ wpc' = [wpc EXCEPT ![w] = "finish"]
  /\ \/ wout[w] # "none" /\ UNCHANGED wout
     \/ wout[w] = "none" /\ wout' = [wout EXCEPT ![w] = "success"]
     \/ wout[w] = "none" /\ wcase[w] = 0 /\ wout' = [wout EXCEPT ![w] = "skip"]    \* nothing to run (no examples)
  /\ NoEmit /\ CUnch /\ UNCHANGED <<nextOp, q, wop, wcase, stop, problem, sentAfterStop, stopped, faulted>>
W_Send(w) ==           \* transport.send + run_checks: the API decides; Hypothesis goes on after a failure or an error
  /\ wpc[w] = "send"
  /\ sentAfterStop' = [sentAfterStop EXCEPT ![w] = IF HasToStop THEN @ + 1 ELSE @]
  /\ wcase' = [wcase EXCEPT ![w] = @ + 1]
  /\ wpc' = [wpc EXCEPT ![w] = "check"]
  /\ \/ UNCHANGED <<wout, problem>>
     \/ /\ wout' = [wout EXCEPT ![w] = Worse(@, "failure")] /\ problem' = problem \cup {<<pi, wop[w]>>}
     \/ /\ wout' = [wout EXCEPT ![w] = "error"] /\ problem' = problem \cup {<<pi, wop[w]>>}       \* network error, broken check
  /\ NoEmit /\ CUnch /\ UNCHANGED <<nextOp, q, wop, stop, stopped, faulted>>
(* a test in which a case errored reports the errors (NonFatalError) before the scenario is closed; the scenario's own status
   may still be FAILURE when the exception Hypothesis finally raises is a failed check *)
W_PutNFE(w) == /\ wout[w] \in {"error", "failure"} /\ (wpc[w] = "finish" \/ (wpc[w] = "nfe" /\ wcase[w] < MaxNFE)) /\ MaxNFE > 0
               /\ Put(Ev("NFE", pi, ScId(pi, wop[w]), ""))
               /\ wcase' = [wcase EXCEPT ![w] = IF wpc[w] = "finish" THEN 1 ELSE @ + 1]      \* reused as the count of reported errors
               /\ wpc' = [wpc EXCEPT ![w] = "nfe"]
               /\ NoEmit /\ CUnch /\ UNCHANGED <<nextOp, wop, wout, stop, problem, sentAfterStop, stopped, faulted>>
W_Finish(w) == /\ wpc[w] \in {"finish", "nfe"} /\ Put(Ev("ScF", pi, ScId(pi, wop[w]), wout[w]))
               /\ wpc' = [wpc EXCEPT ![w] = IF wout[w] = "interrupted" THEN "intr" ELSE "loop"]
               /\ NoEmit /\ CUnch /\ UNCHANGED <<nextOp, wop, wcase, wout, stop, problem, sentAfterStop, stopped, faulted>>
W_Intr(w) == /\ wpc[w] = "intr" /\ Put(Ev("INT", pi, 0, "")) /\ wpc' = [wpc EXCEPT ![w] = "loop"]
             /\ NoEmit /\ CUnch /\ UNCHANGED <<nextOp, wop, wcase, wout, stop, problem, sentAfterStop, stopped, faulted>>

\* environment
Env_Stop == /\ AllowStop /\ ~stopped /\ ppc # "end" /\ stop' = TRUE /\ stopped' = TRUE
            /\ NoEmit /\ WUnch /\ CUnch /\ UNCHANGED <<q, problem, faulted>>

Next == \/ P_Start \/ P_PhaseStarted \/ P_Skip \/ P_Finish
        \/ U_SuiteStart \/ C_Get \/ C_Timeout \/ C_Alive \/ C_Yield \/ C_CtrlC \/ C_CtrlCGet \/ C_Join \/ U_SuiteFinish \/ U_PhaseFinish
        \/ \E w \in Workers : W_Loop(w) \/ W_Take(w) \/ W_Create(w) \/ W_Err1(w) \/ W_Err2(w) \/ W_Started(w) \/ W_CaseCheck(w) \/ W_Done(w)
                               \/ W_Send(w) \/ W_PutNFE(w) \/ W_Finish(w) \/ W_Intr(w)
        \/ Env_Stop
Spec == Init /\ [][Next]_vars
(* liveness: the main thread (plan loop + consumer) and every worker thread keep running; the environment owes nothing *)
MainNext == P_Start \/ P_PhaseStarted \/ P_Skip \/ P_Finish \/ U_SuiteStart \/ C_Get \/ C_Timeout \/ C_Alive \/ C_Yield \/ C_CtrlC
            \/ C_Join \/ U_SuiteFinish \/ U_PhaseFinish
WorkerNext(w) == W_Loop(w) \/ W_Take(w) \/ W_Create(w) \/ W_Err1(w) \/ W_Err2(w) \/ W_Started(w) \/ W_CaseCheck(w) \/ W_Send(w) \/ W_Finish(w) \/ W_Intr(w)
                 \/ W_PutNFE(w) \/ W_Done(w)
FairSpec == Spec /\ WF_vars(MainNext) /\ \A w \in Workers : WF_vars(WorkerNext(w))

\* properties
Done == ppc = "end"
RunCut == stopped \/ limit                \* interrupted by the user or cut short by --max-failures (see DESIGN App. D)
(* C11 *)
ProtocolOK == ~Bad(mon)
ClosedAtEnd == Done => EndOK(mon, NPhases, MaxFail, stop)
(* C05 *)
NoProblemLost == (Done /\ ~RunCut /\ problem # {}) =>
                    /\ exit = 1
                    /\ \A po \in problem : po \in DOMAIN reported /\ reported[po] \in {"failure", "error"}
ZeroMeansClean == (Done /\ ~RunCut /\ exit = 0) => problem = {}
(* C12 *)
AtMostOneAfterStop == \A w \in Workers : sentAfterStop[w] <= 1
MaxFailuresRespected == MaxFail # NoLimit => Cardinality({po \in DOMAIN reported : reported[po] \in {"failure", "error"}}) <= MaxFail
LaterPhasesSkipped == (Done /\ limit /\ ~stopped) => mon.phase = NPhases
(* C11 "exactly one finish event last": every run, whatever the schedule, faults and stop requests, reaches EngineFinished *)
Termination == <>Done
=============================================================================
