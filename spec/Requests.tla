------------------------------ MODULE Requests ------------------------------
(***************************************************************************)
(* C14 (first sentence): configured credentials and overrides reach every  *)
(* request.  Abstract state: which user layers are configured (carriers),  *)
(* whether the operation declares same-named parameters, and one request   *)
(* being assembled.  Assemble(phase, op) builds the request from the       *)
(* layers in the order the property fixes: generated < link-derived < user *)
(* (no order AMONG user layers is stated, none is modelled).               *)
(* The module also defines the family of configurations the harness runs   *)
(* through the real engine and the acceptance predicate used to judge      *)
(* every request the API received (RequestOK).                             *)
(***************************************************************************)
EXTENDS Naturals, Sequences, FiniteSets, TLC, Json
Carriers == {"hdr", "basic", "ovq", "ovh", "ovc", "ovp", "prov", "key"}
Ops == {1, 2, 3, 4}           \* 1 = POST /items (link source), 2 = GET /items/{id} (declares the parameters), 3 = GET /plain,
                              \* 4 = DELETE /items/{id}: same path as 2, listed before it, declares only the path parameter
Phases == {"examples", "coverage", "fuzzing", "stateful", "linked"}
Declared == {"none", "optional", "required"}
(* where a configured carrier applies *)
Applies(c, op, decl) == CASE c \in {"hdr", "basic", "prov", "key"} -> TRUE
                          [] c = "ovp" -> op \in {2, 4}
                          [] OTHER -> op = 2 /\ decl # "none"
VARIABLES cfg, req
vars == <<cfg, req>>
NoReq == [ph |-> "", op |-> 0, src |-> [c \in Carriers |-> "absent"]]
(* how the auth provider is registered: a provider class (cached for the refresh interval), the same with a cache key per
   operation (`cache_by_key`), or a `requests` auth object (`set_from_requests`, sets Authorization itself) *)
ProviderKinds == {"class", "keyed", "requests"}
Init == /\ cfg \in [carriers : SUBSET Carriers, declared : Declared, workers : {1, 2}, scope : {"schema", "global"}, kind : ProviderKinds]
        /\ (cfg.scope = "global" => "prov" \in cfg.carriers)
        /\ (cfg.kind # "class" => "prov" \in cfg.carriers)
        \* a requests auth object and --auth both own the Authorization header: two user layers, no order stated, not in the family
        /\ (cfg.kind = "requests" => "basic" \notin cfg.carriers)
        \* explicit --auth deliberately unregisters a GLOBAL auth provider (Engine.execute); that choice between two user
        \* layers is outside the property (no order among user layers), so the combination is not part of the family
        /\ ~("basic" \in cfg.carriers /\ "prov" \in cfg.carriers /\ cfg.scope = "global")
        \* the apiKey credential + ignored_auth probes are combined with the plain network header and overrides only (another
        \* explicit auth layer changes what the check treats as "the" credential)
        /\ ("key" \in cfg.carriers => ~("basic" \in cfg.carriers) /\ ~("prov" \in cfg.carriers))
        /\ req = NoReq
(* source of the value found at carrier c of the assembled request *)
Source(c, op, ph) == IF c \in cfg.carriers /\ Applies(c, op, cfg.declared) THEN "user"
                     ELSE IF ph = "linked" /\ c = "ovp" THEN "link"
                     ELSE "generated-or-absent"
Assemble == \E ph \in Phases, op \in Ops :
               /\ (ph = "linked" => op = 2)
               /\ req' = [ph |-> ph, op |-> op, src |-> [c \in Carriers |-> Source(c, op, ph)]]
               /\ UNCHANGED cfg
Next == Assemble
Spec == Init /\ [][Next]_vars
UserWins == req.op # 0 => \A c \in cfg.carriers : Applies(c, req.op, cfg.declared) => req.src[c] = "user"
Export == IF req.op = 0 THEN PrintT(<<"CASE", ToJson([carriers |-> cfg.carriers, declared |-> cfg.declared,
                                                        workers |-> cfg.workers, provider_scope |-> cfg.scope, provider_kind |-> cfg.kind])>>) ELSE TRUE
=============================================================================
