SPECIFICATION JSpec
CONSTANT MaxLen = 1
CONSTANT LongLen = 1
INVARIANT Report
CHECK_DEADLOCK FALSE
