SPECIFICATION JSpec
CONSTANT Thorough = TRUE
INVARIANT Report
CHECK_DEADLOCK FALSE
