SPECIFICATION Spec
CONSTANTS
  W = 2
  NOps = 2
  K = 1
  MaxFail = 1
  NPhases = 2
  FixDrain = TRUE
  FixWorkerErr = TRUE
  AllowStop = TRUE
  AllowFault = FALSE
  AliveCheck = TRUE
INVARIANT ProtocolOK
INVARIANT ClosedAtEnd
INVARIANT NoProblemLost
INVARIANT ZeroMeansClean
INVARIANT AtMostOneAfterStop
INVARIANT MaxFailuresRespected
INVARIANT LaterPhasesSkipped
CHECK_DEADLOCK FALSE
