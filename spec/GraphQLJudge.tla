---------------------------- MODULE GraphQLJudge ----------------------------
(* Code -> spec: documents drawn from the real strategies (projected AST of case.body) and the operations / counts the   *)
(* real schema object offers under name filters are judged by GraphQL's operators.  One initial state per observation.   *)
EXTENDS GraphQL, IOUtils
Data == JsonDeserialize(IOEnv.OBS_FILE)     \* [shapes |-> <<shape>>, obs |-> <<observation>>]
Obs == Data.obs
VARIABLE i
JInit == i \in 1..Len(Obs) /\ shape = Data.shapes[Obs[i].s]
JNext == UNCHANGED <<i, shape>>
JSpec == JInit /\ [][JNext]_<<i, shape>>

(* k = "doc": [s, cfg [allowNull, allowX00, ascii], root, field, doc] *)
DocBad == DocViol(shape, Obs[i].cfg, [root |-> Obs[i].root, field |-> Obs[i].field], Obs[i].doc)
(* k = "ops": [s, filt [incl, excl], offered <<[root, field]>>, selected, total] *)
NormAtom(a) == [k |-> a.k, root |-> a.root, field |-> a.field, ops |-> {[root |-> a.ops[j].root, field |-> a.ops[j].field] : j \in 1..Len(a.ops)}]
OpsBad == LET o == Obs[i]
              filt == [incl |-> NormAtom(o.filt.incl), excl |-> NormAtom(o.filt.excl)]
              off == {[root |-> o.offered[j].root, field |-> o.offered[j].field] : j \in 1..Len(o.offered)}
          IN (IF off # Offered(shape, filt) THEN {"offered-set"} ELSE {})
             \cup (IF Cardinality(off) # Len(o.offered) THEN {"offered-duplicates"} ELSE {})
             \cup (IF o.selected # Counts(shape, filt).selected THEN {"selected-count"} ELSE {})
             \cup (IF o.total # Counts(shape, filt).total THEN {"total-count"} ELSE {})
(* k = "hdoc": [s, hist << step >>, step, doc] - a document drawn at step `step` of a history replayed on ONE schema object *)
HDocBad == HistDocViol(shape, Obs[i].hist, Obs[i].step, Obs[i].doc)
(* k = "wire": [s, cfg, root, field, w] - the request the API under test received for a case; k = "maps": [s, roots, fields] *)
WireBad == WireViol(shape, Obs[i].cfg, [root |-> Obs[i].root, field |-> Obs[i].field], Obs[i].w)
MapsBad == MapsViol(shape, Obs[i].roots, Obs[i].fields)
Report == LET bad == CASE Obs[i].k = "doc" -> DocBad [] Obs[i].k = "hdoc" -> HDocBad [] Obs[i].k = "wire" -> WireBad
                       [] Obs[i].k = "maps" -> MapsBad [] OTHER -> OpsBad
          IN IF bad = {} THEN TRUE ELSE PrintT(<<"BAD", i, bad>>)
=============================================================================
