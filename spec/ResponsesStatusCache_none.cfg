SPECIFICATION Spec
CONSTANT Design = "none"
CONSTANT Threads = {1, 2}
INVARIANT VerdictsRight
CHECK_DEADLOCK FALSE
