------------------------ MODULE ResponsesStatusCache ------------------------
(***************************************************************************)
(* C04, concurrency of the status-code check.  The documented status codes *)
(* of an operation (keys expanded) may be memoised on the shared schema     *)
(* object.  A thread either finds the memo or builds it key by key.         *)
(* Design "publish-then-fill": the (empty) list is stored first and filled  *)
(* in place; "fill-then-publish": a private list is filled and stored when  *)
(* complete; "none": no memo, every check expands for itself.               *)
(* VerdictsRight: whatever a thread concludes about its status code equals  *)
(* membership in the FULL documented set.  TLC refutes it for               *)
(* publish-then-fill (the counterexample is the schedule the harness forces *)
(* on the real code) and proves it for the other two.                       *)
(***************************************************************************)
EXTENDS Integers, Sequences, FiniteSets, TLC
CONSTANTS Design, Threads
Codes == <<200, 404, 500>>                  \* the documented codes in document order
Full == {Codes[i] : i \in DOMAIN Codes}
None == <<-1>>
VARIABLES memo, private, pc, asks, verdict
vars == <<memo, private, pc, asks, verdict>>
Init == /\ memo = None /\ private = [t \in Threads |-> <<>>] /\ pc = [t \in Threads |-> "start"]
        /\ asks \in [Threads -> Full] /\ verdict = [t \in Threads |-> "none"]
Decide(t, list) == verdict' = [verdict EXCEPT ![t] = IF \E i \in DOMAIN list : list[i] = asks[t] THEN "documented" ELSE "undefined"]
Look(t) == /\ pc[t] = "start"
           /\ IF Design # "none" /\ memo # None
              THEN Decide(t, memo) /\ pc' = [pc EXCEPT ![t] = "done"] /\ UNCHANGED <<memo, private>>
              ELSE /\ pc' = [pc EXCEPT ![t] = "filling"] /\ UNCHANGED <<private, verdict>>
                   /\ memo' = IF Design = "publish-then-fill" THEN <<>> ELSE memo
Fill(t) == /\ pc[t] = "filling"
           /\ LET mine == IF Design = "publish-then-fill" THEN memo ELSE private[t] IN
              IF Len(mine) < Len(Codes)
              THEN /\ IF Design = "publish-then-fill" THEN memo' = Append(memo, Codes[Len(memo) + 1]) /\ UNCHANGED private
                      ELSE private' = [private EXCEPT ![t] = Append(@, Codes[Len(@) + 1])] /\ UNCHANGED memo
                   /\ UNCHANGED <<pc, verdict>>
              ELSE /\ Decide(t, mine) /\ pc' = [pc EXCEPT ![t] = "done"] /\ UNCHANGED private
                   /\ memo' = IF Design = "fill-then-publish" THEN mine ELSE memo
Next == (\E t \in Threads : Look(t) \/ Fill(t)) /\ UNCHANGED asks
Spec == Init /\ [][Next]_vars
VerdictsRight == \A t \in Threads : verdict[t] # "undefined"          \* every asked code is documented
=============================================================================
