SPECIFICATION TSpec
INVARIANT CaseOk
INVARIANT NumericLaw
INVARIANT PatternLaw
INVARIANT TextLaw
INVARIANT CoerceLaw
INVARIANT CalendarLaw
INVARIANT LogicLaw
CHECK_DEADLOCK FALSE
