SPECIFICATION Spec
CONSTANT MaxN = 4
CONSTANT Small = TRUE
CONSTANT Rich = TRUE
INVARIANT TypeOK
INVARIANT UAFNeedsDelete
INVARIANT UAFNever404
INVARIANT RNAOnly4xxChildOfPost
INVARIANT DeleteSeparates
INVARIANT Export
CHECK_DEADLOCK FALSE
