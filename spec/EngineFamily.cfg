SPECIFICATION Spec
CONSTANT NOps = 3
CONSTANT MaxWorkers = 3
INVARIANT Export
CHECK_DEADLOCK FALSE
