SPECIFICATION ASpec
CONSTANT MaxAuth = 3
CONSTANT MaxLen = 3
CONSTANT Rich = FALSE
INVARIANT ATypeOK
INVARIANT AStateAgrees
INVARIANT AUnfilteredEverywhere
INVARIANT ANoneMeansNoMay
INVARIANT CacheIrrelevant
INVARIANT AExport
CHECK_DEADLOCK FALSE
