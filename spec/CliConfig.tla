------------------------------ MODULE CliConfig ------------------------------
(***************************************************************************)
(* X02 - what the user configures on the command line is what the engine   *)
(* runs with.                                                              *)
(*                                                                         *)
(* Statement (from `schemathesis run --help`, docs/reference/cli.md,       *)
(* docs/using/cli.md, docs/stateful.rst, CHANGELOG.md - never from the     *)
(* implementation's branches):                                             *)
(*  (a) every documented option that is given reaches the corresponding    *)
(*      field of the effective run configuration with the value the user   *)
(*      gave, after the documented conversion;                             *)
(*  (b) an option that is not given leaves the documented default;         *)
(*  (c) options are independent: the effective value of a field depends    *)
(*      only on its own option(s) plus the documented interactions         *)
(*      (key needs certificate, file schema needs --url, --auth together   *)
(*      with an Authorization --header is refused);                        *)
(*  (d) documented invalid values / combinations are refused with a usage  *)
(*      error and nothing is run - they are never silently coerced;        *)
(*  (e) the Hypothesis settings each engine phase finally uses carry       *)
(*      max_examples / deadline / derandomize / database / shrink /        *)
(*      suppress_health_check / seed as configured, in every phase where   *)
(*      the documentation says they apply.                                 *)
(* Where the documentation is silent or contradicts itself the oracle says *)
(* "U" and the field / command line is not judged.                         *)
(*                                                                         *)
(* Abstract state: the schema door (file or URL) and the command line as a *)
(* finite map option -> value class ("absent", a representative valid      *)
(* value, a representative invalid value, or a value the documentation     *)
(* does not decide).  One action, Give(o, n): the user adds option o with  *)
(* value class n.  Effective(door, cmd) is the expected configuration      *)
(* record, Verdict(door, cmd) says ACCEPT / REJECT / U.                    *)
(*                                                                         *)
(* The table below also carries the concrete text of every value class     *)
(* (argv tokens, environment variables; $NAME are scratch paths / URLs the *)
(* driver substitutes), so the driver has no table of its own.             *)
(***************************************************************************)
EXTENDS TLC, Json, Sequences, FiniteSets, Naturals

CONSTANTS MaxGiven,     \* options given on top of the base command line (SCHEMA --url URL)
          Combo         \* value classes that take part in combinations of two and more options: "all" = every class,
                        \* "rep" = valid and undecided ones plus one invalid representative per option, "valid" = valid ones only
                        \* (single options always range over every class)

---------------------------------------------------------------------------
(* value classes: n = name, k = V(alid) | I(nvalid) | U(ndecided by the documentation), eff = effective value of the option's   *)
(* field after the documented conversion, argv / env = the concrete text                                                          *)
C(n, k, eff, argv) == [n |-> n, k |-> k, eff |-> eff, argv |-> argv, env |-> << >>]
E(n, k, eff, env)  == [n |-> n, k |-> k, eff |-> eff, argv |-> << >>, env |-> env]
Bool(opt) == << C("off", "V", "false", <<opt, "false">>), C("on", "V", "true", <<opt, "true">>),
                C("notbool", "I", "", <<opt, "fals">>) >>          \* Type: Boolean
SetOpt(opt, kv) == << C("kv", "V", kv, <<opt, kv>>), C("noeq", "I", "", <<opt, "name">>), C("emptyname", "I", "", <<opt, "=1">>) >>

Table == [
  \* -w, --workers: Integer 1-64 or "auto" (number of available CPU cores)
  workers |-> << C("one", "V", "1", <<"--workers", "1">>), C("four", "V", "4", <<"-w", "4">>), C("max", "V", "64", <<"--workers=64">>),
                 C("auto", "V", "$CPU", <<"--workers", "auto">>),
                 C("zero", "I", "", <<"--workers", "0">>), C("over", "I", "", <<"--workers", "65">>), C("word", "I", "", <<"--workers", "many">>) >>,
  \* --phases: comma-separated list out of examples, coverage, fuzzing, stateful: exactly those run
  phases |-> << C("ef", "V", "e+f", <<"--phases", "examples,fuzzing">>), C("c", "V", "c", <<"--phases=coverage">>),
                C("s", "V", "s", <<"--phases", "stateful">>), C("fe", "V", "e+f", <<"--phases", "fuzzing,examples">>),
                C("all", "V", "e+c+f+s", <<"--phases", "examples,coverage,fuzzing,stateful">>),
                C("unknown", "I", "", <<"--phases", "smoke">>), C("partly", "I", "", <<"--phases", "examples,smoke">>) >>,
  \* -m, --mode: positive | negative | all (both)
  mode |-> << C("positive", "V", "positive", <<"--mode", "positive">>), C("negative", "V", "negative", <<"-m", "negative">>),
              C("all", "V", "negative+positive", <<"--mode=all">>), C("both", "I", "", <<"--mode", "both">>) >>,
  \* -n, --max-examples: Integer >= 1
  max_examples |-> << C("one", "V", "1", <<"--max-examples", "1">>), C("seven", "V", "7", <<"-n", "7">>),
                      C("hundred", "V", "100", <<"--max-examples=100">>), C("large", "V", "1000", <<"--max-examples", "1000">>),
                      C("zero", "I", "", <<"--max-examples", "0">>), C("negative", "I", "", <<"--max-examples=-3">>),
                      C("word", "I", "", <<"--max-examples", "many">>) >>,
  \* --max-failures: Integer >= 1
  max_failures |-> << C("one", "V", "1", <<"--max-failures", "1">>), C("five", "V", "5", <<"--max-failures=5">>),
                      C("zero", "I", "", <<"--max-failures", "0">>), C("negative", "I", "", <<"--max-failures=-1">>),
                      C("word", "I", "", <<"--max-failures", "few">>) >>,
  continue_on_failure |-> << C("on", "V", "true", <<"--continue-on-failure">>) >>,
  \* --seed: Integer
  seed |-> << C("zero", "V", "0", <<"--seed", "0">>), C("small", "V", "42", <<"--seed=42">>), C("big", "V", "123456789", <<"--seed", "123456789">>),
              C("word", "I", "", <<"--seed", "lucky">>), C("fraction", "I", "", <<"--seed", "1.5">>) >>,
  no_shrink |-> << C("on", "V", "true", <<"--no-shrink">>) >>,
  deterministic |-> << C("on", "V", "true", <<"--generation-deterministic">>) >>,
  \* --generation-database: 'none' | ':memory:' | a path; default .hypothesis/examples
  database |-> << C("none", "V", "none", <<"--generation-database", "none">>), C("memory", "V", "memory", <<"--generation-database=:memory:">>),
                  C("dir", "V", "dir:$DBDIR", <<"--generation-database", "$DBDIR">>) >>,
  \* --suppress-health-check: comma-separated list out of data_too_large, filter_too_much, too_slow, large_base_example, all
  suppress |-> << C("one", "V", "too_slow", <<"--suppress-health-check", "too_slow">>),
                  C("two", "V", "data_too_large+too_slow", <<"--suppress-health-check=too_slow,data_too_large">>),
                  C("all", "V", "all", <<"--suppress-health-check", "all">>),
                  C("unknown", "I", "", <<"--suppress-health-check", "too_fast">>),
                  C("partly", "I", "", <<"--suppress-health-check", "too_slow,too_fast">>) >>,
  \* --wait-for-schema: Float >= 1.0
  wait_for_schema |-> << C("min", "V", "1.0", <<"--wait-for-schema", "1.0">>), C("fraction", "V", "2.5", <<"--wait-for-schema", "2.5">>),
                         C("int", "V", "10.0", <<"--wait-for-schema=10">>),
                         C("small", "I", "", <<"--wait-for-schema", "0.5">>), C("zero", "I", "", <<"--wait-for-schema", "0">>),
                         C("negative", "I", "", <<"--wait-for-schema=-1">>), C("word", "I", "", <<"--wait-for-schema", "soon">>) >>,
  \* -u, --url / SCHEMATHESIS_BASE_URL: base URL, required for file-based schemas
  url |-> << C("cli", "V", "$BASE", <<"--url", "$BASE">>), E("env", "V", "$BASE", <<"SCHEMATHESIS_BASE_URL", "$BASE">>),
             C("notaurl", "I", "", <<"-u", "not-a-url">>) >>,
  \* -H, --header NAME:VALUE (multiple allowed; a colon inside the value is kept; empty names are forbidden)
  header |-> << C("kv", "V", "X-Key=v1", <<"--header", "X-Key: v1">>), C("nospace", "V", "X-Key=v1", <<"-H", "X-Key:v1">>),
                C("colon", "V", "X-Url=http://h:1/p", <<"--header", "X-Url: http://h:1/p">>),
                C("two", "V", "X-A=1;X-B=2", <<"-H", "X-A: 1", "--header", "X-B: 2">>),
                C("authz", "V", "Authorization=Bearer t0ken", <<"--header", "Authorization: Bearer t0ken">>),
                C("nocolon", "I", "", <<"--header", "X-Key v1">>), C("emptyname", "I", "", <<"--header", ": v1">>),
                C("nlname", "I", "", <<"--header", "X-$NL: v1">>), C("nlvalue", "I", "", <<"-H", "X-Key: $NL">>) >>,
  \* -a, --auth USER:PASS (empty user name and non-latin-1 text are refused); a colon inside / an empty password: not documented
  auth |-> << C("up", "V", "user:pass", <<"--auth", "user:pass">>), C("short", "V", "u2:p2", <<"-a", "u2:p2">>),
              C("colonpass", "U", "", <<"--auth", "user:pa:ss">>), C("emptypass", "U", "", <<"--auth", "user:">>),
              C("nocolon", "I", "", <<"--auth", "userpass">>), C("emptyuser", "I", "", <<"--auth", ":pass">>),
              C("nluser", "I", "", <<"--auth", "$NL:pass">>), C("nlpass", "I", "", <<"-a", "user:$NL">>) >>,
  proxy |-> << C("http", "V", "http://127.0.0.1:3128", <<"--proxy", "http://127.0.0.1:3128">>) >>,
  \* --tls-verify: path to a CA bundle, or 'false'; default true
  tls_verify |-> << C("off", "V", "false", <<"--tls-verify", "false">>), C("on", "V", "true", <<"--tls-verify=true">>),
                    C("ca", "V", "$CA", <<"--tls-verify", "$CA">>) >>,
  \* --rate-limit <limit>/<duration>, durations s, m, h (eff = limit / window in ms); 'd' and a zero limit are not documented
  rate_limit |-> << C("sec", "V", "5/1000", <<"--rate-limit", "5/s">>), C("min", "V", "100/60000", <<"--rate-limit=100/m">>),
                    C("hour", "V", "1000/3600000", <<"--rate-limit", "1000/h">>),
                    C("day", "U", "", <<"--rate-limit", "7/d">>), C("zero", "U", "", <<"--rate-limit", "0/s">>),
                    C("word", "I", "", <<"--rate-limit", "fast">>), C("nounit", "I", "", <<"--rate-limit", "100">>),
                    C("badunit", "I", "", <<"--rate-limit", "100/x">>), C("fraction", "I", "", <<"--rate-limit", "1.5/s">>),
                    C("nolimit", "I", "", <<"--rate-limit", "/s">>), C("noduration", "I", "", <<"--rate-limit", "100/">>) >>,
  \* --request-timeout: Float > 0.0
  request_timeout |-> << C("five", "V", "5.0", <<"--request-timeout", "5.0">>), C("half", "V", "0.5", <<"--request-timeout", "0.5">>),
                         C("int", "V", "30.0", <<"--request-timeout=30">>),
                         C("zero", "I", "", <<"--request-timeout", "0">>), C("negative", "I", "", <<"--request-timeout=-1">>),
                         C("word", "I", "", <<"--request-timeout", "slow">>) >>,
  \* --request-cert / --request-cert-key: existing files; the key needs the certificate
  request_cert |-> << C("file", "V", "$CERT", <<"--request-cert", "$CERT">>), C("missing", "I", "", <<"--request-cert", "$MISSING">>) >>,
  request_cert_key |-> << C("file", "V", "$KEY", <<"--request-cert-key", "$KEY">>), C("missing", "I", "", <<"--request-cert-key=$MISSING">>) >>,
  output_sanitize |-> Bool("--output-sanitize"),
  output_truncate |-> Bool("--output-truncate"),
  allow_x00 |-> Bool("--generation-allow-x00"),
  security_params |-> Bool("--generation-with-security-parameters"),
  graphql_null |-> Bool("--generation-graphql-allow-null"),
  \* --generation-codec: a codec name (validated)
  codec |-> << C("ascii", "V", "ascii", <<"--generation-codec", "ascii">>), C("utf8", "V", "utf-8", <<"--generation-codec=utf-8">>),
               C("latin1", "V", "latin-1", <<"--generation-codec", "latin-1">>), C("nocodec", "I", "", <<"--generation-codec", "no-such-codec">>) >>,
  unique_inputs |-> << C("on", "V", "true", <<"--generation-unique-inputs">>) >>,
  maximize |-> << C("rt", "V", "response_time", <<"--generation-maximize", "response_time">>),
                  C("unknown", "I", "", <<"--generation-maximize", "latency">>) >>,
  exclude_deprecated |-> << C("on", "V", "true", <<"--exclude-deprecated">>) >>,
  \* --set-*: 'parameter=value'
  set_query |-> SetOpt("--set-query", "q=1"), set_header |-> SetOpt("--set-header", "X-Over=1"),
  set_cookie |-> SetOpt("--set-cookie", "sid=1"), set_path |-> SetOpt("--set-path", "id=1") ]

Opts == DOMAIN Table
(* export / concretisation order of the options *)
OptSeq == << "url", "workers", "phases", "mode", "max_examples", "max_failures", "continue_on_failure", "seed", "no_shrink", "deterministic",
             "database", "suppress", "wait_for_schema", "header", "auth", "proxy", "tls_verify", "rate_limit", "request_timeout",
             "request_cert", "request_cert_key", "output_sanitize", "output_truncate", "allow_x00", "security_params", "graphql_null",
             "codec", "unique_inputs", "maximize", "exclude_deprecated", "set_query", "set_header", "set_cookie", "set_path" >>
ASSUME {OptSeq[k] : k \in 1..Len(OptSeq)} = Opts /\ Len(OptSeq) = Cardinality(Opts)

Idx(o) == 1..Len(Table[o])
Names == [o \in Opts |-> {Table[o][k].n : k \in Idx(o)}]
Cls(o, n) == Table[o][CHOOSE k \in Idx(o) : Table[o][k].n = n]
KindTab == [o \in Opts |-> [n \in Names[o] \cup {"absent"} |-> IF n = "absent" THEN "A" ELSE Cls(o, n).k]]
EffTab  == [o \in Opts |-> [n \in Names[o] |-> Cls(o, n).eff]]
Kind(c, o) == KindTab[o][c[o]]
Given(c, o) == c[o] # "absent"
HasInvalid == {o \in Opts : \E k \in Idx(o) : Table[o][k].k = "I"}
InvalidRep == [o \in HasInvalid |-> Table[o][CHOOSE k \in Idx(o) : Table[o][k].k = "I" /\ \A j \in 1..(k - 1) : Table[o][j].k # "I"].n]
ASSUME Combo \in {"all", "rep", "valid"}
ASSUME \A o \in Opts : Cardinality(Names[o]) = Len(Table[o]) /\ "absent" \notin Names[o] /\ \E k \in Idx(o) : Table[o][k].k = "V"

---------------------------------------------------------------------------
(* fields of the effective configuration: one per option, except that the certificate and its key form one field               *)
Fields == (Opts \ {"request_cert", "request_cert_key"}) \cup {"cert"}
FieldSeq == << "url", "workers", "phases", "mode", "max_examples", "max_failures", "continue_on_failure", "seed", "no_shrink", "deterministic",
               "database", "suppress", "wait_for_schema", "header", "auth", "proxy", "tls_verify", "rate_limit", "request_timeout",
               "cert", "output_sanitize", "output_truncate", "allow_x00", "security_params", "graphql_null",
               "codec", "unique_inputs", "maximize", "exclude_deprecated", "set_query", "set_header", "set_cookie", "set_path" >>
ASSUME {FieldSeq[k] : k \in 1..Len(FieldSeq)} = Fields
(* (b) documented defaults; "U": --workers (help: 1, reference: auto), --mode (help/reference: positive, guide/config reference: *)
(* all), --seed (random), --request-timeout (changelog: 10 s, configuration reference: null), --generation-codec (not stated)   *)
Default == [ url |-> "U", workers |-> "U", phases |-> "e+c+f+s", mode |-> "U", max_examples |-> "100", max_failures |-> "none",
             continue_on_failure |-> "false", seed |-> "U", no_shrink |-> "false", deterministic |-> "false", database |-> "default",
             suppress |-> "", wait_for_schema |-> "none", header |-> "", auth |-> "none", proxy |-> "none", tls_verify |-> "true",
             rate_limit |-> "none", request_timeout |-> "U", cert |-> "none", output_sanitize |-> "true", output_truncate |-> "true",
             allow_x00 |-> "true", security_params |-> "true", graphql_null |-> "true", codec |-> "U", unique_inputs |-> "false",
             maximize |-> "", exclude_deprecated |-> "false", set_query |-> "", set_header |-> "", set_cookie |-> "", set_path |-> "" ]
ASSUME DOMAIN Default = Fields
(* the options a field is computed from / the fields an option may influence (documented interactions only)                    *)
OptsOf(f) == IF f = "cert" THEN {"request_cert", "request_cert_key"}
             ELSE IF f = "database" THEN {"database", "deterministic"}     \* deterministic mode: what happens to the database is not documented
             ELSE {f}
FieldsOf(o) == {f \in Fields : o \in OptsOf(f)}

Simple(c, f) == IF Given(c, f) THEN EffTab[f][c[f]] ELSE Default[f]
FieldValue(d, c, f) ==
  CASE f = "cert" -> IF ~Given(c, "request_cert") THEN "none"
                     ELSE IF Given(c, "request_cert_key") THEN "$CERT+$KEY" ELSE "$CERT"
    [] f = "database" -> IF Given(c, "deterministic") THEN "U" ELSE Simple(c, f)
    [] OTHER -> Simple(c, f)
Effective(d, c) == [f \in Fields |-> FieldValue(d, c, f)]

(* (d) why a command line is refused; every reason is <<what, option that could repair it>>                                     *)
Reasons(d, c) ==
  {<<"invalid", o>> : o \in {x \in Opts : Kind(c, x) = "I"}}
  \cup (IF d = "file" /\ ~Given(c, "url") THEN {<<"file-schema-without-url", "url">>} ELSE {})
  \cup (IF Given(c, "request_cert_key") /\ ~Given(c, "request_cert") THEN {<<"key-without-certificate", "request_cert">>} ELSE {})
  \cup (IF Given(c, "auth") /\ c["header"] = "authz" THEN {<<"authorization-twice", "-">>} ELSE {})
Undecided(d, c) == \/ \E o \in Opts : Kind(c, o) = "U"
                   \/ Given(c, "deterministic") /\ Given(c, "database")     \* refused by a message, documented nowhere
Verdict(d, c) == IF Reasons(d, c) # {} THEN "REJECT" ELSE IF Undecided(d, c) THEN "U" ELSE "ACCEPT"

---------------------------------------------------------------------------
(* (e) Hypothesis settings per engine phase.  hmax applies to fuzzing and stateful ("has no effect" on examples / coverage);    *)
(* the database stores generated examples (fuzzing, stateful); shrinking "remains enabled by default" where examples are       *)
(* generated per operation (fuzzing) and is off everywhere with --no-shrink; state machines document their own defaults        *)
(* (phases = generate, deadline = None, all health checks suppressed) for whatever the user left alone; the per-test deadline   *)
(* is None (CLI) or the documented 15 s; the stateful seed is the given one for the first run of the state machine.             *)
HPhases == << "examples", "coverage", "fuzzing", "stateful" >>
HFields == << "hmax", "hderand", "hdb", "hshrink", "hsuppress", "hdeadline", "hseed" >>
HypValue(d, c, p, f) ==
  CASE f = "hmax"      -> IF p \in {"fuzzing", "stateful"} THEN FieldValue(d, c, "max_examples") ELSE "U"
    [] f = "hderand"   -> FieldValue(d, c, "deterministic")
    [] f = "hdb"       -> IF p \in {"fuzzing", "stateful"} THEN FieldValue(d, c, "database") ELSE "U"
    [] f = "hshrink"   -> IF Given(c, "no_shrink") THEN "false" ELSE IF p = "fuzzing" THEN "true" ELSE "U"
    [] f = "hsuppress" -> IF p = "stateful" /\ ~Given(c, "suppress") THEN "all" ELSE FieldValue(d, c, "suppress")
    [] f = "hdeadline" -> IF p = "stateful" THEN "none" ELSE "none|15s"
    [] f = "hseed"     -> FieldValue(d, c, "seed")
Match(exp, v) == exp = "U" \/ exp = v \/ (exp = "none|15s" /\ v \in {"none", "15s"})

---------------------------------------------------------------------------
VARIABLES door, cmd
vars == <<door, cmd>>
NGiven(c) == Cardinality({o \in Opts \ {"url"} : Given(c, o)})
IsBase(d, c) == d = "file" /\ c["url"] = "cli"
Budget(d, c) == IF IsBase(d, c) THEN MaxGiven ELSE IF MaxGiven = 0 THEN 0 ELSE 1
Allowed(d, c) ==
  /\ NGiven(c) <= Budget(d, c)
  /\ \/ Combo = "all"
     \/ Cardinality({o \in Opts : Given(c, o)}) <= (IF IsBase(d, c) THEN 2 ELSE 1)
     \/ Combo = "rep" /\ \A o \in HasInvalid : Kind(c, o) = "I" => c[o] = InvalidRep[o]
     \/ Combo = "valid" /\ \A o \in Opts : Kind(c, o) \in {"A", "V"}
Init == /\ door \in {"file", "http"}
        /\ \E u \in (IF door = "file" THEN {"cli", "absent"} ELSE {"absent"}) : cmd = [o \in Opts |-> IF o = "url" THEN u ELSE "absent"]
Give(o, n) == /\ ~Given(cmd, o)
              /\ cmd' = [cmd EXCEPT ![o] = n]
              /\ Allowed(door, cmd')
              /\ UNCHANGED door
Next == \E o \in Opts : /\ ~Given(cmd, o)
                         /\ (o = "url" \/ NGiven(cmd) < Budget(door, cmd))    \* a full command line has no successors
                         /\ \E n \in Names[o] : Give(o, n)
Spec == Init /\ [][Next]_vars

---------------------------------------------------------------------------
(* design invariants, checked by TLC on every enumerated command line                                                           *)
TypeOK == door \in {"file", "http"} /\ DOMAIN cmd = Opts /\ \A o \in Opts : cmd[o] \in Names[o] \cup {"absent"}
Codomain(f) == {Default[f], "U"} \cup UNION {{EffTab[o][n] : n \in {m \in Names[o] : KindTab[o][m] = "V"}} : o \in OptsOf(f) \cap {f}}
               \cup (IF f = "cert" THEN {"$CERT", "$CERT+$KEY"} ELSE {})
(* Effective and Verdict are total, and an accepted command line has a value of the right sort in every field                   *)
Total == /\ Verdict(door, cmd) \in {"ACCEPT", "REJECT", "U"}
         /\ DOMAIN Effective(door, cmd) = Fields
         /\ Verdict(door, cmd) = "ACCEPT" => \A f \in Fields : FieldValue(door, cmd, f) \in Codomain(f)
         /\ \A p \in 1..Len(HPhases) : \A f \in 1..Len(HFields) : HypValue(door, cmd, HPhases[p], HFields[f]) \in STRING
(* (a) a given valid value is the value of the option's own field, whatever else is given                                       *)
GivenReaches == \A o \in Opts \ {"request_cert", "request_cert_key", "database"} :
                   (Given(cmd, o) /\ Kind(cmd, o) = "V") => FieldValue(door, cmd, o) = EffTab[o][cmd[o]]
(* (b) a field none of whose options is given has its documented default                                                        *)
DefaultsKept == \A f \in Fields : (\A o \in OptsOf(f) : ~Given(cmd, o)) => FieldValue(door, cmd, f) = Default[f]
(* (c) giving one more option changes no field of another option (evaluated on every command line that still has room for one   *)
(* more option, i.e. over every enumerated command line of two or more options seen as "smaller one + one option")              *)
Ext(o, n) == [cmd EXCEPT ![o] = n]
Independent == NGiven(cmd) < Budget(door, cmd) => \A f \in Fields : LET before == FieldValue(door, cmd, f) IN
                  \A o \in Opts \ OptsOf(f) : ~Given(cmd, o) => \A n \in Names[o] : FieldValue(door, Ext(o, n), f) = before
(* (d) an invalid value is always refused; a refusal persists when options are added, unless the added option is the missing one *)
InvalidRefused == (\E o \in Opts : Kind(cmd, o) = "I") => Verdict(door, cmd) = "REJECT"
RejectMonotone == NGiven(cmd) < Budget(door, cmd) => \A o \in Opts : ~Given(cmd, o) => \A n \in Names[o] :
                     \A r \in Reasons(door, cmd) : r \in Reasons(door, Ext(o, n)) \/ r[2] = o
(* an undecided command line never becomes accepted by adding options (it stays undecided or is refused)                        *)
UndecidedSticks == (NGiven(cmd) < Budget(door, cmd) /\ Verdict(door, cmd) = "U") => \A o \in Opts : ~Given(cmd, o) => \A n \in Names[o] : Verdict(door, Ext(o, n)) # "ACCEPT"
(* (e) the per-phase settings never contradict the configuration record                                                         *)
HypConsistent == \A k \in 1..Len(HPhases) : LET p == HPhases[k] IN
                   /\ Match(HypValue(door, cmd, p, "hmax"), FieldValue(door, cmd, "max_examples"))
                   /\ HypValue(door, cmd, p, "hderand") = FieldValue(door, cmd, "deterministic")
                   /\ Given(cmd, "no_shrink") => HypValue(door, cmd, p, "hshrink") = "false"
                   /\ Given(cmd, "suppress") => HypValue(door, cmd, p, "hsuppress") = FieldValue(door, cmd, "suppress")

---------------------------------------------------------------------------
(* export: the catalogue once, then every enumerated command line with the spec's verdict and - as a difference to the base      *)
(* command line - its expected configuration and per-phase settings                                                              *)
BaseCmd == [o \in Opts |-> IF o = "url" THEN "cli" ELSE "absent"]
BaseEff == Effective("file", BaseCmd)
PairsOf(seq, Test(_), Val(_)) == LET sel == SelectSeq(seq, Test) IN [k \in 1..Len(sel) |-> <<sel[k], Val(sel[k])>>]
HypAll(d, c) == [p \in 1..Len(HPhases) |-> [f \in 1..Len(HFields) |-> HypValue(d, c, HPhases[p], HFields[f])]]
HypDiff(d, c) == LET cells == {<<p, f>> \in (1..Len(HPhases)) \X (1..Len(HFields)) :
                                  HypValue(d, c, HPhases[p], HFields[f]) # HypValue("file", BaseCmd, HPhases[p], HFields[f])}
                     RECURSIVE go(_)
                     go(S) == IF S = {} THEN << >>
                              ELSE LET x == CHOOSE y \in S : \A z \in S : y[1] < z[1] \/ (y[1] = z[1] /\ y[2] <= z[2])
                                   IN <<<<HPhases[x[1]], HFields[x[2]], HypValue(d, c, HPhases[x[1]], HFields[x[2]])>>>> \o go(S \ {x})
                 IN go(cells)
ReasonSeq(d, c) ==      \* <<option, why>> for every reason of a refusal (the export form of Reasons)
  PairsOf(OptSeq, LAMBDA o : Kind(c, o) = "I", LAMBDA o : "invalid")
  \o (IF <<"file-schema-without-url", "url">> \in Reasons(d, c) THEN << <<"url", "file-schema-without-url">> >> ELSE << >>)
  \o (IF <<"key-without-certificate", "request_cert">> \in Reasons(d, c) THEN << <<"request_cert_key", "key-without-certificate">> >> ELSE << >>)
  \o (IF <<"authorization-twice", "-">> \in Reasons(d, c) THEN << <<"auth", "authorization-twice">> >> ELSE << >>)
View(d, c) ==
  LET v == Verdict(d, c) IN
  [door |-> d, verdict |-> v, reasons |-> ReasonSeq(d, c),
   cmd |-> PairsOf(OptSeq, LAMBDA o : Given(c, o), LAMBDA o : c[o]),
   diff |-> IF v = "ACCEPT" THEN PairsOf(FieldSeq, LAMBDA f : FieldValue(d, c, f) # BaseEff[f], LAMBDA f : FieldValue(d, c, f)) ELSE << >>,
   hdiff |-> IF v = "ACCEPT" THEN HypDiff(d, c) ELSE << >>]
Export ==
  /\ IF door = "file" /\ cmd = BaseCmd
     THEN PrintT(<<"CATALOGUE", ToJson([opts |-> OptSeq, fields |-> FieldSeq, table |-> [k \in 1..Len(OptSeq) |-> Table[OptSeq[k]]],
                                         base |-> [k \in 1..Len(FieldSeq) |-> BaseEff[FieldSeq[k]]],
                                         hphases |-> HPhases, hfields |-> HFields, hbase |-> HypAll("file", BaseCmd),
                                         fieldsof |-> [k \in 1..Len(OptSeq) |-> PairsOf(FieldSeq, LAMBDA f : f \in FieldsOf(OptSeq[k]), LAMBDA f : f)]])>>)
     ELSE TRUE
  /\ PrintT(<<"CASE", ToJson(View(door, cmd))>>)
=============================================================================
