SPECIFICATION Spec
INVARIANT ReproTrace
CHECK_DEADLOCK FALSE
