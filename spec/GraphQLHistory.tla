--------------------------- MODULE GraphQLHistory ---------------------------
(***************************************************************************)
(* C20, history dimension: one loaded schema object is used again and      *)
(* again while its generation config changes (schema.configure), a draw    *)
(* passes an explicit config (as_strategy(generation_config=...)) or a     *)
(* custom scalar is re-registered.  State = the schema's current config,   *)
(* the current registration of the custom scalar Reg and the history so    *)
(* far; actions Configure(c), RegisterScalar(kind), Draw(op, override).    *)
(* The property for a history: every document drawn at step k satisfies    *)
(* HistDocViol(shape, hist, k, doc) = {} (GraphQL.tla), i.e. it obeys the  *)
(* configuration / registration in force AT THAT DRAW.  TLC enumerates all *)
(* histories of MaxSteps steps that end in a draw (shorter ones are their  *)
(* prefixes) for a few shapes and checks that the machine's state always   *)
(* equals what the history operators of GraphQL.tla compute from `hist`.   *)
(***************************************************************************)
EXTENDS GraphQL
CONSTANT MaxSteps
StrictCfgH == GCfg(FALSE, FALSE, TRUE)
NoNullCfg == GCfg(FALSE, TRUE, FALSE)
Configs == {DefaultCfg, StrictCfgH, NoNullCfg}          \* what Configure may set
Overrides == {StrictCfgH}                               \* what a draw may pass explicitly (or nothing)
HShapes ==
    {Shape(<<Arg("a", "String", "T")>>, "scalar", "none", "std", FALSE),
     Shape(<<Arg("a", "Reg", "T")>>, "object", "none", "std", FALSE),
     Shape(<<Arg("a", "Inner", "[T]")>>, "scalar", "none", "std", FALSE)}
    \cup (IF Thorough THEN {Shape(<<Arg("a", "Inner", "[T]")>>, "scalar", "same", "std", FALSE),
                            Shape(<<Arg("a", "Outer", "T!")>>, "union", "none", "custom", TRUE),
                            Shape(<<Arg("a", "ID", "T")>>, "listobj", "none", "std", FALSE),
                            Shape(<<Arg("a", "Unreg", "T"), Arg("b", "String", "[T!]!")>>, "object", "none", "std", FALSE),
                            Shape(<<Arg("a", "Reg", "[T]")>>, "interface", "other", "std", FALSE)}
          ELSE {})
HOps(s) == {Op("query", "f")} \cup (IF s.mut = "none" THEN {} ELSE {Op("mutation", MField(s))})
Step(a, cfg, has, root, field, kind) == [a |-> a, cfg |-> cfg, has |-> has, root |-> root, field |-> field, kind |-> kind]

VARIABLES cur, reg, hist
hvars == <<shape, cur, reg, hist>>
HInit == shape \in HShapes /\ cur = DefaultCfg /\ reg = DefaultReg /\ hist = <<>>
Configure(c) == /\ Len(hist) < MaxSteps - 1                 \* the last step of an exported history is a draw
                /\ cur' = c /\ hist' = Append(hist, Step("configure", c, FALSE, "", "", ""))
                /\ UNCHANGED <<shape, reg>>
RegisterScalar(kind) == /\ Len(hist) < MaxSteps - 1
                        /\ reg' = kind /\ hist' = Append(hist, Step("register", DefaultCfg, FALSE, "", "", kind))
                        /\ UNCHANGED <<shape, cur>>
Draw(o, has, c) == /\ Len(hist) < MaxSteps
                   /\ hist' = Append(hist, Step("draw", c, has, o.root, o.field, ""))
                   /\ UNCHANGED <<shape, cur, reg>>
HNext == \/ \E c \in Configs : Configure(c)
         \/ \E kind \in {"str", "int"} : RegisterScalar(kind)
         \/ \E o \in HOps(shape) : Draw(o, FALSE, DefaultCfg) \/ \E c \in Overrides : Draw(o, TRUE, c)
HSpec == HInit /\ [][HNext]_hvars

(* design invariants *)
HStateIsHistory == /\ cur = ConfiguredAt(hist, Len(hist) + 1)
                   /\ reg = RegAt(hist, Len(hist) + 1)
HDrawUsesCurrent == \A k \in 1..Len(hist) : hist[k].a = "draw" =>
                        /\ CfgAt(hist, k) = (IF hist[k].has THEN hist[k].cfg ELSE ConfiguredAt(hist, k))
                        /\ (\A j \in 1..(k - 1) : hist[j].a # "configure") /\ ~hist[k].has => CfgAt(hist, k) = DefaultCfg
(* the canonical document of an operation stays acceptable at every draw of every history, and a null argument is rejected exactly *)
(* at the draws whose own configuration disables nulls - whatever was configured before                                            *)
NullDoc(o) == OpDoc(o.root, <<[CanonSel(shape, o) EXCEPT !.args = <<[name |-> "a", value |-> NullV]>>]>>)
HObligationFollowsOwnStep ==
    \A k \in 1..Len(hist) : hist[k].a = "draw" =>
        LET o == Op(hist[k].root, hist[k].field) IN
        /\ Definite(HistDocViol(shape, hist, k, Canon(shape, o))) = {}
        /\ (o = Op("query", "f") /\ shape.args[1].wrap \in {"T", "[T]"}
              => (("null-when-disabled" \in HistDocViol(shape, hist, k, NullDoc(o))) <=> ~CfgAt(hist, k).allowNull))

HExport == IF Len(hist) = MaxSteps /\ hist[Len(hist)].a = "draw"
           THEN PrintT(<<"CASE", ToJson([shape |-> shape, types |-> Types(shape),
                                         roots |-> [query |-> RootQ(shape), mutation |-> RootM(shape), subscription |-> RootS(shape)],
                                         hist |-> hist,
                                         eff |-> [k \in 1..Len(hist) |-> [cfg |-> CfgAt(hist, k), reg |-> RegAt(hist, k)]]])>>)
           ELSE TRUE
=============================================================================
