SPECIFICATION TSpec
CONSTANT MaxEvents = 4
INVARIANT Report
CHECK_DEADLOCK FALSE
