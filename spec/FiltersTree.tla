---------------------------- MODULE FiltersTree ----------------------------
(***************************************************************************)
(* C07, derivation histories: filter sets are built by DERIVING schemas    *)
(* from one another (`child = parent.include(...)`, `parent.exclude(...)`, *)
(* the same on lazy fixture schemas).  A module typically derives several  *)
(* schemas from one filtered base and uses all of them.  The property must *)
(* hold for every schema object that exists after ALL derivations were     *)
(* made: each node offers exactly the operations selected by ITS OWN       *)
(* accumulated filters (the filters on its path from the root); deriving a *)
(* child never changes its parent or its siblings.                         *)
(*                                                                         *)
(* State: `tree`, the sequence of derivations in the order they were made; *)
(* node 0 is the freshly loaded, unfiltered schema.  One action:           *)
(*    Derive(p, m, f)   node := node_p.<m>(<filter f>),  m = include /     *)
(*                      exclude                                            *)
(* The variables of Filters (door, base, incl, excl) are kept as the door  *)
(* through which the derivations are made and an empty filter set.         *)
(***************************************************************************)
EXTENDS Filters

CONSTANTS TreeNodes,     \* maximal number of derived nodes
          TreeWide       \* TRUE: six catalogue filters, FALSE: four

TreeFilters == IF TreeWide THEN {1, 3, 5, 11, 14, 21} ELSE {1, 5, 11, 21}
VARIABLE tree
tvars == <<door, base, incl, excl, tree>>

Node(p, m, f) == [p |-> p, m |-> m, f |-> f]
RECURSIVE PathIncl(_, _), PathExcl(_, _)
PathIncl(t, n) == IF n = 0 THEN {} ELSE PathIncl(t, t[n].p) \cup (IF t[n].m = "include" THEN {t[n].f} ELSE {})
PathExcl(t, n) == IF n = 0 THEN {} ELSE PathExcl(t, t[n].p) \cup (IF t[n].m = "exclude" THEN {t[n].f} ELSE {})
(* the oracle: node n, whatever else was derived before or after it *)
NodeExpect(d, t, n) == Expect(d, 1, PathIncl(t, n), PathExcl(t, n))
NodeStat(d, t, n)   == ExpectStat(d, 1, PathIncl(t, n), PathExcl(t, n))

TInit == /\ door \in {"py", "lazy"} /\ base = 1 /\ incl = {} /\ excl = {} /\ tree = << >>
Derive(p, m, f) ==
  /\ Len(tree) < TreeNodes /\ p \in 0..Len(tree)
  /\ f \notin PathIncl(tree, p) \cup PathExcl(tree, p)       \* the API rejects a filter the parent already has
  /\ m = "include" => ~IsDeprFilter(f)
  /\ tree' = Append(tree, Node(p, m, f))
  /\ UNCHANGED <<door, base, incl, excl>>
TNext == \E p \in 0..TreeNodes, m \in {"include", "exclude"}, f \in TreeFilters : Derive(p, m, f)
TSpec == TInit /\ [][TNext]_tvars

(* design invariants *)
TTypeOK == Len(tree) <= TreeNodes /\ \A n \in 1..Len(tree) : tree[n].p < n /\ tree[n].f \in TreeFilters
(* a node's expectation depends on its own path only: it is what a chain built in isolation gives *)
OwnPathOnly == \A n \in 1..Len(tree) :
                 NodeExpect(door, tree, n) = Expect(door, 1, PathIncl(tree, n), PathExcl(tree, n))
(* deriving with an exclude filter never selects more than the parent; the root selects everything *)
ChildOfExcludeShrinks == \A n \in 1..Len(tree) : tree[n].m = "exclude" =>
                            \A o \in 1..NOps : NodeExpect(door, tree, n)[o] = 1 => NodeExpect(door, tree, tree[n].p)[o] = 1
RootSelectsAll == \A o \in 1..NOps : NodeExpect(door, tree, 0)[o] = 1
ASSUME \A f \in TreeFilters : \A o \in 1..NOps : MatchTable[f][o] # "U"

TExport ==
  IF tree = << >> THEN TRUE
  ELSE PrintT(<<"TREE", ToJson([door |-> door, nodes |-> tree,
                                 dialect |-> Dialects[((Len(tree) + SumSet({tree[k].f : k \in 1..Len(tree)})) % 3) + 1],
                                 expect |-> [k \in 1..(Len(tree) + 1) |-> NodeExpect(door, tree, k - 1)],
                                 stat |-> [k \in 1..(Len(tree) + 1) |-> NodeStat(door, tree, k - 1)]])>>)
=============================================================================
