--------------------------- MODULE OasSchemaTest ---------------------------
(***************************************************************************)
(* Unit test of the OasSchema oracle, checked by TLC:                      *)
(*  - state i \in 1..Len(Cases): the hand-written catalogue of             *)
(*    (schema, value, expected verdict) cases of OasSchemaCases.tla;       *)
(*  - state i = 0: algebraic laws - the NFA/fold pattern matcher equals    *)
(*    the declarative meaning of the regular expression on every string    *)
(*    up to length 4 over {a, b, 1}; numeric bounds against the integer    *)
(*    order; calendar; text <-> integer; three-valued monotonicity.        *)
(***************************************************************************)
EXTENDS OasSchema, OasSchemaCases
VARIABLE i
TInit == i \in 0..Len(Cases)
TNext == UNCHANGED i
TSpec == TInit /\ [][TNext]_i

Verdict(c) == IF c.mode = "coerced" THEN CoercedC(c.defs, c.value, c.schema, [dir |-> c.dir, dia |-> c.dia])
              ELSE ValidD(c.defs, c.schema, c.value, c.dir, c.dia)
CaseOk == i = 0 \/ LET r == Verdict(Cases[i]) IN
                   IF r = Cases[i].expect THEN TRUE ELSE PrintT(<<"FAIL", i, r, Cases[i].expect>>)

(* ---- helpers ---- *)
S == [sk |-> "schema"]
I(n) == [t |-> "int", v |-> n]
Half(n) == [t |-> "num", isInt |-> FALSE, isFloat |-> TRUE, lo |-> n, hi |-> n + 1, res |-> <<>>]     \* n + 1/2
V(s, v) == ValidD(NoDefs, s, v, "request", "d4")
Opq == [sk |-> "opaque"]

(* ---- numeric bounds = the order on integers and half-integers ---- *)
NumericLaw == i # 0 \/ \A c \in -2..3, n \in -4..5 :
   /\ V(S @@ [minimum |-> c], I(n)) = B3(n >= c)
   /\ V(S @@ [maximum |-> c], I(n)) = B3(n <= c)
   /\ V(S @@ [minimum |-> c, exclMin |-> TRUE], I(n)) = B3(n > c)
   /\ V(S @@ [maximum |-> c, exclMax |-> TRUE], I(n)) = B3(n < c)
   /\ V(S @@ [xMin |-> c], I(n)) = B3(n > c) /\ V(S @@ [xMax |-> c], I(n)) = B3(n < c)
   /\ V(S @@ [minimum |-> c], Half(n)) = B3(n >= c) /\ V(S @@ [minimum |-> c, exclMin |-> TRUE], Half(n)) = B3(n >= c)
   /\ V(S @@ [maximum |-> c], Half(n)) = B3(n < c)  /\ V(S @@ [maximum |-> c, exclMax |-> TRUE], Half(n)) = B3(n < c)
   /\ (c > 0 => V(S @@ [multipleOf |-> c], I(n)) = B3(\E q \in -5..5 : q * c = n))
   /\ (c > 0 => V(S @@ [multipleOf |-> c], Half(n)) = "F")

(* ---- pattern: fold-advanced NFA = declarative semantics of the regular expression ---- *)
Alphabet == {97, 98, 49}
Strings == UNION {[1..n -> Alphabet] : n \in 0..4}
AtomPool == { [cls |-> <<<<97, 98>>>>, neg |-> FALSE, min |-> 1, max |-> 2],
              [cls |-> <<<<97, 97>>>>, neg |-> FALSE, min |-> 0, max |-> -1],
              [cls |-> <<<<49, 49>>>>, neg |-> FALSE, min |-> 1, max |-> -1],
              [cls |-> <<<<97, 97>>>>, neg |-> TRUE,  min |-> 0, max |-> 1],
              [cls |-> <<<<98, 98>>, <<49, 49>>>>, neg |-> FALSE, min |-> 2, max |-> 2] }
AtomSeqs == {<<>>} \cup {<<a>> : a \in AtomPool} \cup {<<a, b>> : a \in AtomPool, b \in AtomPool}
              \cup {<<a, b, a>> : a \in AtomPool, b \in AtomPool}
Pats == {[k |-> "cat", as |-> s, ae |-> e, atoms |-> at] : s \in BOOLEAN, e \in BOOLEAN, at \in AtomSeqs}
(* txt matches pat iff some start st and some repetition counts cnt[1..L] carve consecutive segments whose characters
   lie in the respective classes, beginning at st (= 1 if anchored) and ending at the end of txt if end-anchored *)
RefSearch(txt, pat) ==
  LET L == Len(pat.atoms)
      n == Len(txt)
      Off(st, cnt, j) == st + (IF j >= 1 THEN cnt[1] ELSE 0) + (IF j >= 2 THEN cnt[2] ELSE 0) + (IF j >= 3 THEN cnt[3] ELSE 0)
  IN \E st \in (IF pat.as THEN {1} ELSE 1..(n + 1)) : \E cnt \in [1..L -> 0..n] :
       /\ \A j \in 1..L : /\ cnt[j] >= pat.atoms[j].min
                          /\ (pat.atoms[j].max = -1 \/ cnt[j] <= pat.atoms[j].max)
                          /\ Off(st, cnt, j) <= n + 1
                          /\ \A p \in Off(st, cnt, j - 1)..(Off(st, cnt, j) - 1) : InCls(txt[p], pat.atoms[j])
       /\ (pat.ae => Off(st, cnt, L) = n + 1)
PatternLaw == i # 0 \/ \A pat \in Pats : \A txt \in Strings : PatSearch(txt, pat) = RefSearch(txt, pat)

(* ---- text <-> integer, coercion of integers ---- *)
TextLaw == i # 0 \/ \A n \in (-1100..1100) \cup {999999999, -999999999, 1073741824} :
   /\ (n < 1000000000 => StrictInt(DigitsOf(n)) /\ IntOfTxt(DigitsOf(n)) = n)
   /\ Len(DigitsOf(n)) = (IF n < 0 THEN 1 ELSE 0) + Cardinality({k \in 0..9 : (IF n < 0 THEN 0 - n ELSE n) >= 10 ^ k /\ (k > 0 \/ TRUE)}) + (IF n = 0 THEN 1 ELSE 0)
CoerceLaw == i # 0 \/ \A n \in -12..12, c \in {0, 10} :
   LET sch == S @@ [type |-> <<"integer">>, minimum |-> c] IN
   /\ CoercedV(NoDefs, I(n), sch, "request") = B3(n >= c)
   /\ CoercedD(NoDefs, DigitsOf(n), sch, "request") = B3(n >= c)
   /\ CoercedD(NoDefs, DigitsOf(n), S @@ [type |-> <<"string">>, maxLength |-> 1], "request") = B3(n >= 0 /\ n <= 9)
   /\ CoercedD(NoDefs, <<48>> \o DigitsOf(IF n < 0 THEN 0 - n ELSE n), sch, "request") = "U"

(* ---- calendar: every year has 365 or 366 valid dates ---- *)
Dg(n) == <<(n \div 10) + 48, (n % 10) + 48>>
DateTxt(y, m, d) == Dg(y \div 100) \o Dg(y % 100) \o <<45>> \o Dg(m) \o <<45>> \o Dg(d)
CalendarLaw == i # 0 \/ \A y \in {1900, 2000, 2020, 2021, 2100} :
   Cardinality({md \in (0..13) \X (0..32) : FmtDate(DateTxt(y, md[1], md[2])) = "T"}) = (IF y \in {2000, 2020} THEN 366 ELSE 365)

(* ---- three-valued: an opaque sub-schema never flips a definite verdict, negation is an involution ---- *)
(* pools are SEQUENCES: values of different JSON types share the field name v and TLC cannot compare an integer with a boolean *)
Small == <<S @@ [type |-> <<"integer">>], S @@ [minimum |-> 1], S @@ [enum |-> <<I(0), [t |-> "null"]>>],
           S @@ [type |-> <<"string">>, nullable |-> TRUE], S @@ [not |-> S @@ [maximum |-> 0]]>>
Vals == <<I(0), I(1), [t |-> "null"], [t |-> "str", v |-> <<97>>], [t |-> "bool", v |-> TRUE], Half(0)>>
LogicLaw == i # 0 \/ \A si \in DOMAIN Small, vi \in DOMAIN Vals :
   LET s == Small[si]
       v == Vals[vi] IN
   /\ V(S @@ [not |-> S @@ [not |-> s]], v) = V(s, v)
   /\ V(S @@ [not |-> s], v) = Not3(V(s, v))
   /\ V(S @@ [allOf |-> <<s, Opq>>], v) = (IF V(s, v) = "F" THEN "F" ELSE "U")
   /\ V(S @@ [anyOf |-> <<s, Opq>>], v) = (IF V(s, v) = "T" THEN "T" ELSE "U")
   /\ V(S @@ [oneOf |-> <<s, s>>], v) = (IF V(s, v) = "T" THEN "F" ELSE IF V(s, v) = "F" THEN "F" ELSE "U")
   /\ V(S @@ [allOf |-> <<s, s>>], v) = V(s, v) /\ V(S @@ [anyOf |-> <<s>>], v) = V(s, v) /\ V(S @@ [oneOf |-> <<s>>], v) = V(s, v)
   /\ V(Opq, v) = "U" /\ V(s, [t |-> "opaque", why |-> "x"]) = "U"
=============================================================================
