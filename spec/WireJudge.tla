----------------------------- MODULE WireJudge -----------------------------
(* Code -> spec: requests recorded at the loopback server / in the WSGI environ / in the ASGI scope are judged with   *)
(* Wire's decoders.  The observation file holds tables (definitions, values, request contexts) and two lists:         *)
(* `core` - what arrived where the case lives (request line, parameter header, cookie, body, content type) and        *)
(* `env`  - the envelope (header names, configured headers, test-case id, Host).  One state per list entry; the        *)
(* reporting invariant prints one verdict record for each.                                                             *)
EXTENDS Wire, IOUtils
Obs == JsonDeserialize(IOEnv.OBS_FILE)
(* i = index of the judged entry (0 = none yet), mode = which list.  Two-level fan-out (block, then entry) so that TLC's *)
(* workers judge in parallel: successors of different block states are computed by different workers.                    *)
VARIABLES i, blk, mode
NB == 64
Dummy == El("body", NoDef, VPrim(PNull), 0, 0, "none")
JInit == i = 0 /\ blk = 0 /\ mode = "core" /\ el = Dummy
JNext == \/ /\ blk = 0 /\ blk' \in 1..NB /\ i' = 0 /\ UNCHANGED <<el, mode>>
         \/ /\ blk > 0 /\ i = 0 /\ i' \in {j \in 1..Len(Obs.core) : (j % NB) + 1 = blk} /\ UNCHANGED <<blk, el, mode>>
         \/ /\ blk = 1 /\ i = 0 /\ i' \in 1..Len(Obs.env) /\ mode' = "env" /\ UNCHANGED <<blk, el>>
JSpec == JInit /\ [][JNext]_<<i, blk, mode, el>>

(* ---- core ---- *)
o == Obs.core[i]
cx == Obs.ctx[o.c]              \* kind, media, wantMethod, basePath, tmpl, wantCtype
odef == Obs.defs[o.d]
oval == Obs.vals[o.v]
obval == Obs.vals[o.bv]          \* the value the body carries (the element's value, or the fixed payload of a derived coverage case)

(* URL = base URL joined with the template: segments of the base path, then the template's segments *)
VarSeg == <<123, 112, 125>>                           \* "{p}"
WantSegs == NonEmpty(Split(cx.basePath, cSLASH)) \o Tail(Split(cx.tmpl, cSLASH))
GotSegs == Tail(Split(o.path, cSLASH))
StructOK == /\ o.path # <<>> /\ Head(o.path) = cSLASH /\ Len(GotSegs) = Len(WantSegs)
LiteralsOK == \A j \in 1..Len(WantSegs) : WantSegs[j] = VarSeg \/ Txt(GotSegs[j], o.pm) = [t |-> WantSegs[j], bad |-> FALSE]
VarIdx == CHOOSE j \in 1..Len(WantSegs) : WantSegs[j] = VarSeg
HasVar == \E j \in 1..Len(WantSegs) : WantSegs[j] = VarSeg
(* When the parameter lives in the path, a wrong number of segments is the parameter's failure (its value swallowed or   *)
(* added segments), reported under `param`; a path value outside the fragment changes the structure by definition.       *)
InPath == cx.kind \in {"param", "url"} /\ odef.loc = "path"
Frag == FragmentAt(odef, oval, o.x, o.pm)
UrlV == IF InPath /\ Frag # "T" THEN "U"
        ELSE IF ~StructOK THEN (IF InPath THEN "T" ELSE "F:structure")
        ELSE IF ~LiteralsOK THEN "F:literal" ELSE "T"

W == [seg |-> IF StructOK /\ HasVar THEN GotSegs[VarIdx] ELSE <<>>, pmode |-> o.pm, query |-> o.q,
      hpresent |-> o.hp, hval |-> o.hv, cpresent |-> o.cp, cookie |-> o.ck]
ParamV == IF cx.kind \in {"body", "hist"} THEN [v |-> "T", why |-> ""]
          ELSE IF odef.loc = "path" /\ ~StructOK
               THEN (IF Frag # "T" THEN [v |-> "U", why |-> Frag] ELSE [v |-> "F", why |-> "structure"])
          ELSE ParamVerdict(odef, oval, W, o.x)
(* nothing else: no query string unless the parameter lives there *)
ExtraV == IF cx.kind # "hist" /\ (cx.kind = "body" \/ odef.loc # "query") /\ o.q # <<>> THEN "F" ELSE "T"
(* one send of a history: the case plus this call's extras on the wire, and the case object untouched (o.mut = containers that changed) *)
HistV == IF cx.kind # "hist" THEN "T"
         ELSE LET kv == QParts(o.q)
                  ns == Dec([j \in 1..Len(kv) |-> kv[j].a], "form")
                  vs == Dec([j \in 1..Len(kv) |-> kv[j].b], "form")
                  qp == UNION {{<<x[j], y[j]>> : j \in 1..Len(kv)} : x \in ns, y \in vs}
                  ck == IF o.cp THEN CookiePairs(o.ck) ELSE <<>>
                  cpairs == {<<ck[j].a, ck[j].b>> : j \in 1..Len(ck)}
                  own == {<<o.hx[j].n, o.hx[j].v>> : j \in 1..Len(o.hx)}
              IN  IF ns = {} \/ vs = {} \/ qp # WantQueryPairs(oval, cx.step) \/ Len(kv) # Cardinality(WantQueryPairs(oval, cx.step)) THEN "F:query"
                  ELSE IF cpairs # WantCookiePairs(cx.step) \/ Len(ck) # Cardinality(WantCookiePairs(cx.step)) THEN "F:cookie"
                  ELSE IF own # WantOwnHeaders(cx.step) \/ Len(o.hx) # Cardinality(WantOwnHeaders(cx.step)) THEN "F:header"
                  ELSE IF o.mut # <<>> THEN "F:case-mutated" ELSE "T"
MethodV == IF o.m = cx.wantMethod THEN "T" ELSE "F"
(* Content-Type = the case's media type; for multipart the client appends the boundary parameter, so only the media type is compared *)
Multipart == cx.media \in MultipartMedia \cup {"multipart-raw"}
BodyOutside == cx.media \in CtypeOnlyMedia        \* payload encoding outside the fragment: the Content-Type clause alone is judged
CtypeV == IF (IF Multipart THEN MediaTypeOf(o.ct) = cx.wantCtype ELSE o.ct = cx.wantCtype) THEN "T" ELSE "F"

BodyText == Utf8Decode(o.b)
FormPairs == LET kv == QParts(o.b)
                 ks == Dec([j \in 1..Len(kv) |-> kv[j].a], "form")
                 vs == Dec([j \in 1..Len(kv) |-> kv[j].b], "form")
             IN  {[k |-> "obj", keys |-> x, items |-> y] : x \in ks, y \in vs}
BodyV == CASE cx.media = "none" -> IF o.b = <<>> THEN "T" ELSE "F"
           [] BodyOutside -> "U"                       \* YAML / XML / binary / a non-object value wrapped as multipart: outside the fragment
           [] cx.media \in MultipartMedia -> MultipartVerdict(obval, o.ct, o.b)      \* RFC 2046 / RFC 7578 decoding, field by field
           [] cx.media \in {"json", "json-suffix"} -> LET j == JsonParse(BodyText.t)
                                   IN  IF ~BodyText.bad /\ j.ok /\ SameTyped(j.val, obval) THEN "T" ELSE "F"
           [] cx.media \in {"form", "form-list"} -> IF \E j \in 1..Len(obval.items) : obval.items[j].t \in {"bool", "null"} THEN "U"
                                   ELSE IF In(FormPairs, Expected(obval)) THEN "T" ELSE "F"
           [] OTHER -> IF ~BodyText.bad /\ BodyText.t = Coerce(obval.items[1]) THEN "T" ELSE "F"

(* ---- envelope ---- *)
e == Obs.env[i]
Standard == {"host", "user-agent", "accept", "accept-encoding", "connection", "content-length", "content-type", "transfer-encoding"}
Allowed == Standard \cup {"x-schemathesis-testcaseid"} \cup {e.conf[j].name : j \in 1..Len(e.conf)}
             \cup (IF e.loc = "header" THEN {"p"} ELSE {}) \cup (IF e.loc = "cookie" THEN {"cookie"} ELSE {})
             \cup (IF e.loc \in {"hist", "hist-headers"} THEN {"cookie", "x-h"} ELSE {}) \cup (IF e.loc = "hist-headers" THEN {"x-e"} ELSE {})
HdrsV == IF \A j \in 1..Len(e.hnames) : e.hnames[j] \in Allowed THEN "T" ELSE "F"
ConfV == IF \A j \in 1..Len(e.conf) : e.conf[j].present /\ e.conf[j].got = e.conf[j].want THEN "T" ELSE "F"
IdV == IF e.gotId = e.wantId /\ e.wantId # "" THEN "T" ELSE "F"
HostV == IF e.gotHost = e.wantHost THEN "T" ELSE "F"

Report == IF i = 0 THEN TRUE
          ELSE IF mode = "core"
          THEN PrintT(<<"V", ToJson([i |-> i, url |-> UrlV, param |-> ParamV.v, why |-> ParamV.why, extra |-> ExtraV,
                                     method |-> MethodV, ctype |-> CtypeV, body |-> BodyV, hist |-> HistV])>>)
          ELSE PrintT(<<"E", ToJson([i |-> i, hdrs |-> HdrsV, conf |-> ConfV, id |-> IdV, host |-> HostV])>>)
=============================================================================
