----------------------------- MODULE WireJudge -----------------------------
(* Code -> spec: requests recorded at the loopback server / in the WSGI environ / in the ASGI scope are judged with   *)
(* Wire's decoders.  One state per observation; the reporting invariant prints one verdict record each.               *)
EXTENDS Wire, IOUtils
Obs == JsonDeserialize(IOEnv.OBS_FILE)
(* i = index of the judged observation (0 = none yet).  Two-level fan-out (block, then observation) so that TLC's workers *)
(* judge the observations in parallel: successors of different block states are computed by different workers.         *)
VARIABLES i, blk
NB == 64
Dummy == El("body", NoDef, VPrim(PNull), 0, 0, "none")
JInit == i = 0 /\ blk = 0 /\ el = Dummy
JNext == \/ /\ blk = 0 /\ blk' \in 1..NB /\ i' = 0 /\ UNCHANGED el
         \/ /\ blk > 0 /\ i = 0 /\ i' \in {j \in 1..Len(Obs) : (j % NB) + 1 = blk} /\ UNCHANGED <<blk, el>>
JSpec == JInit /\ [][JNext]_<<i, blk, el>>
o == Obs[i]

(* URL = base URL joined with the template: segments of the base path, then the template's segments *)
VarSeg == <<123, 112, 125>>                           \* "{p}"
WantSegs == NonEmpty(Split(o.basePath, cSLASH)) \o Tail(Split(o.tmpl, cSLASH))
GotSegs == Tail(Split(o.path, cSLASH))
StructOK == /\ o.path # <<>> /\ Head(o.path) = cSLASH /\ Len(GotSegs) = Len(WantSegs)
LiteralsOK == \A j \in 1..Len(WantSegs) : WantSegs[j] = VarSeg \/ Txt(GotSegs[j], o.pmode) = [t |-> WantSegs[j], bad |-> FALSE]
VarIdx == CHOOSE j \in 1..Len(WantSegs) : WantSegs[j] = VarSeg
HasVar == \E j \in 1..Len(WantSegs) : WantSegs[j] = VarSeg
(* a path value outside the fragment (contains '/', empty, ...) changes the structure by definition: not judged *)
UrlV == IF o.kind # "body" /\ o.def.loc = "path" /\ Fragment(o.def, o.val) # "T" THEN "U"
        ELSE IF ~StructOK THEN "F:structure" ELSE IF ~LiteralsOK THEN "F:literal" ELSE IF o.gotHost # o.wantHost THEN "F:host" ELSE "T"

W == [seg |-> IF StructOK /\ HasVar THEN GotSegs[VarIdx] ELSE <<>>, pmode |-> o.pmode, query |-> o.query,
      hpresent |-> o.hpresent, hval |-> o.hval, cpresent |-> o.cpresent, cookie |-> o.cookie]
ParamV == IF o.kind = "body" THEN [v |-> "T", why |-> ""]
          ELSE IF o.def.loc = "path" /\ ~StructOK THEN [v |-> "N", why |-> "structure"]
          ELSE ParamVerdict(o.def, o.val, W, o.explicit)
(* nothing else: no query string unless the parameter lives there *)
ExtraV == IF (o.kind = "body" \/ o.def.loc # "query") /\ o.query # <<>> THEN "F" ELSE "T"

Standard == {"host", "user-agent", "accept", "accept-encoding", "connection", "content-length", "content-type", "transfer-encoding"}
Allowed == Standard \cup {"x-schemathesis-testcaseid"} \cup {o.conf[j].name : j \in 1..Len(o.conf)}
             \cup (IF o.kind # "body" /\ o.def.loc = "header" THEN {"p"} ELSE {})
             \cup (IF o.kind # "body" /\ o.def.loc = "cookie" THEN {"cookie"} ELSE {})
HdrsV == IF \A j \in 1..Len(o.hnames) : o.hnames[j] \in Allowed THEN "T" ELSE "F"
ConfV == IF \A j \in 1..Len(o.conf) : o.conf[j].present /\ o.conf[j].got = o.conf[j].want THEN "T" ELSE "F"
IdV == IF o.gotId = o.wantId /\ o.wantId # "" THEN "T" ELSE "F"
MethodV == IF o.method = o.wantMethod THEN "T" ELSE "F"
CtypeV == IF o.ctype = o.wantCtype THEN "T" ELSE "F"

BodyText == Utf8Decode(o.body)
FormPairs == LET kv == QParts(o.body)
                 ks == Dec([j \in 1..Len(kv) |-> kv[j].a], "form")
                 vs == Dec([j \in 1..Len(kv) |-> kv[j].b], "form")
             IN  {[k |-> "obj", keys |-> x, items |-> y] : x \in ks, y \in vs}
BodyV == CASE o.media = "none" -> IF o.body = <<>> THEN "T" ELSE "F"
           [] o.media = "json" -> LET j == JsonParse(BodyText.t)
                                  IN  IF ~BodyText.bad /\ j.ok /\ SameTyped(j.val, o.val) THEN "T" ELSE "F"
           [] o.media = "form" -> IF \E j \in 1..Len(o.val.items) : o.val.items[j].t \in {"bool", "null"} THEN "U"
                                  ELSE IF In(FormPairs, Expected(o.val)) THEN "T" ELSE "F"
           [] OTHER -> IF ~BodyText.bad /\ BodyText.t = Coerce(o.val.items[1]) THEN "T" ELSE "F"

Report == i = 0 \/ PrintT(<<"V", ToJson([i |-> i, url |-> UrlV, param |-> ParamV.v, why |-> ParamV.why, extra |-> ExtraV, hdrs |-> HdrsV,
                                conf |-> ConfV, id |-> IdV, method |-> MethodV, ctype |-> CtypeV, body |-> BodyV])>>)
=============================================================================
